# Per-property configuration for bin/check.
COMMON_TRUSTED = [
    "Coq 8.16.1 kernel (coqc, full .vo build) and its vm_compute reduction machine (used by `reflexivity`-style witnesses and by the correspondence evaluation); no native_compute",
    "hand-written Gallina model of the anchored Go functions (modelled, not verified) — tied to /repo only by the correspondence run of this check",
    "the Go harness (generators, fakes, coqprint, canonicalisation) and bin/check",
]

PROPS = {
    "C11": {
        "level_text": "Full proof on the model: for every request list, every m >= 1, every completion order and every set of failing calls, Net.Batch.query returns the answers in request order (or an error, never partial results), the HTTP calls partition the requests and none exceeds m (Properties/C11.v, closed under the global context). The model is tied to queryer.MultiOpQueryer.Query by running both on the same (N, m, completion order, uploads, failing calls) cases on every run; the property's own oracle is applied to the real code on each case.",
        "level_note": "Trusted: Coq kernel + vm_compute; the hand-written model Net/Batch.v (pure-list semantics for Go's in-place append, justified by BatchProofs.splice_go_eq); harness + gating RoundTripper; net/http, encoding/json, mime/multipart exercised not modelled. Completion orders on the real code are forced through the verif hook points of AsyncMapReduce.",
        "corr_name": "Corr.C11.agrees (Net.Batch.query / all_calls vs queryer.MultiOpQueryer.Query)",
        "trusted": ["net/http client, encoding/json and mime/multipart are exercised, not modelled",
                    "the downstream is a deterministic echo (answer i depends only on request i)"],
        "assumptions": ["Go slice aliasing in the reducer's append is modelled by pure lists (justified by BatchProofs.splice_go_eq under |resp| = |chunk|)",
                        "completion order of chunk goroutines = order in which the reducer receives them (observed through the verif hook)"],
    },
    "C20": {
        "corr_name": "Corr.C20.agrees (hook-event traces of common.AsyncMapReduce accepted by Conc.AMRAccept.accepts, final accumulator/errors equal)",
        "level_text": "Full proof on the model: AsyncMapReduce as a labelled transition system (one state machine per worker, reducer and caller; unbuffered channels as rendezvous; WaitGroup counter), for every number of items, every success/error pattern and every interleaving: invariant wg = #unacknowledged workers + [reducer busy]; at return every item was mapped exactly once, every success reduced exactly once, acc = fold of reduce over a permutation of the successes, errors = failures, reducer stopped; reduce never concurrent; no deadlock; termination (Properties/C20.v, closed under the global context). Tied to the code by trace conformance: every hook-event trace recorded from the real helper under perturbed scheduling must be accepted by the executable acceptor (proved sound w.r.t. the LTS) and end in the final state with the returned accumulator and errors; the property's own oracle (map/reduce counters, concurrency flag, goroutine count) runs on the real code each time.",
        "level_note": "Trusted: Coq kernel + vm_compute; the hand-written LTS Conc/AMR.v at the granularity of the verif hook points (statement-level interleaving semantics; the Go memory model is not modelled); mapFunc/reduceFunc total and free of panics (a panic in mapFunc is C07/C09's subject); the verif hooks themselves; harness. Perturbed scheduling samples interleavings on the real code, the theorem covers all of them on the model.",
        "trusted": ["interleaving semantics at hook-point granularity; Go scheduler and memory model not modelled (data races are looked for with the direct oracle, not excluded by proof)"],
        "assumptions": ["mapFunc and reduceFunc are total and do not panic", "items are distinguishable (the harness uses 0..n-1)"],
    },
    "C04": {
        "corr_name": "Corr.Merge.agrees (Merge.Model.merge routing table vs merger.MergeResult.TypeURLMap)",
        "level_text": "Full proof on the model for any number of services: the routing table is exactly 'last declarer wins' over the routable fields of the object types of the inputs (routes_are_last_declarer); every route names a configured service whose schema declares that field on that type (routes_owned); no routable field is left without a route and a field with a single declarer (root fields, non-id fields of Node types) is routed to it (routes_total, unique_declarer_is_the_route); every non-id routable field of every object type of the MERGED schema is routed to a declarer (merged_fields_routed, via the merge invariant); stitchable flag iff some service declares the object type as implementing Node; GetURLs = the set of routed services. Tied to merger.TypeURLMap / ExtendMergerFunc by running model and code on the same generated schema sets in several orders; the property's own oracle is applied to the real MergeResult.",
        "level_note": "Trusted: Coq kernel + vm_compute; hand-written port Merge/Model.v of type_url_map.go and extend_merger.go (types kept as SDL strings, maps as association lists, applied directives not modelled); gqlparser LoadSchema/formatter exercised, reload assumed identity; harness generator/canonicaliser. Hypothesis wf_schema (unique type names, root types are objects) is a boolean check satisfied by every valid GraphQL schema.",
        "trusted": ["gqlparser (LoadSchema, formatter) exercised, not modelled; the formatSchema+LoadSchema round trip is assumed to be the identity on accepted results"],
        "assumptions": ["applied directives on types are not modelled", "service schemas are valid GraphQL schemas (gqlparser.LoadSchema accepts them)"],
    },
    "C03": {
        "corr_name": "Corr.Merge.agrees (Merge.Model.merge result types vs merger.ExtendMergerFunc / SanitizeNodeMergerFunc)",
        "level_text": "Refuted + partial. C03_full (field-level union) is false of the faithful model and of the code: C03_refuted (Query.node survives only when the LAST listed service declares it; listed finding C03-node-lost; a second corner, same field name with different signature, is listed as C03-field-signature). Proved for any number of services in any order (closed under the global context): merged_subset (every field record of every merged type is a field record of the same-named type of some service: nothing invented), merged_has_every_type (every type of every service is present exactly once with the same kind), hide_node_only_removes_node; field-level superset is tied by the correspondence (model = code on every generated set, in up to 6 orders) and by the direct union oracle on the real merger, not yet by a theorem.",
        "level_note": "Trusted: Coq kernel + vm_compute; hand-written port Merge/Model.v (types as SDL strings, maps as association lists; applied directives and directive definitions not modelled; enum values / union members / interfaces merged by the ported lo.Uniq); formatSchema+LoadSchema assumed identity on accepted results (exercised); harness. Validity of the merged schema is observed (LoadSchema accepts it), not proved.",
        "trusted": ["gqlparser (LoadSchema, formatter) exercised, not modelled; the formatSchema+LoadSchema round trip is assumed to be the identity on accepted results"],
        "assumptions": ["applied directives on types and directive definitions are not modelled"],
    },
    "C05": {
        "corr_name": "Corr.Merge.agrees (Merge.Model.merge accept/reject + error class vs merger.ExtendMergerFunc)",
        "level_text": "Refuted + partial. Order-independence is false of the faithful model and of the code (C05_order_refuted: V{x},V{y},V{x} accepted as [A;C;B], rejected as [A;B;C]; listed finding C05-order-3; also C05-node-order) and 'shared field with different type or arguments is rejected' is false (C05_signature_refuted; listed finding C05-field-signature). Proved (closed under the global context): with two services every other conflict kind of the statement is an error whatever else the schemas contain \u2014 conflict_is_rejected + one lemma per kind (different kinds, union members, Node mismatch, duplicate root field, Node-type field overlap, partial overlap of a shared plain type/input). The model has no panic outcome; panics of the real merger are observed by the harness (recover). Tied to the code by running model and merger on mergeable sets and conflict-introducing edits under up to 6 permutations; the direct oracle checks rejection of every conflict in every order and order-independence of acceptance, resulting types and Node-field routes.",
        "level_note": "Trusted: Coq kernel + vm_compute; hand-written port Merge/Model.v; when several types conflict Go reports whichever its map iteration meets first \u2014 the model returns all and the observed class must be among them; gqlparser exercised not modelled; harness generators (conflict edits) and canonicalisers.",
        "trusted": ["gqlparser (LoadSchema, formatter) exercised, not modelled"],
        "assumptions": ["when several types conflict the Go code reports whichever its map iteration meets first; the model returns all conflicts and the observed one must be among them"],
        "timeout": {"quick": 1500, "thorough": 6000},
    },
}
