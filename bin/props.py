# Per-property configuration for bin/check.
COMMON_TRUSTED = [
    "Coq 8.16.1 kernel (coqc, full .vo build) and its vm_compute reduction machine (used by `reflexivity`-style witnesses and by the correspondence evaluation); no native_compute",
    "hand-written Gallina model of the anchored Go functions (modelled, not verified) — tied to /repo only by the correspondence run of this check",
    "the Go harness (generators, fakes, coqprint, canonicalisation) and bin/check",
]

PROPS = {
    "C11": {
        "level_text": "Full proof on the model: for every request list, every m >= 1, every completion order and every set of failing calls, Net.Batch.query returns the answers in request order (or an error, never partial results), the HTTP calls partition the requests and none exceeds m (Properties/C11.v, closed under the global context). The model is tied to queryer.MultiOpQueryer.Query by running both on the same (N, m, completion order, uploads, failing calls) cases on every run; the property's own oracle is applied to the real code on each case.",
        "level_note": "Trusted: Coq kernel + vm_compute; the hand-written model Net/Batch.v (pure-list semantics for Go's in-place append, justified by BatchProofs.splice_go_eq); harness + gating RoundTripper; net/http, encoding/json, mime/multipart exercised not modelled. Completion orders on the real code are forced through the verif hook points of AsyncMapReduce.",
        "corr_name": "Corr.C11.agrees (Net.Batch.query / all_calls vs queryer.MultiOpQueryer.Query)",
        "trusted": ["net/http client, encoding/json and mime/multipart are exercised, not modelled",
                    "the downstream is a deterministic echo (answer i depends only on request i)"],
        "assumptions": ["Go slice aliasing in the reducer's append is modelled by pure lists (justified by BatchProofs.splice_go_eq under |resp| = |chunk|)",
                        "completion order of chunk goroutines = order in which the reducer receives them (observed through the verif hook)"],
    },
}
