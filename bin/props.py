# Per-property configuration for bin/check.
COMMON_TRUSTED = [
    "Coq 8.16.1 kernel (coqc, full .vo build) and its vm_compute reduction machine (used by `reflexivity`-style witnesses and by the correspondence evaluation); no native_compute",
    "hand-written Gallina model of the anchored Go functions (modelled, not verified) — tied to /repo only by the correspondence run of this check",
    "the Go harness (generators, fakes, coqprint, canonicalisation) and bin/check",
]

PROPS = {
    "C11": {
        "level_text": "Full proof on the model: for every request list, every m >= 1, every completion order and every set of failing calls, Net.Batch.query returns the answers in request order (or an error, never partial results), the HTTP calls partition the requests and none exceeds m (Properties/C11.v, closed under the global context). The model is tied to queryer.MultiOpQueryer.Query by running both on the same (N, m, completion order, uploads, failing calls) cases on every run; the property's own oracle is applied to the real code on each case.",
        "level_note": "Trusted: Coq kernel + vm_compute; the hand-written model Net/Batch.v (pure-list semantics for Go's in-place append, justified by BatchProofs.splice_go_eq); harness + gating RoundTripper; net/http, encoding/json, mime/multipart exercised not modelled. Completion orders on the real code are forced through the verif hook points of AsyncMapReduce.",
        "corr_name": "Corr.C11.agrees (Net.Batch.query / all_calls vs queryer.MultiOpQueryer.Query)",
        "trusted": ["net/http client, encoding/json and mime/multipart are exercised, not modelled",
                    "the downstream is a deterministic echo (answer i depends only on request i)"],
        "assumptions": ["Go slice aliasing in the reducer's append is modelled by pure lists (justified by BatchProofs.splice_go_eq under |resp| = |chunk|)",
                        "completion order of chunk goroutines = order in which the reducer receives them (observed through the verif hook)"],
    },
    "C20": {
        "corr_name": "Corr.C20.agrees (hook-event traces of common.AsyncMapReduce accepted by Conc.AMRAccept.accepts, final accumulator/errors equal)",
        "level_text": "Full proof on the model: AsyncMapReduce as a labelled transition system (one state machine per worker, reducer and caller; unbuffered channels as rendezvous; WaitGroup counter), for every number of items, every success/error pattern and every interleaving: invariant wg = #unacknowledged workers + [reducer busy]; at return every item was mapped exactly once, every success reduced exactly once, acc = fold of reduce over a permutation of the successes, errors = failures, reducer stopped; reduce never concurrent; no deadlock; termination (Properties/C20.v, closed under the global context). Tied to the code by trace conformance: every hook-event trace recorded from the real helper under perturbed scheduling must be accepted by the executable acceptor (proved sound w.r.t. the LTS) and end in the final state with the returned accumulator and errors; the property's own oracle (map/reduce counters, concurrency flag, goroutine count) runs on the real code each time.",
        "level_note": "Trusted: Coq kernel + vm_compute; the hand-written LTS Conc/AMR.v at the granularity of the verif hook points (statement-level interleaving semantics; the Go memory model is not modelled); mapFunc/reduceFunc total and free of panics (a panic in mapFunc is C07/C09's subject); the verif hooks themselves; harness. Perturbed scheduling samples interleavings on the real code, the theorem covers all of them on the model.",
        "trusted": ["interleaving semantics at hook-point granularity; Go scheduler and memory model not modelled (data races are looked for with the direct oracle, not excluded by proof)"],
        "assumptions": ["mapFunc and reduceFunc are total and do not panic", "items are distinguishable (the harness uses 0..n-1)"],
    },
}
