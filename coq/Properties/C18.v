(* C18 — Subscription teardown is safe under every interleaving. Statements only; proofs in Sub/LTSProofs.v (the
   reachable state space of Sub.LTS is enumerated inside Coq, its closure under steps checked by vm_compute and
   lifted to every run by induction) and Sub/ConnProofs.v. *)
From Coq Require Import List String Bool Arith Permutation.
From Pebbles Require Import Sub.LTS Sub.LTSProofs Sub.Conn Sub.ConnProofs.
Import ListNotations.

(* No interleaving of client actions (stop / terminate / disconnect: e_stop), upstream actions (event, complete,
   error, drop), write failures and goroutine steps reaches a crash (close of a closed channel; after fix 37671b5
   nothing is ever sent on a closed channel and the mutex is used by Listen alone) *)
Theorem teardown_never_crashes : forall tr s, run init tr s -> crashed s = false.
Proof. exact never_crashes. Qed.

(* No deadlock: once teardown has started (a Close was spawned, or the upstream reader has left its loop), a state
   that is not terminal can always move without help from client or upstream ... *)
Theorem teardown_is_never_stuck : forall tr s, run init tr s -> teardown_started s = true ->
  terminal s = true \/ can_move_alone s = true.
Proof. exact teardown_never_stuck. Qed.

(* ... and it does complete: from there at most [rank] own steps can be taken, and where they run out the state is
   terminal — Listen, Close, reader and closer have all ended and the upstream connection is closed *)
Theorem teardown_runs_to_completion : forall tr s, run init tr s -> teardown_started s = true ->
  forall tr' s', run s tr' s' -> forallb (fun a => negb (is_env a)) tr' = true ->
  List.length tr' + rank s' <= rank s /\ teardown_started s' = true /\ (can_move_alone s' = false -> terminal s' = true).
Proof. exact teardown_completes. Qed.
Theorem terminal_means_everything_is_gone : forall s, terminal s = true ->
  l s = L_end /\ u1 s = U1_end /\ u2 s = U2_end /\ upstream_open s = false /\ (c s = C_none \/ c s = C_end).
Proof. exact terminal_spec. Qed.

(* The handler: whatever sequence of messages the client sends (init, start — also with an id in use or an
   operation that is refused —, stop — also of unknown ids —, terminate, malformed or incomplete messages, abrupt
   disconnect), by the time the connection has ended every subscription that was started has been told to close,
   exactly once (after fixes 83122f0, e6e43ce, 6ae81b8) *)
Theorem every_started_subscription_is_closed_exactly_once : forall ms,
  Permutation (spawned (session ms)) (closed_entries (session ms)).
Proof. exact every_started_subscription_is_closed_once. Qed.

(* non-vacuity: the demo run of C17 ends in a terminal state; a session with a duplicate id and a malformed message *)
Open Scope string_scope.
Example c18_session : session [MInit; MStart "a" 0 true; MStart "b" 1 true; MStart "a" 2 true; MStop "zz"; MBad; MStart "c" 3 true]
  = [AAck; ASpawn 0 "a" 0; ASpawn 1 "b" 1; ASpawn 2 "a" 2; AClose 0; AEnd; AClose 2; AClose 1].
Proof. vm_compute. reflexivity. Qed.

Print Assumptions teardown_never_crashes.
Print Assumptions teardown_is_never_stuck.
Print Assumptions teardown_runs_to_completion.
Print Assumptions terminal_means_everything_is_gone.
Print Assumptions every_started_subscription_is_closed_exactly_once.
