(* C14 — The plan cache never changes an answer. Statements only; proofs in Cache/Proofs.v. *)
From Coq Require Import List Arith Bool String.
From Pebbles Require Import Cache.Model Cache.Proofs.
Import ListNotations.

Section C14.
Variables (Op Plan Key Resp : Type) (key : Op -> Key) (key_eqb : Key -> Key -> bool) (plan_of : Op -> Plan) (run : Plan -> Op -> Resp).
Hypothesis key_eqb_ok : forall a b, key_eqb a b = true <-> a = b.

(* For every finite history of requests, every TTL (0 included) and all arrival times: every request gets from the
   caching planner the response it gets from the plain planner — provided equal cache keys mean equal plans within
   the history. *)
Theorem cache_never_changes_an_answer : forall ttl (h : list (Op * nat)) (ops : Op -> Prop),
  key_determines_plan Op Plan Key key plan_of ops -> (forall ot, In ot h -> ops (fst ot)) ->
  run_cached Op Plan Key Resp key key_eqb plan_of run ttl h [] = run_plain Op Plan Resp plan_of run h.
Proof. exact (cache_transparent_from_empty Op Plan Key Resp key key_eqb plan_of run key_eqb_ok). Qed.

(* The proviso holds for every history as soon as the plan is a function of what the key is made of — which is
   the case after fix 36697ed (key = operation type, operation name, formatted selection set with fragment bodies;
   the plan does not depend on variable definitions or values). *)
Theorem key_determines_plan_when_plan_factors : forall (planf : Key -> Plan),
  (forall op, plan_of op = planf (key op)) -> forall ops, key_determines_plan Op Plan Key key plan_of ops.
Proof. intros planf H ops a b _ _ E. now rewrite !H, E. Qed.

(* ... and the proviso is NECESSARY: whenever two operations share a key while their plans answer the second one
   differently, the two-request history a; b (any TTL, same instant) is answered differently by the caching planner.
   So "the cache never changes an answer" holds exactly when the key determines the plan — every key that forgets
   something the plan depends on (operation type: 36697ed; the content of list / input-object literals: seed C14e)
   is observable, and the correspondence check looks for exactly such pairs. *)
Theorem key_collision_is_observable : forall ttl t a b,
  key a = key b -> run (plan_of a) b <> run (plan_of b) b ->
  run_cached Op Plan Key Resp key key_eqb plan_of run ttl [(a, t); (b, t)] []
  <> run_plain Op Plan Resp plan_of run [(a, t); (b, t)].
Proof. exact (colliding_keys_change_an_answer Op Plan Key Resp key key_eqb plan_of run key_eqb_ok). Qed.

(* concurrent misses for one operation store the same plan *)
Theorem concurrent_misses_are_harmless : forall (e : entry Plan Key) c,
  store Plan Key key_eqb e (store Plan Key key_eqb e c) = store Plan Key key_eqb e c.
Proof. exact (racing_misses_agree Plan Key key_eqb key_eqb_ok). Qed.
End C14.

(* The pinned tree: (1) the key ignored the operation type. With such a key the statement is false. *)
Inductive kind := Q | M.
Definition pinned_key (op : kind * nat) : nat := snd op.                 (* selection only *)
Definition plan_kn (op : kind * nat) : kind * nat := op.                  (* the plan does depend on the type *)
Definition run_kn (p : kind * nat) (op : kind * nat) : kind * nat := p.  (* the answer shows which plan ran *)

Theorem pinned_key_refuted :
  run_cached (kind * nat) (kind * nat) nat (kind * nat) pinned_key Nat.eqb plan_kn run_kn 1000 [((Q, 7), 0); ((M, 7), 1)] []
  <> run_plain (kind * nat) (kind * nat) (kind * nat) plan_kn run_kn [((Q, 7), 0); ((M, 7), 1)].
Proof. vm_compute. discriminate. Qed.

(* (2) a subscription start cut the child steps off the cached plan object: the next request with that key ran the
   stripped plan. *)
Definition strip_kn (p : kind * nat) : kind * nat := (fst p, 0).
Theorem pinned_subscription_aliasing_refuted :
  run_cached_pinned (kind * nat) (kind * nat) (kind * nat) (kind * nat) (fun op => op)
     (fun a b => match fst a, fst b with Q, Q | M, M => Nat.eqb (snd a) (snd b) | _, _ => false end)
     plan_kn run_kn strip_kn 1000 [((Q, 7), 0, true); ((Q, 7), 1, false)] []
  <> [strip_kn (Q, 7); (Q, 7)].
Proof. vm_compute. discriminate. Qed.

(* (3) the class of seed C14e: a key that forgets the literal inside an argument. Operations = (selection, literal). *)
Example literal_forgetting_key_refuted :
  run_cached (nat * nat) (nat * nat) nat (nat * nat) fst Nat.eqb (fun op => op) (fun p _ => p) 1000 [((3, 1), 0); ((3, 2), 0)] []
  <> run_plain (nat * nat) (nat * nat) (nat * nat) (fun op => op) (fun p _ => p) [((3, 1), 0); ((3, 2), 0)].
Proof. apply (key_collision_is_observable (nat * nat) (nat * nat) nat (nat * nat) fst Nat.eqb (fun op => op) (fun p _ => p) Nat.eqb_eq); [reflexivity|discriminate]. Qed.

Print Assumptions cache_never_changes_an_answer.
Print Assumptions key_collision_is_observable.
Print Assumptions key_determines_plan_when_plan_factors.
Print Assumptions concurrent_misses_are_harmless.
Print Assumptions pinned_key_refuted.
Print Assumptions pinned_subscription_aliasing_refuted.
