(* C11 — Downstream batching is transparent.  Statements only; proofs live in Net/BatchProofs.v. *)
From Coq Require Import List Arith Bool Permutation.
From Pebbles Require Import Base.ListX Net.Batch Net.BatchProofs.
Import ListNotations.

Section C11.
Context {Q R : Type}.
Variables (ans : Q -> R) (isfile : Q -> bool) (fails : list Q -> bool).

(* For every request list (any N), every m >= 1, every completion order pi of the chunk goroutines,
   every set of failing calls:
   - if no HTTP call fails, exactly N results come back and result i answers request i;
   - if some call fails, an error is reported, never partial results;
   - the HTTP calls partition the requests (each request in exactly one call);
   - no call is empty or carries more than m requests. *)
Theorem batching_transparent : forall (inputs : list Q) (m : nat) (pi : list nat),
  1 <= m -> Permutation pi (chunk_indices (length inputs) m) ->
  (existsb fails (all_calls isfile m inputs) = false ->
     query ans isfile fails m inputs pi = Some (map (fun x => Some (ans x)) inputs)) /\
  (existsb fails (all_calls isfile m inputs) = true ->
     query ans isfile fails m inputs pi = None) /\
  Permutation (concat (all_calls isfile m inputs)) inputs /\
  Forall (fun call => 1 <= length call <= m) (all_calls isfile m inputs).
Proof.
  intros inputs m pi Hm Hp. split; [|split; [|split]].
  - exact (query_ok ans isfile fails m inputs pi Hm Hp).
  - exact (query_err ans isfile fails m inputs pi Hm Hp).
  - exact (all_calls_concat isfile m inputs Hm).
  - exact (all_calls_sizes isfile m inputs Hm).
Qed.

(* queryBatch's slot bookkeeping (file-carrying requests answered one by one, the others in one call)
   puts every answer in its own slot *)
Theorem query_batch_slots : forall (c : list Q), qb_results ans isfile c = map (fun x => Some (ans x)) c.
Proof. exact (qb_results_eq ans isfile). Qed.

End C11.

(* "each request in exactly one call", with positions made explicit: instantiate Q with (index, request) *)
Corollary each_request_in_exactly_one_call {Q} (isfile : Q -> bool) (inputs : list Q) m : 1 <= m ->
  Permutation (concat (all_calls (fun p => isfile (snd p)) m (indexed inputs))) (indexed inputs).
Proof. intro Hm. exact (all_calls_concat _ m (indexed inputs) Hm). Qed.

(* non-vacuity: a concrete run with N = 7, m = 3 (3 chunks), chunks completing in order 2,0,1, one upload *)
Example c11_nonvacuous :
  query (fun x => x + 100) (fun x => x =? 4) (fun _ => false) 3 [0;1;2;3;4;5;6] [2;0;1]
  = Some (map (fun x => Some (x + 100)) [0;1;2;3;4;5;6])
  /\ all_calls (fun x => x =? 4) 3 [0;1;2;3;4;5;6] = [[0;1;2];[4];[3;5];[6]].
Proof. split; reflexivity. Qed.

Print Assumptions batching_transparent.
Print Assumptions query_batch_slots.
Print Assumptions each_request_in_exactly_one_call.
