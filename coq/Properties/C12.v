(* C12 — Downstream round trips are bounded by plan shape, not by result size.
   Statements only; proofs in Exec/DedupProofs.v. *)
From Coq Require Import List String Bool Arith Permutation.
From Pebbles Require Import Exec.Dedup Exec.DedupProofs.
Import ListNotations.
Open Scope string_scope.

(* One level of the plan: however many execution requests the intermediate results produced (any list l), and in
   whatever order they were collected, there is exactly one downstream call per service that has a request at that
   level; the calls partition the requests and every request goes to its own service. Summed over the levels:
   calls(u) <= number of levels at which u appears. *)
Theorem one_call_per_service_and_level : forall (A : Type) (url : A -> string) (l : list A),
  NoDup (calls_at_level url l) /\
  Permutation (List.concat (map snd (partition_by url l))) l /\
  Forall (fun g => Forall (fun y => url y = fst g) (snd g)) (partition_by url l) /\
  (forall u, In u (calls_at_level url l) <-> exists x, In x l /\ url x = u).
Proof. intros A. exact (@one_call_per_service A). Qed.

(* Within one call: every distinct lookup key is sent exactly once ... *)
Theorem each_distinct_lookup_sent_once : forall rs,
  let '(m, sent) := build rs 0 [] [] in NoDup (map fst m) /\ List.length sent = List.length m.
Proof. exact sent_once_per_distinct_key. Qed.

(* ... two requests share a key only when they look up the same entity with the same sub-query and no other variable ... *)
Theorem only_identical_lookups_are_merged : forall i j r s, i <> j -> key_of i r = key_of j s ->
  er_id r = er_id s /\ er_qhash r = er_qhash s /\ er_nvars r = 1 /\ er_nvars s = 1 /\ er_root_parent r = false /\ er_root_parent s = false.
Proof. exact shared_key_means_same_lookup. Qed.

(* ... and the answer to the single sent request is handed to every place that needs it *)
Theorem result_reaches_every_place : forall ks : list key,
  let '(m, sent) := build_keys ks 0 [] [] in
  forall j, j < List.length ks ->
    exists t h, served_from m j = Some t /\ nth_error sent t = Some h /\ nth_error ks h = nth_error ks j.
Proof. exact fan_out_correct. Qed.

Theorem build_is_over_keys : forall rs i m sent, build rs i m sent = build_keys (keys_of rs i) i m sent.
Proof. exact build_is_build_keys. Qed.

Example c12_nonvacuous :
  let r id := mkEReq false 1 (Some id) 7 in
  build [r "a"; r "b"; r "a"; mkEReq false 2 (Some "a") 7; r "a"] 0 [] [] =
  ([(KDedup "a" 7, (0, [0; 2; 4])); (KDedup "b" 7, (1, [1])); (KUnique 3, (2, [3]))], [0; 1; 3]).
Proof. reflexivity. Qed.

Print Assumptions one_call_per_service_and_level.
Print Assumptions each_distinct_lookup_sent_once.
Print Assumptions only_identical_lookups_are_merged.
Print Assumptions result_reaches_every_place.
Print Assumptions build_is_over_keys.
