(* C02 — Every sub-request is valid for, and owned by, the service it is sent to (variable part).
   Statements only; proofs in Plan/VarsProofs.v. Validity against the target service's schema, coverage and
   helper registration are decided by the check on the real planner (every emitted sub-request is validated by the
   receiving evaluating fake against ITS OWN schema; coverage/helpers through C01's single-server equality). *)
From Coq Require Import List String Bool Arith.
From Pebbles Require Import Base.Json Plan.Vars Plan.VarsProofs Plan.Header Plan.HeaderProofs Merge.Model Plan.Steps Plan.StepsProofs Plan.StepsCount Plan.PlanCount Plan.Sanitize Plan.SanitizeProofs Plan.EndToEnd Plan.NarrowProofs Plan.MergeProofs.
Import ListNotations.
Open Scope string_scope.

(* every client variable used in an ARGUMENT anywhere in the sub-request (any nesting of fields, inline fragments,
   list and object values) is in the step's VariablesList ... *)
Theorem argument_variables_listed : forall (ss : list sel) n, In n (arg_vars ss) -> In n (variables_list ss).
Proof. exact argument_variables_are_listed. Qed.

(* ... every listed variable the client sent a value for accompanies the sub-request, with exactly that value ... *)
Theorem listed_variables_forwarded : forall client_vars listed n v,
  In n listed -> assoc n client_vars = Some v -> In (n, v) (forwarded client_vars listed).
Proof. exact listed_variables_are_forwarded. Qed.
Theorem forwarded_values_unchanged : forall client_vars listed n v,
  In (n, v) (forwarded client_vars listed) -> In n listed /\ assoc n client_vars = Some v.
Proof. exact forwarded_values_are_the_clients. Qed.

(* ... and so is every variable that is the value of a DIRECTIVE argument — `@skip(if: $s)`, `@include(if: $s)` — of a
   field or of an inline fragment, at any depth (since fix 0156dcf; formerly the listed finding C02-directive-variable) *)
Theorem directive_argument_variables_listed : forall (ss : list sel) n, In n (directive_top_vars ss) -> In n (variables_list ss).
Proof. exact directive_variables_are_listed. Qed.

(* Full statement for variables: every variable the sub-request USES (arguments or directives) is listed. *)
Definition C02_vars_full : Prop := forall ss n, (In n (arg_vars ss) \/ In n (directive_vars ss)) -> In n (variables_list ss).
(* Still false of the faithful model: a variable INSIDE a list or object value of a directive argument
   (`@tagged(with: [$v])`, a directive some service would have to define) is not looked for. The harness has no such
   directive, so this is a statement about the model only, not a listed finding. *)
Theorem C02_vars_refuted : ~ C02_vars_full.
Proof.
  intros H. destruct directive_variables_not_listed as (ss & n & Hin & Hnot). apply Hnot. apply H. now right.
Qed.

(* a follow-up step adds the id of the object it extends under the name `id`: every other variable keeps the client's
   value; a client variable that is itself called `id` does not (listed finding C02-variable-named-id) *)
Theorem follow_up_steps_keep_other_variables : forall client_vars listed node_id n,
  n <> "id" -> assoc n (step_variables client_vars listed node_id) = assoc n (forwarded client_vars listed).
Proof. exact other_variables_keep_the_clients_value. Qed.
Theorem C02_client_id_refuted :
  exists client_vars listed node_id, assoc "id" (forwarded client_vars listed) = Some (JNum "7") /\
    assoc "id" (step_variables client_vars listed node_id) = Some (JStr "h1").
Proof. exact client_variable_named_id_is_replaced. Qed.

(* ---- the operation header synthesised for a sub-request (format.walkArgumentList) ----
   On a selection set carrying the validator's annotations (wt: every value with children knows its type, every
   variable its expected type), the header's writes are exactly the (variable, expected type) pairs of the body: *)
Theorem header_is_the_bodys_variables : forall ts ss n t,
  wt ts ss = true -> (In (n, t) (walk ts ss) <-> In (n, t) (positions ss)).
Proof. exact walk_is_positions. Qed.
(* so every variable the body uses in an argument — at any depth of lists and input objects — is declared, with the
   type one of its positions expects ... *)
Theorem header_declares_every_used_variable : forall ts ss n t,
  wt ts ss = true -> In (n, t) (positions ss) ->
  exists t', header_declares ts ss n = Some t' /\ In (n, t') (positions ss).
Proof. exact every_used_variable_is_declared. Qed.
(* ... and nothing the body does not use is declared *)
Theorem header_declares_only_used_variables : forall ts ss n t,
  wt ts ss = true -> header_declares ts ss n = Some t -> In (n, t) (positions ss).
Proof. exact only_used_variables_are_declared. Qed.
(* every OCCURRENCE of a variable in an argument has such a position type — inside a custom scalar, where the
   schema says nothing, the client's own declaration — and is therefore declared *)
Theorem header_declares_every_variable_occurrence : forall ts ss n,
  wt ts ss = true -> In n (vars ss) -> exists t, header_declares ts ss n = Some t /\ In (n, t) (positions ss).
Proof. exact every_variable_occurrence_is_declared. Qed.
(* the hypothesis matters: a variable about which neither the schema nor the client's header says anything
   (ruled out by validation of the client's operation) stays undeclared *)
Theorem C02_header_needs_annotations :
  exists ts ss, vars ss = ["v"] /\ header_declares ts ss "v" = None /\ wt ts ss = false.
Proof. eexists. eexists. exact unknown_variable_is_not_declared. Qed.
Example c02_header_nonvacuous :
  wt ex_types ex_sels = true /\
  map (header_declares ex_types ex_sels) ["a"; "b"; "c"; "d"; "e"; "f"; "g"] =
    [Some "String"; Some "String!"; Some "Int"; Some "Int"; Some "Float"; Some "Boolean!"; Some "Boolean!"].
Proof. exact ex_header. Qed.

(* ---- ownership: what the planner (extractSelectionSet / createQueryPlanSteps, modelled in Plan/Steps.v) keeps for a
   service and what it moves into steps for other services ----
   Hypotheses: the table routes nothing to the gateway's pseudo-service and does not route `id`; interfaces are not in
   the table; no field has a root type; fragments occur only in selections of abstract types (what the sanitizer
   leaves: frag_ok). Then every (type, field) site of the selection kept for loc that the table knows is routed to loc,
   and so is every site of every step made for another service, at every depth (step_ok). *)
Theorem kept_and_moved_fields_are_owned : forall tm ps f ip p inp l ss cs,
  (forall q n, tm_get tm q n <> Some internal_service) -> (forall q, tm_get tm q "id" = None) ->
  (forall i, mem i (ps_interfaces ps) = true -> tm_is_node tm i = None) ->
  (forall t d, In d (possible ps t) -> is_root d = false) ->
  is_root p = false -> l <> internal_service -> frags_ok tm p inp = true ->
  extract f tm ps ip p inp l = Ok (ss, cs) ->
  good_sels tm l p ss /\ Forall (step_ok tm) cs.
Proof.
  intros tm ps f ip p inp l ss cs H1 H2 H3 H4 Hr Hl Hf H.
  destruct (extract_rec_ok tm ps H1 H2 H3 H4 f ip p inp l ss cs Hr Hl Hf H) as (G1 & G2 & _). split; assumption.
Qed.
(* the whole plan: every step, except the one for the gateway's own pseudo-service, asks its service only for fields
   the routing table gives to that service *)
Theorem every_plan_step_asks_for_its_own_fields : forall tm ps urls parent input fuel steps,
  (forall q n, tm_get tm q n <> Some internal_service) -> (forall q, tm_get tm q "id" = None) ->
  (forall i, mem i (ps_interfaces ps) = true -> tm_is_node tm i = None) ->
  (forall t d, In d (possible ps t) -> is_root d = false) ->
  is_root parent = true -> mem parent (ps_interfaces ps) = false ->
  forallb (frag_ok tm) input = true ->
  plan_root fuel tm ps urls parent input = Ok steps ->
  Forall (fun st => s_url st <> internal_service -> step_ok tm st) steps.
Proof. intros tm ps urls parent input fuel steps H1 H2 H3 H4. exact (plan_steps_owned tm ps urls parent input fuel steps H1 H2 H3 H4). Qed.

(* ... and nothing is lost or sent twice: every field selection given to extractSelectionSet is, exactly once, either in
   the selection kept for the service or in one of the steps made for other services (the gateway's node wrappers are
   not counted) — for selections that reach no interface-typed parent, where the planner copies fields into one fragment
   per implementation on purpose *)
Theorem nothing_lost_nothing_sent_twice : forall tm ps f ip p inp l ss cs,
  (forall q n, tm_get tm q n <> Some internal_service) -> (forall q, tm_get tm q "id" = None) ->
  (forall i, mem i (ps_interfaces ps) = true -> tm_is_node tm i = None) ->
  (forall t d, In d (possible ps t) -> is_root d = false) ->
  is_root p = false -> l <> internal_service -> frags_ok tm p inp = true -> concs ps p inp = true ->
  extract f tm ps ip p inp l = Ok (ss, cs) ->
  cnt_l ss + scnt_l cs = cnt_l inp.
Proof. intros tm ps f ip p inp l ss cs H1 H2 H3 H4. exact (extract_counts tm ps H1 H2 H3 H4 f ip p inp l ss cs). Qed.

(* the plan as a whole: when every root field is routed to one of the listed services, the steps of the plan hold
   exactly as many field selections as the sanitized operation — each selection is in exactly one step *)
Theorem the_plan_holds_every_selection_once : forall tm ps urls parent input fuel steps,
  (forall q n, tm_get tm q n <> Some internal_service) -> (forall q, tm_get tm q "id" = None) ->
  (forall i, mem i (ps_interfaces ps) = true -> tm_is_node tm i = None) ->
  (forall t d, In d (possible ps t) -> is_root d = false) ->
  is_root parent = true -> mem parent (ps_interfaces ps) = false ->
  NoDup urls -> ~ In internal_service urls ->
  forallb (frag_ok tm) input = true -> forallb (conc ps) input = true ->
  (forall a n ty sub, In (PField a n ty sub) (flatten input) -> exists u, In u urls /\ get_url tm parent n internal_service = RUrl u) ->
  plan_root fuel tm ps urls parent input = Ok steps ->
  scnt_l steps = cnt_l input.
Proof. intros tm ps urls parent input fuel steps H1 H2 H3 H4. exact (plan_counts tm ps urls parent input fuel steps H1 H2 H3 H4). Qed.

(* non-vacuity: { me { id name phone friend { id phone } } } with Human.name/friend at a, Human.phone at b *)
Definition ex_tm : tmap :=
  [("Query", mkTP false [("me", "a")]); ("Human", mkTP true [("name", "a"); ("friend", "a"); ("phone", "b")])].
Definition ex_ps : pschema := mkPS ["Query"; "Human"; "Node"] ["Node"] [("Node", ["Human"])] [("Query", ["me"]); ("Human", ["id"; "name"; "friend"; "phone"])].
Definition ex_input : list psel :=
  [PField "me" "me" "Human" [PField "id" "id" "ID" []; PField "name" "name" "String" []; PField "phone" "phone" "String" [];
                             PField "friend" "friend" "Human" [PField "id" "id" "ID" []; PField "phone" "phone" "String" []]]].
Example c02_plan_nonvacuous :
  forallb (frag_ok ex_tm) ex_input = true /\
  plan_root 10 ex_tm ex_ps ["a"; "b"] "Query" ex_input =
    Ok [mkStep "a" "Query" [] [PField "me" "me" "Human" [PField "id" "id" "ID" []; PField "name" "name" "String" [];
                                                       PField "friend" "friend" "Human" [PField "id" "id" "ID" []]]]
          [mkStep "b" "Human" ["me"] [PNode "Human" [PField "phone" "phone" "String" []]] [];
           mkStep "b" "Human" ["me"; "friend"] [PNode "Human" [PField "phone" "phone" "String" []]] []]].
Proof. vm_compute. split; reflexivity. Qed.

(* ---- helpers (sanitizeSelectionSet, modelled in Plan/Sanitize.v) ----
   Wherever a field with a selection set occurs in the operation (under any nesting of fields and fragments: occ), the
   helper fields the sanitizer adds to its selection are registered for removal in the final table, at that field's
   path, for every type an object there can have (the field's type, or every possible type of an abstract one) ... *)
Theorem helpers_added_to_a_field_are_registered : forall tm sc ss a n ty d x sub ip',
  occ ss [] (SanField a n ty d (x :: sub)) ip' ->
  forall f T, In f (added_for tm sc ip' a ty (x :: sub)) -> In T (reg_types sc ty) ->
  (* ... unless the client selected the field himself in the fragment on that very type *)
  (kind_of sc ty = KOther \/ frag_has (selection_for tm sc ip' a ty (x :: sub)) T f = false) ->
  (* ... or, in any selection of a field with that response path anywhere in the operation, directly or through a
     fragment that applies to objects of that type (since fixes 75235b9, 360a3f6 and the one after them: such a field is
     the client's own and stays in the answer) *)
  (forall h, In ((ip' ++ [a])%list, h) (pending_of sc [] ss) -> ~ selected_for [h] T f) ->
  In ((ip' ++ [a])%list, T, f) (snd (sanitize_op tm sc ss)).
Proof. exact added_helpers_are_registered. Qed.
(* ... and the other way round: what the client selects himself below a field, in any of its selections, for all or for
   some types, is not registered for removal under that field's response path for those types *)
Theorem what_the_client_selects_himself_is_not_scrubbed : forall tm sc ss a n ty d x sub ip' h T,
  occ ss [] (SanField a n ty d (x :: sub)) ip' -> In h (client_selected sc (x :: sub)) ->
  (fst h = Some T \/ fst h = None) ->
  ~ In ((ip' ++ [a])%list, T, snd h) (snd (sanitize_op tm sc ss)).
Proof. exact client_selected_helpers_stay. Qed.
(* ... what is added are `__typename` and `id` only, and only when the client did not select the field on that level *)
Theorem only_the_two_helpers_are_added : forall tm sc ss t is_fragment f,
  In f (snd (add_scrub_fields tm sc ss t is_fragment)) -> f = "__typename" \/ f = "id".
Proof. exact added_only_helpers. Qed.
Theorem a_helper_is_added_only_when_missing : forall tm sc ss t is_fragment f,
  In f (snd (add_scrub_fields tm sc ss t is_fragment)) -> has_direct ss f = false.
Proof. exact added_not_selected. Qed.
(* no response key of a level is lost by the sanitizer: a field selected directly on a level has a field with its response
   key in what is left for that level (of several selections of one key the first wins: listed finding) *)
Theorem selected_response_keys_survive_sanitizing : forall tm sc ss ip a n ty d sub,
  In (SanField a n ty d sub) ss -> has_alias (fst (sanitize tm sc ss ip)) a.
Proof. exact selected_response_keys_survive. Qed.

(* what the sanitizer leaves below a field of an object type — where a service accepts fragments on that very type and
   on abstract types only — holds no plain fragment on an object type: one on the field's own type is unfolded, one on
   another object type, which can never match, is left out (since fix 9f8e2bb; the formerly listed shape
   `{ me { ... on Node { ... on Pet { weight } } phone } }` left `... on Pet` under the Human-typed `me`) *)
Theorem narrowed_selections_hold_no_plain_object_fragment : forall sc ss t, Forall (settled sc) (narrow_to_type sc ss t).
Proof. exact narrow_to_type_settled. Qed.
Theorem object_typed_levels_hold_no_plain_object_fragment : forall tm sc ss ip T,
  kind_of sc T = KOther -> Forall (spread_in T) ss -> Forall (settled sc) (fst (sanitize tm sc ss ip)).
Proof. exact object_level_is_settled. Qed.
Theorem object_typed_fields_send_no_plain_object_fragment : forall tm sc ip a ty x sub,
  kind_of sc ty = KOther -> Forall (spread_in ty) (x :: sub) -> Forall (settled sc) (selection_for tm sc ip a ty (x :: sub)).
Proof. exact object_field_selection_is_settled. Qed.
Example c02_listed_shape_now :
  fst (sanitize_op SanitizeProofs.ex_tm ex_sc
         [SanField "me" "me" "Human" 0 [SanFrag "Node" "Human" 0 [SanFrag "Pet" "Node" 0 [SanField "weight" "weight" "Int" 0 []]];
                                         SanField "phone" "phone" "String" 0 []]])
  = [SanField "me" "me" "Human" 0 [id_helper; Sanitize.typename_helper; SanField "phone" "phone" "String" 0 []]].
Proof. exact listed_shape_is_settled. Qed.

(* when several selections of one response key meet (addSelectionSetToSanitizedResult since fix 360a3f6), nothing that is
   selected is dropped: what the selection set selected before and everything that is added are selected in the result,
   at every depth — a field through the field with its response key that is already there (covers) *)
Theorem merging_selections_loses_nothing : forall s new,
  (forall x, covers s x -> covers (add_to_result s new) x) /\ (forall x, In x new -> covers (add_to_result s new) x).
Proof. exact merging_loses_nothing. Qed.
Example c02_both_selections_survive :
  add_to_result [SanField "me" "me" "Human" 0 [SanField "name" "name" "String" 0 []]] [SanField "me" "me" "Human" 0 [SanField "phone" "phone" "String" 0 []]]
  = [SanField "me" "me" "Human" 0 [SanField "name" "name" "String" 0 []; SanField "phone" "phone" "String" 0 []]].
Proof. exact both_selections_survive. Qed.

(* sanitizer and planner composed: for an operation written without fragments in which no field has a root type, the
   plan made from the sanitized selection consists of steps that ask their service only for its own fields — the
   shape hypothesis of the planner theorem is a consequence here, not a premise *)
Theorem plain_operations_are_planned_into_owned_steps : forall tm sc ps urls parent input fuel steps,
  (forall q n, tm_get tm q n <> Some internal_service) -> (forall q, tm_get tm q "id" = None) ->
  (forall i, mem i (ps_interfaces ps) = true -> tm_is_node tm i = None) ->
  (forall t d, In d (possible ps t) -> is_root d = false) ->
  is_root parent = true -> mem parent (ps_interfaces ps) = false ->
  forallb plain input = true ->
  plan_root fuel tm ps urls parent (map erase (fst (sanitize tm sc input []))) = Ok steps ->
  Forall (fun st => s_url st <> internal_service -> step_ok tm st) steps.
Proof. intros tm sc ps urls parent input fuel steps H1 H2 H3 H4. exact (EndToEnd.plain_operations_are_planned_into_owned_steps tm sc ps urls parent input fuel steps H1 H2 H3 H4). Qed.

Example c02_sanitize_nonvacuous :
  sanitize SanitizeProofs.ex_tm ex_sc ex_in [] =
  ([SanField "me" "me" "Human" 0 [id_helper; SanField "name" "name" "String" 0 [];
                                  SanField "friend" "friend" "Human" 0 [id_helper; SanField "phone" "phone" "String" 0 []]];
    SanField "beings" "beings" "Being" 0 [Sanitize.typename_helper; SanFrag "Pet" "Being" 0 [id_helper; SanField "weight" "weight" "Int" 0 []]]],
   [(["me"; "friend"], "Human", "id"); (["me"], "Human", "id"); (["beings"], "Pet", "id");
    (["beings"], "Human", "__typename"); (["beings"], "Pet", "__typename")]).
Proof. exact ex_sanitize. Qed.

Example c02_nonvacuous :
  variables_list [SField "a" "f" [("x", VVar "v1"); ("o", VObj [("k", VList [VVar "v2"; VLit "3"])])] []
                         [SInline "T" [] [SField "g" "g" [("y", VVar "v3")] [] []]]]
  = ["v1"; "v2"; "3"; "v3"].
Proof. reflexivity. Qed.

Print Assumptions argument_variables_listed.
Print Assumptions merging_selections_loses_nothing.
Print Assumptions narrowed_selections_hold_no_plain_object_fragment.
Print Assumptions object_typed_levels_hold_no_plain_object_fragment.
Print Assumptions object_typed_fields_send_no_plain_object_fragment.
Print Assumptions what_the_client_selects_himself_is_not_scrubbed.
Print Assumptions directive_argument_variables_listed.
Print Assumptions listed_variables_forwarded.
Print Assumptions forwarded_values_unchanged.
Print Assumptions C02_vars_refuted.
Print Assumptions follow_up_steps_keep_other_variables.
Print Assumptions C02_client_id_refuted.
Print Assumptions header_is_the_bodys_variables.
Print Assumptions header_declares_every_used_variable.
Print Assumptions header_declares_only_used_variables.
Print Assumptions header_declares_every_variable_occurrence.
Print Assumptions C02_header_needs_annotations.
Print Assumptions kept_and_moved_fields_are_owned.
Print Assumptions every_plan_step_asks_for_its_own_fields.
Print Assumptions nothing_lost_nothing_sent_twice.
Print Assumptions the_plan_holds_every_selection_once.
Print Assumptions helpers_added_to_a_field_are_registered.
Print Assumptions only_the_two_helpers_are_added.
Print Assumptions a_helper_is_added_only_when_missing.
Print Assumptions selected_response_keys_survive_sanitizing.
Print Assumptions plain_operations_are_planned_into_owned_steps.
