(* C16 — What the gateway reports about its schema is the schema it enforces. Statements only; proofs in Intro/ExecProofs.v. *)
From Coq Require Import List String Bool Arith.
From Pebbles Require Import Base.Json Intro.Schema Intro.Spec Intro.Remote Intro.RemoteProofs Intro.Exec Intro.ExecProofs Intro.Rebuild.
Import ListNotations.
Open Scope string_scope.

(* For every schema with the merger's root type names and every introspection selection (__schema, __type, any depth,
   aliases, includeDeprecated on/off, any type name; fragments and variables are resolved before — the harness does it
   with gqlparser — and a response key selected twice is excluded: listed finding C16-duplicate-response-key):
   whenever the specification's introspection section defines an answer, the gateway's resolvers give exactly that
   answer — every type, field, argument, input field, enum value, possible type, interface, directive, deprecation,
   default value, description, __typename, kind-specific nulls. *)
Theorem gateway_answers_as_the_specification_prescribes : forall s, canonical s ->
  forall fuel n sels j, spec_exec s fuel n sels = Some j -> local_exec s fuel n sels = Some j.
Proof. exact local_answers_as_specified. Qed.

(* __type(name:) is the corresponding entry of __schema.types: both are the answer of the same node to the same selection *)
Theorem type_by_name_is_that_type : forall s f a n incl sub,
  local_exec s (S f) NRoot [ISel a "__type" incl n sub] =
  match local_exec s f (NType (TNamed n)) sub with Some j => Some (JObj [(a, j)]) | None => None end.
Proof. exact type_by_name. Qed.
Theorem types_lists_every_type : forall s f a incl tn sub,
  local_exec s (S f) NSchema [ISel a "types" incl tn sub] =
  match all_some (map (fun t => local_exec s f (NType (TNamed (td_name t))) sub) (s_types (base s))) with
  | Some js => Some (JObj [(a, JArr js)]) | None => None end.
Proof. exact types_entries. Qed.

(* "a standard client (including another gateway) can rebuild an equivalent schema from the standard introspection
   query": for every schema the resolvers describe (roots named as the merger names them, unique type names, every
   referenced type declared, kind-specific members only where the kind has them) whose user-defined part lies in
   C15's domain, the answer to the query another pebbles gateway sends, decoded as remote.go decodes it and
   reconstructed as remote.go reconstructs it, is exactly the schema without its built-ins (C16 composed with C15) *)
Theorem another_gateway_rebuilds_the_schema_from_the_standard_query : forall (s : sch16) f,
  ofType_levels + 6 < f -> schema_ok s -> inD15 (strip (base s)) ->
  exists j a, local_exec s f NRoot std_query = Some j /\ dec_schema j = Some a /\ reconstruct a = ROk (strip (base s)).
Proof. exact another_gateway_rebuilds_the_schema. Qed.
Example rebuild_nonvacuous : schema_ok s_demo16 /\ inD15 (strip (base s_demo16)).
Proof. exact demo16_in_domain. Qed.

(* non-vacuity: a canonical schema with every kind, and a selection that the specification answers *)
Definition s_demo : sch16 :=
  mkS16 (mkSch "Query" (Some "Mutation") None
    [mkTD KInterface "Node" "" [mkFD "id" "" [] (TNonNull (TNamed "ID")) None] [] [] ["Human"] [];
     mkTD KObject "Human" "h" [mkFD "id" "" [] (TNonNull (TNamed "ID")) None;
                               mkFD "old" "" [mkIV "n" "" (TNamed "Int") (Some "3")] (TList (TNamed "Human")) (Some "No longer supported")] [] ["Node"] [] [];
     mkTD KUnion "Being" "" [] [] [] ["Human"] [];
     mkTD KEnum "Color" "" [] [] [] [] [mkEV "RED" "" None; mkEV "GREEN" "" (Some "gone")];
     mkTD KInput "Filter" "" [] [mkIV "q" "" (TNamed "String") (Some """x""")] [] [] [];
     mkTD KScalar "Date" "" [] [] [] [] []; mkTD KScalar "ID" "" [] [] [] [] []; mkTD KScalar "Int" "" [] [] [] [] []; mkTD KScalar "String" "" [] [] [] [] [];
     mkTD KObject "Query" "" [mkFD "me" "" [] (TNamed "Human") None] [] [] [] [];
     mkTD KObject "Mutation" "" [mkFD "paint" "" [mkIV "c" "" (TNonNull (TNamed "Color")) None] (TNamed "Color") None] [] [] [] []]
    [mkDD "tag" "" ["OBJECT"] [mkIV "name" "" (TNamed "String") None]]) [("Date", "https://example.com/date")] ["tag"] "demo".
Definition q_demo : list isel :=
  let leaf n := ISel n n false "" [] in
  let tref := [leaf "kind"; leaf "name"; ISel "ofType" "ofType" false "" [leaf "kind"; leaf "name"]] in
  [ISel "__schema" "__schema" false ""
     [leaf "description"; ISel "queryType" "queryType" false "" [leaf "name"]; ISel "subscriptionType" "subscriptionType" false "" [leaf "name"];
      ISel "types" "types" false "" [leaf "kind"; leaf "name"; leaf "specifiedByURL"; leaf "__typename";
         ISel "fields" "fields" true "" [leaf "name"; leaf "isDeprecated"; leaf "deprecationReason"; ISel "type" "type" false "" tref;
                                         ISel "args" "args" false "" [leaf "name"; leaf "defaultValue"]];
         ISel "visible" "fields" false "" [leaf "name"];
         ISel "interfaces" "interfaces" false "" [leaf "name"]; ISel "possibleTypes" "possibleTypes" false "" [leaf "name"];
         ISel "enumValues" "enumValues" false "" [leaf "name"]; ISel "inputFields" "inputFields" false "" [leaf "name"; leaf "defaultValue"]];
      ISel "directives" "directives" false "" [leaf "name"; leaf "locations"; leaf "isRepeatable"; ISel "args" "args" false "" [leaf "name"]]];
   ISel "t" "__type" false "Being" [leaf "kind"; ISel "possibleTypes" "possibleTypes" false "" [leaf "name"]];
   ISel "none" "__type" false "Nope" [leaf "kind"]].
Example c16_nonvacuous : canonical s_demo /\ exists j, spec_exec s_demo 8 NRoot q_demo = Some j.
Proof.
  split.
  - repeat split; try reflexivity. intros t Hin Hk. cbn in Hin.
    repeat (destruct Hin as [<-|Hin]; [try discriminate; cbn; discriminate|]). destruct Hin.
  - eexists. vm_compute. reflexivity.
Qed.

Print Assumptions gateway_answers_as_the_specification_prescribes.
Print Assumptions type_by_name_is_that_type.
Print Assumptions types_lists_every_type.
Print Assumptions another_gateway_rebuilds_the_schema_from_the_standard_query.
