(* C15 — Introspecting a service reproduces its schema. Statements only; proofs in Intro/RemoteProofs.v. *)
From Coq Require Import List String Bool Arith.
From Pebbles Require Import Intro.Schema Intro.Spec Intro.Remote Intro.RemoteProofs.
Import ListNotations.
Open Scope string_scope.

Section C15.
Variable kind_of : string -> string.
Hypothesis kind_of_named : forall n, (kind_of n =? "NON_NULL") = false /\ (kind_of n =? "LIST") = false.

(* On the domain inD15 (no argument / input-field default values, wrappers nested at most 7 deep, every referenced
   interface / member type declared): the schema reconstructed from a spec-compliant answer to the gateway's
   introspection query IS the service schema — same types and kinds, fields, argument names and types, arbitrarily
   nested list/non-null wrappers (up to the depth the query asks for), enum values, union members, interface
   implementations, input fields, custom scalars, directives with arguments and locations, deprecations (after fix
   1097590), descriptions, root operation types. (Validity of operations is then preserved trivially.) *)
Theorem reconstruct_introspect_id : forall s, inD15 s -> reconstruct (introspect kind_of s) = ROk s.
Proof. exact (reconstruct_introspect kind_of kind_of_named). Qed.

(* "a schema that cannot be reconstructed is reported as a start-up error rather than altered": without the depth
   bound the outcome is the schema itself, or — exactly when some reference is nested deeper than the query asks
   for — the start-up error of fix 0b6d375; never a different schema *)
Theorem unreconstructable_is_reported_not_altered : forall s, inD15_any_depth s ->
  reconstruct (introspect kind_of s) = if deep_schema s then RErr cut_off_error else ROk s.
Proof. exact (reconstruct_exact_or_error kind_of kind_of_named). Qed.
End C15.

(* Whatever the introspection answer looks like, reconstruction ends in a schema or a start-up error, never in a
   crash (after fixes 7789a11 and 0b6d375; the pinned tree dereferenced a cut-off ofType) *)
Theorem unreconstructable_is_an_error_not_a_crash : forall a, reconstruct a <> RPanic.
Proof. exact reconstruct_never_panics. Qed.

(* The full statement: for EVERY schema. *)
Definition C15_full : Prop := forall kind_of s,
  (forall n, (kind_of n =? "NON_NULL") = false /\ (kind_of n =? "LIST") = false) ->
  reconstruct (introspect kind_of s) = ROk s.

(* It is false of the faithful model and of the code (listed findings): argument default values are dropped ... *)
Definition s_arg_default : sch :=
  mkSch "Query" None None
    [mkTD KObject "Query" "" [mkFD "f" "" [mkIV "x" "" (TNonNull (TNamed "Int")) (Some "5")] (TNamed "Int") None] [] [] [] []] [].
Theorem C15_refuted_argument_default : ~ C15_full.
Proof.
  intros H. specialize (H (fun _ => "NAMED") s_arg_default (fun n => conj eq_refl eq_refl)).
  vm_compute in H. discriminate.
Qed.

(* (deprecations were dropped too on the pinned tree; after fix 1097590 they round-trip) *)
Definition s_deprecated : sch :=
  mkSch "Query" None None
    [mkTD KObject "Query" "" [mkFD "old" "" [] (TNamed "Int") (Some "use new")] [] [] [] [];
     mkTD KEnum "Color" "" [] [] [] [] [mkEV "RED" "" None; mkEV "GREEN" "g" (Some "No longer supported")]] [].
Example deprecations_round_trip : reconstruct (introspect (fun _ => "NAMED") s_deprecated) = ROk s_deprecated.
Proof. vm_compute. reflexivity. Qed.

(* ... and input-field defaults, which the specification transmits as GraphQL literals in a string, come out re-quoted *)
Definition s_input_default : sch :=
  mkSch "Query" None None
    [mkTD KObject "Query" "" [mkFD "f" "" [] (TNamed "Int") None] [] [] [] [];
     mkTD KInput "Filter" "" [] [mkIV "limit" "" (TNamed "Int") (Some "10")] [] [] []] [].
Theorem C15_refuted_input_default : reconstruct (introspect (fun _ => "NAMED") s_input_default) <> ROk s_input_default.
Proof. vm_compute. discriminate. Qed.

(* a wrapper nest deeper than the query asks for is a start-up error, not a silently altered type *)
Definition deep : tref := TNonNull (TList (TNonNull (TList (TNonNull (TList (TNonNull (TList (TNonNull (TNamed "Int"))))))))).
Definition s_deep : sch := mkSch "Query" None None [mkTD KObject "Query" "" [mkFD "grid" "" [] deep None] [] [] [] []] [].
Example too_deep_is_an_error : reconstruct (introspect (fun _ => "NAMED") s_deep) = RErr cut_off_error.
Proof. vm_compute. reflexivity. Qed.

(* non-vacuity: a schema with every in-domain feature satisfies inD15 and round-trips *)
Definition s_rich : sch :=
  mkSch "Query" (Some "Mutation") None
    [mkTD KInterface "Node" "anything with an id" [mkFD "id" "" [] (TNonNull (TNamed "ID")) None] [] [] ["Human"] [];
     mkTD KObject "Human" "" [mkFD "id" "" [] (TNonNull (TNamed "ID")) None;
                              mkFD "friends" "d" [mkIV "first" "" (TNamed "Int") None] (TNonNull (TList (TNonNull (TNamed "Human")))) None;
                              mkFD "grid" "" [] (TList (TList (TList (TNamed "Int")))) (Some "flat now")] [] ["Node"] [] [];
     mkTD KUnion "Being" "" [] [] [] ["Human"] [];
     mkTD KEnum "Color" "" [] [] [] [] [mkEV "RED" "" None; mkEV "GREEN" "g" None];
     mkTD KInput "Filter" "" [] [mkIV "q" "" (TNamed "String") None; mkIV "tags" "" (TList (TNonNull (TNamed "String"))) None] [] [] [];
     mkTD KScalar "Date" "" [] [] [] [] [];
     mkTD KObject "Query" "" [mkFD "me" "" [] (TNamed "Human") None; mkFD "search" "" [mkIV "filter" "" (TNamed "Filter") None] (TList (TNamed "Being")) None] [] [] [] [];
     mkTD KObject "Mutation" "" [mkFD "paint" "" [mkIV "c" "" (TNonNull (TNamed "Color")) None] (TNamed "Color") None] [] [] [] []]
    [mkDD "tag" "a tag" ["FIELD_DEFINITION"; "OBJECT"] [mkIV "name" "" (TNonNull (TNamed "String")) None]].
Example c15_nonvacuous : reconstruct (introspect (fun _ => "NAMED") s_rich) = ROk s_rich.
Proof. vm_compute. reflexivity. Qed.

Print Assumptions reconstruct_introspect_id.
Print Assumptions unreconstructable_is_an_error_not_a_crash.
Print Assumptions C15_refuted_argument_default.
Print Assumptions unreconstructable_is_reported_not_altered.
Print Assumptions C15_refuted_input_default.
