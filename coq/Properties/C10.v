(* C10 — Invalid operations never reach a service; service errors reach the client intact.
   Statements only; proofs in Net/ErrorsProofs.v and Net/FaultsProofs.v. *)
From Coq Require Import List String Bool Arith Permutation.
From Pebbles Require Import Base.Json Net.Decode Net.Faults Net.FaultsProofs Net.Errors Net.ErrorsProofs.
Import ListNotations.
Open Scope string_scope.
Open Scope list_scope.

(* the gate of queryHandler: an operation that does not validate, selects no operation (unknown or missing
   operationName) or cannot be planned never reaches the executor and is answered with data null + errors *)
Theorem invalid_sends_nothing : forall valid has_op plan_ok intro,
  (valid = false \/ has_op = false \/ plan_ok = false) ->
  reaches_services (gate_of valid has_op plan_ok intro) = false /\
  answers_null_data_with_errors (gate_of valid has_op plan_ok intro) = true.
Proof. exact gate_blocks_invalid. Qed.

(* the error reported for a downstream batch is exactly, in order, the errors of EVERY failing element (fix 10b468e) *)
Theorem batch_reports_every_service_error : forall n l es, n <> 0 ->
  query_batch n (ABody (Some (JArr l))) = QErr (EServiceErrors es) ->
  exists rs, decode_resps l = Some rs /\ es = flat_map resp_errors rs.
Proof. exact batch_errors_are_all_service_errors. Qed.

(* FormatError / ExtendErrorList, however deeply the error lists are nested on their way up, neither lose nor
   duplicate nor alter an error *)
Theorem service_errors_preserved : forall es, format_error (EList (map EOne es)) = es.
Proof. exact format_service_errors. Qed.
Theorem nested_error_lists_flatten : forall ls, format_error (EList (map (fun es => EList (map EOne es)) ls)) = List.concat ls.
Proof. exact format_nested. Qed.
Theorem extend_appends : forall errs es, extend_error_list errs (EList (map EOne es)) = errs ++ es.
Proof. exact extend_keeps_everything. Qed.

(* the same for ANY nesting depth (ErrorList in ErrorList in ...): a tree whose leaves are all service errors is
   flattened to exactly its leaves in order; in a mixed tree no service error is lost and the number of errors the
   client sees is the number of leaves *)
Theorem any_nesting_flattens_to_its_leaves : forall e, all_service e = true -> format_error e = service_leaves e.
Proof. exact format_any_nesting. Qed.
Theorem no_service_error_lost_in_mixed_trees : forall e x, In x (service_leaves e) -> In x (format_error e).
Proof. exact service_error_never_lost. Qed.
Theorem one_client_error_per_leaf : forall e, List.length (format_error e) = leaf_count e.
Proof. exact format_counts_every_leaf. Qed.

(* concurrently failing steps: under every completion order the client receives every error exactly once *)
Theorem every_error_reaches_the_client : forall (groups : list (list json)) pi,
  Permutation pi (seq 0 (List.length groups)) -> Permutation (client_errors groups pi) (List.concat groups).
Proof. exact all_errors_reach_the_client. Qed.

(* decoding a service error into *gqlerrors.Error and encoding it for the client keeps message, extensions, path *)
Theorem error_fields_preserved : forall ms,
  let r := reencode_error (JObj ms) in
  (forall s, member_ci "message" ms = Some (JStr s) -> assoc "message" (match r with JObj l => l | _ => [] end) = Some (JStr s)) /\
  (forall x, member_ci "extensions" ms = Some (JObj x) -> assoc "extensions" (match r with JObj l => l | _ => [] end) = Some (JObj x)) /\
  (forall p t, member_ci "path" ms = Some (JArr (p :: t)) -> assoc "path" (match r with JObj l => l | _ => [] end) = Some (JArr (p :: t))).
Proof. exact reencode_keeps_fields. Qed.

(* the round trip is a projection: an error that already went through it is a fixed point, so an error relayed
   through several hops (service -> batch decoder -> executor -> client encoder) is altered at most once *)
Theorem reencode_is_idempotent : forall e, reencode_error (reencode_error e) = reencode_error e.
Proof. exact reencode_idempotent. Qed.

Example c10_nesting_nonvacuous :
  let e := EList [EList [EOne (JStr "a"); EList [EOne (JStr "b")]]; EList []; EOne (JStr "c")] in
  all_service e = true /\ format_error e = [JStr "a"; JStr "b"; JStr "c"] /\ leaf_count e = 3.
Proof. repeat split. Qed.

Example c10_nonvacuous :
  query_batch 2 (ABody (Some (JArr [JObj [("errors", JArr [JObj [("message", JStr "a")]])]; JObj [("errors", JArr [JObj [("message", JStr "b")]])]])))
  = QErr (EServiceErrors [JObj [("message", JStr "a")]; JObj [("message", JStr "b")]]).
Proof. reflexivity. Qed.

Print Assumptions invalid_sends_nothing.
Print Assumptions batch_reports_every_service_error.
Print Assumptions service_errors_preserved.
Print Assumptions nested_error_lists_flatten.
Print Assumptions extend_appends.
Print Assumptions every_error_reaches_the_client.
Print Assumptions error_fields_preserved.
Print Assumptions any_nesting_flattens_to_its_leaves.
Print Assumptions no_service_error_lost_in_mixed_trees.
Print Assumptions one_client_error_per_leaf.
Print Assumptions reencode_is_idempotent.
