(* C05 — Conflicting service schemas are rejected, independent of service order.
   Statements only; proofs in Merge/Proofs.v. *)
From Coq Require Import List String Bool Permutation.
From Pebbles Require Import Merge.Model Merge.TypeUrlProofs Merge.Proofs.
Import ListNotations.
Open Scope string_scope.

Definition accepted (inputs : list input) : bool := match merge inputs with MOk _ _ => true | _ => false end.

(* Full statement, order part: acceptance does not depend on the order of the service list. *)
Definition C05_order_full : Prop := forall inputs inputs', Permutation inputs inputs' -> accepted inputs = accepted inputs'.

(* False of the faithful model and of the code (listed finding C05-order-3): V{x}, V{y}, V{x}. *)
Definition vx (q : string) : schema :=
  [mkDef KObject "Query" "" [] [mkField q [] "V"] [] []; mkDef KObject "V" "" [] [mkField "x" [] "Int"] [] []].
Definition vy (q : string) : schema :=
  [mkDef KObject "Query" "" [] [mkField q [] "V"] [] []; mkDef KObject "V" "" [] [mkField "y" [] "Int"] [] []].

Theorem C05_order_refuted : ~ C05_order_full.
Proof.
  intros H.
  specialize (H [("A", vx "q1"); ("B", vy "q2"); ("C", vx "q3")] [("A", vx "q1"); ("C", vx "q3"); ("B", vy "q2")]).
  assert (P : Permutation [("A", vx "q1"); ("B", vy "q2"); ("C", vx "q3")] [("A", vx "q1"); ("C", vx "q3"); ("B", vy "q2")]).
  { apply perm_skip. apply perm_swap. }
  specialize (H P). vm_compute in H. discriminate.
Qed.

(* The rejection part, for the conflict kind "a shared field with different type or arguments" (formerly the listed
   finding C05-field-signature: V{x:Int} and V{x:String} merged and one side silently won; refuted here until the fix):
   two services that declare, in a same-named type that has fields, a field of one name with another type, other
   arguments or other argument defaults are rejected, whatever else the schemas contain. (Root types: the theorem
   duplicate_root_field_conflict below; the Node interface itself is never compared.) *)
Theorem shared_field_with_another_signature_is_rejected : forall uA A uB B dA dB f g,
  In dB B -> find_def (d_name dB) A = Some dA -> is_builtin (d_name dB) = false ->
  d_name dB <> "Node" -> is_root (d_name dB) = false -> fielded (d_kind dB) ->
  In g (d_fields dA) -> is_builtin (f_name g) = false ->
  find (fun r => f_name r =? f_name g) (d_fields dB) = Some f -> same_sig f g = false ->
  accepted [(uA, A); (uB, B)] = false.
Proof.
  intros uA A uB B dA dB f g H1 H2 H3 H4 H5 H6 H7 H8 H9 H10. unfold accepted.
  destruct (signature_conflict_rejected2 uA A uB B dA dB f g H1 H2 H3 H4 H5 H6 H7 H8 H9 H10) as (es & ->). reflexivity.
Qed.
(* ... and only then: a declaration is never in conflict with itself (argument names distinct, as GraphQL requires), so
   the identical copies of a shared type that the property allows still merge *)
Theorem a_field_agrees_with_itself : forall f, NoDup (map a_name (f_args f)) -> same_sig f f = true.
Proof. exact same_sig_refl. Qed.
Example signature_conflict_example :
  accepted [("A", vx "q1"); ("B", [mkDef KObject "Query" "" [] [mkField "q2" [] "V"] [] []; mkDef KObject "V" "" [] [mkField "x" [] "String"] [] []])] = false.
Proof. vm_compute. reflexivity. Qed.

(* What is proved (C05_partial): with two services, every other conflict kind of the statement is an error
   (never accepted, and the model has no panic outcome), whatever else the schemas contain. *)
Theorem conflict_is_rejected : forall uA A uB B nvb va e,
  In nvb B -> is_builtin (d_name nvb) = false -> find_def (d_name nvb) A = Some va ->
  merge_def va nvb = Fail e ->
  exists es, merge [(uA, A); (uB, B)] = MErr es /\ In e es.
Proof. exact conflict_rejected2. Qed.

(* one name used for different kinds *)
Theorem different_kinds_conflict : forall va nvb,
  d_name nvb <> "Node" -> d_kind nvb <> d_kind va -> merge_def va nvb = Fail ENameCollision.
Proof. exact conflict_kind. Qed.

(* a union with different members *)
Theorem union_members_conflict : forall va nvb,
  d_name nvb <> "Node" -> d_kind nvb = KUnion -> d_kind va = KUnion ->
  set_eq (d_utypes va) (d_utypes nvb) = false -> merge_def va nvb = Fail EUnionCollision.
Proof. exact conflict_union. Qed.

(* a type that implements Node in one service but not in the other *)
Theorem node_mismatch_conflict : forall va nvb,
  d_name nvb <> "Node" -> d_kind nvb = d_kind va -> fielded (d_kind nvb) ->
  implements_node nvb <> implements_node va -> merge_def va nvb = Fail ENodeCollision.
Proof. exact conflict_node. Qed.

(* the same root field declared twice *)
Theorem duplicate_root_field_conflict : forall va nvb f,
  is_root (d_name nvb) = true -> d_name nvb <> "Node" -> d_kind nvb = KObject -> d_kind va = KObject ->
  implements_node nvb = implements_node va ->
  In f (d_fields va) -> is_builtin (f_name f) = false -> is_node_field f = false ->
  field_named (f_name f) (d_fields nvb) = true ->
  merge_def va nvb = Fail ERootOverlap.
Proof. exact conflict_root. Qed.

(* a Node type with a non-id field declared by two services *)
Theorem node_field_overlap_conflict : forall va nvb f,
  d_name nvb <> "Node" -> is_root (d_name nvb) = false -> d_name nvb <> "Query" ->
  d_kind nvb = KObject -> d_kind va = KObject ->
  implements_node nvb = true -> implements_node va = true ->
  In f (d_fields va) -> is_builtin (f_name f) = false -> is_id_field f = false ->
  field_named (f_name f) (d_fields nvb) = true ->
  (* an error either way: as an overlap of a Node type, or already for the field's differing signature *)
  merge_def va nvb = Fail EOverlapNode \/ merge_def va nvb = Fail ESignature.
Proof. exact conflict_node_field. Qed.

(* a shared plain type or input that is neither identical nor disjoint: the field scan reports an error *)
Theorem partial_overlap_conflict : forall a b f g,
  d_name a <> "Query" -> NoDup (map f_name (d_fields b)) ->
  In f (d_fields b) -> is_builtin (f_name f) = false -> is_id_field f = false -> field_named (f_name f) (d_fields a) = true ->
  In g (d_fields b) -> is_builtin (f_name g) = false -> is_id_field g = false -> field_named (f_name g) (d_fields a) = false ->
  exists e, mcf a b = inl e.
Proof. exact mcf_partial_overlap. Qed.

(* non-vacuity of conflict_is_rejected: an actual kind clash between two services *)
Example c05_nonvacuous :
  exists es, merge [("A", [mkDef KObject "Clash" "" [] [mkField "x" [] "Int"] [] []]);
                    ("B", [mkDef KEnum "Clash" "" [] [] ["P"; "Q"] []])] = MErr es /\ In ENameCollision es.
Proof. eexists. split; [vm_compute; reflexivity|]. now left. Qed.

Print Assumptions C05_order_refuted.
Print Assumptions shared_field_with_another_signature_is_rejected.
Print Assumptions a_field_agrees_with_itself.
Print Assumptions conflict_is_rejected.
Print Assumptions different_kinds_conflict.
Print Assumptions union_members_conflict.
Print Assumptions node_mismatch_conflict.
Print Assumptions duplicate_root_field_conflict.
Print Assumptions node_field_overlap_conflict.
Print Assumptions partial_overlap_conflict.
