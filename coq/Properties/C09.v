(* C09 — Downstream failures are contained and reported, never masked (queryer + node extraction part).
   Statements only; proofs in Net/FaultsProofs.v. *)
From Coq Require Import List String Bool Arith.
From Pebbles Require Import Base.Json Net.Decode Net.Faults Net.FaultsProofs.
Import ListNotations.
Open Scope string_scope.

(* Whatever a service answers to a batch of n sub-requests — transport error, any status, a body that is not
   JSON, any JSON value, an array of any length with elements of any shape — the queryer neither indexes out of
   range nor hands a nil result on to the executor. *)
Theorem faults_contained : forall (n : nat) (a : answer), query_batch n a <> QPanic.
Proof. exact query_batch_no_panic. Qed.

(* Every failure signal of the statement (transport error, non-2xx, not JSON, not an array of the right length,
   an element that is not a response object, `errors` present, `data` missing) becomes an error of the sub-request. *)
Theorem failure_signals_reported : forall n a, n <> 0 -> is_failure_signal n a = true -> exists e, query_batch n a = QErr e.
Proof. exact failure_signals_are_errors. Qed.

(* a missing or mistyped `node` in an otherwise well-formed answer is an error too *)
Theorem node_faults_reported : forall data,
  (assoc "node" data = None -> parse_response false data = PRErr) /\
  (forall v, assoc "node" data = Some v -> v <> JNull -> (forall m, v <> JObj m) -> parse_response false data = PRErr).
Proof. exact node_faults_are_errors. Qed.

(* No value that was not returned by the service: slot i of the result is the `data` object of element i. *)
Theorem no_invented_values : forall n l ds, query_batch n (ABody (Some (JArr l))) = QOk ds -> n <> 0 ->
  exists rs, decode_resps l = Some rs /\ map Some ds = map r_data rs.
Proof. exact data_provenance. Qed.

(* non-vacuity: the answers that crashed / were masked on the pinned tree, and a good one *)
Example c09_examples :
  let ok k := JObj [("data", JObj [("node", JObj [("k", JNum k)])])] in
  query_batch 2 (ABody (Some (JArr [ok "1"; ok "2"; ok "3"]))) = QErr ECount /\
  query_batch 2 (ABody (Some (JArr [ok "1"]))) = QErr ECount /\
  query_batch 1 (ABody (Some (JArr [JObj []]))) = QErr (EServiceErrors [nodata_error]) /\
  query_batch 2 (ABody (Some (JArr [ok "1"; ok "2"]))) = QOk [[("node", JObj [("k", JNum "1")])]; [("node", JObj [("k", JNum "2")])]].
Proof. repeat split; reflexivity. Qed.

Print Assumptions faults_contained.
Print Assumptions failure_signals_reported.
Print Assumptions node_faults_reported.
Print Assumptions no_invented_values.
