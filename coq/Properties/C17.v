(* C17 — Subscription events are delivered once, in order, fully stitched. Statements only; proofs in Sub/LTSProofs.v
   and Sub/ConnProofs.v. The model: Sub.LTS (one subscription entry: Listen, Close, the upstream reader and closer as
   interleaved goroutines over unbuffered channels) and Sub.Conn (the handler's bookkeeping; several entries writing
   whole frames to one connection). Events are numbered in the order the owning service emits them. *)
From Coq Require Import List String Bool Arith Permutation.
From Pebbles Require Import Sub.LTS Sub.LTSProofs Sub.Conn Sub.ConnProofs.
Import ListNotations.
Open Scope string_scope.

(* Under EVERY schedule of the four goroutines and every behaviour of client and upstream (any run of the LTS): the
   frames written for a subscription are the first events its upstream emitted, each exactly once, in emission order *)
Theorem delivered_exactly_once_in_emission_order : forall tr s, run init tr s ->
  rev (out (replay tr)) = seq 0 (List.length (out (replay tr))).
Proof. exact delivered_once_in_order. Qed.

(* ... nothing is withheld or lost while the subscription is active: whenever Listen is back in its select and the
   reader back at its read, everything emitted so far has been written *)
Theorem every_event_of_an_active_subscription_is_delivered : forall tr s, run init tr s -> l s = L_select -> u2 s = U2_read ->
  List.length (out (replay tr)) = next (replay tr) /\ lost (replay tr) = [].
Proof. exact nothing_withheld. Qed.

(* ... an event can be dropped only by a subscription that is ending (stop / terminate / disconnect / failed write) *)
Theorem events_are_lost_only_to_an_ending_subscription : forall tr s, run init tr s -> lost (replay tr) <> [] ->
  l s = L_defer \/ l s = L_closed \/ l s = L_end.
Proof. exact lost_only_when_ending. Qed.

(* Several subscriptions on one connection, in any interleaving: the frames carrying the id of subscription i are
   exactly the frames of entry i — events of one subscription never appear under another id *)
Theorem frames_carry_their_own_id : forall ids tr i, (forall j, ids j = ids i -> j = i) ->
  map snd (filter (fun f => fst f =? ids i) (conn_frames ids tr)) = rev (out (replay (proj i tr))).
Proof. exact conn_frames_of. Qed.

(* ... and every entry works with the request of its own start message, whatever else the client sends
   (the per-event stitching with that request is the query pipeline of C01; the harness compares every delivered
   frame with the single server's answer for that subscription's operation, variables and event) *)
Theorem every_subscription_keeps_its_own_request : forall ms e id req,
  In (ASpawn e id req) (session ms) -> exists ok', In (MStart id req ok') ms.
Proof. exact entry_keeps_its_own_request. Qed.

(* non-vacuity *)
Example c17_nonvacuous : exists s, run init demo_run s /\ terminal s = true /\ rev (out (replay demo_run)) = [0; 1].
Proof. exact demo_is_a_run. Qed.

Print Assumptions delivered_exactly_once_in_emission_order.
Print Assumptions every_event_of_an_active_subscription_is_delivered.
Print Assumptions events_are_lost_only_to_an_ending_subscription.
Print Assumptions frames_carry_their_own_id.
Print Assumptions every_subscription_keeps_its_own_request.
