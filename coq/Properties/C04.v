(* C04 — The routing table names a real owner for every routable field.
   Statements only; proofs in Merge/TypeUrlProofs.v and Merge/Proofs.v. *)
From Coq Require Import List String Bool.
From Pebbles Require Import Merge.Model Merge.TypeUrlProofs Merge.Proofs.
Import ListNotations.
Open Scope string_scope.

(* the table computed by a successful merge is the "last declarer wins" table of the inputs *)
Theorem routes_are_last_declarer : forall inputs M tm T f,
  merge inputs = MOk M tm -> tm_get tm T f = last_set T f (all_ops inputs).
Proof. intros inputs M tm T f H. rewrite (merge_routes _ _ _ H). apply route_is_last_writer. Qed.

(* a route always names a configured service whose schema declares that field on that (object) type *)
Theorem routes_owned : forall inputs T f u,
  tm_get (tm_of inputs) T f = Some u -> exists s, In (u, s) inputs /\ declares s T f.
Proof. exact route_sound. Qed.

(* no routable field of any service is left without a route; a field with a single declarer (every root
   field, every non-id field of a Node type) is routed to exactly that service *)
Theorem routes_total : forall inputs u s T f,
  In (u, s) inputs -> declares s T f -> exists u', tm_get (tm_of inputs) T f = Some u'.
Proof. exact route_total. Qed.

Theorem unique_declarer_is_the_route : forall inputs u s T f,
  In (u, s) inputs -> declares s T f ->
  (forall u' s', In (u', s') inputs -> declares s' T f -> u' = u) ->
  tm_get (tm_of inputs) T f = Some u.
Proof. exact route_unique_owner. Qed.

(* every non-id routable field of every object type OF THE MERGED SCHEMA is routed to a service that declares it *)
Theorem merged_fields_routed : forall inputs M tm D fld,
  (forall u s, In (u, s) inputs -> wf_schema s) -> merge inputs = MOk M tm ->
  In D M -> d_kind D = KObject -> is_builtin (d_name D) = false -> d_name D <> "Node" ->
  In fld (d_fields D) -> routable fld = true -> f_name fld <> "id" ->
  exists u s, tm_get tm (d_name D) (f_name fld) = Some u /\ In (u, s) inputs /\ declares s (d_name D) (f_name fld).
Proof. exact merged_field_has_route. Qed.

(* stitchable-by-id flag  <->  some service declares the object type as implementing Node *)
Theorem node_flag_iff_implements : forall inputs T,
  tm_is_node (tm_of inputs) T = Some true <-> node_object inputs T.
Proof. exact node_flag_iff. Qed.

(* the set of routed services is exactly the set of services some field is routed to
   (each of which, by routes_owned, is a configured service declaring that field) *)
Theorem routed_services_exact : forall inputs u,
  In u (tm_urls (tm_of inputs)) <-> exists T f, tm_get (tm_of inputs) T f = Some u.
Proof. exact urls_exact. Qed.

(* ---- the table as the planner reads it (PlanningContext.GetURL) ---- *)

(* a root field goes to the one service that declared it — asked from any parent service (fb), at any depth
   of any operation: the function has no other input than the table, the type, the field and fb *)
Theorem root_field_goes_to_its_declarer : forall inputs u s T f fb,
  is_root T = true ->
  In (u, s) inputs -> declares s T f ->
  (forall u' s', In (u', s') inputs -> declares s' T f -> u' = u) ->
  get_url (tm_of inputs) T f fb = RUrl u.
Proof. exact Merge.TypeUrlProofs.root_field_goes_to_its_declarer. Qed.

(* every routed field of a root type or of a type stitchable by id is read as its route *)
Theorem routed_field_is_read_as_routed : forall tm T f fb u,
  is_builtin f = false -> tm_get tm T f = Some u ->
  is_root T = true \/ tm_is_node tm T = Some true ->
  get_url tm T f fb = RUrl u.
Proof. exact get_url_routed. Qed.

(* fields of a type that is neither a root nor stitchable stay with the service of the parent step *)
Theorem shared_type_stays_with_parent : forall tm T f fb,
  tm_is_node tm T = Some false -> is_root T = false -> fb <> internal_service ->
  get_url tm T f fb = RUrl fb.
Proof. exact Merge.TypeUrlProofs.shared_type_stays_with_parent. Qed.

(* non-vacuity *)
Definition exA : schema :=
  [mkDef KInterface "Node" "" [] [mkField "id" [] "ID!"] [] [];
   mkDef KObject "N0" "" ["Node"] [mkField "id" [] "ID!"; mkField "a" [] "String"] [] [];
   mkDef KObject "Query" "" [] [mkField "qa" [] "N0"; mkField "node" [mkArg "id" "ID!" None] "Node"] [] []].
Definition exB : schema :=
  [mkDef KInterface "Node" "" [] [mkField "id" [] "ID!"] [] [];
   mkDef KObject "N0" "" ["Node"] [mkField "id" [] "ID!"; mkField "b" [] "String"] [] [];
   mkDef KObject "Query" "" [] [mkField "qb" [] "N0"] [] []].
Example c04_nonvacuous :
  exists M tm, merge [("A", exA); ("B", exB)] = MOk M tm /\ wf_schemab exA = true /\ wf_schemab exB = true /\
    tm_get tm "N0" "a" = Some "A" /\ tm_get tm "N0" "b" = Some "B" /\ tm_get tm "Query" "qb" = Some "B" /\
    tm_get tm "Query" "node" = None /\ tm_is_node tm "N0" = Some true /\ tm_is_node tm "Query" = Some false.
Proof. eexists. eexists. split; [vm_compute; reflexivity|]. repeat split. Qed.
(* Query.qb asked from service A (say below a mutation payload served by A) still goes to B *)
Example c04_route_nonvacuous :
  get_url (tm_of [("A", exA); ("B", exB)]) "Query" "qb" "A" = RUrl "B" /\
  get_url (tm_of [("A", exA); ("B", exB)]) "N0" "a" "B" = RUrl "A".
Proof. split; vm_compute; reflexivity. Qed.

Print Assumptions routes_are_last_declarer.
Print Assumptions routes_owned.
Print Assumptions routes_total.
Print Assumptions unique_declarer_is_the_route.
Print Assumptions merged_fields_routed.
Print Assumptions node_flag_iff_implements.
Print Assumptions routed_services_exact.
Print Assumptions root_field_goes_to_its_declarer.
Print Assumptions routed_field_is_read_as_routed.
Print Assumptions shared_type_stays_with_parent.
