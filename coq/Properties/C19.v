(* C19 — File uploads arrive at the owning service unchanged (extraction / forwarding part; the
   attachment part, injectFile, is covered by Net/Decode.v and Properties/C07.v).
   Statements only; proofs in Net/FilesProofs.v. *)
From Coq Require Import List String Bool Arith.
From Pebbles Require Import Base.Json Net.Files Net.FilesProofs.
Import ListNotations.
Open Scope string_scope.

(* For every variable tree (objects, lists, any nesting, any number of uploads, the same upload at several paths):
   the variables forwarded in `operations` are the original ones with exactly the uploads replaced by null *)
Theorem vars_nulled_exactly_at_uploads : forall (j : json) (path : list seg), fst (extract j path) = null_files j.
Proof. exact extract_nulls_exactly. Qed.

(* every map position names a place that held that upload in the client's variables and holds null in the forwarded ones *)
Theorem positions_point_to_uploads : forall (j : json) (pre : list seg), wf_tree j ->
  exists rel, strip pre (snd (extract j pre)) rel /\
    forall p k, In (p, k) rel -> get_path p j = Some (JFile k) /\ get_path p (null_files j) = Some JNull.
Proof. exact extract_items_sound. Qed.

(* one file part per upload, listing exactly the positions where that upload occurs *)
Theorem one_part_per_upload : forall items,
  NoDup (map fst (group_items items)) /\
  forall k p, (exists ps, In (k, ps) (group_items items) /\ In p ps) <-> In (p, k) items.
Proof. exact group_items_spec. Qed.

(* and each part carries the complete bytes of its file, also when the upload is used at several paths *)
Theorem every_part_has_the_full_bytes : forall items fs,
  Forall (fun part => snd part = lookup_file (fst (fst part)) fs) (encode_groups (group_items items) fs).
Proof. intros. apply groups_carry_full_content. apply (proj1 (group_items_spec items)). Qed.

(* The pinned tree sent one part per OCCURRENCE and drained the reader: with that encoding the statement is false
   (kept as the refutation that motivated fix d5310c8). *)
Theorem per_occurrence_encoding_refuted :
  exists items fs, ~ Forall (fun part => snd part = lookup_file (snd (fst part)) fs) (encode_parts items fs).
Proof.
  exists [([Key "a"], 0); ([Key "b"], 0)], [(0, [1; 2; 3])]. intros H.
  cbn in H. inversion H as [|? ? _ H2]; subst. inversion H2 as [|? ? H3 _]; subst. cbn in H3. discriminate.
Qed.

Example c19_nonvacuous :
  forward [("a", JFile 0); ("o", JObj [("l", JArr [JNull; JFile 1; JFile 0])]); ("s", JStr "x")] [(0, [1; 2]); (1, [3])]
  = ([("a", JNull); ("o", JObj [("l", JArr [JNull; JNull; JNull])]); ("s", JStr "x")],
     [(0, [[Key "a"]; [Key "o"; Key "l"; Idx 2]], [1; 2]); (1, [[Key "o"; Key "l"; Idx 1]], [3])]).
Proof. reflexivity. Qed.

Print Assumptions vars_nulled_exactly_at_uploads.
Print Assumptions positions_point_to_uploads.
Print Assumptions one_part_per_upload.
Print Assumptions every_part_has_the_full_bytes.
Print Assumptions per_occurrence_encoding_refuted.
