(* C01 — Federated execution returns what a single server would return (PARTIAL: the stitching/scrubbing layer).
   Statements only. The full statement quantifies over a model of the whole planner + executor, which this
   development does not (yet) contain; what is proved here are the layers "insertion points are read back exactly"
   and "scrubbing removes exactly the registered helpers", plus the pieces proved under C09/C11/C12/C13. The
   end-to-end claim is decided by the check on the real gateway against a single-server reference evaluator. *)
From Coq Require Import List String Ascii Bool Arith.
From Pebbles Require Import Base.Json Base.Str Exec.Scrub Exec.ScrubProofs Exec.PointData Exec.Points Exec.PointsProofs.
Import ListNotations.
Open Scope string_scope.
Open Scope list_scope.

(* Insertion points: whatever characters the entity id contains, the point written for a list entry / an object /
   an intermediate list step is read back as exactly (response key, index, id) *)
Theorem insertion_point_round_trip_list : forall field i id,
  has_char "#"%char field = false -> has_char ":"%char field = false ->
  extract (render_list_point field i id) = Some (mkPD field (Some i) id).
Proof. exact extract_list_point. Qed.
Theorem insertion_point_round_trip_object : forall field id,
  has_char "#"%char field = false -> has_char ":"%char field = false ->
  extract (render_obj_point field id) = Some (mkPD field None id).
Proof. exact extract_obj_point. Qed.
Theorem insertion_point_round_trip_step : forall field i,
  has_char "#"%char field = false -> has_char ":"%char field = false ->
  extract (render_list_step field i) = Some (mkPD field (Some i) "").
Proof. exact extract_list_step. Qed.

(* the pinned tree lost ids containing '#' (fixed: 57c83f6) *)
Theorem pinned_tree_lost_ids_with_hash : extract_pinned_id (render_obj_point "user" "a#b") = "".
Proof. exact pinned_split_loses_ids_with_hash. Qed.

(* Scrubbing: at the object a path ends at, exactly the helper fields picked for its type disappear and every other
   member keeps its value; along the path, every member other than the path component is untouched *)
Theorem scrub_removes_exactly_the_helpers : forall fields o k,
  assoc k (fst (clean [] fields o)) = if existsb (fun x => x =? k) (pick_fields o fields) then None else assoc k o.
Proof. exact clean_here_removes_exactly_the_helpers. Qed.
Theorem scrub_leaves_other_members : forall p rest fields o k, k <> p ->
  assoc k (fst (clean (p :: rest) fields o)) = assoc k o.
Proof. exact clean_leaves_other_members. Qed.

(* Refutation at this layer (listed finding C01-node-fragment-in-object): a helper registered under a type the
   object does not have is not removed, so "nothing the client did not ask for appears" is false of the mechanism *)
Theorem registered_helper_can_leak :
  exists fields o, assoc "__typename" (fst (clean [] fields o)) <> None /\
                   existsb (fun e => existsb (String.eqb "__typename") (snd e)) fields = true.
Proof. exact helper_under_other_type_leaks. Qed.

(* ---- which places the dependent steps are run for (executor.FindInsertionPoints / FindSelection) ---- *)
(* whenever the result conforms to the selection along the path (no null on the way, lists of objects, an id on the
   objects at its end — or, in a list, nothing but __typename: a member type nothing is selected for), every place is
   found: the places below a list are, in order, the places below each of its entries that carries an id — none
   skipped, none twice, no error *)
Theorem every_place_of_a_conforming_result_is_found : forall rest ss chunk branch,
  Conf rest ss chunk -> points_go rest ss chunk branch = POk (paths rest ss chunk branch).
Proof. exact every_place_is_found. Qed.
Theorem places_extend_the_starting_point : forall rest ss chunk branch p, In p (paths rest ss chunk branch) ->
  List.length p = List.length branch + List.length rest /\ firstn (List.length branch) p = branch.
Proof. exact paths_extend. Qed.
(* ... and the places found are the places the dependent results are merged into: followed point by point the way
   ExtractValueModifyingSource reads them (through the round-trip theorems above, whatever the ids contain), a found
   path leads to exactly the object whose id it ends with *)
Theorem found_places_lead_to_the_objects_they_name : forall rest ss chunk branch p,
  Forall clean_key rest -> In p (paths rest ss chunk branch) ->
  exists q o, p = branch ++ q /\ resolve q chunk = Some o /\ (rest <> [] -> last_id q = id_of o).
Proof. exact found_places_are_where_results_go. Qed.
(* the selection of a path element is the field of the current level (after fix 61dcc21; the pinned depth-first search
   returned a same-named field nested in an earlier sibling: depth_first_was_shadowed) *)
Theorem the_selection_of_this_level_wins : forall p ss c,
  find (fun c => fkey c =? p) ss = Some c -> find_selection p ss = Some c.
Proof. exact level_first. Qed.
(* what was the listed finding C01-union-member-without-fields, at this layer: a list entry that carries nothing but
   __typename is passed over, the others are found (since fix ba7bf6b; before it the whole list came back empty) *)
Theorem an_entry_with_nothing_but_typename_is_passed_over :
  Conf ["beings"] beings_sel beings_result /\
  find_points ["beings"] beings_sel beings_result [] = POk [["beings:1#p1"]] /\
  paths ["beings"] beings_sel beings_result [] = [["beings:1#p1"]].
Proof. exact an_entry_without_id_is_passed_over. Qed.

Print Assumptions insertion_point_round_trip_list.
Print Assumptions insertion_point_round_trip_object.
Print Assumptions insertion_point_round_trip_step.
Print Assumptions pinned_tree_lost_ids_with_hash.
Print Assumptions scrub_removes_exactly_the_helpers.
Print Assumptions scrub_leaves_other_members.
Print Assumptions registered_helper_can_leak.
Print Assumptions every_place_of_a_conforming_result_is_found.
Print Assumptions places_extend_the_starting_point.
Print Assumptions the_selection_of_this_level_wins.
Print Assumptions an_entry_with_nothing_but_typename_is_passed_over.
Print Assumptions found_places_lead_to_the_objects_they_name.
