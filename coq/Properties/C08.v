(* C08 — Batched requests are answered in order and independently.
   Statements only; proofs in Net/BatchRespProofs.v and Conc/AMRProofs.v. *)
From Coq Require Import List Arith Bool Permutation.
From Pebbles Require Import Base.Json Net.BatchResp Net.BatchRespProofs Conc.AMR Conc.AMRProofs.
Import ListNotations.

(* whatever the completion order of the per-operation goroutines, slot i of the response is the result of operation i *)
Theorem placement_is_order_independent : forall (A : Type) (results : list A) (pi : list (nat * A)),
  Permutation pi (indexed results) -> place_results (length results) pi = map Some results.
Proof. intros A. exact (@placement_order_independent A). Qed.

Theorem empty_batch_gives_empty_array : forall A : Type, place_results 0 (@nil (nat * A)) = [].
Proof. intros. reflexivity. Qed.

(* Composition with C20: the batch is run by AsyncMapReduce with mapFunc i = (i, handle1 (op i)) and the placing
   reducer; under EVERY interleaving of workers, reducer and caller, what the caller returns is map handle1 ops. *)
Section WithAMR.
Variables (Op R : Type) (handle1 : Op -> R) (ops : list Op) (dflt : Op).

Definition mapf (i : nat) : (nat * R) + unit := inl (i, handle1 (nth i ops dflt)).
Definition redf (acc : list (option R)) (v : nat * R) := list_set (fst v) (Some (snd v)) acc.

Lemma successes_are_indexed :
  flat_map (succ_of nat (nat * R) unit mapf) (seq 0 (length ops)) = indexed (map handle1 ops).
Proof.
  unfold indexed. rewrite map_length.
  assert (H : forall k l, (forall j, j < length l -> nth (k + j) ops dflt = nth j l dflt) ->
              flat_map (succ_of nat (nat * R) unit mapf) (seq k (length l)) = combine (seq k (length l)) (map handle1 l)).
  { intros k l. revert k. induction l as [|x t IH]; intros k Hn; cbn [length seq flat_map map combine]; [reflexivity|].
    unfold succ_of at 1, mapf at 1. cbn [app]. f_equal.
    - f_equal. f_equal. specialize (Hn 0 ltac:(cbn; auto with arith)). rewrite Nat.add_0_r in Hn. exact Hn.
    - apply IH. intros j Hj. specialize (Hn (S j) ltac:(cbn; auto with arith)). rewrite Nat.add_succ_r in Hn. exact Hn. }
  apply (H 0 ops). intros j _. reflexivity.
Qed.

Theorem batch_is_pointwise_under_every_interleaving : forall s,
  AMR.reach nat (nat * R) (list (option R)) unit mapf redf
            (AMR.init nat (nat * R) (list (option R)) unit (repeat None (length ops)) (seq 0 (length ops))) s ->
  cal s = CRet ->
  acc s = map (fun o => Some (handle1 o)) ops.
Proof.
  intros s Hr Hc.
  destruct (amr_returns_correct nat (nat * R) (list (option R)) unit mapf redf _ _ s Hr Hc) as (_ & _ & _ & Hp & Ha & _).
  rewrite Ha. rewrite successes_are_indexed in Hp.
  pose proof (placement_order_independent (map handle1 ops) (hist s) Hp) as H.
  unfold place_results in H. rewrite map_length in H. unfold redf. rewrite H. now rewrite map_map.
Qed.
End WithAMR.

Example c08_nonvacuous : place_results 3 [(2, 30); (0, 10); (1, 20)] = [Some 10; Some 20; Some 30].
Proof. reflexivity. Qed.

Print Assumptions placement_is_order_independent.
Print Assumptions empty_batch_gives_empty_array.
Print Assumptions batch_is_pointwise_under_every_interleaving.
