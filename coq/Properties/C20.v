(* C20 — The parallel map/reduce helper maps every item once and reduces serially.
   Statements only; proofs live in Conc/AMRProofs.v and Conc/AMRAccept.v. *)
From Coq Require Import List Arith Bool Permutation.
From Pebbles Require Import Conc.AMR Conc.AMRProofs Conc.AMRAccept.
Import ListNotations.

Section C20.
Variables (T P A E : Type) (mapf : T -> P + E) (redf : A -> P -> A) (acc0 : A).

Notation reach := (reach T P A E mapf redf).
Notation init := (init T P A E acc0).
Notation step := (step T P A E mapf redf).

(* For every input list, every map function (any success/error pattern) and every interleaving
   (every state reachable in the LTS): once the caller has returned,
   - the workers are exactly the items, each has applied mapFunc exactly once and has nothing left to do
     but run its deferred exit;
   - the reducer goroutine has received the done signal (it is exiting or has exited);
   - reduceFunc has been applied exactly once to every successful map result (hist is a permutation of
     all successes) and the returned accumulator is the fold of reduceFunc over that sequence;
   - the returned errors are exactly the failures (as a multiset). *)
Theorem amr_correct : forall (items : list T) s,
  reach (init items) s -> cal s = CRet ->
  map w_item (ws s) = items /\
  Forall (fun w => w_maps w = 1 /\ (w_st w = WSent \/ w_st w = WDone)) (ws s) /\
  (red s = RGotDone \/ red s = RExit) /\
  Permutation (hist s) (flat_map (succ_of T P E mapf) items) /\
  acc s = fold_left redf (hist s) acc0 /\
  Permutation (errs s) (flat_map (fail_of T P E mapf) items).
Proof. exact (amr_returns_correct T P A E mapf redf acc0). Qed.

(* reduceFunc is never running twice at the same time, in any state whatsoever *)
Theorem amr_reduce_serial : forall s : st T P A E, inred T P A E s <= 1.
Proof. exact (reduce_serial T P A E). Qed.

(* no deadlock: a reachable state in which some goroutine has not finished can always take a step *)
Theorem amr_no_deadlock : forall (items : list T) s,
  reach (init items) s -> ~ final T P A E s -> exists l s', step s l s'.
Proof. exact (amr_progress T P A E mapf redf acc0). Qed.

(* all executions are finite; with amr_no_deadlock every maximal execution ends in [final]:
   caller returned, reducer goroutine exited, every worker goroutine exited (no goroutine left behind) *)
Theorem amr_terminates : well_founded (fun s' s : st T P A E => exists l, step s l s').
Proof. exact (amr_terminates T P A E mapf redf). Qed.

(* tie to the code: a trace of hook events accepted by the executable acceptor is a run of the LTS *)
Theorem amr_accepted_traces_are_runs :
  forall (eqT : T -> T -> bool) (eqP : P -> P -> bool) (eqE : E -> E -> bool),
  (forall a b, eqP a b = true -> a = b) -> (forall a b, eqE a b = true -> a = b) ->
  forall s0 tr s,
  accepts T P A E mapf redf eqT eqP eqE s0 tr = Some s -> AMR.reach T P A E mapf redf s0 s.
Proof. exact (accepts_sound T P A E mapf redf). Qed.

End C20.

(* non-vacuity: a concrete run of 2 items (item 1 fails) reaching CRet *)
Example c20_nonvacuous :
  let mapf := fun x : nat => if x =? 1 then inr x else inl x : nat + nat in
  let redf := fun (a : list nat) p => a ++ [p] in
  exists s, accepts nat nat (list nat) nat mapf redf Nat.eqb Nat.eqb Nat.eqb (init nat nat (list nat) nat [] [0;1])
    [LWStart 0; LPrewait; LSelect; LWStart 1; LWMapped 1 true; LRecvErr 1; LWMapped 0 false; LErred; LSelect;
     LRecvRes 0; LWExit 1; LReduced; LWaited; LSelect; LSentDone; LRExit; LWExit 0] = Some s
  /\ cal s = CRet /\ acc s = [0] /\ errs s = [1].
Proof. eexists. split; [vm_compute; reflexivity|]. repeat split. Qed.

Print Assumptions amr_correct.
Print Assumptions amr_reduce_serial.
Print Assumptions amr_no_deadlock.
Print Assumptions amr_terminates.
Print Assumptions amr_accepted_traces_are_runs.
