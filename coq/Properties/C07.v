(* C07 — Every HTTP request gets a well-formed response; none can crash the gateway (decoding part).
   Statements only; proofs in Net/DecodeProofs.v. *)
From Coq Require Import NArith List String Bool Arith.
From Pebbles Require Import Base.Json Net.Decode Net.DecodeProofs.
Import ListNotations.
Open Scope string_scope.

(* For every body (any bytes) and whatever encoding/json makes of it (any JSON tree, or not JSON at all),
   decoding a JSON request never dereferences nil and never indexes out of range. *)
Theorem decode_never_panics : forall (body : list N) (j : option json), parse_request body j <> PPanic.
Proof. exact parse_request_no_panic. Qed.

(* For every multipart layout: any operations field, any file map (absent, empty, any paths whatsoever,
   including out-of-range / negative / non-numeric indexes and paths that are too short), any set of
   present file parts: no panic. *)
Theorem multipart_never_panics : forall ops_body ops_json filemap present,
  parse_multipart ops_body ops_json filemap present <> PPanic.
Proof. exact parse_multipart_no_panic. Qed.

(* so the handler always picks a status, 422 exactly for undecodable requests and 200 otherwise *)
Theorem status_is_422_or_200 : forall body j,
  status_of (parse_request body j) = Some 422 \/ status_of (parse_request body j) = Some 200.
Proof. intros. apply status_total, parse_request_no_panic. Qed.

Theorem status_422_iff_undecodable : forall p, status_of p = Some 422 <-> p = PErr.
Proof. exact status_422_iff. Qed.

(* what is handed to validation/planning: in single mode exactly one request; every request has a query *)
Theorem decoded_requests_wellformed : forall body j b rs, parse_request body j = POk b rs ->
  (b = false -> List.length rs = 1) /\ Forall (fun r => rq_query r <> "") rs.
Proof. exact parse_request_ok. Qed.

(* non-vacuity: the inputs that used to crash the pinned tree are now errors, and a good upload is placed *)
Example c07_former_crashes :
  parse_request [91; 110; 117; 108; 108; 93]%N (Some (JArr [JNull])) = PErr /\
  inject_path true [mkReq "{x}" (Some [("f", JNull)]) None] 0 "0" = JErr /\
  inject_path true [mkReq "{x}" (Some [("f", JNull)]) None] 0 "5.variables.f" = JErr /\
  inject_path false [mkReq "{x}" (Some [("f", JArr [JNull])]) None] 0 "variables.f.-1" = JErr /\
  inject_path false [mkReq "{x}" (Some [("f", JArr [JNull; JNull])]) None] 7 "variables.f.1"
    = JOk [mkReq "{x}" (Some [("f", JArr [JNull; JFile 7])]) None].
Proof. repeat split; reflexivity. Qed.

Print Assumptions decode_never_panics.
Print Assumptions multipart_never_panics.
Print Assumptions status_is_422_or_200.
Print Assumptions status_422_iff_undecodable.
Print Assumptions decoded_requests_wellformed.
