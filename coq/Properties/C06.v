(* C06 — Each mutation root field reaches its owning service exactly once.
   Statements only; proofs in Plan/Root.v, Exec/DedupProofs.v (and C11's Net/BatchProofs.v for the HTTP level). *)
From Coq Require Import List String Bool Arith Permutation.
From Pebbles Require Import Plan.Root Exec.Dedup Exec.DedupProofs Base.ListX Net.Batch Net.BatchProofs.
Import ListNotations.
Open Scope string_scope.

(* planner: every selected root field is put into exactly one root step, the one of the service that owns it *)
Theorem root_field_in_exactly_one_step : forall (F : Type) (owner : F -> string) (urls : list string) (fields : list F),
  NoDup urls -> (forall f, In f fields -> In (owner f) urls) ->
  Permutation (List.concat (map snd (route_root owner urls fields))) fields /\
  Forall (fun g => Forall (fun f => owner f = fst g) (snd g)) (route_root owner urls fields).
Proof. intros F. exact (@root_fields_partitioned F). Qed.

(* planner: only steps with an empty insertion point carry the client's `mutation` keyword; every follow-up lookup is a query *)
Theorem followup_steps_are_queries : forall ip op, ip <> [] -> step_keyword ip op = OQuery.
Proof. exact followups_are_queries. Qed.
Theorem root_steps_keep_the_keyword : forall op, step_keyword [] op = op.
Proof. exact root_steps_carry_the_client_keyword. Qed.

(* executor: root steps are never merged by the de-duplication bookkeeping; all of them are sent, in order, once *)
Theorem root_requests_never_deduplicated : forall index r, er_root_parent r = true -> key_of index r = KUnique index.
Proof. exact root_requests_unique. Qed.
Theorem every_root_request_sent_once : forall rs, Forall (fun r => er_root_parent r = true) rs ->
  snd (build rs 0 [] []) = seq 0 (List.length rs).
Proof. exact all_root_requests_are_sent. Qed.

(* queryer: whatever the batch size and completion order, every request is carried by exactly one HTTP call (C11) *)
Theorem each_request_in_one_http_call : forall (Q : Type) (isfile : Q -> bool) (inputs : list Q) m, 1 <= m ->
  Permutation (List.concat (all_calls isfile m inputs)) inputs.
Proof. intros. apply all_calls_concat. assumption. Qed.

Example c06_nonvacuous :
  route_root (fun f : string => if f =? "saveAuthor" then "A" else "B") ["A"; "B"; "C"] ["saveMovie"; "saveAuthor"; "rateMovie"]
  = [("A", ["saveAuthor"]); ("B", ["saveMovie"; "rateMovie"])].
Proof. reflexivity. Qed.

Print Assumptions root_field_in_exactly_one_step.
Print Assumptions followup_steps_are_queries.
Print Assumptions root_steps_keep_the_keyword.
Print Assumptions root_requests_never_deduplicated.
Print Assumptions every_root_request_sent_once.
Print Assumptions each_request_in_one_http_call.
