(* C03 — The merged schema is exactly the union of the service schemas.
   Statements only; proofs in Merge/Proofs.v. *)
From Coq Require Import List String Bool.
From Pebbles Require Import Merge.Model Merge.TypeUrlProofs Merge.Proofs Merge.SupProofs.
Import ListNotations.
Open Scope string_scope.

Definition has_field (s : schema) (T : string) (fld : field) : Prop :=
  exists d, In d s /\ d_name d = T /\ In fld (d_fields d).

(* The full statement (field level): the merged schema has every field record of every service, and nothing else. *)
Definition C03_full : Prop := forall inputs M tm,
  (forall u s, In (u, s) inputs -> wf_schema s) -> merge inputs = MOk M tm ->
  (forall u s T fld, In (u, s) inputs -> has_field s T fld -> is_builtin T = false -> has_field M T fld) /\
  (forall T fld, has_field M T fld -> exists u s, In (u, s) inputs /\ has_field s T fld).

(* It is false of the faithful model (and of the code: listed finding C03-node-interface-fields): the Node interface is
   never compared, the accumulated definition stays; a field another service declares on it is lost.
   (Earlier witnesses, repaired since: the Relay entry point lost unless the last service declared it, C03-node-lost;
   V{x:Int} and V{x:String} merging into one signature, C03-field-signature — now rejected, see C05.) *)
Definition wA : schema :=
  [mkDef KInterface "Node" "" [] [mkField "id" [] "ID!"] [] [];
   mkDef KObject "N0" "" ["Node"] [mkField "id" [] "ID!"; mkField "a" [] "String"] [] [];
   mkDef KObject "Query" "" [] [mkField "qa" [] "N0"; mkField "node" [mkArg "id" "ID!" None] "Node"] [] []].
Definition wB : schema :=
  [mkDef KInterface "Node" "" [] [mkField "id" [] "ID!"] [] [];
   mkDef KObject "N0" "" ["Node"] [mkField "id" [] "ID!"; mkField "b" [] "String"] [] [];
   mkDef KObject "Query" "" [] [mkField "qb" [] "N0"] [] []].
Definition nA : schema :=
  [mkDef KInterface "Node" "" [] [mkField "id" [] "ID!"] [] [];
   mkDef KObject "N0" "" ["Node"] [mkField "id" [] "ID!"; mkField "a" [] "String"] [] [];
   mkDef KObject "Query" "" [] [mkField "qa" [] "N0"] [] []].
Definition nB : schema :=
  [mkDef KInterface "Node" "" [] [mkField "id" [] "ID!"; mkField "createdAt" [] "String"] [] [];
   mkDef KObject "N1" "" ["Node"] [mkField "id" [] "ID!"; mkField "createdAt" [] "String"] [] [];
   mkDef KObject "Query" "" [] [mkField "qb" [] "N1"] [] []].

Theorem C03_refuted : ~ C03_full.
Proof.
  intros H.
  destruct (merge [("A", nA); ("B", nB)]) as [|es|M tm] eqn:E; try (vm_compute in E; discriminate).
  assert (Hwf : forall u s, In (u, s) [("A", nA); ("B", nB)] -> wf_schema s).
  { intros u s [X|[X|[]]]; inversion X; subst; apply wf_schemab_ok; vm_compute; reflexivity. }
  destruct (H _ _ _ Hwf E) as [Hsup _].
  assert (Hf : has_field nB "Node" (mkField "createdAt" [] "String")).
  { exists (mkDef KInterface "Node" "" [] [mkField "id" [] "ID!"; mkField "createdAt" [] "String"] [] []). cbn. repeat split; auto. }
  destruct (Hsup "B" nB "Node" _ (or_intror (or_introl eq_refl)) Hf eq_refl) as (d & Hd & Hn & Hfld).
  vm_compute in E. inversion E; subst M. cbn in Hd.
  repeat (destruct Hd as [Hd|Hd]; [subst d; cbn in Hn; try discriminate Hn; cbn in Hfld;
     repeat (destruct Hfld as [Hfld|Hfld]; [discriminate Hfld|]); try contradiction|]); contradiction.
Qed.

(* The part that is proved, for any number of services in any order (C03_partial): *)

(* (1) nothing invented: every field record of every merged type is a field record of the same-named type of some service *)
Theorem merged_subset : forall inputs M tm T fld,
  (forall u s, In (u, s) inputs -> wf_schema s) -> merge inputs = MOk M tm ->
  has_field M T fld -> exists u s, In (u, s) inputs /\ has_field s T fld.
Proof.
  intros inputs M tm T fld Hwf Hm (D & HD & Hn & Hf).
  destruct (merge_inv _ _ _ Hwf Hm) as [_ Isub _].
  destruct (Isub D fld HD Hf) as (u & s & d & Hi & Hd & Hdn & Hfd).
  exists u, s. split; [exact Hi|]. exists d. repeat split; auto. congruence.
Qed.

(* (2) every type of every service is in the merged schema, once, with the same kind *)
Theorem merged_has_every_type : forall inputs M tm u s d,
  (forall u s, In (u, s) inputs -> wf_schema s) -> merge inputs = MOk M tm ->
  In (u, s) inputs -> In d s -> is_builtin (d_name d) = false ->
  NoDup (map d_name M) /\
  exists D, In D M /\ d_name D = d_name d /\ (d_name d <> "Node" -> d_kind D = d_kind d).
Proof.
  intros inputs M tm u s d Hwf Hm Hi Hd Hb.
  destruct (merge_inv _ _ _ Hwf Hm) as [Hnd _ Isup]. split; [exact Hnd|].
  destruct (Isup u s d Hi Hd Hb) as (D & HfD & Hk).
  apply find_def_some in HfD as [HD Hn]. exists D. repeat split; auto. intros Hx. symmetry. auto.
Qed.

(* (3) the other inclusion, at the level of field names: every field name of every service's object / interface /
   input type is a field name of the same-named type of the merged schema, for any number of services in any order —
   away from `id` and built-in names; since the repair of C03-node-lost also for the Relay entry point `node`, whichever
   services declare it. Signatures: a set in which two services give a field of one name different signatures is rejected
   (C05: shared_field_with_another_signature_is_rejected), so the merged field has the signature every declaring service
   gives it up to the order of arguments. The Node interface itself is excepted (finding C03-node-interface-fields). *)
Theorem merged_has_every_field_name : forall inputs M tm u s d n,
  (forall u s, In (u, s) inputs -> wf_schema s) -> merge inputs = MOk M tm ->
  In (u, s) inputs -> In d s -> is_builtin (d_name d) = false -> d_name d <> "Node" -> fielded_kind (d_kind d) ->
  field_named n (d_fields d) = true -> n <> "id" -> is_builtin n = false ->
  exists D, In D M /\ d_name D = d_name d /\ field_named n (d_fields D) = true.
Proof. exact Merge.SupProofs.merged_has_every_field_name. Qed.

(* the node-hiding merger removes only Query.node *)
Theorem hide_node_only_removes_node : forall s D, In D (hide_node s) ->
  exists D0, In D0 s /\ d_name D = d_name D0 /\ d_kind D = d_kind D0 /\
    (forall fld, In fld (d_fields D) -> In fld (d_fields D0)) /\
    (forall fld, In fld (d_fields D0) -> (d_name D0 = "Query" /\ f_name fld = "node") \/ In fld (d_fields D)).
Proof.
  intros s D Hin. unfold hide_node in Hin. apply in_map_iff in Hin as (D0 & <- & Hin). exists D0.
  destruct (d_name D0 =? "Query") eqn:E; cbn.
  - apply String.eqb_eq in E. repeat split; auto.
    + intros fld Hf. apply filter_In in Hf. tauto.
    + intros fld Hf. destruct (f_name fld =? "node") eqn:En.
      * left. apply String.eqb_eq in En. auto.
      * right. apply filter_In. split; auto. now rewrite En.
  - repeat split; auto.
Qed.

Example c03_nonvacuous : exists M tm, merge [("B", wB); ("A", wA)] = MOk M tm /\ has_field M "N0" (mkField "a" [] "String")
   /\ has_field M "N0" (mkField "b" [] "String") /\ has_field M "Query" (mkField "node" [mkArg "id" "ID!" None] "Node").
Proof.
  eexists. eexists. split; [vm_compute; reflexivity|].
  split; [|split].
  - eexists. split; [right; left; reflexivity|]. split; [reflexivity|]. cbn. auto 10.
  - eexists. split; [right; left; reflexivity|]. split; [reflexivity|]. cbn. auto 10.
  - eexists. split; [right; right; left; reflexivity|]. split; [reflexivity|]. cbn. auto 10.
Qed.

(* the Relay entry point survives whichever service declares it (formerly the listed finding C03-node-lost) *)
Example node_is_kept_in_either_order : exists M tm, merge [("A", wA); ("B", wB)] = MOk M tm /\
  has_field M "Query" (mkField "node" [mkArg "id" "ID!" None] "Node").
Proof.
  eexists. eexists. split; [vm_compute; reflexivity|].
  eexists. split; [right; right; left; reflexivity|]. split; [reflexivity|]. cbn. auto 10.
Qed.

Print Assumptions C03_refuted.
Print Assumptions merged_subset.
Print Assumptions merged_has_every_type.
Print Assumptions hide_node_only_removes_node.
Print Assumptions merged_has_every_field_name.
