(* C13 — Planning and responses are deterministic.
   Statements only. The order-dependent places of the gateway are: Go map iteration in ScrubFields.Clean, the
   completion order of concurrent goroutines at the reducers (batch placement, chunk splicing, error collection)
   and the collection order of a level's requests. Each is a theorem below; the scrubbing one holds under the
   planner invariant `typed_at` (whenever several types are registered at a path every object there carries
   __typename), which the check verifies on every real plan/result. *)
From Coq Require Import List String Bool Arith Permutation.
From Pebbles Require Import Base.Json Exec.Scrub Exec.ScrubProofs Net.Errors Net.ErrorsProofs
     Net.BatchResp Net.BatchRespProofs Base.ListX Net.Batch Net.BatchProofs Exec.Dedup Exec.DedupProofs.
From Pebbles Require Merge.Model Plan.Sanitize Plan.SanitizeProofs.
Import ListNotations.
Open Scope string_scope.

(* ScrubFields.Clean: the helper list chosen for an object, and the whole cleaning along a path, do not depend on
   the iteration order of the typename map *)
Theorem scrub_choice_order_independent : forall o (fields fields' : typefields),
  NoDup (map fst fields) -> Permutation fields fields' ->
  (has_typename o \/ List.length fields <= 1) ->
  pick_fields o fields = pick_fields o fields'.
Proof. exact pick_fields_order_independent. Qed.

Theorem scrub_order_independent : forall path o (fields fields' : typefields),
  NoDup (map fst fields) -> Permutation fields fields' ->
  (typed_at path o \/ List.length fields <= 1) ->
  clean path fields o = clean path fields' o.
Proof. exact clean_order_independent. Qed.

(* without the invariant the choice IS order dependent: the refutation that makes the invariant necessary *)
Theorem scrub_order_dependent_without_typename :
  exists o (fields fields' : typefields), NoDup (map fst fields) /\ Permutation fields fields' /\
    clean [] fields o <> clean [] fields' o.
Proof.
  exists [("id", JStr "1"); ("x", JNum "2")], [("A", ["id"]); ("B", ["x"])], [("B", ["x"]); ("A", ["id"])].
  split; [repeat constructor; cbn; intuition discriminate|]. split; [apply perm_swap|]. cbn. discriminate.
Qed.

(* the error SET does not depend on how concurrently failing steps interleave (only the relative order may vary) *)
Theorem error_set_order_independent : forall (groups : list (list json)) pi pi',
  Permutation pi (seq 0 (List.length groups)) -> Permutation pi' (seq 0 (List.length groups)) ->
  Permutation (client_errors groups pi) (client_errors groups pi').
Proof.
  intros groups pi pi' H H'. etransitivity; [apply all_errors_reach_the_client; exact H|].
  apply Permutation_sym. apply all_errors_reach_the_client. exact H'.
Qed.

(* batch placement and chunk splicing give the same array under every completion order *)
Theorem batch_response_order_independent : forall (A : Type) (results : list A) pi pi',
  Permutation pi (indexed results) -> Permutation pi' (indexed results) ->
  place_results (List.length results) pi = place_results (List.length results) pi'.
Proof. intros A results pi pi' H H'. now rewrite !(placement_order_independent results). Qed.

Theorem chunk_splice_order_independent : forall (Q R : Type) (ans : Q -> R) isfile fails (inputs : list Q) m pi pi',
  1 <= m -> Permutation pi (chunk_indices (List.length inputs) m) -> Permutation pi' (chunk_indices (List.length inputs) m) ->
  query ans isfile fails m inputs pi = query ans isfile fails m inputs pi'.
Proof.
  intros Q R ans isfile fails inputs m pi pi' Hm H H'.
  destruct (existsb fails (all_calls isfile m inputs)) eqn:E.
  - now rewrite (query_err ans isfile fails m inputs pi Hm H E), (query_err ans isfile fails m inputs pi' Hm H' E).
  - now rewrite (query_ok ans isfile fails m inputs pi Hm H E), (query_ok ans isfile fails m inputs pi' Hm H' E).
Qed.

(* the set of downstream calls of a level does not depend on the order in which its requests were collected *)
Theorem level_calls_order_independent : forall (A : Type) (url : A -> string) (l l' : list A),
  Permutation l l' -> forall u, In u (calls_at_level url l) <-> In u (calls_at_level url l').
Proof.
  intros A url l l' Hp u.
  destruct (one_call_per_service url l) as (_ & _ & _ & H). destruct (one_call_per_service url l') as (_ & _ & _ & H').
  rewrite H, H'. split; intros (x & Hx & Hu); exists x; split; auto; [eapply Permutation_in; eauto|eapply Permutation_in; [apply Permutation_sym|]; eauto].
Qed.

(* where the hypothesis of scrub_order_independent comes from, at a field of a union or interface type: the selection
   the sanitizer leaves there asks for __typename on that very level, so every object comes back with it, whatever its
   type (sanitizeSelectionSet as modelled in Plan/Sanitize.v and compared with the code by C02's check; since fix
   a47d390 — before it a __typename inside one fragment suppressed the helper for all the other types) *)
Theorem abstract_selections_carry_typename : forall tm sc ss t is_fragment,
  Sanitize.kind_of sc t <> Sanitize.KOther ->
  Sanitize.has_direct (fst (Sanitize.add_scrub_fields tm sc ss t is_fragment)) "__typename" = true.
Proof. exact SanitizeProofs.abstract_selection_has_typename. Qed.

Example c13_nonvacuous :
  clean ["u"] [("A", ["id"; "__typename"]); ("B", ["__typename"])]
        [("u", JArr [JObj [("__typename", JStr "A"); ("id", JStr "1"); ("x", JNum "1")]; JObj [("__typename", JStr "B")]])]
  = ([("u", JArr [JObj [("x", JNum "1")]; JObj []])], false).
Proof. reflexivity. Qed.

Print Assumptions scrub_choice_order_independent.
Print Assumptions scrub_order_independent.
Print Assumptions scrub_order_dependent_without_typename.
Print Assumptions error_set_order_independent.
Print Assumptions batch_response_order_independent.
Print Assumptions chunk_splice_order_independent.
Print Assumptions level_calls_order_independent.
Print Assumptions abstract_selections_carry_typename.
