(* Proofs about Plan/Steps.v, third part: the plan as a whole. Every field selection of the sanitized operation is in
   exactly one step of the plan (the gateway's node wrappers aside). *)
From Coq Require Import List String Bool Arith Lia.
From Pebbles Require Import Merge.Model Plan.Steps Plan.StepsProofs Plan.StepsCount.
Import ListNotations.
Open Scope string_scope.
Open Scope list_scope.

Lemma cnt_flatten_sel s : cnt_l (flatten_sel s) = cnt s.
Proof.
  induction s as [a n ty sub IH|c sub IH|c sub IH] using psel_ind2.
  - cbn [flatten_sel cnt_l]. lia.
  - cbn [flatten_sel]. rewrite flatten_go, cnt_inline. induction sub as [|x r IHr]; cbn [flat_map cnt_l]; [reflexivity|].
    inversion IH; subst. rewrite cnt_l_app. rewrite IHr by assumption. lia.
  - cbn [flatten_sel cnt_l]. lia.
Qed.
Lemma cnt_flatten ss : cnt_l (flatten ss) = cnt_l ss.
Proof.
  unfold flatten. induction ss as [|x r IH]; cbn [flat_map cnt_l]; [reflexivity|]. rewrite cnt_l_app, cnt_flatten_sel, IH. reflexivity.
Qed.

Section RootCount.
  Variables (tm : tmap) (ps : pschema).
  Hypothesis Hint : forall p n, tm_get tm p n <> Some internal_service.
  Hypothesis Hid : forall p, tm_get tm p "id" = None.
  Hypothesis Hif : forall i, mem i (ps_interfaces ps) = true -> tm_is_node tm i = None.
  Hypothesis Hposs : forall t d, In d (possible ps t) -> is_root d = false.

  Lemma loopc_root f ip parent loc :
    is_root parent = true -> loc <> internal_service ->
    forall l sels steps ss cs,
      Forall (at_home_root tm parent loc) l -> forallb (frag_ok tm) l = true -> forallb (conc ps) l = true ->
      extract_loop (extract f tm ps) tm ip parent loc l sels steps = Ok (ss, cs) ->
      cnt_l ss + scnt_l cs = cnt_l sels + scnt_l steps + cnt_l l.
  Proof.
    intros Hroot Hloc. induction l as [|x r IH]; intros sels steps ss cs Hh Hf Hc H; cbn [extract_loop] in H.
    - inversion H; subst. cbn [cnt_l]. lia.
    - inversion Hh as [|? ? (a & n & ty & sub & -> & Hu) Hh']; subst.
      cbn [forallb] in Hf, Hc. apply andb_true_iff in Hf as [Hx Hr]. apply andb_true_iff in Hc as [Hcx Hcr].
      assert (Hb : is_builtin n = false).
      { destruct (is_builtin n) eqn:Eb; [|reflexivity]. unfold get_url in Hu. rewrite Eb in Hu. inversion Hu. congruence. }
      rewrite (get_url_root tm parent n loc internal_service Hroot Hb), Hu, String.eqb_refl in H.
      cbn [cnt_l]. rewrite cnt_field. destruct sub as [|x0 sub'].
      + apply (IH _ _ _ _ Hh' Hr Hcr) in H. rewrite cnt_l_app in H. cbn [cnt_l] in H. rewrite cnt_field in H. cbn [cnt_l] in *. lia.
      + rewrite frag_field in Hx. rewrite conc_field in Hcx.
        destruct (extract f tm ps (ip ++ [a]) ty (x0 :: sub') loc) as [[ss' cs']| | |] eqn:R; try discriminate.
        pose proof (extract_counts tm ps Hint Hid Hif Hposs f _ _ _ _ _ _ (root_of_frags tm _ _ Hx) Hloc Hx Hcx R) as Hcount.
        apply (IH _ _ _ _ Hh' Hr Hcr) in H. rewrite cnt_l_app, scnt_l_app in H. cbn [cnt_l] in H. rewrite cnt_field in H. lia.
  Qed.
End RootCount.

Definition routedb (tm : tmap) (parent loc : string) (s : psel) : bool :=
  match s with
  | PField _ n _ _ => match get_url tm parent n internal_service with RUrl u => u =? loc | _ => false end
  | _ => false
  end.

Lemma root_group_filter tm parent loc fields : forall l,
  forallb is_field fields = true ->
  root_group tm parent fields loc = Ok l -> l = filter (routedb tm parent loc) fields.
Proof.
  induction fields as [|s r IH]; intros l Hf H; cbn [root_group fold_right] in H.
  - inversion H. reflexivity.
  - fold (root_group tm parent r loc) in H. cbn [forallb] in Hf. apply andb_true_iff in Hf as [Hs Hr].
    destruct s as [a n ty sub|c sub|c sub]; try discriminate.
    destruct (root_group tm parent r loc) as [l0| | |] eqn:R; try discriminate.
    rewrite (IH l0 Hr eq_refl) in H. cbn [filter routedb].
    destruct (get_url tm parent n internal_service) as [u| |]; try discriminate.
    destruct (u =? loc); inversion H; reflexivity.
Qed.

Lemma partition_cnt (f : string -> psel -> bool) (locs : list string) (fields : list psel) :
  NoDup locs ->
  (forall s, In s fields -> exists loc, In loc locs /\ f loc s = true /\ forall loc', f loc' s = true -> loc' = loc) ->
  fold_right (fun loc acc => cnt_l (filter (f loc) fields) + acc) 0 locs = cnt_l fields.
Proof.
  intros Hnd. induction fields as [|s r IH]; intros H.
  - clear Hnd H. induction locs as [|u t IHt]; [reflexivity|]. cbn [fold_right filter cnt_l] in *. rewrite IHt. reflexivity.
  - assert (Hr : forall s0, In s0 r -> exists loc, In loc locs /\ f loc s0 = true /\ forall loc', f loc' s0 = true -> loc' = loc)
      by (intros s0 Hs0; apply H; right; exact Hs0).
    specialize (IH Hr). destruct (H s (or_introl eq_refl)) as (loc & Hin & Hf & Huniq).
    cbn [cnt_l]. rewrite <- IH. clear IH Hr H.
    (* exactly one of the locs takes s *)
    assert (Hsum : forall ls, NoDup ls ->
               fold_right (fun l0 acc => cnt_l (filter (f l0) (s :: r)) + acc) 0 ls =
               (if existsb (String.eqb loc) ls then cnt s else 0) + fold_right (fun l0 acc => cnt_l (filter (f l0) r) + acc) 0 ls).
    { induction ls as [|u t IHt]; intros Hn; [reflexivity|]. inversion Hn as [|? ? Hnotin Hn']; subst.
      cbn [fold_right existsb]. rewrite (IHt Hn'). cbn [filter]. destruct (f u s) eqn:Fu.
      - apply Huniq in Fu. subst u. rewrite String.eqb_refl. cbn [orb cnt_l].
        assert (existsb (String.eqb loc) t = false) as ->.
        { destruct (existsb (String.eqb loc) t) eqn:Ex; [|reflexivity]. apply existsb_exists in Ex as (y & Hy & Hq).
          apply String.eqb_eq in Hq. subst y. contradiction. }
        lia.
      - destruct (loc =? u) eqn:Eq; [apply String.eqb_eq in Eq; subst u; congruence|]. cbn [orb]. lia. }
    rewrite (Hsum locs Hnd).
    assert (existsb (String.eqb loc) locs = true) as ->.
    { apply existsb_exists. exists loc. split; [exact Hin|apply String.eqb_refl]. }
    reflexivity.
Qed.

(* the plan as a whole: as many field selections in its steps as in the sanitized operation *)
Theorem plan_counts tm ps urls parent input fuel steps
  (Hint : forall p n, tm_get tm p n <> Some internal_service)
  (Hid : forall p, tm_get tm p "id" = None)
  (Hif : forall i, mem i (ps_interfaces ps) = true -> tm_is_node tm i = None)
  (Hposs : forall t d, In d (possible ps t) -> is_root d = false) :
  is_root parent = true -> mem parent (ps_interfaces ps) = false ->
  NoDup urls -> ~ In internal_service urls ->
  forallb (frag_ok tm) input = true -> forallb (conc ps) input = true ->
  (forall a n ty sub, In (PField a n ty sub) (flatten input) -> exists u, In u urls /\ get_url tm parent n internal_service = RUrl u) ->
  plan_root fuel tm ps urls parent input = Ok steps ->
  scnt_l steps = cnt_l input.
Proof.
  intros Hroot Hni Hnd Hnint Hf Hc Hrt H. unfold plan_root in H.
  destruct (has_field_named (flatten input) "node"); [discriminate|].
  pose proof (flatten_ok tm input Hf) as Hff. rewrite <- (cnt_flatten input). set (fields := flatten input) in *.
  assert (Hfields : forallb is_field fields = true).
  { apply forallb_forall. intros x Hx. rewrite forallb_forall in Hff. specialize (Hff x Hx).
    unfold fields, flatten in Hx. apply in_flat_map in Hx as (s & _ & Hx).
    clear -Hx Hff. destruct x as [xa xn xt xs|xc xs|xc xs]; [reflexivity| |cbn in Hff; discriminate].
    exfalso. revert Hx. induction s as [a n ty sub IH|c0 sub0 IH|c0 sub0 IH] using psel_ind2; cbn [flatten_sel].
    - intros [E|[]]. discriminate.
    - rewrite flatten_go. intros Hin. apply in_flat_map in Hin as (y & Hy & Hin). rewrite Forall_forall in IH. exact (IH y Hy Hin).
    - intros [E|[]]. discriminate. }
  assert (Hcf : forallb (conc ps) fields = true).
  { apply forallb_forall. intros x Hx. unfold fields, flatten in Hx. apply in_flat_map in Hx as (s & Hs & Hx).
    rewrite forallb_forall in Hc. specialize (Hc s Hs). clear -Hx Hc. revert x Hx.
    induction s as [a n ty sub IH|c0 sub0 IH|c0 sub0 IH] using psel_ind2; cbn [flatten_sel]; intros x.
    - intros [<-|[]]. exact Hc.
    - rewrite flatten_go. intros Hin. apply in_flat_map in Hin as (y & Hy & Hin). rewrite Forall_forall in IH.
      rewrite conc_inline in Hc. unfold concs in Hc. apply andb_true_iff in Hc as [_ Hc]. rewrite forallb_forall in Hc.
      exact (IH y Hy (Hc y Hy) x Hin).
    - cbn in Hc. discriminate. }
  (* the internal group is empty *)
  assert (Hint0 : root_group tm parent fields internal_service = Ok [] \/ exists e, root_group tm parent fields internal_service = e /\ forall l, e <> Ok l).
  { destruct (root_group tm parent fields internal_service) as [l| | |] eqn:R; [left|right; eexists; split; [reflexivity|intros; discriminate]
                                                                                  |right; eexists; split; [reflexivity|intros; discriminate]
                                                                                  |right; eexists; split; [reflexivity|intros; discriminate]].
    rewrite (root_group_filter _ _ _ _ _ Hfields R). f_equal.
    assert (forall x, In x fields -> routedb tm parent internal_service x = false).
    { intros x Hx. destruct x as [a n ty sub|c sub|c sub]; try reflexivity. cbn [routedb].
      destruct (Hrt a n ty sub Hx) as (u & Hu & ->). destruct (u =? internal_service) eqn:E; [|reflexivity].
      apply String.eqb_eq in E. subst u. contradiction. }
    clear -H0. induction fields as [|x r IH]; [reflexivity|]. cbn [filter]. rewrite (H0 x (or_introl eq_refl)).
    apply IH. intros y Hy. apply H0. right. exact Hy. }
  (* every step of a group holds the group's fields *)
  assert (Hsteps : forall groups steps',
             Forall (fun g => Forall (at_home_root tm parent (fst g)) (snd g) /\ forallb (frag_ok tm) (snd g) = true /\
                              forallb (conc ps) (snd g) = true /\ fst g <> internal_service) groups ->
             steps_for fuel tm ps parent groups = Ok steps' ->
             scnt_l steps' = fold_right (fun g acc => cnt_l (snd g) + acc) 0 groups).
  { induction groups as [|[loc ss] r IH]; intros steps' Hg Hs; cbn [steps_for] in Hs.
    - inversion Hs; subst. reflexivity.
    - inversion Hg as [|? ? (Hh & Hfr & Hcc & Hloc) Hg']; subst. cbn [fst snd] in *.
      destruct (extract fuel tm ps [] parent ss loc) as [[sels th]| | |] eqn:E; try discriminate.
      destruct (steps_for fuel tm ps parent r) as [rest| | |] eqn:R; try discriminate. inversion Hs; subst.
      cbn [scnt_l fold_right snd]. rewrite (IH rest Hg' eq_refl). rewrite scnt_mk. f_equal.
      destruct fuel as [|f]; cbn [extract] in E; [discriminate|].
      destruct (negb (mem parent (ps_known ps))); [discriminate|]. rewrite Hni in E.
      destruct (extract_loop (extract f tm ps) tm [] parent loc ss [] []) as [[sels0 steps0]| | |] eqn:L; try discriminate.
      inversion E; subst. rewrite cnt_finish.
      pose proof (loopc_root tm ps Hint Hid Hif Hposs f [] parent loc Hroot Hloc ss [] [] sels0 th Hh Hfr Hcc L) as Hk.
      cbn [cnt_l scnt_l] in Hk. lia. }
  assert (Hgroup : forall loc l, In loc urls -> root_group tm parent fields loc = Ok l ->
             Forall (at_home_root tm parent loc) l /\ forallb (frag_ok tm) l = true /\ forallb (conc ps) l = true /\ loc <> internal_service).
  { intros loc l Hin Hr. destruct (root_group_spec _ _ _ _ _ Hr) as [F I]. split; [exact F|]. split; [|split].
    - apply forallb_forall. intros x Hx. rewrite forallb_forall in Hff. apply Hff, I, Hx.
    - apply forallb_forall. intros x Hx. rewrite forallb_forall in Hcf. apply Hcf, I, Hx.
    - intros ->. contradiction. }
  assert (Hper : forall us groups, (forall u, In u us -> In u urls) ->
             (fix per (us : list string) : res (list (string * list psel)) :=
                match us with
                | [] => Ok []
                | u :: r => match root_group tm parent fields u, per r with
                            | Ok [], Ok rest => Ok rest
                            | Ok ss, Ok rest => Ok ((u, ss) :: rest)
                            | Ok _, e => e
                            | Err, _ => Err | Fuel, _ => Fuel | OutOfModel, _ => OutOfModel
                            end
                end) us = Ok groups ->
             Forall (fun g => Forall (at_home_root tm parent (fst g)) (snd g) /\ forallb (frag_ok tm) (snd g) = true /\
                              forallb (conc ps) (snd g) = true /\ fst g <> internal_service) groups /\
             fold_right (fun g acc => cnt_l (snd g) + acc) 0 groups =
             fold_right (fun loc acc => cnt_l (filter (routedb tm parent loc) fields) + acc) 0 us).
  { induction us as [|u r IH]; intros groups Hsub Hp.
    - inversion Hp; subst. split; [constructor|reflexivity].
    - destruct (root_group tm parent fields u) as [ss| | |] eqn:Rg; try discriminate.
      match type of Hp with context [match ?X with _ => _ end] => destruct X as [rest| | |] eqn:Rr end;
        try (destruct ss; discriminate).
      assert (Hsub' : forall u0, In u0 r -> In u0 urls) by (intros u0 Hu0; apply Hsub; right; exact Hu0).
      destruct (IH rest Hsub' eq_refl) as [IF IC].
      pose proof (root_group_filter _ _ _ _ _ Hfields Rg) as Efilt.
      destruct ss as [|x xs]; inversion Hp; subst.
      + split; [exact IF|]. cbn [fold_right]. rewrite <- Efilt. cbn [cnt_l]. exact IC.
      + split.
        * constructor; [apply (Hgroup u (x :: xs) (Hsub u (or_introl eq_refl)) Rg)|exact IF].
        * cbn [fold_right snd]. rewrite IC, <- Efilt. reflexivity. }
  match type of H with context [match ?X with _ => _ end] => destruct X as [groups| | |] eqn:P end; try discriminate.
  destruct (Hper urls groups (fun u Hu => Hu) P) as [PF PC].
  assert (Hgr : steps_for fuel tm ps parent groups = Ok steps).
  { destruct Hint0 as [E0|(e & E0 & Hne)]; rewrite E0 in H; [exact H|]. destruct e as [[|x xs]| | |]; try exact H. exfalso. exact (Hne (x :: xs) eq_refl). }
  rewrite (Hsteps groups steps PF Hgr), PC.
  apply partition_cnt; [exact Hnd|]. intros s Hs.
  rewrite forallb_forall in Hfields. specialize (Hfields s Hs). destruct s as [a n ty sub|c sub|c sub]; try discriminate.
  destruct (Hrt a n ty sub Hs) as (u & Hu & Eu). exists u. split; [exact Hu|]. cbn [routedb]. rewrite Eu. split; [apply String.eqb_refl|].
  intros loc' Hl'. apply String.eqb_eq in Hl'. congruence.
Qed.
