From Coq Require Import List String Bool Arith.
From Pebbles Require Import Base.Json Plan.Vars.
Import ListNotations.
Open Scope string_scope.
Open Scope list_scope.

Section ValueInd.
Variable P : value -> Prop.
Hypothesis Hvar : forall n, P (VVar n).
Hypothesis Hlit : forall r, P (VLit r).
Hypothesis Hlist : forall l, Forall P l -> P (VList l).
Hypothesis Hobj : forall l, Forall (fun kv => P (snd kv)) l -> P (VObj l).
Fixpoint value_ind' (v : value) : P v :=
  match v with
  | VVar n => Hvar n | VLit r => Hlit r
  | VList l => Hlist l ((fix go (l : list value) : Forall P l := match l with [] => Forall_nil _ | x :: t => Forall_cons _ (value_ind' x) (go t) end) l)
  | VObj l => Hobj l ((fix go (l : list (string * value)) : Forall (fun kv => P (snd kv)) l :=
                         match l with [] => Forall_nil _ | (k, x) :: t => Forall_cons (k, x) (value_ind' x) (go t) end) l)
  end.
End ValueInd.

Lemma vars_list l : value_vars (VList l) = flat_map value_vars l.
Proof. cbn. induction l as [|x t IH]; cbn; [reflexivity|]. now rewrite IH. Qed.
Lemma vars_obj l : value_vars (VObj l) = flat_map (fun kv => value_vars (snd kv)) l.
Proof. cbn. induction l as [|[k x] t IH]; cbn; [reflexivity|]. now rewrite IH. Qed.
Lemma raws_list x t : value_raws (VList (x :: t)) = flat_map value_raws (x :: t).
Proof. cbn [value_raws flat_map]. f_equal; try (induction t as [|y l IH]; cbn; [reflexivity|]; now rewrite IH). Qed.
Lemma raws_obj x t : value_raws (VObj (x :: t)) = flat_map (fun kv => value_raws (snd kv)) (x :: t).
Proof. destruct x as [k0 x0]. cbn [value_raws flat_map snd]. f_equal; try (induction t as [|[k y] l IH]; cbn; [reflexivity|]; now rewrite IH). Qed.

(* every variable inside an argument value is among the Raws that getVariablesList collects *)
Lemma value_vars_in_raws v : forall n, In n (value_vars v) -> In n (value_raws v).
Proof.
  induction v using value_ind'; intros n0 Hin.
  - exact Hin.
  - destruct Hin.
  - rewrite vars_list in Hin. destruct l as [|x t]; [destruct Hin|]. rewrite raws_list.
    apply in_flat_map in Hin as (y & Hy & Hin). apply in_flat_map. exists y. split; [exact Hy|].
    rewrite Forall_forall in H. now apply H.
  - rewrite vars_obj in Hin. destruct l as [|x t]; [destruct Hin|]. rewrite raws_obj.
    apply in_flat_map in Hin as (y & Hy & Hin). apply in_flat_map. exists y. split; [exact Hy|].
    rewrite Forall_forall in H. now apply (H y Hy).
Qed.

Section SelInd.
Variable P : sel -> Prop.
Hypothesis Hf : forall a n args ds sub, Forall P sub -> P (SField a n args ds sub).
Hypothesis Hi : forall c ds sub, Forall P sub -> P (SInline c ds sub).
Fixpoint sel_ind' (s : sel) : P s :=
  match s with
  | SField a n args ds sub => Hf a n args ds sub ((fix go (l : list sel) : Forall P l := match l with [] => Forall_nil _ | x :: t => Forall_cons _ (sel_ind' x) (go t) end) sub)
  | SInline c ds sub => Hi c ds sub ((fix go (l : list sel) : Forall P l := match l with [] => Forall_nil _ | x :: t => Forall_cons _ (sel_ind' x) (go t) end) sub)
  end.
End SelInd.

Lemma flat_args_incl args n : In n (flat_map (fun a : arg => value_vars (snd a)) args) -> In n (flat_map (fun a : arg => value_raws (snd a)) args).
Proof.
  induction args as [|a t IH]; cbn; [tauto|]. intros H. apply in_app_or in H as [H|H]; apply in_or_app; [left; now apply value_vars_in_raws|right; auto].
Qed.

Lemma go_flat {B} (f : sel -> list B) (l : list sel) :
  (fix go (l : list sel) := match l with [] => [] | x :: t => f x ++ go t end) l = flat_map f l.
Proof. induction l as [|x t IH]; cbn; [reflexivity|]. now rewrite IH. Qed.

Lemma sel_arg_vars_listed (s : sel) : forall n, In n (sel_arg_vars s) -> In n (sel_variables s).
Proof.
  induction s using sel_ind'; intros n0; cbn [sel_arg_vars sel_variables]; rewrite !go_flat.
  - intros Hin. apply in_app_or in Hin as [Hin|Hin]; apply in_or_app; right; apply in_or_app; [left; now apply flat_args_incl|right].
    apply in_or_app. right.
    apply in_flat_map in Hin as (x & Hx & Hin). apply in_flat_map. exists x. split; [exact Hx|].
    rewrite Forall_forall in H. now apply H.
  - intros Hin. apply in_flat_map in Hin as (x & Hx & Hin). apply in_flat_map. exists x. split; [exact Hx|].
    rewrite Forall_forall in H. now apply H.
Qed.

(* C02: every client variable used in an ARGUMENT of the sub-request is in its VariablesList ... *)
Theorem argument_variables_are_listed (ss : list sel) n : In n (arg_vars ss) -> In n (variables_list ss).
Proof.
  unfold arg_vars, variables_list. intros Hin. apply in_flat_map in Hin as (x & Hx & Hin).
  apply in_or_app. right. apply in_flat_map. exists x. split; [exact Hx|]. now apply sel_arg_vars_listed.
Qed.

(* ... and so is every variable that is the value of a DIRECTIVE argument, of a field or of a fragment (since fix 0156dcf) *)
Lemma dir_top_vars_app a b : dir_top_vars (a ++ b) = dir_top_vars a ++ dir_top_vars b.
Proof. unfold dir_top_vars. apply flat_map_app. Qed.
Lemma dir_top_vars_flat {A} (f : A -> list directive) l n :
  In n (dir_top_vars (flat_map f l)) <-> exists x, In x l /\ In n (dir_top_vars (f x)).
Proof.
  induction l as [|y t IH]; cbn [flat_map].
  - split; [intros []|intros (x & [] & _)].
  - rewrite dir_top_vars_app, in_app_iff, IH. split.
    + intros [H|(x & Hx & H)]; [exists y; split; [now left|exact H]|exists x; split; [now right|exact H]].
    + intros (x & [<-|Hx] & H); [now left|right; exists x; split; assumption].
Qed.
Lemma frag_go sub :
  (fix go (l : list sel) := match l with [] => [] | x :: t => frag_dirs x ++ go t end) sub = flat_map frag_dirs sub.
Proof. induction sub as [|x t IH]; cbn; [reflexivity|]. now rewrite IH. Qed.
Lemma sel_directive_top_vars_listed (s : sel) : forall n, In n (sel_directive_top_vars s) ->
  In n (dir_top_vars (frag_dirs s)) \/ In n (sel_variables s).
Proof.
  induction s using sel_ind'; intros n0; cbn [sel_directive_top_vars sel_variables frag_dirs]; rewrite ?go_flat, ?frag_go.
  - intros Hin. right. apply in_app_or in Hin as [Hin|Hin]; apply in_or_app; [left; exact Hin|right].
    apply in_or_app. right. apply in_flat_map in Hin as (x & Hx & Hin). rewrite Forall_forall in H.
    destruct (H x Hx n0 Hin) as [Hd|Hv]; apply in_or_app.
    + left. apply dir_top_vars_flat. exists x. split; assumption.
    + right. apply in_flat_map. exists x. split; assumption.
  - intros Hin. apply in_app_or in Hin as [Hin|Hin].
    + left. rewrite dir_top_vars_app. apply in_or_app. left. exact Hin.
    + apply in_flat_map in Hin as (x & Hx & Hin). rewrite Forall_forall in H.
      destruct (H x Hx n0 Hin) as [Hd|Hv].
      * left. rewrite dir_top_vars_app. apply in_or_app. right. apply dir_top_vars_flat. exists x. split; assumption.
      * right. apply in_flat_map. exists x. split; assumption.
Qed.
Theorem directive_variables_are_listed (ss : list sel) n : In n (directive_top_vars ss) -> In n (variables_list ss).
Proof.
  unfold directive_top_vars, variables_list. intros Hin. apply in_flat_map in Hin as (x & Hx & Hin).
  apply in_or_app. destruct (sel_directive_top_vars_listed x n Hin) as [Hd|Hv].
  - left. apply dir_top_vars_flat. exists x. split; assumption.
  - right. apply in_flat_map. exists x. split; assumption.
Qed.

(* ... and is forwarded with the client's value whenever the client sent one *)
Theorem listed_variables_are_forwarded client_vars listed n v :
  In n listed -> assoc n client_vars = Some v -> In (n, v) (forwarded client_vars listed).
Proof.
  intros Hin Ha. unfold forwarded. apply in_flat_map. exists n. split; [exact Hin|]. rewrite Ha. now left.
Qed.

Theorem forwarded_values_are_the_clients client_vars listed n v :
  In (n, v) (forwarded client_vars listed) -> In n listed /\ assoc n client_vars = Some v.
Proof.
  unfold forwarded. intros H. apply in_flat_map in H as (m & Hm & Hin).
  destruct (assoc m client_vars) eqn:E; [|contradiction]. destruct Hin as [Heq|[]]. inversion Heq; subst. auto.
Qed.

(* Refuted on the faithful model: a variable used only INSIDE a list or object value of a directive argument is NOT
   listed, hence never forwarded (since fix 0156dcf a variable that is itself the argument's value is: above); and a client-declared default is never forwarded either (it is not in the request's variables) *)
Theorem directive_variables_not_listed :
  exists ss n, In n (directive_vars ss) /\ ~ In n (variables_list ss).
Proof.
  exists [SField "f" "f" [] [("tagged", [("with", VList [VVar "v"])])] []], "v". split; [cbn; auto|]. cbn. tauto.
Qed.

(* a follow-up step sends its own `id` variable: every other forwarded variable keeps the client's value, but a client
   variable that is itself called `id` is replaced by the id of the object (listed finding C02-variable-named-id) *)
Lemma assoc_set_other {V} k k' (v : V) l : k' <> k -> assoc k' (assoc_set k v l) = assoc k' l.
Proof.
  intros Hne. induction l as [|[a b] t IH]; cbn.
  - destruct (k =? k')%string eqn:E; [apply String.eqb_eq in E; congruence|reflexivity].
  - destruct (a =? k)%string eqn:E1; cbn.
    + apply String.eqb_eq in E1. subst a. destruct (k =? k')%string eqn:E2; [apply String.eqb_eq in E2; congruence|reflexivity].
    + destruct (a =? k')%string; [reflexivity|exact IH].
Qed.
Theorem other_variables_keep_the_clients_value client_vars listed node_id n :
  n <> "id" -> assoc n (step_variables client_vars listed node_id) = assoc n (forwarded client_vars listed).
Proof. intros Hn. unfold step_variables. destruct node_id; [now apply assoc_set_other|reflexivity]. Qed.
Theorem client_variable_named_id_is_replaced :
  exists client_vars listed node_id, assoc "id" (forwarded client_vars listed) = Some (JNum "7") /\
    assoc "id" (step_variables client_vars listed node_id) = Some (JStr "h1").
Proof. exists [("id", JNum "7")], ["id"], (Some "h1"). split; reflexivity. Qed.
