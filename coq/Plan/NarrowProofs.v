(* What the sanitizer leaves below a field of an object type (since fix 9f8e2bb): no fragment on an object type without
   directives — a fragment on the field's own type is unfolded, one on another object type can never match and is left
   out; what stays are fields, fragments with directives, fragments on abstract types and fragments without a type
   condition. This is the shape every service accepts under an object-typed field (C02: the listed finding
   C01/C02-concrete-fragment-in-abstract-fragment was `... on Pet { }` directly under a Human-typed field). *)
From Coq Require Import List String Bool Arith Lia.
From Pebbles Require Import Merge.Model Plan.Sanitize Plan.SanitizeProofs Plan.EndToEnd.
Import ListNotations.
Open Scope string_scope.
Open Scope list_scope.

(* not a plain fragment on an object type *)
Definition settled (sc : sschema) (s : ssel) : Prop :=
  match s with
  | SanField _ _ _ _ _ => True
  | SanFrag c _ d _ => d <> 0 \/ c = "" \/ kind_of sc c <> KOther
  end.

Lemma update_first_settled sc a f s : Forall (settled sc) s -> Forall (settled sc) (update_first a f s).
Proof.
  induction s as [|e r IH]; intros H; [constructor|]. inversion H as [|? ? He Hr]; subst. cbn [update_first].
  destruct e as [a' n' ty' d' sub'|c o fd sub'].
  - destruct (a' =? a); constructor; try exact I; auto.
  - constructor; auto.
Qed.
Lemma add_sel_settled sc x s : settled sc x -> Forall (settled sc) s -> Forall (settled sc) (add_sel x s).
Proof.
  intros Hx Hs. destruct x as [a n ty d sub|c o fd sub]; cbn [add_sel].
  - destruct (has_key s a).
    + destruct sub; [exact Hs|apply update_first_settled, Hs].
    + apply Forall_app. split; [exact Hs|constructor; [exact I|constructor]].
  - apply Forall_app. split; [exact Hs|constructor; [exact Hx|constructor]].
Qed.
Lemma add_to_result_settled sc s new : Forall (settled sc) s -> Forall (settled sc) new -> Forall (settled sc) (add_to_result s new).
Proof.
  unfold add_to_result. revert s. induction new as [|x r IH]; intros s Hs Hn; [exact Hs|]. cbn [fold_left].
  inversion Hn; subst. apply IH; [apply add_sel_settled; assumption|assumption].
Qed.

(* narrowSelectionSetToType returns settled selections only *)
Lemma narrow_sel_settled sc t : forall x, Forall (settled sc) (narrow_sel sc t x).
Proof.
  induction x as [a n ty d sub IH|c o fd sub IH] using ssel_ind2; cbn [narrow_sel].
  - constructor; [exact I|constructor].
  - destruct (Nat.eqb fd 0) eqn:Ed; cbn [negb].
    + destruct (c =? t).
      * assert (G : forall l acc, Forall (fun x => Forall (settled sc) (narrow_sel sc t x)) l -> Forall (settled sc) acc ->
                   Forall (settled sc) ((fix go (l : list ssel) (acc : list ssel) :=
                                          match l with [] => acc | x :: r => go r (add_to_result acc (narrow_sel sc t x)) end) l acc)).
        { induction l as [|y r IHl]; intros acc HF Hacc; [exact Hacc|]. inversion HF; subst.
          apply IHl; [assumption|]. apply add_to_result_settled; assumption. }
        apply G; [exact IH|constructor].
      * destruct (c =? "") eqn:Ec.
        -- constructor; [|constructor]. cbn. right. left. apply String.eqb_eq, Ec.
        -- destruct (kind_of sc c) eqn:K; [| |constructor]; (constructor; [|constructor]); cbn; right; right; rewrite K; discriminate.
    + constructor; [|constructor]. cbn. left. apply Nat.eqb_neq, Ed.
Qed.
Theorem narrow_to_type_settled sc ss t : Forall (settled sc) (narrow_to_type sc ss t).
Proof.
  unfold narrow_to_type.
  assert (G : forall l acc, Forall (settled sc) acc -> Forall (settled sc) (fold_left (fun acc s => add_to_result acc (narrow_sel sc t s)) l acc)).
  { induction l as [|y r IHl]; intros acc Hacc; [exact Hacc|]. cbn [fold_left]. apply IHl.
    apply add_to_result_settled; [exact Hacc|apply narrow_sel_settled]. }
  apply G. constructor.
Qed.

(* ---- a level of an object type ---- *)
(* the fragments of the level are spread in type T (ObjectDefinition, set by the validator to the enclosing type) *)
Definition spread_in (T : string) (s : ssel) : Prop := match s with SanFrag _ o _ _ => o = T | SanField _ _ _ _ _ => True end.

Lemma san_sel_settled tm sc ip T s result scr :
  kind_of sc T = KOther -> spread_in T s -> Forall (settled sc) result ->
  Forall (settled sc) (fst (san_sel tm sc ip s (result, scr))).
Proof.
  intros HT Hs Hr. destruct s as [a n ty d [|y sub]|c o fd sub].
  - cbn [san_sel fst]. apply add_to_result_settled; [exact Hr|constructor; [exact I|constructor]].
  - rewrite san_sel_field. destruct (sanitize tm sc (y :: sub) (ip ++ [a])) as [child sf].
    destruct (add_scrub_fields tm sc child ty false) as [child' added]. cbn [fst].
    apply add_to_result_settled; [exact Hr|constructor; [exact I|constructor]].
  - cbn [spread_in] in Hs. subst o. rewrite san_sel_frag. destruct (sanitize tm sc sub ip) as [child sf].
    destruct (add_scrub_fields tm sc child c true) as [child' added]. rewrite HT. cbn [fst].
    apply add_to_result_settled; [exact Hr|apply narrow_to_type_settled].
Qed.

(* the selection set the sanitizer leaves for a level of an object type holds no plain fragment on an object type *)
Theorem object_level_is_settled tm sc ss ip T :
  kind_of sc T = KOther -> Forall (spread_in T) ss -> Forall (settled sc) (fst (sanitize tm sc ss ip)).
Proof.
  intros HT Hss. rewrite sanitize_level. cbn [fst]. unfold level.
  assert (G : forall l acc, Forall (spread_in T) l -> Forall (settled sc) (fst acc) ->
               Forall (settled sc) (fst (fold_left (fun acc x => san_sel tm sc ip x acc) l acc))).
  { induction l as [|x r IHl]; intros acc Hl Hacc; [exact Hacc|]. cbn [fold_left]. inversion Hl; subst.
    apply IHl; [assumption|]. destruct acc as [res0 scr0]. apply (san_sel_settled tm sc ip T); assumption. }
  apply G; [exact Hss|constructor].
Qed.

(* ... also after the helper fields are added: what is sent below a field of an object type *)
Theorem object_field_selection_is_settled tm sc ip a ty x sub :
  kind_of sc ty = KOther -> Forall (spread_in ty) (x :: sub) -> Forall (settled sc) (selection_for tm sc ip a ty (x :: sub)).
Proof.
  intros HT Hs. unfold selection_for.
  pose proof (object_level_is_settled tm sc (x :: sub) (ip ++ [a]) ty HT Hs) as H.
  destruct (sanitize tm sc (x :: sub) (ip ++ [a])) as [child sf]. cbn [fst] in *.
  unfold add_scrub_fields. rewrite HT. cbn [andb].
  match goal with |- context [if negb ?b then _ else _] => destruct (negb b) end; cbn [fst]; [exact H|].
  destruct (contains child "id"); cbn [fst]; [exact H|]. constructor; [exact I|exact H].
Qed.

(* non-vacuity: { me { ... on Node { ... on Pet { weight } } phone } } — the formerly listed shape — leaves `me { id phone }` *)
Example listed_shape_is_settled :
  fst (sanitize_op ex_tm ex_sc
         [SanField "me" "me" "Human" 0 [SanFrag "Node" "Human" 0 [SanFrag "Pet" "Node" 0 [SanField "weight" "weight" "Int" 0 []]];
                                         SanField "phone" "phone" "String" 0 []]])
  = [SanField "me" "me" "Human" 0 [id_helper; typename_helper; SanField "phone" "phone" "String" 0 []]].
Proof. vm_compute. reflexivity. Qed.
