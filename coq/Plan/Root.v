(* Model of the root level of the planner for C06: planner/plan.go SetComputedValues (which steps carry the
   client's operation keyword) and planner/sequential_planner.go routeSelectionSet at the root
   (filterSelectionSetByLoc per service). Proofs at the end of the file are about these two definitions only. *)
From Coq Require Import List String Bool Arith Permutation.
Import ListNotations.
Open Scope string_scope.
Open Scope list_scope.

Inductive optype := OQuery | OMutation | OSubscription.

(* SetComputedValues: `if len(s.InsertionPoint) == 0 { formatter.WithOperationType(ctx.Operation.Operation) }`;
   every other step keeps the formatter's default, ast.Query *)
Definition step_keyword (insertion_point : list string) (client_op : optype) : optype :=
  match insertion_point with [] => client_op | _ => OQuery end.

(* root routing: for every routed service, the root fields whose owner it is *)
Definition route_root {F} (owner : F -> string) (urls : list string) (fields : list F) : list (string * list F) :=
  filter (fun g => match snd g with [] => false | _ => true end)
         (map (fun u => (u, filter (fun f => owner f =? u) fields)) urls).

Theorem followups_are_queries ip op : ip <> [] -> step_keyword ip op = OQuery.
Proof. destruct ip; [contradiction|reflexivity]. Qed.

Theorem root_steps_carry_the_client_keyword op : step_keyword [] op = op.
Proof. reflexivity. Qed.

Lemma filter_owner_partition {F} (owner : F -> string) (urls : list string) (fields : list F) :
  NoDup urls -> (forall f, In f fields -> In (owner f) urls) ->
  Permutation (List.concat (map (fun u => filter (fun f => owner f =? u) fields) urls)) fields.
Proof.
  intros Hnd. revert fields. induction urls as [|u t IH]; intros fields Hin; cbn [map List.concat].
  - destruct fields as [|f fs]; [constructor|]. exfalso. exact (Hin f (or_introl eq_refl)).
  - inversion Hnd as [|? ? Hnotin Hnd']; subst.
    set (rest := filter (fun f => negb (owner f =? u)) fields).
    assert (Hrest : forall f, In f rest -> In (owner f) t).
    { intros f Hf. apply filter_In in Hf as [Hf Hne]. destruct (Hin f Hf) as [E|H]; [|exact H].
      rewrite <- E, String.eqb_refl in Hne. discriminate. }
    assert (E : map (fun u0 => filter (fun f => owner f =? u0) fields) t = map (fun u0 => filter (fun f => owner f =? u0) rest) t).
    { apply map_ext_in. intros u0 Hu0. unfold rest. clear -Hu0 Hnotin.
      induction fields as [|f fs IHf]; cbn; [reflexivity|].
      destruct (owner f =? u0) eqn:E0; destruct (owner f =? u) eqn:E1; cbn; rewrite ?E0, ?IHf; try reflexivity.
      apply String.eqb_eq in E0. apply String.eqb_eq in E1. subst. contradiction. }
    rewrite E. etransitivity; [apply Permutation_app_head; apply (IH Hnd' rest Hrest)|].
    unfold rest. clear. induction fields as [|f fs IHf]; cbn; [constructor|].
    destruct (owner f =? u); cbn.
    + constructor. exact IHf.
    + apply Permutation_sym. apply Permutation_cons_app. apply Permutation_sym. exact IHf.
Qed.

(* every selected root field goes to exactly one root step, the one of its owning service *)
Theorem root_fields_partitioned {F} (owner : F -> string) (urls : list string) (fields : list F) :
  NoDup urls -> (forall f, In f fields -> In (owner f) urls) ->
  Permutation (List.concat (map snd (route_root owner urls fields))) fields /\
  Forall (fun g => Forall (fun f => owner f = fst g) (snd g)) (route_root owner urls fields).
Proof.
  intros Hnd Hin. split.
  - assert (E : List.concat (map snd (route_root owner urls fields)) = List.concat (map (fun u => filter (fun f => owner f =? u) fields) urls)).
    { unfold route_root. clear. induction urls as [|u t IH]; [reflexivity|].
      cbn [map filter snd List.concat].
      destruct (filter (fun f => owner f =? u) fields) as [|x xs] eqn:E.
      - cbn [app]. exact IH.
      - cbn [map snd List.concat]. now rewrite IH. }
    rewrite E. apply (filter_owner_partition owner urls fields Hnd Hin).
  - unfold route_root. apply Forall_forall. intros g Hg. apply filter_In in Hg as [Hg _].
    apply in_map_iff in Hg as (u & <- & _). cbn. apply Forall_forall. intros f Hf.
    apply filter_In in Hf as [_ E]. now apply String.eqb_eq in E.
Qed.
