(* Model of planner/plan.go getVariablesList (which client variables accompany a sub-request), the executor's
   getVariables (executor/depth_executor_query.go) and format.walkArgumentList (which variables the synthesised
   operation header declares), on a small selection-set AST (C02). Proofs at the end. *)
From Coq Require Import List String Bool Arith.
From Pebbles Require Import Base.Json.
Import ListNotations.
Open Scope string_scope.
Open Scope list_scope.

Inductive value :=
| VVar (name : string)
| VLit (raw : string)                       (* any scalar / enum / null literal; Raw is its text *)
| VList (l : list value)
| VObj (l : list (string * value)).

Definition arg := (string * value)%type.
Definition directive := (string * list arg)%type.

Inductive sel :=
| SField (alias name : string) (args : list arg) (dirs : list directive) (sels : list sel)
| SInline (cond : string) (dirs : list directive) (sels : list sel).

(* getArgumentListChildrenVariablesList / the argument loop of getVariablesList: the Raw of every leaf.
   An empty list or object literal has no children and contributes its own (empty) Raw. *)
Fixpoint value_raws (v : value) : list string :=
  match v with
  | VVar n => [n]
  | VLit r => [r]
  | VList [] => [""]
  | VObj [] => [""]
  | VList l => (fix go (l : list value) := match l with [] => [] | x :: t => value_raws x ++ go t end) l
  | VObj l => (fix go (l : list (string * value)) := match l with [] => [] | (_, x) :: t => value_raws x ++ go t end) l
  end.

(* getDirectivesVariablesList: the directive arguments that are variables (values of other kinds are not looked into) *)
Definition dir_top_vars (ds : list directive) : list string :=
  flat_map (fun d => flat_map (fun a => match snd a with VVar n => [n] | _ => [] end) (snd d)) ds.
(* common.SelectionSetToFragmentDirectives: the directives of the inline fragments of a level, nested fragments included *)
Fixpoint frag_dirs (s : sel) : list directive :=
  match s with
  | SField _ _ _ _ _ => []
  | SInline _ ds sub => ds ++ (fix go (l : list sel) := match l with [] => [] | x :: t => frag_dirs x ++ go t end) sub
  end.

(* getVariablesList (since fix 0156dcf): the variables of the directives of the level's fragments, then over
   common.SelectionSetToFields(s, nil) — inline fragments flattened — for each field the variables of its directives,
   the Raws of its arguments, and the same for its selection *)
Fixpoint sel_variables (s : sel) : list string :=
  match s with
  | SField _ _ args ds sub =>
      dir_top_vars ds ++
      flat_map (fun a => value_raws (snd a)) args ++
      dir_top_vars (flat_map frag_dirs sub) ++
      (fix go (l : list sel) := match l with [] => [] | x :: t => sel_variables x ++ go t end) sub
  | SInline _ _ sub => (fix go (l : list sel) := match l with [] => [] | x :: t => sel_variables x ++ go t end) sub
  end.
Definition variables_list (ss : list sel) : list string := dir_top_vars (flat_map frag_dirs ss) ++ flat_map sel_variables ss.

(* executor getVariables: of the listed names, those the client request carries a value for *)
Definition forwarded (client_vars : list (string * json)) (listed : list string) : list (string * json) :=
  flat_map (fun n => match assoc n client_vars with Some v => [(n, v)] | None => [] end) listed.

(* ... and, for a follow-up step, the id of the object it extends, stored under the name `id` (variables[common.IDFieldName]) *)
Definition step_variables (client_vars : list (string * json)) (listed : list string) (node_id : option string) : list (string * json) :=
  match node_id with
  | Some id => assoc_set "id" (JStr id) (forwarded client_vars listed)
  | None => forwarded client_vars listed
  end.

(* variables that occur (at any depth) in ARGUMENT values / in DIRECTIVE argument values *)
Fixpoint value_vars (v : value) : list string :=
  match v with
  | VVar n => [n]
  | VLit _ => []
  | VList l => (fix go (l : list value) := match l with [] => [] | x :: t => value_vars x ++ go t end) l
  | VObj l => (fix go (l : list (string * value)) := match l with [] => [] | (_, x) :: t => value_vars x ++ go t end) l
  end.

Fixpoint sel_arg_vars (s : sel) : list string :=
  match s with
  | SField _ _ args _ sub =>
      flat_map (fun a => value_vars (snd a)) args ++
      (fix go (l : list sel) := match l with [] => [] | x :: t => sel_arg_vars x ++ go t end) sub
  | SInline _ _ sub => (fix go (l : list sel) := match l with [] => [] | x :: t => sel_arg_vars x ++ go t end) sub
  end.
Definition arg_vars (ss : list sel) : list string := flat_map sel_arg_vars ss.

Definition dirs_vars (ds : list directive) : list string := flat_map (fun d => flat_map (fun a => value_vars (snd a)) (snd d)) ds.
Fixpoint sel_directive_vars (s : sel) : list string :=
  match s with
  | SField _ _ _ ds sub => dirs_vars ds ++ (fix go (l : list sel) := match l with [] => [] | x :: t => sel_directive_vars x ++ go t end) sub
  | SInline _ ds sub => dirs_vars ds ++ (fix go (l : list sel) := match l with [] => [] | x :: t => sel_directive_vars x ++ go t end) sub
  end.
Definition directive_vars (ss : list sel) : list string := flat_map sel_directive_vars ss.

(* the variables that are themselves the value of a directive argument, of fields and of fragments, at any depth *)
Fixpoint sel_directive_top_vars (s : sel) : list string :=
  match s with
  | SField _ _ _ ds sub => dir_top_vars ds ++ (fix go (l : list sel) := match l with [] => [] | x :: t => sel_directive_top_vars x ++ go t end) sub
  | SInline _ ds sub => dir_top_vars ds ++ (fix go (l : list sel) := match l with [] => [] | x :: t => sel_directive_top_vars x ++ go t end) sub
  end.
Definition directive_top_vars (ss : list sel) : list string := flat_map sel_directive_top_vars ss.
