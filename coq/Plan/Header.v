(* Model of format/format.go walkArgumentList / walkChildrenArgumentList / the header part of FormatSelectionSet:
   which variables the operation header synthesised for a sub-request declares, and with which types (C02).
   The input is a step's selection set as the validator annotated it (field definitions, the Definition and
   ExpectedType of every value); the formatter is always given the merged schema (planner/plan.go, WithSchema). *)
From Coq Require Import List String Bool Arith.
Import ListNotations.
Open Scope string_scope.
Open Scope list_scope.

(* an argument value with the validator's annotations *)
Inductive tvalue :=
| TVar (name : string) (expected declared : option string)
    (* Kind = Variable; Raw; ExpectedType.String() if attached; VariableDefinition.Type.String() if attached *)
| TLeaf                                                  (* any other value without children *)
| TKids (def : option string) (kids : list (string * tvalue)).
    (* a list (children named "") or an input object (children named by field); Definition.Name if attached *)

(* argument definitions of a field: name |-> (printed type, its named type) *)
Definition argdefs := list (string * (string * string)).

(* a directive applied to a field: the argument definitions of its definition (None: no definition attached), its arguments *)
Definition dirapp := (option argdefs * list (string * tvalue))%type.

Inductive tsel :=
| TField (fdef : option argdefs) (args : list (string * tvalue)) (dirs : list dirapp) (sub : list tsel)
    (* fdef = None: field.Definition == nil || field.Definition.Arguments == nil *)
| TInline (dirs : list dirapp) (sub : list tsel).

(* common.SelectionSetToFragmentDirectives: the directives of the inline fragments of a level, nested fragments included *)
Fixpoint tfrag_dirs (s : tsel) : list dirapp :=
  match s with
  | TField _ _ _ _ => []
  | TInline ds sub => ds ++ (fix go (l : list tsel) := match l with [] => [] | x :: t => tfrag_dirs x ++ go t end) sub
  end.

(* schema.Types restricted to what the walk reads: type name |-> (field name |-> printed type) *)
Definition types := list (string * list (string * string)).

Definition lookup {V} (k : string) (l : list (string * V)) : option V :=
  match find (fun p => fst p =? k) l with Some p => Some (snd p) | None => None end.

(* walkChildrenArgumentList(typeDef, childs), as the list of map writes it performs, in order *)
Fixpoint walk_kid (ts : types) (fs : list (string * string)) (chname : string) (v : tvalue) : list (string * string) :=
  match v with
  | TVar n exp decl =>                                   (* childVariableType *)
      match (if chname =? "" then exp else None) with
      | Some e => [(n, e)]
      | None => match lookup chname fs with
                | Some t => [(n, t)]
                | None => match decl with Some t => [(n, t)] | None => [] end
                end
      end
  | TLeaf => []
  | TKids d ks =>
      (* a value without a definition (inside a custom scalar) is walked with no field types at hand *)
      let fs' := match d with Some d' => match lookup d' ts with Some x => x | None => [] end | None => [] end in
      (fix go (l : list (string * tvalue)) := match l with [] => [] | (k, x) :: t => walk_kid ts fs' k x ++ go t end) ks
  end.
Definition walk_kids (ts : types) (fs : list (string * string)) (ks : list (string * tvalue)) : list (string * string) :=
  flat_map (fun kx => walk_kid ts fs (fst kx) (snd kx)) ks.

(* one argument of a field whose definition is known *)
Definition walk_arg (ts : types) (ads : argdefs) (a : string * tvalue) : list (string * string) :=
  match lookup (fst a) ads with
  | None => []
  | Some (tstr, tname) =>
      match snd a with
      | TKids _ (k :: ks) => match lookup tname ts with Some fs => walk_kids ts fs (k :: ks) | None => [] end
      | TVar n _ _ => [(n, tstr)]
      | _ => []
      end
  end.

(* since fix 0156dcf: a directive argument that is a variable is declared with the type the directive's definition
   gives that argument (values of other kinds are not looked into) *)
Definition walk_dir (d : dirapp) : list (string * string) :=
  match fst d with
  | None => []
  | Some ads =>
      flat_map (fun a => match snd a with
                         | TVar n _ _ => match lookup (fst a) ads with Some (tstr, _) => [(n, tstr)] | None => [] end
                         | _ => []
                         end) (snd d)
  end.

(* walkArgumentList: first the directives of the fragments of the level, then over common.SelectionSetToFields(s, nil)
   the directives of each field, its arguments, and the same for its selection *)
Fixpoint walk_sel (ts : types) (s : tsel) : list (string * string) :=
  match s with
  | TField fdef args dirs sub =>
      flat_map walk_dir dirs ++
      match fdef with Some ads => flat_map (walk_arg ts ads) args | None => [] end ++
      flat_map walk_dir (flat_map tfrag_dirs sub) ++
      (fix go (l : list tsel) := match l with [] => [] | x :: t => walk_sel ts x ++ go t end) sub
  | TInline _ sub => (fix go (l : list tsel) := match l with [] => [] | x :: t => walk_sel ts x ++ go t end) sub
  end.
Definition walk (ts : types) (ss : list tsel) : list (string * string) :=
  flat_map walk_dir (flat_map tfrag_dirs ss) ++ flat_map (walk_sel ts) ss.

(* the map those writes leave behind: the last write of a name wins; the header declares exactly its entries *)
Fixpoint last_write (n : string) (ws : list (string * string)) : option string :=
  match ws with
  | [] => None
  | (k, t) :: r => match last_write n r with Some t' => Some t' | None => if k =? n then Some t else None end
  end.
Definition header_declares (ts : types) (ss : list tsel) (n : string) : option string := last_write n (walk ts ss).

(* ---- what the sub-request's body uses: every variable occurrence with the type its position expects ---- *)
(* a position inside a value: the type the schema expects there when it says so (ExpectedType), otherwise — inside a
   custom scalar, which takes any literal — the type the client declared the variable with *)
Definition position_type (exp decl : option string) : option string :=
  match exp with Some e => Some e | None => decl end.
Fixpoint kid_positions (v : tvalue) : list (string * string) :=
  match v with
  | TVar n exp decl => match position_type exp decl with Some t => [(n, t)] | None => [] end
  | TLeaf => []
  | TKids _ ks => (fix go (l : list (string * tvalue)) := match l with [] => [] | (_, x) :: t => kid_positions x ++ go t end) ks
  end.
(* every variable occurrence, typed or not *)
Fixpoint kid_vars (v : tvalue) : list string :=
  match v with
  | TVar n _ _ => [n]
  | TLeaf => []
  | TKids _ ks => (fix go (l : list (string * tvalue)) := match l with [] => [] | (_, x) :: t => kid_vars x ++ go t end) ks
  end.
(* an argument that is itself a variable sits at a position of the argument's declared type (fields the planner
   synthesises, node(id: $id), carry the definition but no ExpectedType annotation) *)
Definition arg_positions (fdef : option argdefs) (a : string * tvalue) : list (string * string) :=
  match snd a with
  | TVar n exp decl =>
      match fdef with
      | Some ads => match lookup (fst a) ads with Some (tstr, _) => [(n, tstr)] | None => kid_positions (snd a) end
      | None => kid_positions (snd a)
      end
  | v => kid_positions v
  end.
Definition dir_positions (d : dirapp) : list (string * string) := flat_map (arg_positions (fst d)) (snd d).
Definition dir_vars (d : dirapp) : list string := flat_map (fun a => kid_vars (snd a)) (snd d).
Fixpoint sel_positions (s : tsel) : list (string * string) :=
  match s with
  | TField fdef args dirs sub =>
      flat_map dir_positions dirs ++
      flat_map (arg_positions fdef) args ++
      flat_map dir_positions (flat_map tfrag_dirs sub) ++
      (fix go (l : list tsel) := match l with [] => [] | x :: t => sel_positions x ++ go t end) sub
  | TInline _ sub => (fix go (l : list tsel) := match l with [] => [] | x :: t => sel_positions x ++ go t end) sub
  end.
Definition positions (ss : list tsel) : list (string * string) :=
  flat_map dir_positions (flat_map tfrag_dirs ss) ++ flat_map sel_positions ss.
Fixpoint sel_vars (s : tsel) : list string :=
  match s with
  | TField _ args dirs sub =>
      flat_map dir_vars dirs ++
      flat_map (fun a => kid_vars (snd a)) args ++
      flat_map dir_vars (flat_map tfrag_dirs sub) ++
      (fix go (l : list tsel) := match l with [] => [] | x :: t => sel_vars x ++ go t end) sub
  | TInline _ sub => (fix go (l : list tsel) := match l with [] => [] | x :: t => sel_vars x ++ go t end) sub
  end.
Definition vars (ss : list tsel) : list string := flat_map dir_vars (flat_map tfrag_dirs ss) ++ flat_map sel_vars ss.

(* ---- the validator's annotation invariants, as a boolean the correspondence evaluates on every real step ---- *)
Fixpoint wt_kid (ts : types) (fs : list (string * string)) (chname : string) (v : tvalue) : bool :=
  match v with
  | TVar _ exp decl =>
      (* an object field the type at hand knows is expected at that field's type; anywhere else the variable has an
         expected type or at least the client's declaration (NoUndefinedVariables) *)
      if chname =? "" then match position_type exp decl with Some _ => true | None => false end
      else match lookup chname fs with
           | Some t => match exp with Some e => t =? e | None => false end
           | None => match exp, decl with None, Some _ => true | _, _ => false end
           end
  | TLeaf => true
  | TKids d ks =>
      let fs' := match d with Some d' => match lookup d' ts with Some x => x | None => [] end | None => [] end in
      (fix go (l : list (string * tvalue)) := match l with [] => true | (k, x) :: t => wt_kid ts fs' k x && go t end) ks
  end.
Definition wt_arg (ts : types) (ads : argdefs) (a : string * tvalue) : bool :=
  match lookup (fst a) ads with
  | None => false
  | Some (tstr, tname) =>
      match snd a with
      | TKids _ (k :: ks) => match lookup tname ts with Some fs => forallb (fun kx => wt_kid ts fs (fst kx) (snd kx)) (k :: ks) | None => false end
      | _ => true
      end
  end.
(* a directive of a field: its definition is attached and knows every argument; the arguments are variables or plain
   literals (skip, include, deprecated-style directives: no list or object values) *)
Definition wt_dir (d : dirapp) : bool :=
  match fst d with
  | Some ads => forallb (fun a => match lookup (fst a) ads with
                                  | Some _ => match snd a with TKids _ _ => false | _ => true end
                                  | None => false end) (snd d)
  | None => match snd d with [] => true | _ => false end
  end.
Fixpoint wt_sel (ts : types) (s : tsel) : bool :=
  match s with
  | TField fdef args dirs sub =>
      forallb wt_dir dirs &&
      match fdef with Some ads => forallb (wt_arg ts ads) args | None => match args with [] => true | _ => false end end &&
      (fix go (l : list tsel) := match l with [] => true | x :: t => wt_sel ts x && go t end) sub
  | TInline ds sub => forallb wt_dir ds && (fix go (l : list tsel) := match l with [] => true | x :: t => wt_sel ts x && go t end) sub
  end.
(* no type has a field with the empty name (GraphQL names are non-empty) *)
Definition names_ok (ts : types) : bool := forallb (fun e => match lookup "" (snd e) with None => true | Some _ => false end) ts.
Definition wt (ts : types) (ss : list tsel) : bool := names_ok ts && forallb (wt_sel ts) ss.
