(* Proofs about Plan/Header.v: on a validator-annotated selection set the synthesised header declares exactly
   the variables the body uses, each with the type one of its positions expects (C02). *)
From Coq Require Import List String Bool Arith.
From Pebbles Require Import Plan.Header.
Import ListNotations.
Open Scope string_scope.
Open Scope list_scope.

Section tvalue_ind2.
  Variable P : tvalue -> Prop.
  Hypothesis HVar : forall n e, P (TVar n e).
  Hypothesis HLeaf : P TLeaf.
  Hypothesis HKids : forall d ks, Forall (fun kx => P (snd kx)) ks -> P (TKids d ks).
  Fixpoint tvalue_ind2 (v : tvalue) : P v :=
    match v with
    | TVar n e => HVar n e
    | TLeaf => HLeaf
    | TKids d ks =>
        HKids d ks ((fix go (l : list (string * tvalue)) : Forall (fun kx => P (snd kx)) l :=
                       match l with [] => Forall_nil _ | (k, x) :: t => Forall_cons (k, x) (tvalue_ind2 x) (go t) end) ks)
    end.
End tvalue_ind2.

Section tsel_ind2.
  Variable P : tsel -> Prop.
  Hypothesis HField : forall fd args sub, Forall P sub -> P (TField fd args sub).
  Hypothesis HInline : forall sub, Forall P sub -> P (TInline sub).
  Fixpoint tsel_ind2 (s : tsel) : P s :=
    match s with
    | TField fd args sub =>
        HField fd args sub ((fix go (l : list tsel) : Forall P l :=
                               match l with [] => Forall_nil _ | x :: t => Forall_cons x (tsel_ind2 x) (go t) end) sub)
    | TInline sub =>
        HInline sub ((fix go (l : list tsel) : Forall P l :=
                        match l with [] => Forall_nil _ | x :: t => Forall_cons x (tsel_ind2 x) (go t) end) sub)
    end.
End tsel_ind2.

Lemma lookup_In {V} k (l : list (string * V)) v : lookup k l = Some v -> exists k', In (k', v) l.
Proof.
  unfold lookup. destruct (find _ l) as [[k' v']|] eqn:F; [|discriminate]. intros H. inversion H; subst.
  apply find_some in F. exists k'. tauto.
Qed.

Lemma names_ok_fs ts d fs : names_ok ts = true -> lookup d ts = Some fs -> lookup "" fs = None.
Proof.
  intros Hn Hl. destruct (lookup_In _ _ _ Hl) as [k' Hi]. unfold names_ok in Hn.
  rewrite forallb_forall in Hn. specialize (Hn _ Hi). cbn [snd] in Hn.
  destruct (lookup "" fs); [discriminate|reflexivity].
Qed.

(* the inner fixes are flat_maps / forallbs *)
Lemma walk_go ts fs ks :
  (fix go (l : list (string * tvalue)) := match l with [] => [] | (k, x) :: t => walk_kid ts fs k x ++ go t end) ks =
  flat_map (fun kx => walk_kid ts fs (fst kx) (snd kx)) ks.
Proof. induction ks as [|[k x] t IH]; cbn [flat_map fst snd]; [reflexivity|]. rewrite IH. reflexivity. Qed.
Lemma pos_go ks :
  (fix go (l : list (string * tvalue)) := match l with [] => [] | (_, x) :: t => kid_positions x ++ go t end) ks =
  flat_map (fun kx => kid_positions (snd kx)) ks.
Proof. induction ks as [|[k x] t IH]; cbn [flat_map snd]; [reflexivity|]. rewrite IH. reflexivity. Qed.
Lemma wt_go ts fs ks :
  (fix go (l : list (string * tvalue)) := match l with [] => true | (k, x) :: t => wt_kid ts fs k x && go t end) ks =
  forallb (fun kx => wt_kid ts fs (fst kx) (snd kx)) ks.
Proof. induction ks as [|[k x] t IH]; cbn [forallb fst snd]; [reflexivity|]. rewrite IH. reflexivity. Qed.

Lemma flat_map_iff_pointwise {A B} (f g : A -> list B) l b :
  Forall (fun a => In b (f a) <-> In b (g a)) l -> (In b (flat_map f l) <-> In b (flat_map g l)).
Proof.
  induction 1 as [|a l Ha _ IH]; cbn [flat_map]; [tauto|]. rewrite !in_app_iff. tauto.
Qed.

Lemma walk_kid_kids ts fs c d k ks :
  walk_kid ts fs c (TKids (Some d) (k :: ks)) =
  match lookup d ts with None => [] | Some fs' => flat_map (fun kx => walk_kid ts fs' (fst kx) (snd kx)) (k :: ks) end.
Proof. cbn [walk_kid]. destruct (lookup d ts); [|reflexivity]. rewrite <- walk_go. reflexivity. Qed.
Lemma wt_kid_kids ts fs c d k ks :
  wt_kid ts fs c (TKids (Some d) (k :: ks)) =
  match lookup d ts with None => false | Some fs' => forallb (fun kx => wt_kid ts fs' (fst kx) (snd kx)) (k :: ks) end.
Proof. cbn [wt_kid]. destruct (lookup d ts); [|reflexivity]. rewrite <- wt_go. reflexivity. Qed.
Lemma kid_positions_kids d ks : kid_positions (TKids d ks) = flat_map (fun kx => kid_positions (snd kx)) ks.
Proof. cbn [kid_positions]. apply pos_go. Qed.

Lemma kid_iff ts (Hn : names_ok ts = true) v : forall fs chname n t,
  lookup "" fs = None -> wt_kid ts fs chname v = true ->
  (In (n, t) (walk_kid ts fs chname v) <-> In (n, t) (kid_positions v)).
Proof.
  induction v as [vn ve| |d ks IH] using tvalue_ind2; intros fs chname n t Hfs Hwt.
  - cbn [walk_kid kid_positions wt_kid] in *. destruct (chname =? "") eqn:E.
    + apply String.eqb_eq in E. subst chname. rewrite Hfs, app_nil_r. tauto.
    + destruct (lookup chname fs) as [t'|]; [|discriminate]. apply String.eqb_eq in Hwt. subst t'. cbn [app]. tauto.
  - cbn. tauto.
  - destruct ks as [|k0 ks0]; [destruct d; cbn; tauto|].
    destruct d as [d|]; [|cbn [wt_kid] in Hwt; discriminate].
    rewrite walk_kid_kids, kid_positions_kids. rewrite wt_kid_kids in Hwt.
    remember (k0 :: ks0) as ks eqn:Eks. clear Eks k0 ks0.
    destruct (lookup d ts) as [fs'|] eqn:L; [|discriminate]. rewrite forallb_forall in Hwt.
    apply flat_map_iff_pointwise. rewrite Forall_forall in IH |- *. intros [k x] Hin. cbn [fst snd].
    apply (IH (k, x) Hin); [eapply names_ok_fs; eauto | apply (Hwt (k, x) Hin)].
Qed.

Lemma arg_iff ts (Hn : names_ok ts = true) ads a n t :
  wt_arg ts ads a = true -> (In (n, t) (walk_arg ts ads a) <-> In (n, t) (arg_positions (Some ads) a)).
Proof.
  destruct a as [an v]. unfold walk_arg, wt_arg, arg_positions. cbn [fst snd].
  destruct (lookup an ads) as [[tstr tname]|]; [|discriminate].
  destruct v as [vn ve| |d [|k ks]]; intros Hwt.
  - tauto.
  - cbn. tauto.
  - cbn. tauto.
  - destruct (lookup tname ts) as [fs|] eqn:L; [|discriminate].
    rewrite kid_positions_kids. unfold walk_kids.
    apply flat_map_iff_pointwise. rewrite Forall_forall. intros [k' x] Hin. cbn [fst snd].
    rewrite forallb_forall in Hwt. apply kid_iff; [exact Hn | eapply names_ok_fs; eauto | apply (Hwt (k', x) Hin)].
Qed.

Lemma sel_walk_go ts sub :
  (fix go (l : list tsel) := match l with [] => [] | x :: t => walk_sel ts x ++ go t end) sub = flat_map (walk_sel ts) sub.
Proof. induction sub as [|x t IH]; cbn [flat_map]; [reflexivity|]. rewrite IH. reflexivity. Qed.
Lemma sel_pos_go sub :
  (fix go (l : list tsel) := match l with [] => [] | x :: t => sel_positions x ++ go t end) sub = flat_map sel_positions sub.
Proof. induction sub as [|x t IH]; cbn [flat_map]; [reflexivity|]. rewrite IH. reflexivity. Qed.
Lemma sel_wt_go ts sub :
  (fix go (l : list tsel) := match l with [] => true | x :: t => wt_sel ts x && go t end) sub = forallb (wt_sel ts) sub.
Proof. induction sub as [|x t IH]; cbn [forallb]; [reflexivity|]. rewrite IH. reflexivity. Qed.

Lemma sel_iff ts (Hn : names_ok ts = true) s n t :
  wt_sel ts s = true -> (In (n, t) (walk_sel ts s) <-> In (n, t) (sel_positions s)).
Proof.
  induction s as [fd args sub IH|sub IH] using tsel_ind2; cbn [walk_sel sel_positions wt_sel];
    rewrite sel_walk_go, sel_pos_go, sel_wt_go; intros Hwt.
  - apply andb_true_iff in Hwt as [Ha Hs]. rewrite !in_app_iff.
    assert (Hsub : In (n, t) (flat_map (walk_sel ts) sub) <-> In (n, t) (flat_map sel_positions sub)).
    { apply flat_map_iff_pointwise. rewrite Forall_forall in IH |- *. rewrite forallb_forall in Hs.
      intros x Hin. apply (IH x Hin), (Hs x Hin). }
    destruct fd as [ads|].
    + assert (Harg : In (n, t) (flat_map (walk_arg ts ads) args) <-> In (n, t) (flat_map (arg_positions (Some ads)) args)).
      { apply flat_map_iff_pointwise. rewrite Forall_forall. rewrite forallb_forall in Ha.
        intros a Hin. apply arg_iff; [exact Hn|apply (Ha a Hin)]. }
      tauto.
    + destruct args; [|discriminate]. cbn [flat_map]. tauto.
  - apply flat_map_iff_pointwise. rewrite Forall_forall in IH |- *. rewrite forallb_forall in Hwt.
    intros x Hin. apply (IH x Hin), (Hwt x Hin).
Qed.

(* the writes of the walk are exactly the (variable, expected type) pairs of the body *)
Theorem walk_is_positions ts ss n t :
  wt ts ss = true -> (In (n, t) (walk ts ss) <-> In (n, t) (positions ss)).
Proof.
  unfold wt, walk, positions. intros H. apply andb_true_iff in H as [Hn Hs].
  apply flat_map_iff_pointwise. rewrite Forall_forall. rewrite forallb_forall in Hs.
  intros s Hin. apply sel_iff; [exact Hn|apply (Hs s Hin)].
Qed.

Lemma last_write_some n ws t : last_write n ws = Some t -> In (n, t) ws.
Proof.
  induction ws as [|[k t'] r IH]; cbn [last_write]; [discriminate|].
  destruct (last_write n r) as [t''|].
  - intros H. inversion H; subst. right. apply IH. reflexivity.
  - destruct (k =? n) eqn:E; [|discriminate]. intros H. inversion H; subst. apply String.eqb_eq in E. subst. left. reflexivity.
Qed.
Lemma last_write_total n ws t : In (n, t) ws -> exists t', last_write n ws = Some t'.
Proof.
  induction ws as [|[k t0] r IH]; cbn [last_write In]; [tauto|]. intros [H|H].
  - inversion H; subst. destruct (last_write n r); [eexists; reflexivity|]. rewrite String.eqb_refl. eexists; reflexivity.
  - destruct (IH H) as [t' E]. rewrite E. eexists; reflexivity.
Qed.

(* every variable the body uses is declared, with the type one of its positions expects *)
Theorem every_used_variable_is_declared ts ss n t :
  wt ts ss = true -> In (n, t) (positions ss) ->
  exists t', header_declares ts ss n = Some t' /\ In (n, t') (positions ss).
Proof.
  intros Hwt Hin. apply (walk_is_positions ts ss n t Hwt) in Hin.
  destruct (last_write_total _ _ _ Hin) as [t' E]. exists t'. split; [exact E|].
  apply (walk_is_positions ts ss n t' Hwt), last_write_some, E.
Qed.

(* and nothing else is declared *)
Theorem only_used_variables_are_declared ts ss n t :
  wt ts ss = true -> header_declares ts ss n = Some t -> In (n, t) (positions ss).
Proof. intros Hwt E. apply (walk_is_positions ts ss n t Hwt), last_write_some, E. Qed.

(* without the annotation a value with children is skipped: its variables stay undeclared *)
Example unannotated_value_is_skipped :
  let ts := [("In", [("q", "String")])] in
  let ss := [TField (Some [("f", ("[In!]", "In"))]) [("f", TKids (Some "In") [("", TKids None [("q", TVar "v" "String")])])] []] in
  positions ss = [("v", "String")] /\ header_declares ts ss "v" = None /\ wt ts ss = false.
Proof. vm_compute. repeat split. Qed.

(* non-vacuity: filter: [{q: $a, tags: [$b]}, {and: [{limit: $c}]}] *)
Definition ex_types : types :=
  [("In", [("q", "String"); ("limit", "Int"); ("tags", "[String!]"); ("and", "[In!]")]); ("String", []); ("Int", [])].
Definition ex_sels : list tsel :=
  [TField (Some [("filter", ("[In!]", "In")); ("a", ("Int", "Int"))])
     [("filter", TKids (Some "In")
        [("", TKids (Some "In") [("q", TVar "a" "String"); ("tags", TKids (Some "String") [("", TVar "b" "String!")])]);
         ("", TKids (Some "In") [("and", TKids (Some "In") [("", TKids (Some "In") [("limit", TVar "c" "Int")])])])]);
      ("a", TVar "d" "Int")]
     [TInline [TField None [] []]]].
Example ex_header :
  wt ex_types ex_sels = true /\
  map (header_declares ex_types ex_sels) ["a"; "b"; "c"; "d"; "e"] = [Some "String"; Some "String!"; Some "Int"; Some "Int"; None].
Proof. vm_compute. split; reflexivity. Qed.
