(* Proofs about Plan/Header.v: on a validator-annotated selection set the synthesised header declares exactly
   the variables the body uses, each with the type one of its positions expects (C02). *)
From Coq Require Import List String Bool Arith.
From Pebbles Require Import Plan.Header.
Import ListNotations.
Open Scope string_scope.
Open Scope list_scope.

Section tvalue_ind2.
  Variable P : tvalue -> Prop.
  Hypothesis HVar : forall n e d, P (TVar n e d).
  Hypothesis HLeaf : P TLeaf.
  Hypothesis HKids : forall d ks, Forall (fun kx => P (snd kx)) ks -> P (TKids d ks).
  Fixpoint tvalue_ind2 (v : tvalue) : P v :=
    match v with
    | TVar n e d => HVar n e d
    | TLeaf => HLeaf
    | TKids d ks =>
        HKids d ks ((fix go (l : list (string * tvalue)) : Forall (fun kx => P (snd kx)) l :=
                       match l with [] => Forall_nil _ | (k, x) :: t => Forall_cons (k, x) (tvalue_ind2 x) (go t) end) ks)
    end.
End tvalue_ind2.

Section tsel_ind2.
  Variable P : tsel -> Prop.
  Hypothesis HField : forall fd args dirs sub, Forall P sub -> P (TField fd args dirs sub).
  Hypothesis HInline : forall ds sub, Forall P sub -> P (TInline ds sub).
  Fixpoint tsel_ind2 (s : tsel) : P s :=
    match s with
    | TField fd args dirs sub =>
        HField fd args dirs sub ((fix go (l : list tsel) : Forall P l :=
                               match l with [] => Forall_nil _ | x :: t => Forall_cons x (tsel_ind2 x) (go t) end) sub)
    | TInline ds sub =>
        HInline ds sub ((fix go (l : list tsel) : Forall P l :=
                        match l with [] => Forall_nil _ | x :: t => Forall_cons x (tsel_ind2 x) (go t) end) sub)
    end.
End tsel_ind2.

Lemma lookup_In {V} k (l : list (string * V)) v : lookup k l = Some v -> exists k', In (k', v) l.
Proof.
  unfold lookup. destruct (find _ l) as [[k' v']|] eqn:F; [|discriminate]. intros H. inversion H; subst.
  apply find_some in F. exists k'. tauto.
Qed.

Lemma names_ok_fs ts d fs : names_ok ts = true -> lookup d ts = Some fs -> lookup "" fs = None.
Proof.
  intros Hn Hl. destruct (lookup_In _ _ _ Hl) as [k' Hi]. unfold names_ok in Hn.
  rewrite forallb_forall in Hn. specialize (Hn _ Hi). cbn [snd] in Hn.
  destruct (lookup "" fs); [discriminate|reflexivity].
Qed.

(* the inner fixes are flat_maps / forallbs *)
Lemma walk_go ts fs ks :
  (fix go (l : list (string * tvalue)) := match l with [] => [] | (k, x) :: t => walk_kid ts fs k x ++ go t end) ks =
  flat_map (fun kx => walk_kid ts fs (fst kx) (snd kx)) ks.
Proof. induction ks as [|[k x] t IH]; cbn [flat_map fst snd]; [reflexivity|]. rewrite IH. reflexivity. Qed.
Lemma pos_go ks :
  (fix go (l : list (string * tvalue)) := match l with [] => [] | (_, x) :: t => kid_positions x ++ go t end) ks =
  flat_map (fun kx => kid_positions (snd kx)) ks.
Proof. induction ks as [|[k x] t IH]; cbn [flat_map snd]; [reflexivity|]. rewrite IH. reflexivity. Qed.
Lemma wt_go ts fs ks :
  (fix go (l : list (string * tvalue)) := match l with [] => true | (k, x) :: t => wt_kid ts fs k x && go t end) ks =
  forallb (fun kx => wt_kid ts fs (fst kx) (snd kx)) ks.
Proof. induction ks as [|[k x] t IH]; cbn [forallb fst snd]; [reflexivity|]. rewrite IH. reflexivity. Qed.

Lemma flat_map_iff_pointwise {A B} (f g : A -> list B) l b :
  Forall (fun a => In b (f a) <-> In b (g a)) l -> (In b (flat_map f l) <-> In b (flat_map g l)).
Proof.
  induction 1 as [|a l Ha _ IH]; cbn [flat_map]; [tauto|]. rewrite !in_app_iff. tauto.
Qed.

Definition fs_of (ts : types) (d : option string) : list (string * string) :=
  match d with Some d' => match lookup d' ts with Some x => x | None => [] end | None => [] end.
Lemma fs_of_ok ts d : names_ok ts = true -> lookup "" (fs_of ts d) = None.
Proof.
  intros Hn. unfold fs_of. destruct d as [d|]; [|reflexivity].
  destruct (lookup d ts) eqn:L; [eapply names_ok_fs; eauto|reflexivity].
Qed.
Lemma walk_kid_kids ts fs c d ks :
  walk_kid ts fs c (TKids d ks) = flat_map (fun kx => walk_kid ts (fs_of ts d) (fst kx) (snd kx)) ks.
Proof. cbn [walk_kid]. rewrite walk_go. reflexivity. Qed.
Lemma wt_kid_kids ts fs c d ks :
  wt_kid ts fs c (TKids d ks) = forallb (fun kx => wt_kid ts (fs_of ts d) (fst kx) (snd kx)) ks.
Proof. cbn [wt_kid]. rewrite wt_go. reflexivity. Qed.
Lemma kid_positions_kids d ks : kid_positions (TKids d ks) = flat_map (fun kx => kid_positions (snd kx)) ks.
Proof. cbn [kid_positions]. apply pos_go. Qed.

Lemma kid_iff ts (Hn : names_ok ts = true) v : forall fs chname n t,
  lookup "" fs = None -> wt_kid ts fs chname v = true ->
  (In (n, t) (walk_kid ts fs chname v) <-> In (n, t) (kid_positions v)).
Proof.
  induction v as [vn ve vd| |d ks IH] using tvalue_ind2; intros fs chname n t Hfs Hwt.
  - cbn [walk_kid kid_positions wt_kid] in *. unfold position_type in *. destruct (chname =? "") eqn:E.
    + apply String.eqb_eq in E. subst chname. rewrite Hfs. destruct ve as [e|]; [tauto|]. destruct vd; tauto.
    + destruct (lookup chname fs) as [t'|].
      * destruct ve as [e|]; [|discriminate]. apply String.eqb_eq in Hwt. subst t'. tauto.
      * destruct ve; [discriminate|]. destruct vd; [tauto|discriminate].
  - cbn. tauto.
  - rewrite walk_kid_kids, kid_positions_kids. rewrite wt_kid_kids in Hwt. rewrite forallb_forall in Hwt.
    apply flat_map_iff_pointwise. rewrite Forall_forall in IH |- *. intros [k x] Hin. cbn [fst snd].
    apply (IH (k, x) Hin); [apply fs_of_ok; exact Hn | apply (Hwt (k, x) Hin)].
Qed.

Lemma arg_iff ts (Hn : names_ok ts = true) ads a n t :
  wt_arg ts ads a = true -> (In (n, t) (walk_arg ts ads a) <-> In (n, t) (arg_positions (Some ads) a)).
Proof.
  destruct a as [an v]. unfold walk_arg, wt_arg, arg_positions. cbn [fst snd].
  destruct (lookup an ads) as [[tstr tname]|]; [|discriminate].
  destruct v as [vn ve vd| |d [|k ks]]; intros Hwt.
  - tauto.
  - cbn. tauto.
  - cbn. tauto.
  - destruct (lookup tname ts) as [fs|] eqn:L; [|discriminate].
    rewrite kid_positions_kids. unfold walk_kids.
    apply flat_map_iff_pointwise. rewrite Forall_forall. intros [k' x] Hin. cbn [fst snd].
    rewrite forallb_forall in Hwt. apply kid_iff; [exact Hn | eapply names_ok_fs; eauto | apply (Hwt (k', x) Hin)].
Qed.

Lemma dir_iff d n t : wt_dir d = true -> (In (n, t) (walk_dir d) <-> In (n, t) (dir_positions d)).
Proof.
  destruct d as [[ads|] dargs]; unfold wt_dir, walk_dir, dir_positions; cbn [fst snd]; intros Hwt.
  - apply flat_map_iff_pointwise. rewrite Forall_forall. rewrite forallb_forall in Hwt. intros [an v] Hin.
    specialize (Hwt _ Hin). cbn [fst snd] in Hwt |- *. unfold arg_positions. cbn [fst snd].
    destruct (lookup an ads) as [[tstr tname]|]; [|discriminate].
    destruct v as [vn ve vd| |d ks]; [tauto|cbn; tauto|discriminate].
  - destruct dargs; [cbn; tauto|discriminate].
Qed.
Lemma dir_var_has_position d n : wt_dir d = true -> In n (dir_vars d) -> exists t, In (n, t) (dir_positions d).
Proof.
  destruct d as [[ads|] dargs]; unfold wt_dir, dir_vars, dir_positions; cbn [fst snd]; intros Hwt Hin.
  - apply in_flat_map in Hin as ([an v] & Hi & Hv). cbn [snd] in Hv. rewrite forallb_forall in Hwt.
    specialize (Hwt _ Hi). cbn [fst snd] in Hwt. destruct (lookup an ads) as [[tstr tname]|] eqn:L; [|discriminate].
    destruct v as [vn ve vd| |d ks]; [|destruct Hv|discriminate].
    cbn [kid_vars In] in Hv. destruct Hv as [<-|[]]. exists tstr. apply in_flat_map. exists (an, TVar vn ve vd).
    split; [exact Hi|]. unfold arg_positions. cbn [fst snd]. rewrite L. left. reflexivity.
  - destruct dargs; [destruct Hin|discriminate].
Qed.

Lemma dirs_iff ds n t : forallb wt_dir ds = true -> (In (n, t) (flat_map walk_dir ds) <-> In (n, t) (flat_map dir_positions ds)).
Proof.
  intros Hd. apply flat_map_iff_pointwise. rewrite Forall_forall. rewrite forallb_forall in Hd. intros d Hin. apply dir_iff, (Hd d Hin).
Qed.
Lemma dirs_var_has_position ds n : forallb wt_dir ds = true -> In n (flat_map dir_vars ds) -> exists t, In (n, t) (flat_map dir_positions ds).
Proof.
  intros Hd Hin. apply in_flat_map in Hin as (d & Hi & Hv). rewrite forallb_forall in Hd.
  destruct (dir_var_has_position d n (Hd d Hi) Hv) as [t Ht]. exists t. apply in_flat_map. exists d. split; assumption.
Qed.
Lemma tfrag_go sub :
  (fix go (l : list tsel) := match l with [] => [] | x :: t => tfrag_dirs x ++ go t end) sub = flat_map tfrag_dirs sub.
Proof. induction sub as [|x t IH]; cbn [flat_map]; [reflexivity|]. rewrite IH. reflexivity. Qed.
Lemma forallb_flat_map {A B} (p : B -> bool) (f : A -> list B) l :
  forallb p (flat_map f l) = forallb (fun x => forallb p (f x)) l.
Proof. induction l as [|x t IH]; cbn [flat_map forallb]; [reflexivity|]. rewrite forallb_app, IH. reflexivity. Qed.

Lemma sel_walk_go ts sub :
  (fix go (l : list tsel) := match l with [] => [] | x :: t => walk_sel ts x ++ go t end) sub = flat_map (walk_sel ts) sub.
Proof. induction sub as [|x t IH]; cbn [flat_map]; [reflexivity|]. rewrite IH. reflexivity. Qed.
Lemma sel_pos_go sub :
  (fix go (l : list tsel) := match l with [] => [] | x :: t => sel_positions x ++ go t end) sub = flat_map sel_positions sub.
Proof. induction sub as [|x t IH]; cbn [flat_map]; [reflexivity|]. rewrite IH. reflexivity. Qed.
Lemma sel_wt_go ts sub :
  (fix go (l : list tsel) := match l with [] => true | x :: t => wt_sel ts x && go t end) sub = forallb (wt_sel ts) sub.
Proof. induction sub as [|x t IH]; cbn [forallb]; [reflexivity|]. rewrite IH. reflexivity. Qed.

(* the directives of the fragments of a level are well formed when its selections are *)
Lemma wt_frag_dirs ts s : wt_sel ts s = true -> forallb wt_dir (tfrag_dirs s) = true.
Proof.
  induction s as [fd args dirs sub IH|ds sub IH] using tsel_ind2; cbn [wt_sel tfrag_dirs]; [reflexivity|].
  rewrite sel_wt_go, tfrag_go. intros H. apply andb_true_iff in H as [Hd Hs]. rewrite forallb_app, Hd. cbn [andb].
  rewrite forallb_flat_map. apply forallb_forall. intros x Hx. rewrite Forall_forall in IH. rewrite forallb_forall in Hs.
  apply (IH x Hx), (Hs x Hx).
Qed.
Lemma wt_level_dirs ts ss : forallb (wt_sel ts) ss = true -> forallb wt_dir (flat_map tfrag_dirs ss) = true.
Proof.
  intros H. rewrite forallb_flat_map. apply forallb_forall. intros x Hx. rewrite forallb_forall in H. apply (wt_frag_dirs ts), (H x Hx).
Qed.

Lemma sel_iff ts (Hn : names_ok ts = true) s n t :
  wt_sel ts s = true -> (In (n, t) (walk_sel ts s) <-> In (n, t) (sel_positions s)).
Proof.
  induction s as [fd args dirs sub IH|ds sub IH] using tsel_ind2; cbn [walk_sel sel_positions wt_sel];
    rewrite sel_walk_go, sel_pos_go, sel_wt_go; intros Hwt.
  - apply andb_true_iff in Hwt as [Hwt Hs]. apply andb_true_iff in Hwt as [Hd Ha]. rewrite !in_app_iff.
    pose proof (dirs_iff dirs n t Hd) as Hdir.
    pose proof (dirs_iff (flat_map tfrag_dirs sub) n t (wt_level_dirs ts sub Hs)) as Hfr.
    assert (Hsub : In (n, t) (flat_map (walk_sel ts) sub) <-> In (n, t) (flat_map sel_positions sub)).
    { apply flat_map_iff_pointwise. rewrite Forall_forall in IH |- *. rewrite forallb_forall in Hs.
      intros x Hin. apply (IH x Hin), (Hs x Hin). }
    destruct fd as [ads|].
    + assert (Harg : In (n, t) (flat_map (walk_arg ts ads) args) <-> In (n, t) (flat_map (arg_positions (Some ads)) args)).
      { apply flat_map_iff_pointwise. rewrite Forall_forall. rewrite forallb_forall in Ha.
        intros a Hin. apply arg_iff; [exact Hn|apply (Ha a Hin)]. }
      tauto.
    + destruct args; [|discriminate]. cbn [flat_map]. tauto.
  - apply andb_true_iff in Hwt as [_ Hwt].
    apply flat_map_iff_pointwise. rewrite Forall_forall in IH |- *. rewrite forallb_forall in Hwt.
    intros x Hin. apply (IH x Hin), (Hwt x Hin).
Qed.

(* the writes of the walk are exactly the (variable, expected type) pairs of the body *)
Theorem walk_is_positions ts ss n t :
  wt ts ss = true -> (In (n, t) (walk ts ss) <-> In (n, t) (positions ss)).
Proof.
  unfold wt, walk, positions. intros H. apply andb_true_iff in H as [Hn Hs]. rewrite !in_app_iff.
  pose proof (dirs_iff (flat_map tfrag_dirs ss) n t (wt_level_dirs ts ss Hs)) as Hfr.
  assert (Hsel : In (n, t) (flat_map (walk_sel ts) ss) <-> In (n, t) (flat_map sel_positions ss)).
  { apply flat_map_iff_pointwise. rewrite Forall_forall. rewrite forallb_forall in Hs.
    intros s Hin. apply sel_iff; [exact Hn|apply (Hs s Hin)]. }
  tauto.
Qed.

Lemma last_write_some n ws t : last_write n ws = Some t -> In (n, t) ws.
Proof.
  induction ws as [|[k t'] r IH]; cbn [last_write]; [discriminate|].
  destruct (last_write n r) as [t''|].
  - intros H. inversion H; subst. right. apply IH. reflexivity.
  - destruct (k =? n) eqn:E; [|discriminate]. intros H. inversion H; subst. apply String.eqb_eq in E. subst. left. reflexivity.
Qed.
Lemma last_write_total n ws t : In (n, t) ws -> exists t', last_write n ws = Some t'.
Proof.
  induction ws as [|[k t0] r IH]; cbn [last_write In]; [tauto|]. intros [H|H].
  - inversion H; subst. destruct (last_write n r); [eexists; reflexivity|]. rewrite String.eqb_refl. eexists; reflexivity.
  - destruct (IH H) as [t' E]. rewrite E. eexists; reflexivity.
Qed.

(* every variable the body uses is declared, with the type one of its positions expects *)
Theorem every_used_variable_is_declared ts ss n t :
  wt ts ss = true -> In (n, t) (positions ss) ->
  exists t', header_declares ts ss n = Some t' /\ In (n, t') (positions ss).
Proof.
  intros Hwt Hin. apply (walk_is_positions ts ss n t Hwt) in Hin.
  destruct (last_write_total _ _ _ Hin) as [t' E]. exists t'. split; [exact E|].
  apply (walk_is_positions ts ss n t' Hwt), last_write_some, E.
Qed.

(* and nothing else is declared *)
Theorem only_used_variables_are_declared ts ss n t :
  wt ts ss = true -> header_declares ts ss n = Some t -> In (n, t) (positions ss).
Proof. intros Hwt E. apply (walk_is_positions ts ss n t Hwt), last_write_some, E. Qed.

(* every occurrence of a variable has a position type under wt, hence is declared *)
Lemma kid_vars_go ks :
  (fix go (l : list (string * tvalue)) := match l with [] => [] | (_, x) :: t => kid_vars x ++ go t end) ks =
  flat_map (fun kx => kid_vars (snd kx)) ks.
Proof. induction ks as [|[k x] t IH]; cbn [flat_map snd]; [reflexivity|]. rewrite IH. reflexivity. Qed.
Lemma sel_vars_go sub :
  (fix go (l : list tsel) := match l with [] => [] | x :: t => sel_vars x ++ go t end) sub = flat_map sel_vars sub.
Proof. induction sub as [|x t IH]; cbn [flat_map]; [reflexivity|]. rewrite IH. reflexivity. Qed.

Lemma kid_vars_kids d ks : kid_vars (TKids d ks) = flat_map (fun kx => kid_vars (snd kx)) ks.
Proof. cbn [kid_vars]. apply kid_vars_go. Qed.

Lemma kid_var_has_position ts v : forall fs chname n,
  wt_kid ts fs chname v = true -> In n (kid_vars v) -> exists t, In (n, t) (kid_positions v).
Proof.
  induction v as [vn ve vd| |d ks IH] using tvalue_ind2; intros fs chname n Hwt Hin.
  - cbn [kid_vars In] in Hin. destruct Hin as [<-|[]]. cbn [wt_kid kid_positions] in *. unfold position_type in *.
    destruct ve as [e|]; [exists e; left; reflexivity|].
    destruct vd as [d|]; [exists d; left; reflexivity|].
    destruct (chname =? ""); [discriminate|]. destruct (lookup chname fs); discriminate.
  - destruct Hin.
  - rewrite kid_vars_kids in Hin. apply in_flat_map in Hin as ([k x] & Hi & Hx). cbn [snd] in Hx.
    rewrite wt_kid_kids in Hwt. rewrite forallb_forall in Hwt. rewrite Forall_forall in IH.
    destruct (IH (k, x) Hi (fs_of ts d) k n (Hwt (k, x) Hi) Hx) as [t Ht].
    exists t. rewrite kid_positions_kids. apply in_flat_map. exists (k, x). split; assumption.
Qed.

Lemma sel_var_has_position ts s n : wt_sel ts s = true -> In n (sel_vars s) -> exists t, In (n, t) (sel_positions s).
Proof.
  induction s as [fd args dirs sub IH|ds sub IH] using tsel_ind2; cbn [sel_vars sel_positions wt_sel];
    rewrite sel_vars_go, sel_pos_go, sel_wt_go; intros Hwt Hin.
  - apply andb_true_iff in Hwt as [Hwt Hs]. apply andb_true_iff in Hwt as [Hd Ha]. apply in_app_iff in Hin as [Hin|Hin].
    { destruct (dirs_var_has_position dirs n Hd Hin) as [t Ht]. exists t. apply in_app_iff. left. exact Ht. }
    apply in_app_iff in Hin as [Hin|Hin].
    + apply in_flat_map in Hin as ([an v] & Hi & Hv). cbn [snd] in Hv.
      destruct fd as [ads|]; [|destruct args; [destruct Hi|discriminate]].
      rewrite forallb_forall in Ha. specialize (Ha _ Hi). unfold wt_arg in Ha. cbn [fst snd] in Ha.
      destruct (lookup an ads) as [[tstr tname]|] eqn:L; [|discriminate].
      assert (exists t, In (n, t) (arg_positions (Some ads) (an, v))) as [t Ht].
      { unfold arg_positions. cbn [fst snd]. rewrite L. destruct v as [vn ve vd| |d [|k ks]].
        - cbn [kid_vars In] in Hv. destruct Hv as [<-|[]]. exists tstr. left. reflexivity.
        - destruct Hv.
        - destruct Hv.
        - destruct (lookup tname ts) as [fs|]; [|discriminate].
          rewrite kid_vars_kids in Hv. apply in_flat_map in Hv as ([k' x] & Hi' & Hx). cbn [snd] in Hx.
          rewrite forallb_forall in Ha. destruct (kid_var_has_position ts x fs k' n (Ha (k', x) Hi') Hx) as [t Ht].
          exists t. rewrite kid_positions_kids. apply in_flat_map. exists (k', x). split; assumption. }
      exists t. apply in_app_iff. right. apply in_app_iff. left. apply in_flat_map. exists (an, v). split; assumption.
    + apply in_app_iff in Hin as [Hin|Hin].
      * destruct (dirs_var_has_position _ n (wt_level_dirs ts sub Hs) Hin) as [t Ht]. exists t.
        apply in_app_iff. right. apply in_app_iff. right. apply in_app_iff. left. exact Ht.
      * apply in_flat_map in Hin as (x & Hi & Hx). rewrite forallb_forall in Hs. rewrite Forall_forall in IH.
        destruct (IH x Hi (Hs x Hi) Hx) as [t Ht]. exists t. apply in_app_iff. right. apply in_app_iff. right. apply in_app_iff. right.
        apply in_flat_map. exists x. split; assumption.
  - apply andb_true_iff in Hwt as [_ Hwt].
    apply in_flat_map in Hin as (x & Hi & Hx). rewrite forallb_forall in Hwt. rewrite Forall_forall in IH.
    destruct (IH x Hi (Hwt x Hi) Hx) as [t Ht]. exists t. apply in_flat_map. exists x. split; assumption.
Qed.

Theorem every_variable_occurrence_is_declared ts ss n :
  wt ts ss = true -> In n (vars ss) -> exists t, header_declares ts ss n = Some t /\ In (n, t) (positions ss).
Proof.
  intros Hwt Hin. unfold vars in Hin.
  pose proof Hwt as Hwt'. unfold wt in Hwt'. apply andb_true_iff in Hwt' as [_ Hss].
  assert (exists t, In (n, t) (positions ss)) as [t Ht].
  { unfold positions. apply in_app_iff in Hin as [Hin|Hin].
    - destruct (dirs_var_has_position _ n (wt_level_dirs ts ss Hss) Hin) as [t Ht]. exists t. apply in_app_iff. left. exact Ht.
    - apply in_flat_map in Hin as (s & Hi & Hs). rewrite forallb_forall in Hss.
      destruct (sel_var_has_position ts s n (Hss s Hi) Hs) as [t Ht]. exists t. apply in_app_iff. right.
      apply in_flat_map. exists s. split; assumption. }
  apply (every_used_variable_is_declared ts ss n t Hwt Ht).
Qed.

(* the hypothesis matters: a variable about which neither the schema nor the client's header says anything stays undeclared *)
Example unknown_variable_is_not_declared :
  let ts := [("JSON", [])] in
  let ss := [TField (Some [("data", ("JSON", "JSON"))]) [("data", TKids (Some "JSON") [("k", TVar "v" None None)])] [] []] in
  vars ss = ["v"] /\ header_declares ts ss "v" = None /\ wt ts ss = false.
Proof. vm_compute. repeat split. Qed.

(* non-vacuity: f(filter: [{q: $a, tags: [$b]}, {and: [{limit: $c}]}], a: $d, data: {k: [$e]}) @skip(if: $f) { ... @include(if: $g) { x } } with data a custom scalar *)
Definition ex_types : types :=
  [("In", [("q", "String"); ("limit", "Int"); ("tags", "[String!]"); ("and", "[In!]")]); ("String", []); ("Int", []); ("JSON", [])].
Definition ex_sels : list tsel :=
  [TField (Some [("filter", ("[In!]", "In")); ("a", ("Int", "Int")); ("data", ("JSON", "JSON"))])
     [("filter", TKids (Some "In")
        [("", TKids (Some "In") [("q", TVar "a" (Some "String") (Some "String"));
                                 ("tags", TKids (Some "String") [("", TVar "b" (Some "String!") (Some "String!"))])]);
         ("", TKids (Some "In") [("and", TKids (Some "In") [("", TKids (Some "In") [("limit", TVar "c" (Some "Int") (Some "Int!"))])])])]);
      ("a", TVar "d" (Some "Int") (Some "Int"));
      ("data", TKids (Some "JSON") [("k", TKids None [("", TVar "e" None (Some "Float"))])])]
     [(Some [("if", ("Boolean!", "Boolean"))], [("if", TVar "f" (Some "Boolean!") (Some "Boolean!"))])]
     [TInline [(Some [("if", ("Boolean!", "Boolean"))], [("if", TVar "g" (Some "Boolean!") (Some "Boolean!"))])] [TField None [] [] []]]].
Example ex_header :
  wt ex_types ex_sels = true /\
  map (header_declares ex_types ex_sels) ["a"; "b"; "c"; "d"; "e"; "f"; "g"] =
    [Some "String"; Some "String!"; Some "Int"; Some "Int"; Some "Float"; Some "Boolean!"; Some "Boolean!"].
Proof. vm_compute. split; reflexivity. Qed.
