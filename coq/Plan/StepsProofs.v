(* Proofs about Plan/Steps.v: every field a plan step carries for a service is a field the routing table gives to that
   service (ownership), for selection sets in which fragments occur only where the sanitizer leaves them: in
   selections of abstract types. *)
From Coq Require Import List String Bool Arith Lia.
From Pebbles Require Import Merge.Model Plan.Steps.
Import ListNotations.
Open Scope string_scope.
Open Scope list_scope.

(* ---- PlanningContext.GetURL away from home ---- *)
Lemma get_url_at_route tm p n fb l :
  get_url tm p n fb = RUrl l -> l <> fb ->
  get_url tm p n l = RUrl l /\ tm_get tm p n = Some l /\ is_builtin n = false /\ tm_is_node tm p <> None.
Proof.
  unfold get_url. destruct (is_builtin n) eqn:Hb.
  - intros H Hne. inversion H. congruence.
  - destruct (tm_is_node tm p) as [nd|] eqn:Hn; [|discriminate].
    destruct (negb nd && negb (fb =? internal_service) && negb (is_root p)) eqn:Hc.
    + intros H Hne. inversion H. congruence.
    + destruct (tm_get tm p n) as [u|] eqn:Hg; [|discriminate]. intros H _. inversion H; subst u.
      repeat split; try congruence.
      destruct (negb nd && negb (l =? internal_service) && negb (is_root p)) eqn:Hc'; reflexivity.
Qed.

(* ---- the sites of a selection: (type, field) pairs the table knows, with the type each field is selected on ---- *)
Fixpoint sites (tm : tmap) (loc parent : string) (s : psel) {struct s} : list (string * string) :=
  match s with
  | PField _ n ty sub =>
      match get_url tm parent n loc with
      | RUrl _ => (parent, n) :: (fix go (l : list psel) := match l with [] => [] | x :: r => sites tm loc ty x ++ go r end) sub
      | _ => []      (* the table says nothing about this field here: it is passed on as it is *)
      end
  | PInline c sub => (fix go (l : list psel) := match l with [] => [] | x :: r => sites tm loc c x ++ go r end) sub
  | PNode c sub => (fix go (l : list psel) := match l with [] => [] | x :: r => sites tm loc c x ++ go r end) sub
  end.
Definition sites_of (tm : tmap) (loc parent : string) (ss : list psel) : list (string * string) := flat_map (sites tm loc parent) ss.

Lemma sites_go tm loc ty sub :
  (fix go (l : list psel) := match l with [] => [] | x :: r => sites tm loc ty x ++ go r end) sub = sites_of tm loc ty sub.
Proof. induction sub as [|x r IH]; cbn [sites_of flat_map]; [reflexivity|]. rewrite IH. reflexivity. Qed.

Lemma sites_field tm loc parent a n ty sub :
  sites tm loc parent (PField a n ty sub) =
  match get_url tm parent n loc with RUrl _ => (parent, n) :: sites_of tm loc ty sub | _ => [] end.
Proof. cbn [sites]. rewrite sites_go. reflexivity. Qed.
Lemma sites_inline tm loc parent c sub : sites tm loc parent (PInline c sub) = sites_of tm loc c sub.
Proof. cbn [sites]. apply sites_go. Qed.
Lemma sites_node tm loc parent c sub : sites tm loc parent (PNode c sub) = sites_of tm loc c sub.
Proof. cbn [sites]. apply sites_go. Qed.
Lemma sites_of_app tm loc p a b : sites_of tm loc p (a ++ b) = sites_of tm loc p a ++ sites_of tm loc p b.
Proof. unfold sites_of. apply flat_map_app. Qed.

(* every site of the selection is routed to loc *)
Definition good_sels (tm : tmap) (loc parent : string) (ss : list psel) : Prop :=
  forall p n, In (p, n) (sites_of tm loc parent ss) -> get_url tm p n loc = RUrl loc.

Fixpoint step_ok (tm : tmap) (s : step) {struct s} : Prop :=
  match s with
  | mkStep u p _ ss th =>
      good_sels tm u p ss /\ (fix all (l : list step) := match l with [] => True | x :: r => step_ok tm x /\ all r end) th
  end.
Lemma step_ok_all tm th :
  (fix all (l : list step) := match l with [] => True | x :: r => step_ok tm x /\ all r end) th <-> Forall (step_ok tm) th.
Proof.
  induction th as [|x r IH]; [split; [constructor|trivial]|]. split.
  - intros [H1 H2]. constructor; [exact H1|apply IH, H2].
  - intros H. inversion H; subst. split; [assumption|apply IH; assumption].
Qed.
Lemma step_ok_mk tm u p i ss th : step_ok tm (mkStep u p i ss th) <-> good_sels tm u p ss /\ Forall (step_ok tm) th.
Proof. cbn [step_ok]. rewrite step_ok_all. tauto. Qed.

Lemma good_nil tm loc p : good_sels tm loc p [].
Proof. intros q n H. destruct H. Qed.
Lemma good_app tm loc p a b : good_sels tm loc p a -> good_sels tm loc p b -> good_sels tm loc p (a ++ b).
Proof. intros Ha Hb q n H. rewrite sites_of_app in H. apply in_app_iff in H as [H|H]; [apply Ha|apply Hb]; exact H. Qed.
Lemma good_app_inv tm loc p a b : good_sels tm loc p (a ++ b) -> good_sels tm loc p a /\ good_sels tm loc p b.
Proof. intros H. split; intros q n Hin; apply H; rewrite sites_of_app; apply in_app_iff; [left|right]; exact Hin. Qed.
Lemma good_node tm loc p c ss : good_sels tm loc p (node_query c ss) <-> good_sels tm loc c ss.
Proof.
  unfold good_sels, node_query, sites_of. cbn [flat_map]. rewrite sites_node, app_nil_r. tauto.
Qed.
Lemma good_finish tm loc parent ss : good_sels tm loc parent ss -> good_sels tm loc parent (finish tm parent ss).
Proof. unfold finish. destruct (_ && _); [|tauto]. intros H. apply good_node. exact H. Qed.
Lemma good_field tm loc parent a n ty sub :
  (forall l, get_url tm parent n loc = RUrl l -> l = loc /\ good_sels tm loc ty sub) ->
  good_sels tm loc parent [PField a n ty sub].
Proof.
  intros H q m Hin. unfold sites_of in Hin. cbn [flat_map] in Hin. rewrite app_nil_r, sites_field in Hin.
  destruct (get_url tm parent n loc) as [l| |] eqn:E; try destruct Hin.
  - destruct (H l eq_refl) as [-> Hs]. inversion H0; subst. exact E.
  - destruct (H l eq_refl) as [-> Hs]. apply Hs. exact H0.
Qed.
Lemma good_inline tm loc parent c sub : good_sels tm loc c sub -> good_sels tm loc parent [PInline c sub].
Proof. intros H q m Hin. unfold sites_of in Hin. cbn [flat_map] in Hin. rewrite app_nil_r, sites_inline in Hin. apply H, Hin. Qed.

(* ---- the shape the sanitizer leaves: fragments only in selections of types the table does not know (abstract
   types); no field whose type is a root type (no `query: Query` payloads) ---- *)
Definition is_field (s : psel) : bool := match s with PField _ _ _ _ => true | _ => false end.
Definition level_ok (tm : tmap) (parent : string) (ss : list psel) : bool :=
  negb (is_root parent) &&
  match tm_is_node tm parent with
  | None => true
  | Some _ => forallb is_field ss
  end.
Fixpoint frag_ok (tm : tmap) (s : psel) {struct s} : bool :=
  match s with
  | PField _ _ ty sub =>
      match sub with
      | [] => true
      | _ => level_ok tm ty sub && (fix all (l : list psel) := match l with [] => true | x :: r => frag_ok tm x && all r end) sub
      end
  | PInline c sub => level_ok tm c sub && (fix all (l : list psel) := match l with [] => true | x :: r => frag_ok tm x && all r end) sub
  | PNode _ _ => false
  end.
Definition frags_ok (tm : tmap) (parent : string) (ss : list psel) : bool := level_ok tm parent ss && forallb (frag_ok tm) ss.

Lemma frag_all tm sub :
  (fix all (l : list psel) := match l with [] => true | x :: r => frag_ok tm x && all r end) sub = forallb (frag_ok tm) sub.
Proof. induction sub as [|x r IH]; cbn [forallb]; [reflexivity|]. rewrite IH. reflexivity. Qed.
Lemma frag_field tm a n ty x sub : frag_ok tm (PField a n ty (x :: sub)) = frags_ok tm ty (x :: sub).
Proof. cbn [frag_ok]. rewrite frag_all. reflexivity. Qed.
Lemma frag_inline tm c sub : frag_ok tm (PInline c sub) = frags_ok tm c sub.
Proof. cbn [frag_ok]. rewrite frag_all. reflexivity. Qed.

(* insertion points only grow *)
Fixpoint is_prefix (a b : list string) : bool :=
  match a, b with
  | [], _ => true
  | x :: a', y :: b' => (x =? y) && is_prefix a' b'
  | _ :: _, [] => false
  end.
Lemma is_prefix_refl a : is_prefix a a = true.
Proof. induction a as [|x a IH]; cbn; [reflexivity|]. rewrite String.eqb_refl. exact IH. Qed.
Lemma is_prefix_app a b c : is_prefix (a ++ b) c = true -> is_prefix a c = true.
Proof.
  revert c. induction a as [|x a IH]; intros c H; [reflexivity|]. destruct c as [|y c]; cbn in *; [discriminate|].
  apply andb_true_iff in H as [H1 H2]. rewrite H1. cbn. apply IH. exact H2.
Qed.
Lemma is_prefix_longer a x b : is_prefix (a ++ [x]) b = true -> b <> a.
Proof.
  intros H E. subst b. revert H. induction a as [|y a IH]; cbn; [discriminate|].
  rewrite String.eqb_refl. cbn. exact IH.
Qed.
Lemma strs_eqb_eq a b : Steps.strs_eqb a b = true <-> a = b.
Proof.
  revert b. induction a as [|x a IH]; destruct b as [|y b]; cbn.
  - tauto.
  - split; discriminate.
  - split; discriminate.
  - rewrite andb_true_iff, String.eqb_eq, IH. split; [intros [-> ->]; reflexivity|intros H; inversion H; tauto].
Qed.

Lemma split_step_spec url ip steps before st after :
  split_step url ip steps = Some (before, st, after) ->
  steps = before ++ st :: after /\ s_url st = url /\ s_ip st = ip.
Proof.
  revert before. induction steps as [|s r IH]; intros before H; cbn [split_step] in H; [discriminate|].
  destruct ((s_url s =? url) && Steps.strs_eqb (s_ip s) ip) eqn:E.
  - inversion H; subst. apply andb_true_iff in E as [E1 E2]. apply String.eqb_eq in E1. apply strs_eqb_eq in E2. tauto.
  - destruct (split_step url ip r) as [[[a x] b]|] eqn:S; [|discriminate]. inversion H; subst.
    destruct (IH a eq_refl) as (-> & H2 & H3). tauto.
Qed.

Lemma get_url_elsewhere_node tm p n fb l :
  get_url tm p n fb = RUrl l -> l <> fb -> fb <> internal_service -> is_root p = false -> is_node_type tm p = true.
Proof.
  unfold get_url, is_node_type. destruct (is_builtin n); [intros H; inversion H; congruence|].
  destruct (tm_is_node tm p) as [nd|]; [|discriminate]. intros H Hne Hfb Hr. rewrite Hr in H.
  apply String.eqb_neq in Hfb. rewrite Hfb in H. destruct nd; [reflexivity|]. cbn in H. inversion H; congruence.
Qed.

Definition prefixed (ip : list string) (steps : list step) : Prop := Forall (fun st => is_prefix ip (s_ip st) = true) steps.
(* the steps that start at this very place were made here: for this type, inside the node wrapper *)
Definition mine (ip : list string) (parent : string) (steps : list step) : Prop :=
  forall st, In st steps -> s_ip st = ip -> s_parent st = parent /\ exists inner rest, s_sels st = PNode parent inner :: rest.

Lemma prefixed_weaken ip a steps : prefixed (ip ++ [a]) steps -> prefixed ip steps.
Proof. unfold prefixed. apply Forall_impl. intros st. apply is_prefix_app. Qed.
Lemma mine_deeper ip a parent steps more : mine ip parent steps -> prefixed (ip ++ [a]) more -> mine ip parent (steps ++ more).
Proof.
  intros Hm Hp st Hin Hip. apply in_app_iff in Hin as [Hin|Hin]; [apply Hm; assumption|].
  unfold prefixed in Hp. rewrite Forall_forall in Hp. specialize (Hp st Hin). exfalso. exact (is_prefix_longer _ _ _ Hp Hip).
Qed.

Section Loop.
  Variable tm : tmap.
  Hypothesis Hint : forall p n, tm_get tm p n <> Some internal_service.
  Hypothesis Hid : forall p, tm_get tm p "id" = None.

  Definition rec_ok (rec : extractor) : Prop :=
    forall ip p inp l ss cs, is_root p = false -> l <> internal_service -> frags_ok tm p inp = true ->
      rec ip p inp l = Ok (ss, cs) ->
      good_sels tm l p ss /\ Forall (step_ok tm) cs /\ prefixed ip cs /\
      (forall a n ty sub, inp = [PField a n ty sub] -> n <> "id" -> is_node_type tm p = true -> exists inner, ss = [PNode p inner]).

  Variable rec : extractor.
  Hypothesis Hrec : rec_ok rec.

  (* a selection of a type the table does not know: nothing is moved, fragments are looked into *)
  Lemma loop_abstract ip parent loc :
    tm_is_node tm parent = None -> loc <> internal_service ->
    forall l sels steps ss cs,
      forallb (frag_ok tm) l = true -> good_sels tm loc parent sels -> Forall (step_ok tm) steps -> prefixed ip steps ->
      extract_loop rec tm ip parent loc l sels steps = Ok (ss, cs) ->
      good_sels tm loc parent ss /\ Forall (step_ok tm) cs /\ prefixed ip cs.
  Proof.
    intros Hn Hloc. induction l as [|x r IH]; intros sels steps ss cs Hf Hg Hs Hp H; cbn [extract_loop] in H.
    - inversion H; subst. tauto.
    - cbn [forallb] in Hf. apply andb_true_iff in Hf as [Hx Hr]. destruct x as [a n ty sub|c sub|c sub].
      + destruct (get_url tm parent n loc) as [l'| |] eqn:E.
        * assert (l' = loc) as ->.
          { unfold get_url in E. rewrite Hn in E. destruct (is_builtin n); [inversion E; reflexivity|discriminate]. }
          rewrite String.eqb_refl in H. destruct sub as [|x0 sub'].
          -- apply (IH _ _ _ _ Hr) in H; [exact H| |exact Hs|exact Hp].
             apply good_app; [exact Hg|]. apply good_field. intros l El. rewrite E in El. inversion El; subst l.
             split; [reflexivity|apply good_nil].
          -- rewrite frag_field in Hx. destruct (rec (ip ++ [a]) ty (x0 :: sub') loc) as [[ss' cs']| | |] eqn:R; try discriminate.
             pose proof Hx as Hx'. unfold frags_ok, level_ok in Hx'. apply andb_true_iff in Hx' as [Hl _]. apply andb_true_iff in Hl as [Hroot _].
             apply negb_true_iff in Hroot.
             destruct (Hrec _ _ _ _ _ _ Hroot Hloc Hx R) as (G1 & G2 & G3 & _).
             apply (IH _ _ _ _ Hr) in H; [exact H| | |].
             ++ apply good_app; [exact Hg|]. apply good_field. intros l El. rewrite E in El. inversion El; subst l.
                split; [reflexivity|exact G1].
             ++ apply Forall_app. split; assumption.
             ++ apply Forall_app. split; [exact Hp|apply (prefixed_weaken _ _ _ G3)].
        * apply (IH _ _ _ _ Hr) in H; [exact H| |exact Hs|exact Hp].
          apply good_app; [exact Hg|]. apply good_field. intros l El. rewrite E in El. discriminate.
        * apply (IH _ _ _ _ Hr) in H; [exact H| |exact Hs|exact Hp].
          apply good_app; [exact Hg|]. apply good_field. intros l El. rewrite E in El. discriminate.
      + rewrite frag_inline in Hx. destruct (rec ip c sub loc) as [[ss' cs']| | |] eqn:R; try discriminate.
        pose proof Hx as Hx'. unfold frags_ok, level_ok in Hx'. apply andb_true_iff in Hx' as [Hl _]. apply andb_true_iff in Hl as [Hroot _].
        apply negb_true_iff in Hroot.
        destruct (Hrec _ _ _ _ _ _ Hroot Hloc Hx R) as (G1 & G2 & G3 & _).
        apply (IH _ _ _ _ Hr) in H; [exact H| | |].
        * apply good_app; [exact Hg|]. apply good_inline. exact G1.
        * apply Forall_app. split; assumption.
        * apply Forall_app. split; assumption.
      + cbn in Hx. discriminate.
  Qed.

  Lemma step_ok_sels u p i ss th : step_ok tm (mkStep u p i ss th) -> good_sels tm u p ss.
  Proof. intros H. apply step_ok_mk in H. tauto. Qed.

  (* a selection of a type the table knows (no fragments there): fields routed elsewhere leave for a step of their own,
     or join the step that already goes there from this place *)
  Lemma loop_known ip parent loc nd :
    tm_is_node tm parent = Some nd -> is_root parent = false -> loc <> internal_service ->
    forall l sels steps ss cs,
      forallb is_field l = true -> forallb (frag_ok tm) l = true ->
      good_sels tm loc parent sels -> Forall (step_ok tm) steps -> prefixed ip steps -> mine ip parent steps ->
      extract_loop rec tm ip parent loc l sels steps = Ok (ss, cs) ->
      good_sels tm loc parent ss /\ Forall (step_ok tm) cs /\ prefixed ip cs.
  Proof.
    intros Hn Hroot Hloc. induction l as [|x r IH]; intros sels steps ss cs Hfl Hf Hg Hs Hp Hm H; cbn [extract_loop] in H.
    - inversion H; subst. tauto.
    - cbn [forallb] in Hf, Hfl. apply andb_true_iff in Hf as [Hx Hr]. apply andb_true_iff in Hfl as [Hxf Hrf].
      destruct x as [a n ty sub|c sub|c sub]; try discriminate.
      destruct (get_url tm parent n loc) as [l'| |] eqn:E.
      + destruct (l' =? loc) eqn:El.
        * apply String.eqb_eq in El. subst l'. destruct sub as [|x0 sub'].
          -- apply (IH _ _ _ _ Hrf Hr) in H; [exact H| |exact Hs|exact Hp|exact Hm].
             apply good_app; [exact Hg|]. apply good_field. intros l E'. rewrite E in E'. inversion E'; subst l.
             split; [reflexivity|apply good_nil].
          -- rewrite frag_field in Hx. destruct (rec (ip ++ [a]) ty (x0 :: sub') loc) as [[ss' cs']| | |] eqn:R; try discriminate.
             pose proof Hx as Hx'. unfold frags_ok, level_ok in Hx'. apply andb_true_iff in Hx' as [Hl _]. apply andb_true_iff in Hl as [Hrt _].
             apply negb_true_iff in Hrt.
             destruct (Hrec _ _ _ _ _ _ Hrt Hloc Hx R) as (G1 & G2 & G3 & _).
             apply (IH _ _ _ _ Hrf Hr) in H; [exact H| | | |].
             ++ apply good_app; [exact Hg|]. apply good_field. intros l E'. rewrite E in E'. inversion E'; subst l.
                split; [reflexivity|exact G1].
             ++ apply Forall_app. split; assumption.
             ++ apply Forall_app. split; [exact Hp|apply (prefixed_weaken _ _ _ G3)].
             ++ apply mine_deeper with (a := a); assumption.
        * apply String.eqb_neq in El.
          destruct (get_url_at_route _ _ _ _ _ E El) as (R1 & R2 & R3 & _).
          pose proof (get_url_elsewhere_node _ _ _ _ _ E El Hloc Hroot) as Hnode.
          assert (Hl' : l' <> internal_service) by (intros ->; exact (Hint _ _ R2)).
          destruct (split_step l' ip steps) as [[[before st] after]|] eqn:S.
          -- destruct (split_step_spec _ _ _ _ _ _ S) as (-> & Su & Si).
             destruct (Hm st (in_elt _ _ _) Si) as (Sp & inner & rest & Ss).
             destruct st as [u p i sl th]. cbn [s_url s_ip s_parent s_sels s_then] in *. subst u i p sl.
             apply Forall_app in Hs as [Hsb Hsa]. inversion Hsa as [|? ? Hst Hsa']; subst.
             apply Forall_app in Hp as [Hpb Hpa]. inversion Hpa as [|? ? Hpt Hpa']; subst.
             pose proof (step_ok_sels _ _ _ _ _ Hst) as Hinner.
             change (PNode parent inner :: rest) with (node_query parent inner ++ rest) in Hinner.
             apply good_app_inv in Hinner as [Hinner _]. apply good_node in Hinner.
             apply step_ok_mk in Hst as [_ Hth].
             assert (Hmod : exists modified cs', 
                        (match sub with
                         | [] => Ok (PField a n ty sub, [])
                         | _ :: _ => match rec (ip ++ [a]) ty sub l' with
                                     | Ok (ss0, cs0) => Ok (PField a n ty ss0, cs0)
                                     | Err => Err | Fuel => Fuel | OutOfModel => OutOfModel end
                         end = Ok (modified, cs') \/
                         forall m c', match sub with
                                      | [] => Ok (PField a n ty sub, [])
                                      | _ :: _ => match rec (ip ++ [a]) ty sub l' with
                                                  | Ok (ss0, cs0) => Ok (PField a n ty ss0, cs0)
                                                  | Err => Err | Fuel => Fuel | OutOfModel => OutOfModel end
                                      end <> Ok (m, c')) /\ True).
             { destruct sub as [|x0 sub']; [exists (PField a n ty []), []; split; [left; reflexivity|exact I]|].
               destruct (rec (ip ++ [a]) ty (x0 :: sub') l') as [[ss0 cs0]| | |];
                 [exists (PField a n ty ss0), cs0; split; [left; reflexivity|exact I] | | |];
                 exists (PField a n ty []), []; (split; [right; intros; discriminate|exact I]). }
             clear Hmod.
             remember (match sub with
                       | [] => Ok (PField a n ty sub, [])
                       | _ :: _ => match rec (ip ++ [a]) ty sub l' with
                                   | Ok (ss0, cs0) => Ok (PField a n ty ss0, cs0)
                                   | Err => Err | Fuel => Fuel | OutOfModel => OutOfModel end
                       end) as r' eqn:Er'.
             destruct r' as [[modified cs']| | |]; try discriminate.
             assert (Hgm : good_sels tm l' parent [modified] /\ Forall (step_ok tm) cs' /\ prefixed (ip ++ [a]) cs').
             { destruct sub as [|x0 sub'].
               - inversion Er'; subst. split; [|split; constructor].
                 apply good_field. intros l E'. rewrite R1 in E'. inversion E'; subst l. split; [reflexivity|apply good_nil].
               - rewrite frag_field in Hx. destruct (rec (ip ++ [a]) ty (x0 :: sub') l') as [[ss0 cs0]| | |] eqn:R; try discriminate.
                 inversion Er'; subst.
                 pose proof Hx as Hx'. unfold frags_ok, level_ok in Hx'. apply andb_true_iff in Hx' as [Hl _]. apply andb_true_iff in Hl as [Hrt _].
                 apply negb_true_iff in Hrt.
                 destruct (Hrec _ _ _ _ _ _ Hrt Hl' Hx R) as (G1 & G2 & G3 & _).
                 split; [|split; assumption].
                 apply good_field. intros l E'. rewrite R1 in E'. inversion E'; subst l. split; [reflexivity|exact G1]. }
             destruct Hgm as (Gm & Gc & Gp).
             cbn [add_to_node_query] in H.
             apply (IH _ _ _ _ Hrf Hr) in H; [exact H|exact Hg| | |].
             ++ apply Forall_app. split; [exact Hsb|]. constructor; [|exact Hsa'].
                apply step_ok_mk. split.
                ** apply good_node. apply good_app; assumption.
                ** apply Forall_app. split; assumption.
             ++ apply Forall_app. split; [exact Hpb|]. constructor; [exact Hpt|exact Hpa'].
             ++ intros st Hin Hip. apply in_app_iff in Hin as [Hin|[<-|Hin]].
                ** apply Hm; [apply in_app_iff; left; exact Hin|exact Hip].
                ** cbn. split; [reflexivity|]. unfold node_query. eauto.
                ** apply Hm; [apply in_app_iff; right; right; exact Hin|exact Hip].
          -- rewrite R3, R2 in H.
             destruct (rec ip parent [PField a n ty sub] l') as [[ss2 th]| | |] eqn:R; try discriminate.
             assert (Hfr : frags_ok tm parent [PField a n ty sub] = true).
             { unfold frags_ok, level_ok. rewrite Hroot, Hn. cbn [forallb is_field negb andb]. rewrite Hx. reflexivity. }
             destruct (Hrec _ _ _ _ _ _ Hroot Hl' Hfr R) as (G1 & G2 & G3 & G4).
             assert (Hnid : n <> "id") by (intros ->; rewrite Hid in R2; discriminate).
             destruct (G4 _ _ _ _ eq_refl Hnid Hnode) as [inner ->].
             apply (IH _ _ _ _ Hrf Hr) in H; [exact H|exact Hg| | |].
             ++ apply Forall_app. split; [exact Hs|]. constructor; [|constructor].
                apply step_ok_mk. split; [exact G1|exact G2].
             ++ apply Forall_app. split; [exact Hp|]. constructor; [|constructor]. cbn. apply is_prefix_refl.
             ++ intros st Hin Hip. apply in_app_iff in Hin as [Hin|[<-|[]]]; [apply Hm; assumption|].
                cbn. split; [reflexivity|eauto].
      + apply (IH _ _ _ _ Hrf Hr) in H; [exact H| |exact Hs|exact Hp|exact Hm].
        apply good_app; [exact Hg|]. apply good_field. intros l E'. rewrite E in E'. discriminate.
      + apply (IH _ _ _ _ Hrf Hr) in H; [exact H| |exact Hs|exact Hp|exact Hm].
        apply good_app; [exact Hg|]. apply good_field. intros l E'. rewrite E in E'. discriminate.
  Qed.
End Loop.

(* ---- the interface rewrite keeps the shape ---- *)
Section psel_ind2.
  Variable P : psel -> Prop.
  Hypothesis HField : forall a n ty sub, Forall P sub -> P (PField a n ty sub).
  Hypothesis HInline : forall c sub, Forall P sub -> P (PInline c sub).
  Hypothesis HNode : forall c sub, Forall P sub -> P (PNode c sub).
  Fixpoint psel_ind2 (s : psel) : P s :=
    match s with
    | PField a n ty sub =>
        HField a n ty sub ((fix go (l : list psel) : Forall P l :=
                              match l with [] => Forall_nil _ | x :: t => Forall_cons x (psel_ind2 x) (go t) end) sub)
    | PInline c sub =>
        HInline c sub ((fix go (l : list psel) : Forall P l :=
                          match l with [] => Forall_nil _ | x :: t => Forall_cons x (psel_ind2 x) (go t) end) sub)
    | PNode c sub =>
        HNode c sub ((fix go (l : list psel) : Forall P l :=
                        match l with [] => Forall_nil _ | x :: t => Forall_cons x (psel_ind2 x) (go t) end) sub)
    end.
End psel_ind2.

Lemma flatten_for_go df dn sub :
  (fix go (l : list psel) := match l with [] => [] | x :: r => flatten_for_sel df dn x ++ go r end) sub =
  flat_map (flatten_for_sel df dn) sub.
Proof. induction sub as [|x r IH]; cbn [flat_map]; [reflexivity|]. rewrite IH. reflexivity. Qed.

Lemma flatten_for_ok tm df dn s :
  frag_ok tm s = true -> Forall (fun x => frag_ok tm x = true /\ is_field x = true) (flatten_for_sel df dn s).
Proof.
  induction s as [a n ty sub IH|c sub IH|c sub IH] using psel_ind2; intros H.
  - cbn [flatten_for_sel]. destruct (mem n df); constructor; [split; [exact H|reflexivity]|constructor].
  - cbn [flatten_for_sel]. destruct (c =? dn); [|constructor]. rewrite flatten_for_go.
    rewrite frag_inline in H. unfold frags_ok in H. apply andb_true_iff in H as [_ H]. rewrite forallb_forall in H.
    apply Forall_flat_map. rewrite Forall_forall in IH |- *. intros x Hx. apply (IH x Hx), (H x Hx).
  - cbn in H. discriminate.
Qed.

Lemma uniq_keys_subset l : forall seen x, In x (uniq_keys l seen) -> In x l.
Proof.
  induction l as [|y r IH]; intros seen x H; cbn [uniq_keys] in H; [destruct H|].
  destruct (mem (key_of y) seen); [right; eapply IH; exact H|]. destruct H as [<-|H]; [left; reflexivity|right; eapply IH; exact H].
Qed.

Lemma fields_repr_ok tm ps ss d :
  forallb (frag_ok tm) ss = true -> Forall (fun x => frag_ok tm x = true /\ is_field x = true) (fields_repr ps ss d).
Proof.
  intros H. unfold fields_repr. rewrite Forall_forall. intros x Hx. apply uniq_keys_subset in Hx.
  apply in_flat_map in Hx as (s & Hs & Hx). rewrite forallb_forall in H.
  pose proof (flatten_for_ok tm (fields_of ps d) d s (H s Hs)) as F. rewrite Forall_forall in F. exact (F x Hx).
Qed.

Lemma format_iface_ok tm ps parent ss loc :
  (forall d, In d (possible ps parent) -> is_root d = false) ->
  forallb (frag_ok tm) ss = true -> forallb (frag_ok tm) (format_iface tm ps parent ss loc) = true.
Proof.
  intros Hposs H. unfold format_iface.
  assert (Hrw : forallb (frag_ok tm) (typename_helper :: flat_map (fun d => match fields_repr ps ss d with [] => [] | fs => [PInline d fs] end) (possible ps parent)) = true).
  { cbn [forallb]. apply andb_true_iff. split; [reflexivity|]. apply forallb_forall. intros x Hx.
    apply in_flat_map in Hx as (d & Hd & Hx).
    pose proof (fields_repr_ok tm ps ss d H) as F. rewrite Forall_forall in F.
    destruct (fields_repr ps ss d) as [|f0 fs] eqn:E; [destruct Hx|]. destruct Hx as [<-|[]].
    rewrite frag_inline. unfold frags_ok, level_ok. rewrite (Hposs d Hd). cbn [negb andb].
    apply andb_true_iff. split.
    - destruct (tm_is_node tm d); [|reflexivity]. apply forallb_forall. intros y Hy. apply (F y Hy).
    - apply forallb_forall. intros y Hy. apply (F y Hy). }
  destruct (uniq_strs _ _) as [|u [|u' r]]; [exact Hrw| |exact Hrw].
  destruct (u =? loc); [exact H|exact Hrw].
Qed.

Lemma loop_single (rec : extractor) tm ip parent loc a n ty sub ss cs :
  extract_loop rec tm ip parent loc [PField a n ty sub] [] [] = Ok (ss, cs) -> n <> "id" -> has_field_named ss "id" = false.
Proof.
  intros H Hn. apply String.eqb_neq in Hn. cbn [extract_loop] in H.
  assert (Hone : forall s', has_field_named ([] ++ [PField a n ty s']) "id" = false).
  { intros s'. cbn. rewrite Hn. reflexivity. }
  destruct (get_url tm parent n loc) as [l'| |].
  - destruct (l' =? loc).
    + destruct sub as [|x0 sub'].
      * inversion H; subst. apply Hone.
      * destruct (rec (ip ++ [a]) ty (x0 :: sub') loc) as [[ss' cs']| | |]; try discriminate. inversion H; subst. apply Hone.
    + cbn [split_step] in H. destruct (is_builtin n); [inversion H; reflexivity|].
      destruct (tm_get tm parent n); [|discriminate].
      destruct (rec ip parent [PField a n ty sub] s) as [[ss2 th]| | |]; try discriminate. inversion H; reflexivity.
  - inversion H; subst. apply Hone.
  - inversion H; subst. apply Hone.
Qed.

(* ---- extractSelectionSet: what stays is at home, what leaves goes to steps whose selections are at home ---- *)
Theorem extract_rec_ok tm ps
  (Hint : forall p n, tm_get tm p n <> Some internal_service)
  (Hid : forall p, tm_get tm p "id" = None)
  (Hif : forall i, mem i (ps_interfaces ps) = true -> tm_is_node tm i = None)
  (Hposs : forall t d, In d (possible ps t) -> is_root d = false) :
  forall f, rec_ok tm (extract f tm ps).
Proof.
  induction f as [|f IH]; intros ip p inp l ss cs Hroot Hl Hfr H; cbn [extract] in H; [discriminate|].
  destruct (negb (mem p (ps_known ps))); [discriminate|].
  unfold frags_ok in Hfr. apply andb_true_iff in Hfr as [Hlev Hall].
  destruct (tm_is_node tm p) as [nd|] eqn:Hn.
  - assert (Hni : mem p (ps_interfaces ps) = false).
    { destruct (mem p (ps_interfaces ps)) eqn:E; [|reflexivity]. rewrite (Hif p E) in Hn. discriminate. }
    rewrite Hni in H.
    destruct (extract_loop (extract f tm ps) tm ip p l inp [] []) as [[sels steps]| | |] eqn:L; try discriminate.
    inversion H; subst ss cs. clear H.
    unfold level_ok in Hlev. rewrite Hn, Hroot in Hlev. cbn [negb andb] in Hlev.
    destruct (loop_known tm Hint Hid _ IH ip p l nd Hn Hroot Hl inp [] [] sels steps Hlev Hall (good_nil _ _ _) (Forall_nil _) (Forall_nil _))
      as (G1 & G2 & G3); [intros st []|exact L|].
    split; [apply good_finish; exact G1|]. split; [exact G2|]. split; [exact G3|].
    intros a n ty sub -> Hnid Hnode. unfold finish. rewrite Hroot, Hnode, (loop_single _ _ _ _ _ _ _ _ _ _ _ L Hnid). cbn. unfold node_query. eauto.
  - set (input' := if mem p (ps_interfaces ps) then format_iface tm ps p inp l else inp) in *.
    assert (Hall' : forallb (frag_ok tm) input' = true).
    { unfold input'. destruct (mem p (ps_interfaces ps)); [|exact Hall]. apply format_iface_ok; [apply Hposs|exact Hall]. }
    destruct (extract_loop (extract f tm ps) tm ip p l input' [] []) as [[sels steps]| | |] eqn:L; try discriminate.
    inversion H; subst ss cs. clear H.
    destruct (loop_abstract tm _ IH ip p l Hn Hl input' [] [] sels steps Hall' (good_nil _ _ _) (Forall_nil _) (Forall_nil _) L)
      as (G1 & G2 & G3).
    split; [apply good_finish; exact G1|]. split; [exact G2|]. split; [exact G3|].
    intros a n ty sub _ _ Hnode. unfold is_node_type in Hnode. rewrite Hn in Hnode. discriminate.
Qed.

(* ---- the root level ---- *)
Lemma get_url_root tm p n fb fb' : is_root p = true -> is_builtin n = false -> get_url tm p n fb = get_url tm p n fb'.
Proof.
  intros Hr Hb. unfold get_url. rewrite Hb, Hr. destruct (tm_is_node tm p); [|reflexivity].
  rewrite !andb_false_r. reflexivity.
Qed.

Definition at_home_root (tm : tmap) (parent loc : string) (x : psel) : Prop :=
  exists a n ty sub, x = PField a n ty sub /\ get_url tm parent n internal_service = RUrl loc.

Section Root.
  Variable tm : tmap.
  Hypothesis Hint : forall p n, tm_get tm p n <> Some internal_service.
  Variable rec : extractor.
  Hypothesis Hrec : rec_ok tm rec.

  Lemma loop_root ip parent loc :
    is_root parent = true -> loc <> internal_service ->
    forall l sels steps ss cs,
      Forall (at_home_root tm parent loc) l -> forallb (frag_ok tm) l = true ->
      good_sels tm loc parent sels -> Forall (step_ok tm) steps ->
      extract_loop rec tm ip parent loc l sels steps = Ok (ss, cs) ->
      good_sels tm loc parent ss /\ Forall (step_ok tm) cs.
  Proof.
    intros Hroot Hloc. induction l as [|x r IH]; intros sels steps ss cs Hh Hf Hg Hs H; cbn [extract_loop] in H.
    - inversion H; subst. tauto.
    - inversion Hh as [|? ? (a & n & ty & sub & -> & Hu) Hh']; subst.
      cbn [forallb] in Hf. apply andb_true_iff in Hf as [Hx Hr].
      assert (Hb : is_builtin n = false).
      { destruct (is_builtin n) eqn:Eb; [|reflexivity]. unfold get_url in Hu. rewrite Eb in Hu. inversion Hu. congruence. }
      rewrite (get_url_root tm parent n loc internal_service Hroot Hb), Hu, String.eqb_refl in H.
      assert (Hu' : get_url tm parent n loc = RUrl loc) by (rewrite (get_url_root tm parent n loc internal_service Hroot Hb); exact Hu).
      destruct sub as [|x0 sub'].
      + apply (IH _ _ _ _ Hh' Hr) in H; [exact H| |exact Hs].
        apply good_app; [exact Hg|]. apply good_field. intros l E'. rewrite Hu' in E'. inversion E'; subst l.
        split; [reflexivity|apply good_nil].
      + rewrite frag_field in Hx. destruct (rec (ip ++ [a]) ty (x0 :: sub') loc) as [[ss' cs']| | |] eqn:R; try discriminate.
        pose proof Hx as Hx'. unfold frags_ok, level_ok in Hx'. apply andb_true_iff in Hx' as [Hl _]. apply andb_true_iff in Hl as [Hrt _].
        apply negb_true_iff in Hrt.
        destruct (Hrec _ _ _ _ _ _ Hrt Hloc Hx R) as (G1 & G2 & _).
        apply (IH _ _ _ _ Hh' Hr) in H; [exact H| |].
        * apply good_app; [exact Hg|]. apply good_field. intros l E'. rewrite Hu' in E'. inversion E'; subst l.
          split; [reflexivity|exact G1].
        * apply Forall_app. split; assumption.
  Qed.
End Root.

Lemma flatten_go sub :
  (fix go (l : list psel) := match l with [] => [] | x :: r => flatten_sel x ++ go r end) sub = flat_map flatten_sel sub.
Proof. induction sub as [|x r IH]; cbn [flat_map]; [reflexivity|]. rewrite IH. reflexivity. Qed.
Lemma flatten_sel_ok tm s : frag_ok tm s = true -> Forall (fun x => frag_ok tm x = true) (flatten_sel s).
Proof.
  induction s as [a n ty sub IH|c sub IH|c sub IH] using psel_ind2; intros H.
  - cbn [flatten_sel]. constructor; [exact H|constructor].
  - cbn [flatten_sel]. rewrite flatten_go. rewrite frag_inline in H. unfold frags_ok in H. apply andb_true_iff in H as [_ H].
    rewrite forallb_forall in H. apply Forall_flat_map. rewrite Forall_forall in IH |- *. intros x Hx. apply (IH x Hx), (H x Hx).
  - cbn in H. discriminate.
Qed.
Lemma flatten_ok tm ss : forallb (frag_ok tm) ss = true -> forallb (frag_ok tm) (flatten ss) = true.
Proof.
  intros H. apply forallb_forall. intros x Hx. unfold flatten in Hx. apply in_flat_map in Hx as (s & Hs & Hx).
  rewrite forallb_forall in H. pose proof (flatten_sel_ok tm s (H s Hs)) as F. rewrite Forall_forall in F. exact (F x Hx).
Qed.

Lemma root_group_spec tm parent loc fields : forall l,
  root_group tm parent fields loc = Ok l ->
  Forall (at_home_root tm parent loc) l /\ (forall x, In x l -> In x fields).
Proof.
  induction fields as [|s r IH]; intros l H; cbn [root_group fold_right] in H.
  - inversion H; subst. split; [constructor|intros x []].
  - fold (root_group tm parent r loc) in H. destruct (root_group tm parent r loc) as [l0| | |] eqn:R; try (destruct s; discriminate).
    destruct (IH l0 eq_refl) as [F I]. destruct s as [a n ty sub|c sub|c sub].
    + destruct (get_url tm parent n internal_service) as [u| |] eqn:E; try discriminate.
      destruct (u =? loc) eqn:Eu.
      * apply String.eqb_eq in Eu. subst u. inversion H; subst. split.
        -- constructor; [|exact F]. exists a, n, ty, sub. tauto.
        -- intros x [<-|Hx]; [left; reflexivity|right; apply I, Hx].
      * inversion H; subst. split; [exact F|intros x Hx; right; apply I, Hx].
    + inversion H; subst. split; [exact F|intros x Hx; right; apply I, Hx].
    + inversion H; subst. split; [exact F|intros x Hx; right; apply I, Hx].
Qed.


(* every step of a plan, except the one for the gateway's own pseudo-service, asks its service only for fields the
   routing table gives to that service — at every depth of the plan *)
Theorem plan_steps_owned tm ps urls parent input fuel steps
  (Hint : forall p n, tm_get tm p n <> Some internal_service)
  (Hid : forall p, tm_get tm p "id" = None)
  (Hif : forall i, mem i (ps_interfaces ps) = true -> tm_is_node tm i = None)
  (Hposs : forall t d, In d (possible ps t) -> is_root d = false) :
  is_root parent = true -> mem parent (ps_interfaces ps) = false ->
  forallb (frag_ok tm) input = true ->
  plan_root fuel tm ps urls parent input = Ok steps ->
  Forall (fun st => s_url st <> internal_service -> step_ok tm st) steps.
Proof.
  intros Hroot Hni Hf H. unfold plan_root in H.
  destruct (has_field_named (flatten input) "node"); [discriminate|].
  pose proof (flatten_ok tm input Hf) as Hff. set (fields := flatten input) in *.
  assert (Hsteps : forall groups steps',
             Forall (fun g => Forall (at_home_root tm parent (fst g)) (snd g) /\ forallb (frag_ok tm) (snd g) = true) groups ->
             steps_for fuel tm ps parent groups = Ok steps' ->
             Forall (fun st => s_url st <> internal_service -> step_ok tm st) steps').
  { induction groups as [|[loc ss] r IH]; intros steps' Hg Hs; cbn [steps_for] in Hs.
    - inversion Hs; subst. constructor.
    - inversion Hg as [|? ? [Hh Hfr] Hg']; subst. cbn [fst snd] in *.
      destruct (extract fuel tm ps [] parent ss loc) as [[sels th]| | |] eqn:E; try discriminate.
      destruct (steps_for fuel tm ps parent r) as [rest| | |] eqn:R; try discriminate. inversion Hs; subst.
      constructor; [|apply IH; [exact Hg'|reflexivity]].
      cbn [s_url]. intros Hloc. apply step_ok_mk.
      destruct fuel as [|f]; cbn [extract] in E; [discriminate|].
      destruct (negb (mem parent (ps_known ps))); [discriminate|]. rewrite Hni in E.
      destruct (extract_loop (extract f tm ps) tm [] parent loc ss [] []) as [[sels0 steps0]| | |] eqn:L; try discriminate.
      inversion E; subst.
      destruct (loop_root tm (extract f tm ps) (extract_rec_ok tm ps Hint Hid Hif Hposs f) [] parent loc Hroot Hloc
                          ss [] [] sels0 th Hh Hfr (good_nil _ _ _) (Forall_nil _) L) as [G1 G2].
      split; [|exact G2]. unfold finish. rewrite Hroot. cbn [negb andb]. exact G1. }
  assert (Hgroup : forall loc l, root_group tm parent fields loc = Ok l ->
             Forall (at_home_root tm parent loc) l /\ forallb (frag_ok tm) l = true).
  { intros loc l Hr. destruct (root_group_spec _ _ _ _ _ Hr) as [F I]. split; [exact F|].
    apply forallb_forall. intros x Hx. rewrite forallb_forall in Hff. apply Hff, I, Hx. }
  assert (Hper : forall us groups,
             (fix per (us : list string) : res (list (string * list psel)) :=
                match us with
                | [] => Ok []
                | u :: r => match root_group tm parent fields u, per r with
                            | Ok [], Ok rest => Ok rest
                            | Ok ss, Ok rest => Ok ((u, ss) :: rest)
                            | Ok _, e => e
                            | Err, _ => Err | Fuel, _ => Fuel | OutOfModel, _ => OutOfModel
                            end
                end) us = Ok groups ->
             Forall (fun g => Forall (at_home_root tm parent (fst g)) (snd g) /\ forallb (frag_ok tm) (snd g) = true) groups).
  { induction us as [|u r IH]; intros groups Hp.
    - inversion Hp; subst. constructor.
    - destruct (root_group tm parent fields u) as [ss| | |] eqn:Rg; try discriminate.
      match type of Hp with context [match ?X with _ => _ end] => destruct X as [rest| | |] eqn:Rr end;
        try (destruct ss; discriminate).
      destruct ss as [|x xs]; inversion Hp; subst.
      + apply IH. reflexivity.
      + constructor; [apply (Hgroup u (x :: xs) Rg)|apply IH; reflexivity]. }
  match type of H with context [match ?X with _ => _ end] => destruct X as [groups| | |] eqn:P end; try discriminate.
  apply Hper in P.
  destruct (root_group tm parent fields internal_service) as [[|x xs]| | |] eqn:Ri; try (apply (Hsteps _ _ P H)).
  apply (Hsteps _ steps) in H; [exact H|]. apply Forall_app. split; [exact P|].
  constructor; [apply (Hgroup _ _ Ri)|constructor].
Qed.
