(* addSelectionSetToSanitizedResult since fix 360a3f6: nothing that is selected is dropped when several selections of one
   response key meet — the later selection's fields are found, at every depth, below the field that is already there. *)
From Coq Require Import List String Bool Arith Lia.
From Pebbles Require Import Merge.Model Plan.Sanitize Plan.SanitizeProofs Plan.EndToEnd.
Import ListNotations.
Open Scope string_scope.
Open Scope list_scope.

(* x is selected in out: a fragment as it stands; a field through a field with its response key whose selection, in turn,
   selects everything x selects *)
Fixpoint covers (out : list ssel) (x : ssel) {struct x} : Prop :=
  match x with
  | SanField a _ _ _ sub =>
      exists n ty d sub', In (SanField a n ty d sub') out /\
        (fix all (l : list ssel) : Prop := match l with [] => True | y :: r => covers sub' y /\ all r end) sub
  | SanFrag _ _ _ _ => In x out
  end.
Lemma covers_all sub' sub :
  (fix all (l : list ssel) : Prop := match l with [] => True | y :: r => covers sub' y /\ all r end) sub <-> Forall (covers sub') sub.
Proof.
  induction sub as [|y r IH]; [split; [constructor|trivial]|]. rewrite IH. split.
  - intros [H1 H2]. constructor; assumption.
  - intros H. inversion H; subst. split; assumption.
Qed.
Lemma covers_field out a n0 ty0 d0 sub :
  covers out (SanField a n0 ty0 d0 sub) <-> exists n ty d sub', In (SanField a n ty d sub') out /\ Forall (covers sub') sub.
Proof.
  cbn [covers]. split; intros (n & ty & d & sub' & Hin & H); exists n, ty, d, sub'; (split; [exact Hin|]); apply covers_all; exact H.
Qed.

Lemma update_first_in a f s e : In e s ->
  In e (update_first a f s) \/ exists n ty d sub', e = SanField a n ty d sub' /\ In (SanField a n ty d (f sub')) (update_first a f s).
Proof.
  induction s as [|z r IH]; intros H; [destruct H|]. cbn [update_first]. destruct z as [a' n' ty' d' sub'|c o fd sub'].
  - destruct (a' =? a) eqn:E.
    + destruct H as [<-|H].
      * right. apply String.eqb_eq in E. subst a'. exists n', ty', d', sub'. split; [reflexivity|left; reflexivity].
      * left. right. exact H.
    + destruct H as [<-|H]; [left; left; reflexivity|].
      destruct (IH H) as [H'|(n & ty & d & s' & -> & H')]; [left; right; exact H'|right; exists n, ty, d, s'; split; [reflexivity|right; exact H']].
  - destruct H as [<-|H]; [left; left; reflexivity|].
    destruct (IH H) as [H'|(n & ty & d & s' & -> & H')]; [left; right; exact H'|right; exists n, ty, d, s'; split; [reflexivity|right; exact H']].
Qed.
Lemma update_first_hit a f s : has_key s a = true -> exists n ty d sub', In (SanField a n ty d (f sub')) (update_first a f s).
Proof.
  induction s as [|z r IH]; cbn [has_key existsb]; [discriminate|]. intros H. cbn [update_first].
  destruct z as [a' n' ty' d' sub'|c o fd sub']; cbn [alias_of] in H.
  - destruct (a' =? a) eqn:E.
    + apply String.eqb_eq in E. subst a'. exists n', ty', d', sub'. left. reflexivity.
    + cbn [orb] in H. destruct (IH H) as (n & ty & d & s' & H'). exists n, ty, d, s'. right. exact H'.
  - cbn [orb] in H. destruct (IH H) as (n & ty & d & s' & H'). exists n, ty, d, s'. right. exact H'.
Qed.

Definition go_merge (sub acc : list ssel) : list ssel :=
  (fix go (l : list ssel) (acc : list ssel) := match l with [] => acc | y :: r => go r (add_sel y acc) end) sub acc.
Lemma go_merge_fold sub acc : go_merge sub acc = fold_left (fun acc y => add_sel y acc) sub acc.
Proof. unfold go_merge. revert acc. induction sub as [|y r IH]; intros acc; [reflexivity|]. cbn [fold_left]. apply IH. Qed.

(* what is selected stays selected when something more is merged in *)
Lemma covers_mono : forall x out z, covers out x -> covers (add_sel z out) x.
Proof.
  induction x as [a n0 ty0 d0 sub IH|c o fd sub IH] using ssel_ind2; intros out z H.
  - apply covers_field in H as (n & ty & d & sub' & Hin & Hall). apply covers_field.
    destruct z as [az nz tyz dz subz|cz oz fdz subz]; cbn [add_sel].
    + destruct (has_key out az).
      * destruct subz as [|y0 subz']; [exists n, ty, d, sub'; split; assumption|].
        destruct (update_first_in az (fun s' => go_merge (y0 :: subz') s') out _ Hin) as [H'|(n' & ty' & d' & s' & E & H')].
        -- exists n, ty, d, sub'. split; [exact H'|exact Hall].
        -- inversion E; subst. exists n', ty', d', (go_merge (y0 :: subz') s'). split; [exact H'|].
           rewrite go_merge_fold. clear H' Hin.
           assert (G : forall l acc, Forall (covers acc) sub -> Forall (covers (fold_left (fun acc y => add_sel y acc) l acc)) sub).
           { induction l as [|w l' IHl]; intros acc Hacc; [exact Hacc|]. cbn [fold_left]. apply IHl.
             rewrite Forall_forall in *. intros y Hy. apply (IH y Hy), (Hacc y Hy). }
           apply G, Hall.
      * exists n, ty, d, sub'. split; [apply in_or_app; left; exact Hin|exact Hall].
    + exists n, ty, d, sub'. split; [apply in_or_app; left; exact Hin|exact Hall].
  - cbn [covers] in *. destruct z as [az nz tyz dz subz|cz oz fdz subz]; cbn [add_sel].
    + destruct (has_key out az).
      * destruct subz as [|y0 subz']; [exact H|].
        destruct (update_first_in az (fun s' => go_merge (y0 :: subz') s') out _ H) as [H'|(n' & ty' & d' & s' & E & _)]; [exact H'|discriminate].
      * apply in_or_app. left. exact H.
    + apply in_or_app. left. exact H.
Qed.
Lemma covers_mono_fold x : forall l out, covers out x -> covers (fold_left (fun acc y => add_sel y acc) l out) x.
Proof. induction l as [|w l' IHl]; intros out H; [exact H|]. cbn [fold_left]. apply IHl, covers_mono, H. Qed.

(* a selection set selects what it holds *)
Lemma covers_refl : forall x l, In x l -> covers l x.
Proof.
  induction x as [a n0 ty0 d0 sub IH|c o fd sub IH] using ssel_ind2; intros l Hin.
  - apply covers_field. exists n0, ty0, d0, sub. split; [exact Hin|]. rewrite Forall_forall in *. intros y Hy. apply (IH y Hy), Hy.
  - exact Hin.
Qed.

(* what is merged in is selected afterwards *)
Lemma covers_self : forall x s, covers (add_sel x s) x.
Proof.
  induction x as [a n0 ty0 d0 sub IH|c o fd sub IH] using ssel_ind2; intros s.
  - apply covers_field. cbn [add_sel]. destruct (has_key s a) eqn:K.
    + destruct sub as [|y0 sub'].
      * apply has_key_alias in K as (n & ty & d & s' & Hin). exists n, ty, d, s'. split; [exact Hin|constructor].
      * destruct (update_first_hit a (fun s' => go_merge (y0 :: sub') s') s K) as (n & ty & d & s' & Hin).
        exists n, ty, d, (go_merge (y0 :: sub') s'). split; [exact Hin|]. rewrite go_merge_fold.
        assert (G : forall l acc, Forall (fun y => forall s0, covers (add_sel y s0) y) l ->
                     Forall (covers (fold_left (fun acc y => add_sel y acc) l acc)) l).
        { induction l as [|w l' IHl]; intros acc HF; [constructor|]. inversion HF; subst. cbn [fold_left]. constructor.
          - apply covers_mono_fold. auto.
          - apply IHl. assumption. }
        apply G, IH.
    + exists n0, ty0, d0, sub. split; [apply in_or_app; right; left; reflexivity|].
      rewrite Forall_forall. intros y Hy. apply covers_refl, Hy.
  - cbn [covers add_sel]. apply in_or_app. right. left. reflexivity.
Qed.

(* addSelectionSetToSanitizedResult loses nothing: what was selected and what is added are both selected in the result *)
Theorem merging_loses_nothing s new :
  (forall x, covers s x -> covers (add_to_result s new) x) /\ (forall x, In x new -> covers (add_to_result s new) x).
Proof.
  unfold add_to_result. revert s. induction new as [|w r IH]; intros s; cbn [fold_left].
  - split; [auto|intros x []].
  - destruct (IH (add_sel w s)) as [A B]. split.
    + intros x H. apply A, covers_mono, H.
    + intros x [<-|H]; [apply A, covers_self|apply B, H].
Qed.

(* non-vacuity: { me { name } me { phone } } — the formerly listed shape — selects both below one `me` *)
Example both_selections_survive :
  add_to_result [SanField "me" "me" "Human" 0 [SanField "name" "name" "String" 0 []]] [SanField "me" "me" "Human" 0 [SanField "phone" "phone" "String" 0 []]]
  = [SanField "me" "me" "Human" 0 [SanField "name" "name" "String" 0 []; SanField "phone" "phone" "String" 0 []]].
Proof. reflexivity. Qed.
