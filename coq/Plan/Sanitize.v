(* Model of planner/sanitize_selection_set.go: sanitizeSelectionSet — which helper fields (`id`, `__typename`) the
   gateway adds to the client's selection, where it registers them for removal (ScrubFields), and how it rewrites
   fragments (C02 last clause; the hypothesis of C13's scrub theorem; C01's scrub layer). Pure function: the in-place
   sharing of fragment definitions spread twice (listed finding C01-fragment-spread-twice) is outside the model. *)
From Coq Require Import List String Bool Arith.
From Pebbles Require Import Merge.Model.
Import ListNotations.
Open Scope string_scope.
Open Scope list_scope.

(* a selection with what the sanitizer reads: alias, name, named type of the field definition, number of directives;
   for a fragment its type condition, the name of the type it is spread in (ObjectDefinition) and its number of directives *)
Inductive ssel :=
| SanField (alias name ty : string) (dirs : nat) (sub : list ssel)
| SanFrag (cond odef : string) (dirs : nat) (sub : list ssel).

Inductive tkind := KIface | KUnion | KOther.
Record sschema := mkSS {
  ss_kind : list (string * tkind);            (* Kind of ctx.Schema.Types[name] (absent: any other kind / unknown) *)
  ss_possible : list (string * list string);  (* ctx.Schema.PossibleTypes *)
  ss_has_id : list string                     (* abstract types whose definition has a field `id` *)
}.
Definition kind_of (sc : sschema) (t : string) : tkind :=
  match Merge.Model.lookup t (ss_kind sc) with Some k => k | None => KOther end.
Definition possible_of (sc : sschema) (t : string) : list string :=
  match Merge.Model.lookup t (ss_possible sc) with Some l => l | None => [] end.
Definition smem (x : string) (l : list string) : bool := existsb (String.eqb x) l.

(* ScrubFields as a set of (path, type, field). The code keys the table by the path joined with "." (path_key); the
   model keeps the path itself — the two agree as long as response keys contain no "." (GraphQL names do not), and
   the correspondence compares through path_key *)
Definition entry := (list string * string * string)%type.
Definition scrub := list entry.
Fixpoint path_eqb (a b : list string) : bool :=
  match a, b with [], [] => true | x :: a', y :: b' => (x =? y) && path_eqb a' b' | _, _ => false end.
Definition entry_eqb (a b : entry) : bool :=
  path_eqb (fst (fst a)) (fst (fst b)) && (snd (fst a) =? snd (fst b)) && (snd a =? snd b).
Definition sc_set (s : scrub) (e : entry) : scrub := if existsb (entry_eqb e) s then s else s ++ [e].
Definition sc_merge (a b : scrub) : scrub := fold_left sc_set b a.
Definition sc_unset (s : scrub) (path : list string) (field : string) : scrub :=
  filter (fun e => negb (path_eqb (fst (fst e)) path && (snd e =? field))) s.
Definition path_key (ip : list string) : string := String.concat "." ip.

(* isContainsField: at this level or inside fragments, at any depth of fragments *)
Fixpoint contains_field (n : string) (s : ssel) {struct s} : bool :=
  match s with
  | SanField _ n' _ _ _ => n' =? n
  | SanFrag _ _ _ sub => (fix any (l : list ssel) := match l with [] => false | x :: r => contains_field n x || any r end) sub
  end.
Definition contains (ss : list ssel) (n : string) : bool := existsb (contains_field n) ss.

Definition id_helper : ssel := SanField "id" "id" "id" 0 [].
Definition typename_helper : ssel := SanField "__typename" "__typename" "String" 0 [].

(* selectionSetHasFieldNamed: on this level only *)
Definition has_direct (ss : list ssel) (n : string) : bool :=
  existsb (fun s => match s with SanField _ n' _ _ _ => n' =? n | SanFrag _ _ _ _ => false end) ss.
(* isFragmentOnTypeContainsField: a fragment on that very type, on this level, selects the field (at any depth of fragments) *)
Definition frag_has (ss : list ssel) (t n : string) : bool :=
  existsb (fun s => match s with SanFrag c _ _ sub => (c =? t) && contains sub n | SanField _ _ _ _ _ => false end) ss.

(* addScrubFieldsToSelectionSet(ctx, selectionSet, typename, isFragment) -> selection set, names of the fields it added *)
Definition has_own_fields (ss : list ssel) : bool :=
  existsb (fun s => match s with SanField _ n _ _ _ => negb (n =? "__typename") | SanFrag _ _ _ _ => false end) ss.
Definition add_scrub_fields (tm : tmap) (sc : sschema) (ss : list ssel) (t : string) (is_frag : bool) : list ssel * list string :=
  let abstract := match kind_of sc t with KOther => false | _ => true end in
  let '(ss1, added1) :=
    (* since fix: a __typename inside a fragment covers that fragment's type only, so only one selected on this level counts *)
    if abstract && negb (has_direct ss "__typename") then (typename_helper :: ss, ["__typename"]) else (ss, []) in
  let is_node :=
    if abstract then
      match possible_of sc t with
      | p :: _ => (match tm_is_node tm p with Some true => true | _ => false end) && smem t (ss_has_id sc)
      | [] => false
      end
    else match tm_is_node tm t with Some true => true | _ => false end in
  if negb is_node then (ss1, added1)
  (* since the fix: an id inside a fragment covers that fragment's type only — not the interface's own fields, nor a
     fragment on the abstract type, which is written out for every type *)
  else if (if abstract && (is_frag || has_own_fields ss1) then has_direct ss1 "id" else contains ss1 "id") then (ss1, added1)
  else (id_helper :: ss1, added1 ++ ["id"]).

(* addSelectionSetToSanitizedResult: a field whose response key (Alias) is already among the fields of s is not added
   again; since fix 360a3f6 what it selects is selected below the field that is there (before: dropped) *)
Definition alias_of (s : ssel) : option string := match s with SanField a _ _ _ _ => Some a | SanFrag _ _ _ _ => None end.
Definition has_key (s : list ssel) (a : string) : bool :=
  existsb (fun e => match alias_of e with Some a' => a' =? a | None => false end) s.
(* the first field with response key a gets f applied to its selection *)
Fixpoint update_first (a : string) (f : list ssel -> list ssel) (s : list ssel) : list ssel :=
  match s with
  | [] => []
  | SanField a' n ty d sub :: r =>
      if a' =? a then SanField a' n ty d (f sub) :: r else SanField a' n ty d sub :: update_first a f r
  | x :: r => x :: update_first a f r
  end.
Fixpoint add_sel (x : ssel) (s : list ssel) {struct x} : list ssel :=
  match x with
  | SanFrag _ _ _ _ => s ++ [x]
  | SanField a _ _ _ sub =>
      if has_key s a then
        match sub with
        | [] => s
        | _ => update_first a (fun sub' => (fix go (l : list ssel) (acc : list ssel) :=
                                            match l with [] => acc | y :: r => go r (add_sel y acc) end) sub sub') s
        end
      else s ++ [x]
  end.
Definition add_to_result (s : list ssel) (new : list ssel) : list ssel := fold_left (fun acc x => add_sel x acc) new s.

(* narrowSelectionSetToType: what of a selection set applies to the objects of one object type — a fragment on that
   type is unfolded, fragments on other object types are left out (those with directives, on abstract types or without
   a type condition stay). Type conditions of a validated operation name object, interface or union types: what the
   schema facts do not list as abstract is an object type *)
Fixpoint narrow_sel (sc : sschema) (t : string) (s : ssel) {struct s} : list ssel :=
  match s with
  | SanField _ _ _ _ _ => [s]
  | SanFrag c _ d sub =>
      if negb (Nat.eqb d 0) then [s]
      else if c =? t then
        (fix go (l : list ssel) (acc : list ssel) := match l with [] => acc | x :: r => go r (add_to_result acc (narrow_sel sc t x)) end) sub []
      else if (c =? "") then [s]
      else match kind_of sc c with KOther => [] | _ => [s] end
  end.
Definition narrow_to_type (sc : sschema) (ss : list ssel) (t : string) : list ssel :=
  fold_left (fun acc s => add_to_result acc (narrow_sel sc t s)) ss [].

(* sanitizeUnionInlineFragment(ctx, sanitized children, fragment) *)
Definition sanitize_union (children : list ssel) (cond odef : string) (dirs : nat) : list ssel :=
  let inner := fold_left (fun acc sel =>
                            match sel with
                            | SanFrag c o _ sub => if (o =? odef) && (c =? cond) then add_to_result acc sub else add_to_result acc [sel]
                            | _ => add_to_result acc [sel]
                            end) children [] in
  if cond =? odef then inner else [SanFrag cond odef dirs inner].

(* sanitizeInterfaceInlineFragment: a fragment on one of the interface's possible types stays; any other one is copied
   into one fragment per possible type, each holding the fragment's fields (before the fix each copy held what the
   selection set held when it was made, earlier copies included: `... on N1 { ... on N0 { } }`, which no service accepts) *)
Definition sanitize_iface (sc : sschema) (children : list ssel) (cond odef : string) (dirs : nat) : list ssel :=
  let pts := possible_of sc odef in
  if smem cond pts then [SanFrag cond odef dirs children]
  else
    (* a fragment on ANOTHER abstract type applies to the possible types both have, and its fields are not selected for
       the other objects of the interface (since the fix; before, they were hoisted to the level of the interface) *)
    let partial := (match kind_of sc cond with KOther => false | _ => true end) && negb (cond =? odef) in
    let pts' := if partial then filter (fun pt => smem pt (possible_of sc cond)) pts else pts in
    fold_left (fun acc pt => add_to_result acc [SanFrag pt pt dirs (narrow_to_type sc children pt)]) pts' (if partial then [] else children).

Definition other_abstract (sc : sschema) (cond odef : string) : bool :=
  (match kind_of sc cond with KOther => false | _ => true end) && negb (cond =? odef).

(* setMissingScrubFieldsForFieldSelectionSet *)
Definition set_missing (sc : sschema) (ip : list string) (alias ty : string) (sel : list ssel) (s : scrub) (added : list string) : scrub :=
  let path := ip ++ [alias] in
  fold_left (fun acc f =>
               match kind_of sc ty with
               | KOther => sc_set acc (path, ty, f)
               | _ => (* objects of a type keep the field if the client selected it in the fragment on that type *)
                      fold_left (fun acc' pt => sc_set acc' (path, pt, f)) (filter (fun pt => negb (frag_has sel pt f)) (possible_of sc ty)) acc
               end) added s.

(* the registration of what was added to a fragment's selection *)
Definition set_frag (sc : sschema) (ip : list string) (c : string) (s : scrub) (added : list string) : scrub :=
  fold_left (fun acc' f =>
               match kind_of sc c with
               | KOther => sc_set acc' (ip, c, f)
               | _ => fold_left (fun a pt => sc_set a (ip, pt, f)) (possible_of sc c) acc'
               end) added s.

(* the closing loop of sanitizeSelectionSet: helpers the client selected himself on this level are not scrubbed *)
Definition unset_level (ss : list ssel) (ip : list string) (s : scrub) : scrub :=
  fold_left (fun acc x =>
               match x with
               | SanField a n _ d _ =>
                   if (a =? n) && Nat.eqb d 0 && ((n =? "id") || (n =? "__typename")) then sc_unset acc ip n else acc
               | SanFrag _ _ _ _ => acc
               end) ss s.

(* clientSelectedHelpers: the helper fields the client selects himself in a selection set and inside its fragments (no
   alias, no directives, fragments with directives not entered), each with the types of the objects it is selected
   for; None: every type *)
Definition narrow_types (sc : sschema) (types : option (list string)) (cond : string) : option (list string) :=
  if cond =? "" then types
  else
    let matching := match kind_of sc cond with KOther => [cond] | _ => possible_of sc cond end in
    match types with
    | None => Some matching
    | Some ts => Some (filter (fun t => smem t ts) matching)
    end.
Definition hsel := (option string * string)%type.
Fixpoint client_sel (sc : sschema) (types : option (list string)) (s : ssel) {struct s} : list hsel :=
  match s with
  | SanField a n _ d _ =>
      if (a =? n) && Nat.eqb d 0 && ((n =? "id") || (n =? "__typename"))
      then match types with Some ts => map (fun t => (Some t, n)) ts | None => [(None, n)] end
      else []
  | SanFrag c _ d sub =>
      if Nat.eqb d 0
      then (fix go (l : list ssel) := match l with [] => [] | x :: r => client_sel sc (narrow_types sc types c) x ++ go r end) sub
      else []
  end.
Definition client_selected (sc : sschema) (ss : list ssel) : list hsel := flat_map (client_sel sc None) ss.
(* ScrubFields.UnsetForType / Unset *)
Definition sc_unset_type (s : scrub) (path : list string) (t field : string) : scrub :=
  filter (fun e => negb (path_eqb (fst (fst e)) path && (snd (fst e) =? t) && (snd e =? field))) s.
Definition sc_unset_h (s : scrub) (path : list string) (h : hsel) : scrub :=
  match fst h with Some t => sc_unset_type s path t (snd h) | None => sc_unset s path (snd h) end.
Definition unset_selected (sc : sschema) (path : list string) (sub : list ssel) (s : scrub) : scrub :=
  fold_left (fun acc h => sc_unset_h acc path h) (client_selected sc sub) s.
(* what the client selects himself below the fields of an operation, by the response path of the field: kept in the
   planning context across the whole operation (a later selection of the same response key, at this level or at the
   level of an ancestor, must not register it again) and taken out of the table whenever a level closes — so, at the
   latest, when the outermost one does *)
Definition pending := (list string * hsel)%type.
Fixpoint pending_sel (sc : sschema) (ip : list string) (s : ssel) {struct s} : list pending :=
  match s with
  | SanField a _ _ _ sub =>
      match sub with
      | [] => []
      | _ => map (fun h => (ip ++ [a], h)) (client_selected sc sub) ++
             (fix go (l : list ssel) := match l with [] => [] | x :: r => pending_sel sc (ip ++ [a]) x ++ go r end) sub
      end
  | SanFrag _ _ _ sub => (fix go (l : list ssel) := match l with [] => [] | x :: r => pending_sel sc ip x ++ go r end) sub
  end.
Definition pending_of (sc : sschema) (ip : list string) (ss : list ssel) : list pending := flat_map (pending_sel sc ip) ss.
Definition unset_pending (ps : list pending) (s : scrub) : scrub :=
  fold_left (fun acc p => sc_unset_h acc (fst p) (snd p)) ps s.
(* the closing loop of one level as far as the level's own table goes (the first loop) *)
Definition closing (sc : sschema) (ss : list ssel) (ip : list string) (s : scrub) : scrub := unset_level ss ip s.

(* one selection of sanitizeSelectionSet's loop: (result so far, scrub fields so far) -> the same after it *)
Fixpoint san_sel (tm : tmap) (sc : sschema) (ip : list string) (s : ssel) (acc : list ssel * scrub) {struct s} : list ssel * scrub :=
  let '(result, scr) := acc in
  match s with
  | SanField a n ty d sub =>
      match sub with
      | [] => (add_to_result result [s], scr)
      | _ =>
          let '(child, sf) :=
            (fix go (l : list ssel) (acc' : list ssel * scrub) := match l with [] => acc' | x :: r => go r (san_sel tm sc (ip ++ [a]) x acc') end)
              sub ([], []) in
          let sf := closing sc sub (ip ++ [a]) sf in
          let scr1 := sc_merge scr sf in
          let '(child', added) := add_scrub_fields tm sc child ty false in
          let scr2 := set_missing sc ip a ty child' scr1 added in
          (add_to_result result [SanField a n ty d child'], scr2)
      end
  | SanFrag c o fd sub =>
      let '(child, sf) :=
        (fix go (l : list ssel) (acc' : list ssel * scrub) := match l with [] => acc' | x :: r => go r (san_sel tm sc ip x acc') end)
          sub ([], []) in
      let sf := closing sc sub ip sf in
      let scr1 := sc_merge scr sf in
      let '(child', added) := add_scrub_fields tm sc child c true in
      (* helpers added for an abstract type condition are registered for every type an object can have (since the fix:
         before, under the condition's own name, which no object carries) *)
      let scr2 := set_frag sc ip c scr1 added in
      match kind_of sc o with
      | KIface => (add_to_result result (sanitize_iface sc child' c o fd), scr2)
      | KUnion =>
          (* since the fix: a fragment on another abstract type inside a union is written out for the member types it
             applies to, like inside an interface (the service of the union need not know that type) *)
          (add_to_result result (if other_abstract sc c o then sanitize_iface sc child' c o fd else sanitize_union child' c o fd), scr2)
      | KOther =>
          (* since the fix: unfolded into the selection of an object type, fragments on other object types go *)
          (add_to_result result (narrow_to_type sc child' o), scr2)
      end
  end.

Definition sanitize (tm : tmap) (sc : sschema) (ss : list ssel) (ip : list string) : list ssel * scrub :=
  let '(result, scr) := fold_left (fun acc x => san_sel tm sc ip x acc) ss ([], []) in
  (result, closing sc ss ip scr).

(* sanitizeSelectionSet(ctx, operation.SelectionSet, nil) as the planner calls it: the table the outermost level returns.
   Taking the client's own selections out when inner levels close as well changes nothing in it: the table only ever
   grows otherwise, and what an inner closing takes out the outermost one takes out too *)
Definition sanitize_op (tm : tmap) (sc : sschema) (ss : list ssel) : list ssel * scrub :=
  let '(result, scr) := sanitize tm sc ss [] in
  (result, unset_pending (pending_of sc [] ss) scr).
