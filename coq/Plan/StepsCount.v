(* Proofs about Plan/Steps.v, second part: nothing is lost and nothing is sent twice. Every field of the selection
   given to extractSelectionSet ends up exactly once — in the selection kept for the service or in exactly one of the
   steps made for other services (the gateway's node wrappers aside) — for selections that reach no interface-typed
   parent (the interface rewrite copies fields into one fragment per implementation on purpose). *)
From Coq Require Import List String Bool Arith Lia.
From Pebbles Require Import Merge.Model Plan.Steps Plan.StepsProofs.
Import ListNotations.
Open Scope string_scope.
Open Scope list_scope.

(* the number of field selections; the gateway's own node(id: $id) wrapper is not one of the client's *)
Fixpoint cnt (s : psel) {struct s} : nat :=
  match s with
  | PField _ _ _ sub => S ((fix go (l : list psel) := match l with [] => 0 | x :: r => cnt x + go r end) sub)
  | PInline _ sub => (fix go (l : list psel) := match l with [] => 0 | x :: r => cnt x + go r end) sub
  | PNode _ sub => (fix go (l : list psel) := match l with [] => 0 | x :: r => cnt x + go r end) sub
  end.
Fixpoint cnt_l (ss : list psel) : nat := match ss with [] => 0 | x :: r => cnt x + cnt_l r end.
Lemma cnt_go sub : (fix go (l : list psel) := match l with [] => 0 | x :: r => cnt x + go r end) sub = cnt_l sub.
Proof. induction sub as [|x r IH]; cbn [cnt_l]; [reflexivity|]. rewrite IH. reflexivity. Qed.
Lemma cnt_field a n ty sub : cnt (PField a n ty sub) = S (cnt_l sub).
Proof. cbn [cnt]. rewrite cnt_go. reflexivity. Qed.
Lemma cnt_inline c sub : cnt (PInline c sub) = cnt_l sub.
Proof. cbn [cnt]. apply cnt_go. Qed.
Lemma cnt_node c sub : cnt (PNode c sub) = cnt_l sub.
Proof. cbn [cnt]. apply cnt_go. Qed.
Lemma cnt_l_app a b : cnt_l (a ++ b) = cnt_l a + cnt_l b.
Proof. induction a as [|x r IH]; cbn [cnt_l app]; [reflexivity|]. rewrite IH. lia. Qed.

Fixpoint scnt (s : step) {struct s} : nat :=
  match s with
  | mkStep _ _ _ ss th => cnt_l ss + (fix go (l : list step) := match l with [] => 0 | x :: r => scnt x + go r end) th
  end.
Fixpoint scnt_l (l : list step) : nat := match l with [] => 0 | x :: r => scnt x + scnt_l r end.
Lemma scnt_go th : (fix go (l : list step) := match l with [] => 0 | x :: r => scnt x + go r end) th = scnt_l th.
Proof. induction th as [|x r IH]; cbn [scnt_l]; [reflexivity|]. rewrite IH. reflexivity. Qed.
Lemma scnt_mk u p i ss th : scnt (mkStep u p i ss th) = cnt_l ss + scnt_l th.
Proof. cbn [scnt]. rewrite scnt_go. reflexivity. Qed.
Lemma scnt_l_app a b : scnt_l (a ++ b) = scnt_l a + scnt_l b.
Proof. induction a as [|x r IH]; cbn [scnt_l app]; [reflexivity|]. rewrite IH. lia. Qed.

(* no selection of an interface type on the way (no formatSelectionSetForInterface) *)
Fixpoint conc (ps : pschema) (s : psel) {struct s} : bool :=
  match s with
  | PField _ _ ty sub =>
      match sub with
      | [] => true
      | _ => negb (mem ty (ps_interfaces ps)) && (fix all (l : list psel) := match l with [] => true | x :: r => conc ps x && all r end) sub
      end
  | PInline c sub => negb (mem c (ps_interfaces ps)) && (fix all (l : list psel) := match l with [] => true | x :: r => conc ps x && all r end) sub
  | PNode _ _ => false
  end.
Definition concs (ps : pschema) (parent : string) (ss : list psel) : bool := negb (mem parent (ps_interfaces ps)) && forallb (conc ps) ss.
Lemma conc_all ps sub :
  (fix all (l : list psel) := match l with [] => true | x :: r => conc ps x && all r end) sub = forallb (conc ps) sub.
Proof. induction sub as [|x r IH]; cbn [forallb]; [reflexivity|]. rewrite IH. reflexivity. Qed.
Lemma conc_field ps a n ty x sub : conc ps (PField a n ty (x :: sub)) = concs ps ty (x :: sub).
Proof. cbn [conc]. rewrite conc_all. reflexivity. Qed.
Lemma conc_inline ps c sub : conc ps (PInline c sub) = concs ps c sub.
Proof. cbn [conc]. rewrite conc_all. reflexivity. Qed.

(* the steps that start at this very place are exactly one wrapper for this type *)
Definition minex (ip : list string) (parent : string) (steps : list step) : Prop :=
  forall st, In st steps -> s_ip st = ip -> exists inner, s_sels st = [PNode parent inner].

Lemma minex_deeper ip a parent steps more : minex ip parent steps -> prefixed (ip ++ [a]) more -> minex ip parent (steps ++ more).
Proof.
  intros Hm Hp st Hin Hip. apply in_app_iff in Hin as [Hin|Hin]; [apply Hm; assumption|].
  unfold prefixed in Hp. rewrite Forall_forall in Hp. specialize (Hp st Hin). exfalso. exact (is_prefix_longer _ _ _ Hp Hip).
Qed.

Section Count.
  Variables (tm : tmap) (ps : pschema).
  Hypothesis Hint : forall p n, tm_get tm p n <> Some internal_service.
  Hypothesis Hid : forall p, tm_get tm p "id" = None.
  Hypothesis Hif : forall i, mem i (ps_interfaces ps) = true -> tm_is_node tm i = None.
  Hypothesis Hposs : forall t d, In d (possible ps t) -> is_root d = false.

  Definition rec_cnt (f : nat) : Prop :=
    forall ip p inp l ss cs, is_root p = false -> l <> internal_service -> frags_ok tm p inp = true -> concs ps p inp = true ->
      extract f tm ps ip p inp l = Ok (ss, cs) -> cnt_l ss + scnt_l cs = cnt_l inp.

  Variable f : nat.
  Hypothesis IHc : rec_cnt f.
  Let Hrec := extract_rec_ok tm ps Hint Hid Hif Hposs f.

  Lemma root_of_frags p inp : frags_ok tm p inp = true -> is_root p = false.
  Proof. unfold frags_ok, level_ok. intros H. apply andb_true_iff in H as [H _]. apply andb_true_iff in H as [H _]. apply negb_true_iff in H. exact H. Qed.

  Lemma loopc_abstract ip parent loc :
    tm_is_node tm parent = None -> loc <> internal_service ->
    forall l sels steps ss cs,
      forallb (frag_ok tm) l = true -> forallb (conc ps) l = true ->
      extract_loop (extract f tm ps) tm ip parent loc l sels steps = Ok (ss, cs) ->
      cnt_l ss + scnt_l cs = cnt_l sels + scnt_l steps + cnt_l l.
  Proof.
    intros Hn Hloc. induction l as [|x r IH]; intros sels steps ss cs Hf Hc H; cbn [extract_loop] in H.
    - inversion H; subst. cbn [cnt_l]. lia.
    - cbn [forallb] in Hf, Hc. apply andb_true_iff in Hf as [Hx Hr]. apply andb_true_iff in Hc as [Hcx Hcr].
      cbn [cnt_l]. destruct x as [a n ty sub|c sub|c sub].
      + rewrite cnt_field. destruct (get_url tm parent n loc) as [l'| |] eqn:E.
        * assert (l' = loc) as ->.
          { unfold get_url in E. rewrite Hn in E. destruct (is_builtin n); [inversion E; reflexivity|discriminate]. }
          rewrite String.eqb_refl in H. destruct sub as [|x0 sub'].
          -- apply (IH _ _ _ _ Hr Hcr) in H. rewrite cnt_l_app in H. cbn [cnt_l] in H. rewrite cnt_field in H. cbn [cnt_l] in *. lia.
          -- rewrite frag_field in Hx. rewrite conc_field in Hcx.
             destruct (extract f tm ps (ip ++ [a]) ty (x0 :: sub') loc) as [[ss' cs']| | |] eqn:R; try discriminate.
             pose proof (IHc _ _ _ _ _ _ (root_of_frags _ _ Hx) Hloc Hx Hcx R) as Hcount.
             apply (IH _ _ _ _ Hr Hcr) in H. rewrite cnt_l_app, scnt_l_app in H. cbn [cnt_l] in H. rewrite cnt_field in H. lia.
        * apply (IH _ _ _ _ Hr Hcr) in H. rewrite cnt_l_app in H. cbn [cnt_l] in H. rewrite cnt_field in H. lia.
        * apply (IH _ _ _ _ Hr Hcr) in H. rewrite cnt_l_app in H. cbn [cnt_l] in H. rewrite cnt_field in H. lia.
      + rewrite cnt_inline. rewrite frag_inline in Hx. rewrite conc_inline in Hcx.
        destruct (extract f tm ps ip c sub loc) as [[ss' cs']| | |] eqn:R; try discriminate.
        pose proof (IHc _ _ _ _ _ _ (root_of_frags _ _ Hx) Hloc Hx Hcx R) as Hcount.
        apply (IH _ _ _ _ Hr Hcr) in H. rewrite cnt_l_app, scnt_l_app in H. cbn [cnt_l] in H. rewrite cnt_inline in H. lia.
      + cbn in Hx. discriminate.
  Qed.

  Lemma loopc_known ip parent loc nd :
    tm_is_node tm parent = Some nd -> is_root parent = false -> loc <> internal_service ->
    forall l sels steps ss cs,
      forallb is_field l = true -> forallb (frag_ok tm) l = true -> forallb (conc ps) l = true ->
      prefixed ip steps -> minex ip parent steps ->
      extract_loop (extract f tm ps) tm ip parent loc l sels steps = Ok (ss, cs) ->
      cnt_l ss + scnt_l cs = cnt_l sels + scnt_l steps + cnt_l l.
  Proof.
    intros Hn Hroot Hloc. induction l as [|x r IH]; intros sels steps ss cs Hfl Hf Hc Hp Hm H; cbn [extract_loop] in H.
    - inversion H; subst. cbn [cnt_l]. lia.
    - cbn [forallb] in Hf, Hfl, Hc. apply andb_true_iff in Hf as [Hx Hr]. apply andb_true_iff in Hfl as [Hxf Hrf].
      apply andb_true_iff in Hc as [Hcx Hcr]. cbn [cnt_l].
      destruct x as [a n ty sub|c sub|c sub]; try discriminate. rewrite cnt_field.
      destruct (get_url tm parent n loc) as [l'| |] eqn:E.
      + destruct (l' =? loc) eqn:El.
        * apply String.eqb_eq in El. subst l'. destruct sub as [|x0 sub'].
          -- apply (IH _ _ _ _ Hrf Hr Hcr Hp Hm) in H. rewrite cnt_l_app in H. cbn [cnt_l] in H. rewrite cnt_field in H. cbn [cnt_l] in *. lia.
          -- rewrite frag_field in Hx. rewrite conc_field in Hcx.
             destruct (extract f tm ps (ip ++ [a]) ty (x0 :: sub') loc) as [[ss' cs']| | |] eqn:R; try discriminate.
             pose proof (IHc _ _ _ _ _ _ (root_of_frags _ _ Hx) Hloc Hx Hcx R) as Hcount.
             destruct (Hrec _ _ _ _ _ _ (root_of_frags _ _ Hx) Hloc Hx R) as (_ & _ & G3 & _).
             apply (IH _ _ _ _ Hrf Hr Hcr) in H.
             ++ rewrite cnt_l_app, scnt_l_app in H. cbn [cnt_l] in H. rewrite cnt_field in H. lia.
             ++ apply Forall_app. split; [exact Hp|apply (prefixed_weaken _ _ _ G3)].
             ++ apply minex_deeper with (a := a); assumption.
        * apply String.eqb_neq in El.
          destruct (get_url_at_route _ _ _ _ _ E El) as (R1 & R2 & R3 & _).
          pose proof (get_url_elsewhere_node _ _ _ _ _ E El Hloc Hroot) as Hnode.
          assert (Hl' : l' <> internal_service) by (intros ->; exact (Hint _ _ R2)).
          destruct (split_step l' ip steps) as [[[before st] after]|] eqn:Sp.
          -- destruct (split_step_spec _ _ _ _ _ _ Sp) as (-> & Su & Si).
             destruct (Hm st (in_elt _ _ _) Si) as (inner & Ss).
             destruct st as [u p i sl th]. cbn [s_url s_ip s_parent s_sels s_then] in *. subst u i sl.
             apply Forall_app in Hp as [Hpb Hpa]. inversion Hpa as [|? ? Hpt Hpa']; subst.
             remember (match sub with
                       | [] => Ok (PField a n ty sub, [])
                       | _ :: _ => match extract f tm ps (ip ++ [a]) ty sub l' with
                                   | Ok (ss0, cs0) => Ok (PField a n ty ss0, cs0)
                                   | Err => Err | Fuel => Fuel | OutOfModel => OutOfModel end
                       end) as r' eqn:Er'.
             destruct r' as [[modified cs']| | |]; try discriminate.
             assert (Hgm : cnt modified + scnt_l cs' = S (cnt_l sub) /\ prefixed (ip ++ [a]) cs').
             { destruct sub as [|x0 sub'].
               - inversion Er'; subst. rewrite cnt_field. cbn [cnt_l scnt_l]. split; [lia|constructor].
               - rewrite frag_field in Hx. rewrite conc_field in Hcx.
                 destruct (extract f tm ps (ip ++ [a]) ty (x0 :: sub') l') as [[ss0 cs0]| | |] eqn:R; try discriminate.
                 inversion Er'; subst.
                 pose proof (IHc _ _ _ _ _ _ (root_of_frags _ _ Hx) Hl' Hx Hcx R) as Hcount.
                 destruct (Hrec _ _ _ _ _ _ (root_of_frags _ _ Hx) Hl' Hx R) as (_ & _ & G3 & _).
                 rewrite cnt_field. split; [lia|exact G3]. }
             destruct Hgm as (Gm & Gp).
             cbn [add_to_node_query] in H.
             apply (IH _ _ _ _ Hrf Hr Hcr) in H.
             ++ rewrite !scnt_l_app in *. cbn [scnt_l] in *. rewrite !scnt_mk in *. unfold node_query in H.
                cbn [cnt_l] in *. rewrite !cnt_node in *. rewrite cnt_l_app, scnt_l_app in H. cbn [cnt_l] in H. lia.
             ++ apply Forall_app. split; [exact Hpb|]. constructor; [exact Hpt|exact Hpa'].
             ++ intros st Hin Hip. apply in_app_iff in Hin as [Hin|[<-|Hin]].
                ** apply Hm; [apply in_app_iff; left; exact Hin|exact Hip].
                ** cbn. unfold node_query. eauto.
                ** apply Hm; [apply in_app_iff; right; right; exact Hin|exact Hip].
          -- rewrite R3, R2 in H.
             destruct (extract f tm ps ip parent [PField a n ty sub] l') as [[ss2 th]| | |] eqn:R; try discriminate.
             assert (Hfr : frags_ok tm parent [PField a n ty sub] = true).
             { unfold frags_ok, level_ok. rewrite Hroot, Hn. cbn [forallb is_field negb andb]. rewrite Hx. reflexivity. }
             assert (Hcc : concs ps parent [PField a n ty sub] = true).
             { unfold concs. cbn [forallb]. rewrite Hcx. rewrite andb_true_r.
               destruct (mem parent (ps_interfaces ps)) eqn:Em; [|reflexivity]. rewrite (Hif _ Em) in Hn. discriminate. }
             pose proof (IHc _ _ _ _ _ _ Hroot Hl' Hfr Hcc R) as Hcount.
             destruct (Hrec _ _ _ _ _ _ Hroot Hl' Hfr R) as (_ & _ & G3 & G4).
             assert (Hnid : n <> "id") by (intros ->; rewrite Hid in R2; discriminate).
             destruct (G4 _ _ _ _ eq_refl Hnid Hnode) as [inner ->].
             apply (IH _ _ _ _ Hrf Hr Hcr) in H.
             ++ rewrite scnt_l_app in H. cbn [scnt_l] in H. rewrite scnt_mk in H. cbn [cnt_l] in Hcount, H. rewrite cnt_field in Hcount. lia.
             ++ apply Forall_app. split; [exact Hp|]. constructor; [|constructor]. cbn. apply is_prefix_refl.
             ++ intros st Hin Hip. apply in_app_iff in Hin as [Hin|[<-|[]]]; [apply Hm; assumption|]. cbn. eauto.
      + apply (IH _ _ _ _ Hrf Hr Hcr Hp Hm) in H. rewrite cnt_l_app in H. cbn [cnt_l] in H. rewrite cnt_field in H. lia.
      + apply (IH _ _ _ _ Hrf Hr Hcr Hp Hm) in H. rewrite cnt_l_app in H. cbn [cnt_l] in H. rewrite cnt_field in H. lia.
  Qed.
End Count.

Lemma cnt_finish tm parent ss : cnt_l (finish tm parent ss) = cnt_l ss.
Proof. unfold finish. destruct (_ && _); [|reflexivity]. unfold node_query. cbn [cnt_l]. rewrite cnt_node. lia. Qed.

(* extractSelectionSet loses no field and sends none twice *)
Theorem extract_counts tm ps
  (Hint : forall p n, tm_get tm p n <> Some internal_service)
  (Hid : forall p, tm_get tm p "id" = None)
  (Hif : forall i, mem i (ps_interfaces ps) = true -> tm_is_node tm i = None)
  (Hposs : forall t d, In d (possible ps t) -> is_root d = false) :
  forall f, rec_cnt tm ps f.
Proof.
  induction f as [|f IH]; intros ip p inp l ss cs Hroot Hl Hfr Hcc H; cbn [extract] in H; [discriminate|].
  destruct (negb (mem p (ps_known ps))); [discriminate|].
  unfold concs in Hcc. apply andb_true_iff in Hcc as [Hni Hcall]. apply negb_true_iff in Hni. rewrite Hni in H.
  unfold frags_ok in Hfr. apply andb_true_iff in Hfr as [Hlev Hall].
  destruct (extract_loop (extract f tm ps) tm ip p l inp [] []) as [[sels steps]| | |] eqn:L; try discriminate.
  inversion H; subst ss cs. clear H. rewrite cnt_finish.
  destruct (tm_is_node tm p) as [nd|] eqn:Hn.
  - unfold level_ok in Hlev. rewrite Hn, Hroot in Hlev. cbn [negb andb] in Hlev.
    pose proof (loopc_known tm ps Hint Hid Hif Hposs f IH ip p l nd Hn Hroot Hl inp [] [] sels steps Hlev Hall Hcall (Forall_nil _)) as Hk.
    cbn [cnt_l scnt_l] in Hk. apply Hk; [intros st []|exact L].
  - pose proof (loopc_abstract tm ps f IH ip p l Hn Hl inp [] [] sels steps Hall Hcall L) as Hk.
    cbn [cnt_l scnt_l] in Hk. exact Hk.
Qed.
