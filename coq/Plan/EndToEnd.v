(* Sanitizer and planner composed (Plan/Sanitize.v then Plan/Steps.v): for an operation written without fragments, in
   which no field has a root type, the selection the sanitizer leaves has the shape the planner theorems ask for — so
   every step of the plan made from it asks its service only for fields the routing table gives to that service. *)
From Coq Require Import List String Bool Arith Lia.
From Pebbles Require Import Merge.Model Plan.Sanitize Plan.SanitizeProofs Plan.Steps Plan.StepsProofs.
Import ListNotations.
Open Scope string_scope.
Open Scope list_scope.

(* what the planner sees of the sanitizer's output *)
Fixpoint erase (s : ssel) {struct s} : psel :=
  match s with
  | SanField a n ty _ sub => PField a n ty ((fix go (l : list ssel) := match l with [] => [] | x :: r => erase x :: go r end) sub)
  | SanFrag c _ _ sub => PInline c ((fix go (l : list ssel) := match l with [] => [] | x :: r => erase x :: go r end) sub)
  end.
Lemma erase_go sub : (fix go (l : list ssel) := match l with [] => [] | x :: r => erase x :: go r end) sub = map erase sub.
Proof. induction sub as [|x r IH]; cbn [map]; [reflexivity|]. rewrite IH. reflexivity. Qed.
Lemma erase_field a n ty d sub : erase (SanField a n ty d sub) = PField a n ty (map erase sub).
Proof. cbn [erase]. rewrite erase_go. reflexivity. Qed.

Section ssel_ind2.
  Variable P : ssel -> Prop.
  Hypothesis HField : forall a n ty d sub, Forall P sub -> P (SanField a n ty d sub).
  Hypothesis HFrag : forall c o d sub, Forall P sub -> P (SanFrag c o d sub).
  Fixpoint ssel_ind2 (s : ssel) : P s :=
    match s with
    | SanField a n ty d sub =>
        HField a n ty d sub ((fix go (l : list ssel) : Forall P l :=
                                match l with [] => Forall_nil _ | x :: t => Forall_cons x (ssel_ind2 x) (go t) end) sub)
    | SanFrag c o d sub =>
        HFrag c o d sub ((fix go (l : list ssel) : Forall P l :=
                          match l with [] => Forall_nil _ | x :: t => Forall_cons x (ssel_ind2 x) (go t) end) sub)
    end.
End ssel_ind2.

(* no fragments anywhere, no field of a root type *)
Fixpoint plain (s : ssel) {struct s} : bool :=
  match s with
  | SanField _ _ ty _ sub =>
      negb (is_root ty) && (fix all (l : list ssel) := match l with [] => true | x :: r => plain x && all r end) sub
  | SanFrag _ _ _ _ => false
  end.
Lemma plain_all sub : (fix all (l : list ssel) := match l with [] => true | x :: r => plain x && all r end) sub = forallb plain sub.
Proof. induction sub as [|x r IH]; cbn [forallb]; [reflexivity|]. rewrite IH. reflexivity. Qed.
Lemma plain_field a n ty d sub : plain (SanField a n ty d sub) = negb (is_root ty) && forallb plain sub.
Proof. cbn [plain]. rewrite plain_all. reflexivity. Qed.

Definition is_sfield (s : ssel) : bool := match s with SanField _ _ _ _ _ => true | SanFrag _ _ _ _ => false end.

Lemma update_first_plain a f s : (forall l, forallb plain l = true -> forallb plain (f l) = true) ->
  forallb plain s = true -> forallb plain (update_first a f s) = true.
Proof.
  intros Hf. induction s as [|e r IH]; intros H; [reflexivity|]. cbn [forallb] in H. apply andb_true_iff in H as [He Hr].
  destruct e as [a' n' ty' d' sub'|c o fd sub']; cbn [update_first]; [|cbn in He; discriminate].
  rewrite plain_field in He. apply andb_true_iff in He as [Hroot Hsub].
  destruct (a' =? a); cbn [forallb]; rewrite plain_field, Hroot; cbn [andb].
  - rewrite (Hf _ Hsub), Hr. reflexivity.
  - rewrite Hsub, (IH Hr). reflexivity.
Qed.
Lemma go_plain (l : list ssel) :
  Forall (fun x => forall s, plain x = true -> forallb plain s = true -> forallb plain (add_sel x s) = true) l ->
  forallb plain l = true -> forall acc, forallb plain acc = true ->
  forallb plain ((fix go (l : list ssel) (acc : list ssel) := match l with [] => acc | y :: r => go r (add_sel y acc) end) l acc) = true.
Proof.
  induction l as [|z r IHl]; intros HF Hl acc Hacc; [exact Hacc|].
  inversion HF as [|? ? Hz Hr]; subst. cbn [forallb] in Hl. apply andb_true_iff in Hl as [Hpz Hpr].
  apply (IHl Hr Hpr). apply Hz; assumption.
Qed.
(* merging a fragment-free selection into a fragment-free selection set leaves it fragment-free, at every depth *)
Lemma add_sel_plain : forall x s, plain x = true -> forallb plain s = true -> forallb plain (add_sel x s) = true.
Proof.
  induction x as [a n ty d sub IH|c o fd sub IH] using ssel_ind2; intros s Hx Hs; [|cbn in Hx; discriminate].
  cbn [add_sel]. destruct (has_key s a).
  - destruct sub as [|y sub']; [exact Hs|]. apply update_first_plain; [|exact Hs].
    rewrite plain_field in Hx. apply andb_true_iff in Hx as [_ Hsub].
    intros l Hl. apply (go_plain (y :: sub') IH Hsub l Hl).
  - rewrite forallb_app, Hs. cbn [forallb andb]. rewrite Hx. reflexivity.
Qed.
Lemma add_to_result_plain s new : forallb plain s = true -> forallb plain new = true -> forallb plain (add_to_result s new) = true.
Proof.
  unfold add_to_result. revert s. induction new as [|x r IH]; intros s Hs Hn; [exact Hs|]. cbn [fold_left]. cbn [forallb] in Hn.
  apply andb_true_iff in Hn as [Hx Hr]. apply IH; [apply add_sel_plain; assumption|exact Hr].
Qed.

Lemma add_scrub_plain tm sc ss t fr : forallb plain ss = true -> forallb plain (fst (add_scrub_fields tm sc ss t fr)) = true.
Proof.
  intros H. unfold add_scrub_fields.
  destruct ((match kind_of sc t with KOther => false | _ => true end) && negb (has_direct ss "__typename")).
  - match goal with |- context [if negb ?b then _ else _] => destruct (negb b) end; cbn [fst forallb plain Sanitize.typename_helper andb]; [exact H|].
    match goal with |- context [if ?c then (?x, ?y) else _] => destruct c end; cbn [fst forallb plain Sanitize.typename_helper id_helper andb]; exact H.
  - match goal with |- context [if negb ?b then _ else _] => destruct (negb b) end; cbn [fst]; [exact H|].
    match goal with |- context [if ?c then (?x, ?y) else _] => destruct c end; cbn [fst forallb plain id_helper andb]; exact H.
Qed.

(* the sanitizer keeps a fragment-free selection fragment-free, at every depth *)
Lemma san_sel_plain tm sc : forall s ip result scr,
  plain s = true -> forallb plain result = true -> forallb plain (fst (san_sel tm sc ip s (result, scr))) = true.
Proof.
  induction s as [a n ty d sub IH|c o fd sub IH] using ssel_ind2; intros ip result scr Hp Hr.
  - destruct sub as [|y sub'].
    + cbn [san_sel fst]. apply add_to_result_plain; [exact Hr|]. cbn [forallb]. rewrite Hp. reflexivity.
    + rewrite san_sel_field. rewrite plain_field in Hp. apply andb_true_iff in Hp as [Hroot Hsub].
      assert (Hchild : forallb plain (fst (sanitize tm sc (y :: sub') (ip ++ [a]))) = true).
      { rewrite sanitize_level. cbn [fst]. unfold level.
        assert (G : forall l acc, Forall (fun x => forall ip result scr, plain x = true -> forallb plain result = true ->
                                                   forallb plain (fst (san_sel tm sc ip x (result, scr))) = true) l ->
                     forallb plain l = true -> forallb plain (fst acc) = true ->
                     forallb plain (fst (fold_left (fun acc x => san_sel tm sc (ip ++ [a]) x acc) l acc)) = true).
        { induction l as [|x r IHl]; intros acc HF Hl Hacc; [exact Hacc|]. cbn [fold_left]. inversion HF; subst.
          cbn [forallb] in Hl. apply andb_true_iff in Hl as [Hx Hr']. apply IHl; [assumption|exact Hr'|].
          destruct acc as [res0 scr0]. apply H1; assumption. }
        apply G; [exact IH|exact Hsub|reflexivity]. }
      destruct (sanitize tm sc (y :: sub') (ip ++ [a])) as [child sf]. cbn [fst] in Hchild.
      pose proof (add_scrub_plain tm sc child ty false Hchild) as Hc'.
      destruct (add_scrub_fields tm sc child ty false) as [child' added]. cbn [fst] in *.
      apply add_to_result_plain; [exact Hr|]. cbn [forallb]. rewrite andb_true_r.
      rewrite plain_field, Hroot, Hc'. reflexivity.
  - cbn in Hp. discriminate.
Qed.

Lemma sanitize_plain tm sc ss ip : forallb plain ss = true -> forallb plain (fst (sanitize tm sc ss ip)) = true.
Proof.
  intros H. rewrite sanitize_level. cbn [fst]. unfold level.
  assert (G : forall l acc, forallb plain l = true -> forallb plain (fst acc) = true ->
               forallb plain (fst (fold_left (fun acc x => san_sel tm sc ip x acc) l acc)) = true).
  { induction l as [|x r IHl]; intros acc Hl Hacc; [exact Hacc|]. cbn [fold_left]. cbn [forallb] in Hl.
    apply andb_true_iff in Hl as [Hx Hr]. apply IHl; [exact Hr|]. destruct acc as [res0 scr0]. apply san_sel_plain; assumption. }
  apply G; [exact H|reflexivity].
Qed.

(* a fragment-free selection without root-typed fields has the shape the planner theorems ask for *)
Lemma plain_frag_ok tm : forall s, plain s = true -> frag_ok tm (erase s) = true.
Proof.
  induction s as [a n ty d sub IH|c o fd sub IH] using ssel_ind2; intros Hp.
  - rewrite erase_field. destruct sub as [|y sub']; [reflexivity|]. rewrite plain_field in Hp. apply andb_true_iff in Hp as [Hroot Hsub].
    cbn [map]. rewrite frag_field. unfold frags_ok, level_ok. rewrite Hroot. cbn [andb].
    assert (Hf : forallb is_field (erase y :: map erase sub') = true).
    { change (erase y :: map erase sub') with (map erase (y :: sub')). apply forallb_forall. intros x Hx. apply in_map_iff in Hx as (z & <- & Hz).
      rewrite forallb_forall in Hsub. specialize (Hsub z Hz). destruct z; [reflexivity|cbn in Hsub; discriminate]. }
    assert (Ha : forallb (frag_ok tm) (erase y :: map erase sub') = true).
    { change (erase y :: map erase sub') with (map erase (y :: sub')). apply forallb_forall. intros x Hx. apply in_map_iff in Hx as (z & <- & Hz).
      rewrite Forall_forall in IH. rewrite forallb_forall in Hsub. apply (IH z Hz), (Hsub z Hz). }
    rewrite Ha, andb_true_r. destruct (tm_is_node tm ty); [exact Hf|reflexivity].
  - cbn in Hp. discriminate.
Qed.

(* the composition: sanitize, then plan *)
Theorem plain_operations_are_planned_into_owned_steps tm sc ps urls parent input fuel steps
  (Hint : forall p n, tm_get tm p n <> Some internal_service)
  (Hid : forall p, tm_get tm p "id" = None)
  (Hif : forall i, mem i (ps_interfaces ps) = true -> tm_is_node tm i = None)
  (Hposs : forall t d, In d (possible ps t) -> is_root d = false) :
  is_root parent = true -> mem parent (ps_interfaces ps) = false ->
  forallb plain input = true ->
  plan_root fuel tm ps urls parent (map erase (fst (sanitize tm sc input []))) = Ok steps ->
  Forall (fun st => s_url st <> internal_service -> step_ok tm st) steps.
Proof.
  intros Hroot Hni Hp H.
  apply (plan_steps_owned tm ps urls parent (map erase (fst (sanitize tm sc input []))) fuel steps Hint Hid Hif Hposs Hroot Hni); [|exact H].
  pose proof (sanitize_plain tm sc input [] Hp) as Hs.
  apply forallb_forall. intros x Hx. apply in_map_iff in Hx as (z & <- & Hz).
  rewrite forallb_forall in Hs. apply plain_frag_ok, (Hs z Hz).
Qed.
