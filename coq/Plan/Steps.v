(* Model of planner/sequential_planner.go below the sanitizer: createQueryPlanSteps, routeSelectionSet,
   extractSelectionSet, formatSelectionSetForInterface, the node(id: $id) wrapper — how a sanitized selection set is
   cut into the steps of a query plan (C02 coverage / ownership; C01, C06, C12 share this layer).
   The routing table and PlanningContext.GetURL are those of Merge/Model.v. Root fields named `node` (Relay lookups
   written by the client, groupSelectionSetForNodeField) are outside this model: plan_root answers OutOfModel. *)
From Coq Require Import List String Bool Arith.
From Pebbles Require Import Merge.Model.
Import ListNotations.
Open Scope string_scope.
Open Scope list_scope.

(* a selection as the planner sees it: response key (Alias; "" on fields the gateway adds), field name, named type of
   the field's definition, sub-selections ([] = a nil SelectionSet) *)
Inductive psel :=
| PField (alias name ty : string) (sub : list psel)
| PInline (cond : string) (sub : list psel)
| PNode (cond : string) (sub : list psel).     (* the gateway's own  node(id: $id) { ... on cond { sub } } *)

Inductive step := mkStep (url parent : string) (ip : list string) (sels : list psel) (thens : list step).
Definition s_url (s : step) := match s with mkStep u _ _ _ _ => u end.
Definition s_parent (s : step) := match s with mkStep _ p _ _ _ => p end.
Definition s_ip (s : step) := match s with mkStep _ _ i _ _ => i end.
Definition s_sels (s : step) := match s with mkStep _ _ _ x _ => x end.
Definition s_then (s : step) := match s with mkStep _ _ _ _ t => t end.

(* what the planner reads from ctx.Schema *)
Record pschema := mkPS {
  ps_known : list string;                          (* names in ctx.Schema.Types *)
  ps_interfaces : list string;                     (* those of Kind Interface *)
  ps_possible : list (string * list string);       (* ctx.Schema.PossibleTypes, in order *)
  ps_fields : list (string * list string)          (* field names of each type *)
}.
Definition mem (x : string) (l : list string) : bool := existsb (String.eqb x) l.
Definition possible (ps : pschema) (t : string) : list string :=
  match Merge.Model.lookup t (ps_possible ps) with Some l => l | None => [] end.
Definition fields_of (ps : pschema) (t : string) : list string :=
  match Merge.Model.lookup t (ps_fields ps) with Some l => l | None => [] end.

Inductive res (A : Type) := Ok (a : A) | Err | Fuel | OutOfModel.
Arguments Ok {A} a. Arguments Err {A}. Arguments Fuel {A}. Arguments OutOfModel {A}.

Definition key_of (s : psel) : string :=
  match s with PField a n _ _ => if a =? "" then n else a | PInline _ _ => "" | PNode _ _ => "node" end.

(* common.SelectionSetToFields(s, nil): inline fragments flattened *)
Fixpoint flatten_sel (s : psel) : list psel :=
  match s with
  | PField _ _ _ _ => [s]
  | PNode _ _ => [s]
  | PInline _ sub => (fix go (l : list psel) := match l with [] => [] | x :: r => flatten_sel x ++ go r end) sub
  end.
Definition flatten (ss : list psel) : list psel := flat_map flatten_sel ss.

(* common.SelectionSetToFields(s, def): only fields def has, only fragments on def itself *)
Fixpoint flatten_for_sel (dfields : list string) (dname : string) (s : psel) : list psel :=
  match s with
  | PField _ n _ _ => if mem n dfields then [s] else []
  | PNode _ _ => if mem "node" dfields then [s] else []
  | PInline c sub =>
      if c =? dname
      then (fix go (l : list psel) := match l with [] => [] | x :: r => flatten_for_sel dfields dname x ++ go r end) sub
      else []
  end.
(* selectionSetToFieldsRepresentation: the first field of every response key *)
Fixpoint uniq_keys (l : list psel) (seen : list string) : list psel :=
  match l with
  | [] => []
  | x :: r => if mem (key_of x) seen then uniq_keys r seen else x :: uniq_keys r (key_of x :: seen)
  end.
Definition fields_repr (ps : pschema) (ss : list psel) (dname : string) : list psel :=
  uniq_keys (flat_map (flatten_for_sel (fields_of ps dname) dname) ss) [].

Fixpoint uniq_strs (l : list string) (seen : list string) : list string :=
  match l with [] => [] | x :: r => if mem x seen then uniq_strs r seen else x :: uniq_strs r (x :: seen) end.

Definition typename_helper : psel := PField "__typename" "__typename" "String" [].

(* formatSelectionSetForInterface *)
Definition format_iface (tm : tmap) (ps : pschema) (parent : string) (ss : list psel) (loc : string) : list psel :=
  let defs := possible ps parent in
  let urls := uniq_strs (flat_map (fun f => match f with
                                            | PField _ n _ _ => flat_map (fun d => match tm_get tm d n with Some u => [u] | None => [] end) defs
                                            | PNode _ _ => flat_map (fun d => match tm_get tm d "node" with Some u => [u] | None => [] end) defs
                                            | PInline _ _ => [] end) (flatten ss)) [] in
  (* one fragment per implementation for which something is selected (an empty fragment is not valid: fix) *)
  let frags := flat_map (fun d => match fields_repr ps ss d with [] => [] | fs => [PInline d fs] end) defs in
  match urls with
  | [u] => if u =? loc then ss else typename_helper :: frags
  | _ => typename_helper :: frags
  end.

(* convertSelectionSetToNodeQuery / addFieldToNodeQuery / selectionSetHasFieldNamed *)
Definition node_query (parent : string) (ss : list psel) : list psel := [PNode parent ss].
Definition add_to_node_query (parent : string) (nq : list psel) (s : psel) : option (list psel) :=
  match nq with
  | PNode _ inner :: _ => Some (node_query parent (inner ++ [s]))
  | PField _ n _ (PInline _ inner :: _) :: _ =>    (* any first field called node whose first selection is a fragment *)
      if n =? "node" then Some (node_query parent (inner ++ [s])) else None
  | _ => None
  end.
Definition has_field_named (ss : list psel) (n : string) : bool :=
  existsb (fun s => match s with PField _ n' _ _ => n' =? n | PNode _ _ => "node" =? n | PInline _ _ => false end) ss.

Fixpoint strs_eqb (a b : list string) : bool :=
  match a, b with [] , [] => true | x :: a', y :: b' => (x =? y) && strs_eqb a' b' | _, _ => false end.

(* the first child step already going to url from this insertion point, with what precedes and follows it *)
Fixpoint split_step (url : string) (ip : list string) (steps : list step) : option (list step * step * list step) :=
  match steps with
  | [] => None
  | s :: r =>
      if (s_url s =? url) && strs_eqb (s_ip s) ip then Some ([], s, r)
      else match split_step url ip r with Some (a, x, b) => Some (s :: a, x, b) | None => None end
  end.

(* the loop of extractSelectionSet over one selection set, with the recursive call abstracted:
   rec ip parent input loc = extractSelectionSet(ctx, ip, parent, input, loc) one level down *)
Definition extractor := list string -> string -> list psel -> string -> res (list psel * list step).

Fixpoint extract_loop (rec : extractor) (tm : tmap) (ip : list string) (parent loc : string)
         (l : list psel) (sels : list psel) (steps : list step) : res (list psel * list step) :=
  match l with
  | [] => Ok (sels, steps)
  | PNode _ _ :: _ => OutOfModel          (* the planner never meets its own wrapper in its input *)
  | PInline c sub :: r =>
      match rec ip c sub loc with
      | Ok (ss, cs) => extract_loop rec tm ip parent loc r (sels ++ [PInline c ss]) (steps ++ cs)
      | Err => Err | Fuel => Fuel | OutOfModel => OutOfModel
      end
  | PField a n ty sub :: r =>
      match get_url tm parent n loc with
      | RNoType | RNoField => extract_loop rec tm ip parent loc r (sels ++ [PField a n ty sub]) steps   (* fields of interfaces, id *)
      | RUrl l' =>
          if l' =? loc then
            match sub with
            | [] => extract_loop rec tm ip parent loc r (sels ++ [PField a n ty sub]) steps
            | _ => match rec (ip ++ [a]) ty sub loc with
                   | Ok (ss, cs) => extract_loop rec tm ip parent loc r (sels ++ [PField a n ty ss]) (steps ++ cs)
                   | Err => Err | Fuel => Fuel | OutOfModel => OutOfModel
                   end
            end
          else
            match split_step l' ip steps with
            | Some (before, st, after) =>
                (* a step from this place to that service exists already: the field joins it *)
                let r' := match sub with
                          | [] => Ok (PField a n ty sub, [])
                          | _ => match rec (ip ++ [a]) ty sub (s_url st) with
                                 | Ok (ss, cs) => Ok (PField a n ty ss, cs)
                                 | Err => Err | Fuel => Fuel | OutOfModel => OutOfModel
                                 end
                          end in
                match r' with
                | Ok (modified, cs) =>
                    let sels' := match add_to_node_query parent (s_sels st) modified with
                                 | Some s => s | None => s_sels st ++ [modified] end in
                    extract_loop rec tm ip parent loc r sels
                                 (before ++ mkStep (s_url st) (s_parent st) (s_ip st) sels' (s_then st ++ cs) :: after)
                | Err => Err | Fuel => Fuel | OutOfModel => OutOfModel
                end
            | None =>
                (* createQueryPlanSteps(ctx, ip, parent, loc, [selection]): routed by the table alone *)
                if is_builtin n then extract_loop rec tm ip parent loc r sels steps
                else match tm_get tm parent n with
                     | None => Err
                     | Some l'' =>
                         match rec ip parent [PField a n ty sub] l'' with
                         | Ok (ss, th) => extract_loop rec tm ip parent loc r sels (steps ++ [mkStep l'' parent ip ss th])
                         | Err => Err | Fuel => Fuel | OutOfModel => OutOfModel
                         end
                     end
            end
      end
  end.

Definition is_node_type (tm : tmap) (t : string) : bool := match tm_is_node tm t with Some true => true | _ => false end.
(* the end of extractSelectionSet: a selection for a Node type that carries no id is embedded in node(id: $id) *)
Definition finish (tm : tmap) (parent : string) (sels : list psel) : list psel :=
  if negb (is_root parent) && is_node_type tm parent && negb (has_field_named sels "id") then node_query parent sels else sels.

(* extractSelectionSet(ctx, ip, parent, input, loc) -> (selection set for loc, children steps) *)
Fixpoint extract (fuel : nat) (tm : tmap) (ps : pschema) (ip : list string) (parent : string) (input : list psel) (loc : string)
  : res (list psel * list step) :=
  match fuel with
  | 0 => Fuel
  | S f =>
      if negb (mem parent (ps_known ps)) then Err else
      let input' := if mem parent (ps_interfaces ps) then format_iface tm ps parent input loc else input in
      match extract_loop (extract f tm ps) tm ip parent loc input' [] [] with
      | Ok (sels, steps) => Ok (finish tm parent sels, steps)
      | Err => Err | Fuel => Fuel | OutOfModel => OutOfModel
      end
  end.

(* the root level: routeSelectionSet with parentLocation == "" and createQueryPlanSteps on top of it; the steps come
   out in the order of the services given (the real order is that of a map iteration) *)
Definition root_group (tm : tmap) (parent : string) (fields : list psel) (loc : string) : res (list psel) :=
  fold_right (fun s acc =>
                match acc, s with
                | Ok l, PField _ n _ _ =>
                    match get_url tm parent n internal_service with
                    | RUrl u => if u =? loc then Ok (s :: l) else Ok l
                    | _ => Err
                    end
                | Ok l, PInline _ _ => Ok l
                | Ok l, PNode _ _ => Ok l
                | r, _ => r
                end) (Ok []) fields.

Fixpoint steps_for (fuel : nat) (tm : tmap) (ps : pschema) (parent : string) (groups : list (string * list psel)) : res (list step) :=
  match groups with
  | [] => Ok []
  | (loc, ss) :: r =>
      match extract fuel tm ps [] parent ss loc with
      | Ok (sels, th) => match steps_for fuel tm ps parent r with
                         | Ok rest => Ok (mkStep loc parent [] sels th :: rest)
                         | e => e end
      | Err => Err | Fuel => Fuel | OutOfModel => OutOfModel
      end
  end.

Definition plan_root (fuel : nat) (tm : tmap) (ps : pschema) (urls : list string) (parent : string) (input : list psel) : res (list step) :=
  let fields := flatten input in
  if has_field_named fields "node" then OutOfModel else
  let per_url := fix per (us : list string) : res (list (string * list psel)) :=
    match us with
    | [] => Ok []
    | u :: r => match root_group tm parent fields u, per r with
                | Ok [], Ok rest => Ok rest
                | Ok ss, Ok rest => Ok ((u, ss) :: rest)
                | Ok _, e => e
                | Err, _ => Err | Fuel, _ => Fuel | OutOfModel, _ => OutOfModel
                end
    end in
  match per_url urls with
  | Ok groups =>
      let groups' := match root_group tm parent fields internal_service with
                     | Ok (x :: xs) => groups ++ [(internal_service, x :: xs)]
                     | _ => groups end in
      steps_for fuel tm ps parent groups'
  | Err => Err | Fuel => Fuel | OutOfModel => OutOfModel
  end.
