(* Proofs about Plan/Sanitize.v: every helper field the sanitizer adds to the selection of a field is registered for
   removal, at that field's path and for every type an object there can have — wherever in the operation the field
   occurs, and whatever else the operation selects (C02, last clause; C01's scrub layer relies on it). *)
From Coq Require Import List String Bool Arith Lia.
From Pebbles Require Import Merge.Model Plan.Sanitize.
Import ListNotations.
Open Scope string_scope.
Open Scope list_scope.

(* ---- the table ---- *)
Lemma path_eqb_eq a b : path_eqb a b = true <-> a = b.
Proof.
  revert b. induction a as [|x a IH]; destruct b as [|y b]; cbn.
  - tauto.
  - split; discriminate.
  - split; discriminate.
  - rewrite andb_true_iff, String.eqb_eq, IH. split; [intros [-> ->]; reflexivity|intros H; inversion H; tauto].
Qed.
Lemma entry_eqb_eq a b : entry_eqb a b = true <-> a = b.
Proof.
  destruct a as [[p t] f], b as [[p' t'] f']. unfold entry_eqb. cbn [fst snd].
  rewrite !andb_true_iff, path_eqb_eq, !String.eqb_eq. split; [intros [[-> ->] ->]; reflexivity|intros H; inversion H; tauto].
Qed.

Lemma sc_set_in s e : In e (sc_set s e).
Proof.
  unfold sc_set. destruct (existsb (entry_eqb e) s) eqn:E.
  - apply existsb_exists in E as (x & Hx & Hq). apply entry_eqb_eq in Hq. subst x. exact Hx.
  - apply in_app_iff. right. left. reflexivity.
Qed.
Lemma sc_set_mono s e x : In x s -> In x (sc_set s e).
Proof. unfold sc_set. destruct (existsb _ s); [tauto|]. intros H. apply in_app_iff. left. exact H. Qed.
Lemma sc_sets_mono {A} (g : A -> entry) l : forall s x, In x s -> In x (fold_left (fun acc a => sc_set acc (g a)) l s).
Proof. induction l as [|a r IH]; intros s x H; cbn [fold_left]; [exact H|]. apply IH, sc_set_mono, H. Qed.
Lemma sc_sets_in {A} (g : A -> entry) l : forall s a, In a l -> In (g a) (fold_left (fun acc a => sc_set acc (g a)) l s).
Proof.
  induction l as [|b r IH]; intros s a H; [destruct H|]. cbn [fold_left]. destruct H as [<-|H].
  - apply sc_sets_mono, sc_set_in.
  - apply IH, H.
Qed.
Lemma sc_merge_left a b x : In x a -> In x (sc_merge a b).
Proof. unfold sc_merge. apply (sc_sets_mono (fun e => e)). Qed.
Lemma sc_merge_right a b x : In x b -> In x (sc_merge a b).
Proof. unfold sc_merge. intros H. apply (sc_sets_in (fun e => e) b a x H). Qed.
Lemma sc_unset_other s p f x : In x s -> fst (fst x) <> p -> In x (sc_unset s p f).
Proof.
  intros H Hp. unfold sc_unset. apply filter_In. split; [exact H|].
  destruct (path_eqb (fst (fst x)) p) eqn:E; [apply path_eqb_eq in E; contradiction|reflexivity].
Qed.
Lemma unset_level_other ss ip : forall s x, In x s -> fst (fst x) <> ip -> In x (unset_level ss ip s).
Proof.
  unfold unset_level. induction ss as [|y r IH]; intros s x H Hp; cbn [fold_left]; [exact H|].
  apply IH; [|exact Hp]. destruct y as [a n t d sub|c o fd sub]; [|exact H].
  destruct (_ && _); [apply sc_unset_other; assumption|exact H].
Qed.

(* ScrubFields.UnsetForType touches the one (path, type, field) it names *)
Lemma sc_unset_type_other s p t f x : In x s -> x <> (p, t, f) -> In x (sc_unset_type s p t f).
Proof.
  intros H Hx. unfold sc_unset_type. apply filter_In. split; [exact H|].
  destruct (path_eqb (fst (fst x)) p) eqn:E1; [|reflexivity]. destruct (snd (fst x) =? t) eqn:E2; [|reflexivity].
  destruct (snd x =? f) eqn:E3; [|reflexivity]. exfalso. apply Hx. apply path_eqb_eq in E1. apply String.eqb_eq in E2, E3.
  destruct x as [[xp xt] xf]. cbn [fst snd] in *. subst. reflexivity.
Qed.
Lemma sc_unset_type_sub s p t f x : In x (sc_unset_type s p t f) -> In x s.
Proof. unfold sc_unset_type. intros H. apply filter_In in H. apply H. Qed.
Lemma sc_unset_type_gone s p t f : ~ In (p, t, f) (sc_unset_type s p t f).
Proof.
  unfold sc_unset_type. intros H. apply filter_In in H as [_ H]. cbn [fst snd] in H.
  assert (E : path_eqb p p = true) by (apply path_eqb_eq; reflexivity). rewrite E, !String.eqb_refl in H. discriminate.
Qed.
Lemma sc_unset_sub s p f x : In x (sc_unset s p f) -> In x s.
Proof. unfold sc_unset. intros H. apply filter_In in H. apply H. Qed.
(* the client selects field f for objects of type T: for that type, or for every type *)
Definition selected_for (cs : list hsel) (T f : string) : Prop := In (Some T, f) cs \/ In (None, f) cs.
Lemma sc_unset_h_other s path h x : In x s ->
  (fst (fst x) = path -> ~ selected_for [h] (snd (fst x)) (snd x)) -> In x (sc_unset_h s path h).
Proof.
  intros H Hn. destruct h as [[t|] f]; unfold sc_unset_h; cbn [fst snd].
  - apply sc_unset_type_other; [exact H|]. intros E. subst x. cbn [fst snd] in Hn. apply (Hn eq_refl). left. left. reflexivity.
  - unfold sc_unset. apply filter_In. split; [exact H|].
    destruct (path_eqb (fst (fst x)) path) eqn:E1; [|reflexivity]. destruct (snd x =? f) eqn:E2; [|reflexivity].
    exfalso. apply path_eqb_eq in E1. apply String.eqb_eq in E2. apply (Hn E1). right. left. rewrite E2. reflexivity.
Qed.
Lemma sc_unset_h_sub s path h x : In x (sc_unset_h s path h) -> In x s.
Proof. destruct h as [[t|] f]; unfold sc_unset_h; cbn [fst snd]; [apply sc_unset_type_sub|apply sc_unset_sub]. Qed.
Lemma unset_selected_other sc path sub : forall s x, In x s ->
  (fst (fst x) = path -> ~ selected_for (client_selected sc sub) (snd (fst x)) (snd x)) -> In x (unset_selected sc path sub s).
Proof.
  unfold unset_selected. induction (client_selected sc sub) as [|h r IH]; intros s x H Hn; cbn [fold_left]; [exact H|].
  apply IH.
  - apply sc_unset_h_other; [exact H|]. intros E [Hs|Hs]; apply (Hn E); [left|right]; (destruct Hs as [<-|[]]; left; reflexivity).
  - intros E [Hs|Hs]; apply (Hn E); [left|right]; right; exact Hs.
Qed.
Lemma unset_selected_sub sc path sub : forall s x, In x (unset_selected sc path sub s) -> In x s.
Proof.
  unfold unset_selected. induction (client_selected sc sub) as [|h r IH]; intros s x H; cbn [fold_left] in H; [exact H|].
  apply IH in H. apply sc_unset_h_sub in H. exact H.
Qed.
Lemma closing_other sc ss ip s x : In x s -> fst (fst x) <> ip -> In x (closing sc ss ip s).
Proof. intros H Hp. unfold closing. apply unset_level_other; assumption. Qed.

(* the table after the client's own selections of the whole operation are taken out *)
Lemma unset_pending_other ps : forall s x, In x s ->
  (forall p h, In (p, h) ps -> fst (fst x) = p -> ~ selected_for [h] (snd (fst x)) (snd x)) -> In x (unset_pending ps s).
Proof.
  unfold unset_pending. induction ps as [|[p h] r IH]; intros s x H Hn; cbn [fold_left]; [exact H|].
  apply IH.
  - cbn [fst snd]. apply sc_unset_h_other; [exact H|]. intros E. apply (Hn p h); [left; reflexivity|exact E].
  - intros p' h' Hin. apply (Hn p' h'). right. exact Hin.
Qed.
Lemma unset_pending_sub ps : forall s x, In x (unset_pending ps s) -> In x s.
Proof.
  unfold unset_pending. induction ps as [|[p h] r IH]; intros s x H; cbn [fold_left] in H; [exact H|].
  apply IH in H. apply sc_unset_h_sub in H. exact H.
Qed.
Lemma sc_unset_h_gone s path h T : (fst h = Some T \/ fst h = None) -> ~ In (path, T, snd h) (sc_unset_h s path h).
Proof.
  destruct h as [[t|] f]; unfold sc_unset_h; cbn [fst snd]; intros [E|E]; try discriminate.
  - inversion E; subst. apply sc_unset_type_gone.
  - unfold sc_unset. intros H. apply filter_In in H as [_ H]. cbn [fst snd] in H.
    assert (Ep : path_eqb path path = true) by (apply path_eqb_eq; reflexivity). rewrite Ep, String.eqb_refl in H. discriminate.
Qed.
Lemma unset_pending_gone ps : forall s p h T, In (p, h) ps -> (fst h = Some T \/ fst h = None) -> ~ In (p, T, snd h) (unset_pending ps s).
Proof.
  unfold unset_pending. induction ps as [|[p0 h0] r IH]; intros s p h T Hin HT; [destruct Hin|]. cbn [fold_left fst snd].
  destruct Hin as [E|Hin]; [|apply IH; assumption]. inversion E; subst p0 h0. intros H.
  change (fold_left (fun acc q => sc_unset_h acc (fst q) (snd q)) r (sc_unset_h s p h)) with (unset_pending r (sc_unset_h s p h)) in H.
  apply unset_pending_sub in H. apply (sc_unset_h_gone s p h T HT H).
Qed.

(* the types an object selected through a field of type ty can have, as far as registration goes *)
Definition reg_types (sc : sschema) (ty : string) : list string :=
  match kind_of sc ty with KOther => [ty] | _ => possible_of sc ty end.

Lemma set_missing_mono sc ip a ty sel added : forall s x, In x s -> In x (set_missing sc ip a ty sel s added).
Proof.
  unfold set_missing. induction added as [|f r IH]; intros s x H; cbn [fold_left]; [exact H|]. apply IH.
  destruct (kind_of sc ty); [apply (sc_sets_mono (fun pt => (ip ++ [a], pt, f))), H
                            |apply (sc_sets_mono (fun pt => (ip ++ [a], pt, f))), H
                            |apply sc_set_mono, H].
Qed.
Lemma set_missing_in sc ip a ty sel added : forall s f T, In f added -> In T (reg_types sc ty) ->
  (kind_of sc ty = KOther \/ frag_has sel T f = false) ->
  In (ip ++ [a], T, f) (set_missing sc ip a ty sel s added).
Proof.
  unfold set_missing, reg_types. induction added as [|g r IH]; intros s f T Hf HT Hfr; [destruct Hf|]. cbn [fold_left].
  destruct Hf as [<-|Hf]; [|apply IH; assumption].
  apply (set_missing_mono sc ip a ty sel r). destruct (kind_of sc ty) eqn:K.
  - destruct Hfr as [Hfr|Hfr]; [discriminate|]. apply (sc_sets_in (fun pt => (ip ++ [a], pt, g))). apply filter_In. split; [exact HT|]. rewrite Hfr. reflexivity.
  - destruct Hfr as [Hfr|Hfr]; [discriminate|]. apply (sc_sets_in (fun pt => (ip ++ [a], pt, g))). apply filter_In. split; [exact HT|]. rewrite Hfr. reflexivity.
  - destruct HT as [<-|[]]. apply sc_set_in.
Qed.

Lemma set_frag_mono sc ip c added : forall s x, In x s -> In x (set_frag sc ip c s added).
Proof.
  unfold set_frag. induction added as [|f r IH]; intros s x H; cbn [fold_left]; [exact H|]. apply IH.
  destruct (kind_of sc c); [apply (sc_sets_mono (fun pt => (ip, pt, f))), H
                           |apply (sc_sets_mono (fun pt => (ip, pt, f))), H
                           |apply sc_set_mono, H].
Qed.

(* ---- one level of the sanitizer ---- *)
Definition level (tm : tmap) (sc : sschema) (ip : list string) (ss : list ssel) (acc : list ssel * scrub) : list ssel * scrub :=
  fold_left (fun acc x => san_sel tm sc ip x acc) ss acc.
Lemma level_go tm sc ip sub acc :
  (fix go (l : list ssel) (acc' : list ssel * scrub) := match l with [] => acc' | x :: r => go r (san_sel tm sc ip x acc') end) sub acc =
  level tm sc ip sub acc.
Proof. revert acc. induction sub as [|x r IH]; intros acc; [reflexivity|]. cbn [level fold_left]. apply IH. Qed.
Lemma sanitize_level tm sc ss ip : sanitize tm sc ss ip = (fst (level tm sc ip ss ([], [])), closing sc ss ip (snd (level tm sc ip ss ([], [])))).
Proof. unfold sanitize, level. destruct (fold_left (fun acc x => san_sel tm sc ip x acc) ss ([], [])). reflexivity. Qed.

(* what the sanitizer does with a field that has a selection set, in terms of the level below *)
Lemma san_sel_field tm sc ip a n ty d x sub result scr :
  san_sel tm sc ip (SanField a n ty d (x :: sub)) (result, scr) =
  let '(child, sf) := sanitize tm sc (x :: sub) (ip ++ [a]) in
  let scr1 := sc_merge scr sf in
  let '(child', added) := add_scrub_fields tm sc child ty false in
  (add_to_result result [SanField a n ty d child'], set_missing sc ip a ty child' scr1 added).
Proof.
  cbn [san_sel]. rewrite level_go. rewrite sanitize_level. cbn [level fold_left].
  fold (level tm sc (ip ++ [a]) sub (san_sel tm sc (ip ++ [a]) x ([], []))).
  destruct (level tm sc (ip ++ [a]) sub (san_sel tm sc (ip ++ [a]) x ([], []))) as [child sf]. cbn [fst snd].
  destruct (add_scrub_fields tm sc child ty false). reflexivity.
Qed.
Lemma san_sel_frag tm sc ip c o fd sub result scr :
  san_sel tm sc ip (SanFrag c o fd sub) (result, scr) =
  let '(child, sf) := sanitize tm sc sub ip in
  let scr1 := sc_merge scr sf in
  let '(child', added) := add_scrub_fields tm sc child c true in
  let scr2 := set_frag sc ip c scr1 added in
  match kind_of sc o with
  | KIface => (add_to_result result (sanitize_iface sc child' c o fd), scr2)
  | KUnion => (add_to_result result (if other_abstract sc c o then sanitize_iface sc child' c o fd else sanitize_union child' c o fd), scr2)
  | KOther => (add_to_result result (narrow_to_type sc child' o), scr2)
  end.
Proof.
  cbn [san_sel]. rewrite level_go. rewrite sanitize_level.
  destruct (level tm sc ip sub ([], [])) as [child sf]. cbn [fst snd].
  destruct (add_scrub_fields tm sc child c true). reflexivity.
Qed.

(* the accumulated registrations only grow while a level is processed (what is taken out again is taken out when the
   level closes) *)
Lemma san_sel_mono tm sc ip s result scr x : In x scr -> In x (snd (san_sel tm sc ip s (result, scr))).
Proof.
  intros H. destruct s as [a n ty d [|y sub]|c o fd sub].
  - cbn [san_sel snd]. exact H.
  - rewrite san_sel_field. destruct (sanitize tm sc (y :: sub) (ip ++ [a])) as [child sf].
    destruct (add_scrub_fields tm sc child ty false) as [child' added]. cbn [snd].
    apply set_missing_mono, sc_merge_left, H.
  - rewrite san_sel_frag. destruct (sanitize tm sc sub ip) as [child sf].
    destruct (add_scrub_fields tm sc child c true) as [child' added].
    assert (In x (set_frag sc ip c (sc_merge scr sf) added)).
    { apply set_frag_mono, sc_merge_left, H. }
    destruct (kind_of sc o); cbn [snd]; assumption.
Qed.
Lemma level_mono tm sc ip ss : forall acc x, In x (snd acc) -> In x (snd (level tm sc ip ss acc)).
Proof.
  induction ss as [|s r IH]; intros acc x H; [exact H|]. cbn [level fold_left]. apply IH.
  destruct acc as [result scr]. apply san_sel_mono, H.
Qed.

(* ---- where a field occurs: under which insertion path ---- *)
Inductive occ : list ssel -> list string -> ssel -> list string -> Prop :=
| occ_here ss ip s : In s ss -> occ ss ip s ip
| occ_field ss ip a n ty d sub s ip' : In (SanField a n ty d sub) ss -> occ sub (ip ++ [a]) s ip' -> occ ss ip s ip'
| occ_frag ss ip c o fd sub s ip' : In (SanFrag c o fd sub) ss -> occ sub ip s ip' -> occ ss ip s ip'.

Lemma occ_longer ss ip s ip' : occ ss ip s ip' -> List.length ip <= List.length ip'.
Proof.
  induction 1 as [| ? ? ? ? ? ? ? ? ? _ _ IH | ? ? ? ? ? ? ? ? _ _ IH]; [lia| |exact IH].
  rewrite app_length in IH. cbn in IH. lia.
Qed.

(* the helper fields the sanitizer adds to the selection of this occurrence of a field *)
Definition added_for (tm : tmap) (sc : sschema) (ip : list string) (a ty : string) (sub : list ssel) : list string :=
  snd (add_scrub_fields tm sc (fst (sanitize tm sc sub (ip ++ [a]))) ty false).
(* the selection of that occurrence after sanitizing and adding the helpers *)
Definition selection_for (tm : tmap) (sc : sschema) (ip : list string) (a ty : string) (sub : list ssel) : list ssel :=
  fst (add_scrub_fields tm sc (fst (sanitize tm sc sub (ip ++ [a]))) ty false).

Lemma tail_neq (ip ip' : list string) (a a0 : string) : List.length ip < List.length ip' -> ip' ++ [a] <> ip ++ [a0].
Proof. intros Hl E. apply (f_equal (@List.length string)) in E. rewrite !app_length in E. cbn in E. lia. Qed.

(* level by level: what is added to the selection of a field is registered in the table the level returns *)
Theorem added_helpers_are_registered_level tm sc : forall ss ip a n ty d x sub ip',
  occ ss ip (SanField a n ty d (x :: sub)) ip' ->
  forall f T, In f (added_for tm sc ip' a ty (x :: sub)) -> In T (reg_types sc ty) ->
  (kind_of sc ty = KOther \/ frag_has (selection_for tm sc ip' a ty (x :: sub)) T f = false) ->
  In (ip' ++ [a], T, f) (snd (sanitize tm sc ss ip)).
Proof.
  intros ss ip a n ty d x sub ip' Hocc. remember (SanField a n ty d (x :: sub)) as s eqn:Es.
  induction Hocc as [ss ip s Hin | ss ip a0 n0 ty0 d0 sub0 s ip' Hin Hocc IH | ss ip c o fd sub0 s ip' Hin Hocc IH];
    intros f T Hf HT Hfr; rewrite sanitize_level; cbn [snd].
  - subst s. apply closing_other.
    + apply in_split in Hin as (l1 & l2 & ->). unfold level. rewrite fold_left_app. cbn [fold_left].
      apply level_mono.
      match goal with |- context [san_sel _ _ _ _ ?acc] => destruct acc as [result scr] end. rewrite san_sel_field.
      unfold added_for in Hf. unfold selection_for in Hfr. destruct (sanitize tm sc (x :: sub) (ip ++ [a])) as [child sf]. cbn [fst] in Hf, Hfr.
      destruct (add_scrub_fields tm sc child ty false) as [child' added]. cbn [fst snd] in *.
      apply set_missing_in; assumption.
    + cbn [fst]. intros E. apply (f_equal (@List.length string)) in E. rewrite app_length in E. cbn in E. lia.
  - specialize (IH Es f T Hf HT Hfr). pose proof (occ_longer _ _ _ _ Hocc) as Hlen. rewrite app_length in Hlen. cbn in Hlen.
    apply closing_other.
    + apply in_split in Hin as (l1 & l2 & ->). unfold level. rewrite fold_left_app. cbn [fold_left].
      apply level_mono.
      match goal with |- context [san_sel _ _ _ _ ?acc] => destruct acc as [result scr] end.
      destruct sub0 as [|y sub0']; [inversion Hocc; subst; match goal with H : In _ [] |- _ => destruct H end|].
      rewrite san_sel_field. destruct (sanitize tm sc (y :: sub0') (ip ++ [a0])) as [child sf]. cbn [snd] in IH.
      destruct (add_scrub_fields tm sc child ty0 false) as [child' added]. cbn [snd].
      apply set_missing_mono, sc_merge_right, IH.
    + cbn [fst]. intros E. apply (f_equal (@List.length string)) in E. rewrite app_length in E. cbn in E. lia.
  - specialize (IH Es f T Hf HT Hfr). pose proof (occ_longer _ _ _ _ Hocc) as Hlen.
    apply closing_other.
    + apply in_split in Hin as (l1 & l2 & ->). unfold level. rewrite fold_left_app. cbn [fold_left].
      apply level_mono.
      match goal with |- context [san_sel _ _ _ _ ?acc] => destruct acc as [result scr] end.
      rewrite san_sel_frag. destruct (sanitize tm sc sub0 ip) as [child sf]. cbn [snd] in IH.
      destruct (add_scrub_fields tm sc child c true) as [child' added].
      assert (In (ip' ++ [a], T, f) (set_frag sc ip c (sc_merge scr sf) added)).
      { apply set_frag_mono, sc_merge_right, IH. }
      destruct (kind_of sc o); cbn [snd]; assumption.
    + cbn [fst]. intros E. apply (f_equal (@List.length string)) in E. rewrite app_length in E. cbn in E. lia.
Qed.

(* ---- the whole operation ---- *)
Lemma pending_go sc ip sub :
  (fix go (l : list ssel) := match l with [] => [] | x :: r => pending_sel sc ip x ++ go r end) sub = pending_of sc ip sub.
Proof. unfold pending_of. induction sub as [|x r IH]; cbn [flat_map]; [reflexivity|]. rewrite IH. reflexivity. Qed.
(* every selection of a field, wherever it occurs, contributes what the client selects below it, under its response path *)
Lemma occ_pending sc : forall ss ip a n ty d x sub ip' h,
  occ ss ip (SanField a n ty d (x :: sub)) ip' -> In h (client_selected sc (x :: sub)) -> In (ip' ++ [a], h) (pending_of sc ip ss).
Proof.
  intros ss ip a n ty d x sub ip' h Hocc. remember (SanField a n ty d (x :: sub)) as s eqn:Es.
  induction Hocc as [ss ip s Hin | ss ip a0 n0 ty0 d0 sub0 s ip' Hin Hocc IH | ss ip c o fd sub0 s ip' Hin Hocc IH]; intros Hh.
  - subst s. unfold pending_of. apply in_flat_map. exists (SanField a n ty d (x :: sub)). split; [exact Hin|].
    cbn [pending_sel]. apply in_or_app. left. apply in_map_iff. exists h. split; [reflexivity|exact Hh].
  - specialize (IH Es Hh). unfold pending_of. apply in_flat_map. exists (SanField a0 n0 ty0 d0 sub0). split; [exact Hin|].
    destruct sub0 as [|y sub0']; [inversion Hocc; subst; match goal with H : In _ [] |- _ => destruct H end|].
    cbn [pending_sel]. rewrite pending_go. apply in_or_app. right. exact IH.
  - specialize (IH Es Hh). unfold pending_of. apply in_flat_map. exists (SanFrag c o fd sub0). split; [exact Hin|].
    cbn [pending_sel]. rewrite pending_go. exact IH.
Qed.

(* no selection of a field with that response path, anywhere in the operation, selects the field itself — directly, or
   through a fragment that applies to objects of that type *)
Definition not_client_selected (sc : sschema) (ss : list ssel) (path : list string) (T f : string) : Prop :=
  forall h, In (path, h) (pending_of sc [] ss) -> ~ selected_for [h] T f.

Theorem added_helpers_are_registered tm sc : forall ss a n ty d x sub ip',
  occ ss [] (SanField a n ty d (x :: sub)) ip' ->
  forall f T, In f (added_for tm sc ip' a ty (x :: sub)) -> In T (reg_types sc ty) ->
  (kind_of sc ty = KOther \/ frag_has (selection_for tm sc ip' a ty (x :: sub)) T f = false) ->
  not_client_selected sc ss (ip' ++ [a]) T f ->
  In (ip' ++ [a], T, f) (snd (sanitize_op tm sc ss)).
Proof.
  intros ss a n ty d x sub ip' Hocc f T Hf HT Hfr Hcs. unfold sanitize_op.
  pose proof (added_helpers_are_registered_level tm sc ss [] a n ty d x sub ip' Hocc f T Hf HT Hfr) as H.
  destruct (sanitize tm sc ss []) as [result scr]. cbn [snd] in *.
  apply unset_pending_other; [exact H|]. cbn [fst snd]. intros p h Hin E. subst p. apply (Hcs h Hin).
Qed.

(* and the other way round: what the client selects himself below a field — in any of its selections — is not in the
   table under that field's response path, for the types it selects it for: it stays in the answer *)
Theorem client_selected_helpers_stay tm sc : forall ss a n ty d x sub ip' h T,
  occ ss [] (SanField a n ty d (x :: sub)) ip' -> In h (client_selected sc (x :: sub)) ->
  (fst h = Some T \/ fst h = None) ->
  ~ In (ip' ++ [a], T, snd h) (snd (sanitize_op tm sc ss)).
Proof.
  intros ss a n ty d x sub ip' h T Hocc Hh HT. unfold sanitize_op.
  destruct (sanitize tm sc ss []) as [result scr]. cbn [snd].
  apply unset_pending_gone; [|exact HT]. eapply occ_pending; eassumption.
Qed.

(* what add_scrub_fields adds are the two helper names, each at most once, and only when the selection lacks it *)
Lemma added_only_helpers tm sc ss t fr f : In f (snd (add_scrub_fields tm sc ss t fr)) -> f = "__typename" \/ f = "id".
Proof.
  unfold add_scrub_fields.
  destruct ((match kind_of sc t with KOther => false | _ => true end) && negb (has_direct ss "__typename")) eqn:E1.
  - match goal with |- context [if negb ?b then _ else _] => destruct (negb b) end; cbn [snd].
    + intros [<-|[]]. left. reflexivity.
    + match goal with |- context [if ?c then (?x, ?y) else _] => destruct c end; cbn [snd].
      * intros [<-|[]]. left. reflexivity.
      * intros [<-|[<-|[]]]; [left|right]; reflexivity.
  - match goal with |- context [if negb ?b then _ else _] => destruct (negb b) end; cbn [snd].
    + intros [].
    + match goal with |- context [if ?c then (?x, ?y) else _] => destruct c end; cbn [snd]; [intros []|intros [<-|[]]; right; reflexivity].
Qed.
Lemma has_direct_contains ss n : has_direct ss n = true -> contains ss n = true.
Proof.
  unfold has_direct, contains. intros H. apply existsb_exists in H as (x & Hx & Hn). apply existsb_exists. exists x.
  split; [exact Hx|]. destruct x; [exact Hn|discriminate].
Qed.
(* a helper is added only when the client did not select that field on this level himself *)
Lemma added_not_selected tm sc ss t fr f : In f (snd (add_scrub_fields tm sc ss t fr)) -> has_direct ss f = false.
Proof.
  assert (Hid : forall l, contains l "id" = false -> has_direct l "id" = false).
  { intros l H. destruct (has_direct l "id") eqn:E; [|reflexivity]. apply has_direct_contains in E. congruence. }
  assert (Hc : forall (b : bool) l, (if b then has_direct l "id" else contains l "id") = false -> has_direct l "id" = false).
  { intros b l H. destruct b; [exact H|apply Hid, H]. }
  unfold add_scrub_fields.
  destruct ((match kind_of sc t with KOther => false | _ => true end) && negb (has_direct ss "__typename")) eqn:E1.
  - apply andb_true_iff in E1 as [_ E1]. apply negb_true_iff in E1.
    match goal with |- context [if negb ?b then _ else _] => destruct (negb b) end; cbn [snd].
    + intros [<-|[]]. exact E1.
    + match goal with |- context [if ?c then (?x, ?y) else _] => destruct c eqn:E2 end; cbn [snd].
      * intros [<-|[]]. exact E1.
      * intros [<-|[<-|[]]]; [exact E1|]. apply Hc in E2. cbn [has_direct existsb typename_helper] in E2.
        rewrite orb_false_iff in E2. apply E2.
  - match goal with |- context [if negb ?b then _ else _] => destruct (negb b) end; cbn [snd].
    + intros [].
    + match goal with |- context [if ?c then (?x, ?y) else _] => destruct c eqn:E2 end; cbn [snd]; [intros []|intros [<-|[]]; apply (Hc _ _ E2)].
Qed.

(* non-vacuity: { me { name friend { phone } } beings { ... on Pet { weight } } } on Human/Pet Node types, Being a union *)
Definition ex_tm : tmap := [("Human", mkTP true [("name", "a")]); ("Pet", mkTP true [("weight", "b")]); ("Query", mkTP false [("me", "a")])].
Definition ex_sc : sschema := mkSS [("Being", KUnion); ("Node", KIface)] [("Being", ["Human"; "Pet"]); ("Node", ["Human"; "Pet"])] ["Node"].
Definition ex_in : list ssel :=
  [SanField "me" "me" "Human" 0 [SanField "name" "name" "String" 0 []; SanField "friend" "friend" "Human" 0 [SanField "phone" "phone" "String" 0 []]];
   SanField "beings" "beings" "Being" 0 [SanFrag "Pet" "Being" 0 [SanField "weight" "weight" "Int" 0 []]]].
Example ex_sanitize :
  sanitize ex_tm ex_sc ex_in [] =
  ([SanField "me" "me" "Human" 0 [id_helper; SanField "name" "name" "String" 0 [];
                                  SanField "friend" "friend" "Human" 0 [id_helper; SanField "phone" "phone" "String" 0 []]];
    SanField "beings" "beings" "Being" 0 [typename_helper; SanFrag "Pet" "Being" 0 [id_helper; SanField "weight" "weight" "Int" 0 []]]],
   [(["me"; "friend"], "Human", "id"); (["me"], "Human", "id"); (["beings"], "Pet", "id");
    (["beings"], "Human", "__typename"); (["beings"], "Pet", "__typename")]).
Proof. vm_compute. reflexivity. Qed.

(* the selection the sanitizer leaves for a field of an abstract type asks for __typename on that very level: every
   object there — of whatever possible type — comes back with it (the hypothesis of C13's scrub theorem, at the places
   where a field of a union or interface type is selected) *)
Lemma abstract_selection_has_typename tm sc ss t fr :
  kind_of sc t <> KOther -> has_direct (fst (add_scrub_fields tm sc ss t fr)) "__typename" = true.
Proof.
  intros Hk. unfold add_scrub_fields.
  assert (Ha : (match kind_of sc t with KOther => false | _ => true end) = true) by (destruct (kind_of sc t); [reflexivity|reflexivity|contradiction]).
  rewrite Ha. cbn [andb].
  destruct (has_direct ss "__typename") eqn:E; cbn [negb].
  - match goal with |- context [if negb ?b then _ else _] => destruct (negb b) end; cbn [fst]; [exact E|].
    match goal with |- context [if ?c then (?x, ?y) else _] => destruct c end; cbn [fst]; [exact E|]. cbn [has_direct existsb id_helper]. cbn. exact E.
  - match goal with |- context [if negb ?b then _ else _] => destruct (negb b) end; cbn [fst]; [reflexivity|].
    match goal with |- context [if ?c then (?x, ?y) else _] => destruct c end; cbn [fst]; reflexivity.
Qed.

(* ---- no response key of a level is lost: a field selected directly on a level has a field with its response key in
   what the sanitizer leaves for that level (the first selection of a key wins, later ones are dropped: the listed
   duplicate-response-key shape) ---- *)
Definition has_alias (l : list ssel) (a : string) : Prop :=
  exists n ty d sub, In (SanField a n ty d sub) l.

Lemma has_key_alias s a : has_key s a = true -> has_alias s a.
Proof.
  unfold has_key. intros E. apply existsb_exists in E as (e & He & Ha). destruct e as [a' n' ty' d' sub'|]; cbn [alias_of] in Ha; [|discriminate].
  apply String.eqb_eq in Ha. subst a'. exists n', ty', d', sub'. exact He.
Qed.
Lemma update_first_alias a0 f s a : has_alias s a -> has_alias (update_first a0 f s) a.
Proof.
  induction s as [|e r IH]; intros (n & ty & d & sub & H); [destruct H|]. cbn [update_first].
  destruct e as [a' n' ty' d' sub'|c o fd sub'].
  - destruct (a' =? a0) eqn:E.
    + destruct H as [H|H].
      * inversion H; subst. exists n, ty, d, (f sub). left. reflexivity.
      * exists n, ty, d, sub. right. exact H.
    + destruct H as [H|H].
      * exists n, ty, d, sub. left. exact H.
      * destruct IH as (n2 & ty2 & d2 & sub2 & H2); [exists n, ty, d, sub; exact H|]. exists n2, ty2, d2, sub2. right. exact H2.
  - destruct H as [H|H]; [discriminate|].
    destruct IH as (n2 & ty2 & d2 & sub2 & H2); [exists n, ty, d, sub; exact H|]. exists n2, ty2, d2, sub2. right. exact H2.
Qed.
Lemma add_sel_keeps_alias x s a : has_alias s a -> has_alias (add_sel x s) a.
Proof.
  intros H. destruct x as [a0 n0 ty0 d0 sub0|c o fd sub0]; cbn [add_sel].
  - destruct (has_key s a0).
    + destruct sub0; [exact H|apply update_first_alias, H].
    + destruct H as (n & ty & d & sub & H). exists n, ty, d, sub. apply in_or_app. left. exact H.
  - destruct H as (n & ty & d & sub & H). exists n, ty, d, sub. apply in_or_app. left. exact H.
Qed.
Lemma has_alias_mono s new a : has_alias s a -> has_alias (add_to_result s new) a.
Proof.
  unfold add_to_result. revert s. induction new as [|x r IH]; intros s H; [exact H|]. cbn [fold_left]. apply IH, add_sel_keeps_alias, H.
Qed.
Lemma add_to_result_alias s a n ty d sub : has_alias (add_to_result s [SanField a n ty d sub]) a.
Proof.
  unfold add_to_result. cbn [fold_left add_sel]. destruct (has_key s a) eqn:E.
  - apply has_key_alias in E. destruct sub; [exact E|apply update_first_alias, E].
  - exists n, ty, d, sub. apply in_or_app. right. left. reflexivity.
Qed.

Lemma san_sel_keeps_aliases tm sc ip s result scr a : has_alias result a -> has_alias (fst (san_sel tm sc ip s (result, scr))) a.
Proof.
  intros H. destruct s as [a0 n ty d [|y sub]|c o fd sub].
  - cbn [san_sel fst]. apply has_alias_mono, H.
  - rewrite san_sel_field. destruct (sanitize tm sc (y :: sub) (ip ++ [a0])) as [child sf].
    destruct (add_scrub_fields tm sc child ty false) as [child' added]. cbn [fst]. apply has_alias_mono, H.
  - rewrite san_sel_frag. destruct (sanitize tm sc sub ip) as [child sf].
    destruct (add_scrub_fields tm sc child c true) as [child' added].
    destruct (kind_of sc o); cbn [fst]; apply has_alias_mono, H.
Qed.
Lemma level_keeps_aliases tm sc ip ss : forall acc a, has_alias (fst acc) a -> has_alias (fst (level tm sc ip ss acc)) a.
Proof.
  induction ss as [|s r IH]; intros acc a H; [exact H|]. cbn [level fold_left]. apply IH.
  destruct acc as [result scr]. apply san_sel_keeps_aliases, H.
Qed.

Theorem selected_response_keys_survive tm sc ss ip a n ty d sub :
  In (SanField a n ty d sub) ss -> has_alias (fst (sanitize tm sc ss ip)) a.
Proof.
  intros Hin. rewrite sanitize_level. cbn [fst]. apply in_split in Hin as (l1 & l2 & ->).
  unfold level. rewrite fold_left_app. cbn [fold_left]. apply level_keeps_aliases.
  match goal with |- context [san_sel _ _ _ _ ?acc] => destruct acc as [result scr] end.
  destruct sub as [|y sub'].
  - cbn [san_sel fst]. apply add_to_result_alias.
  - rewrite san_sel_field. destruct (sanitize tm sc (y :: sub') (ip ++ [a])) as [child sf].
    destruct (add_scrub_fields tm sc child ty false) as [child' added]. cbn [fst]. apply add_to_result_alias.
Qed.
