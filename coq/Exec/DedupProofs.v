From Coq Require Import List String Bool Arith Lia Permutation.
From Pebbles Require Import Exec.Dedup.
Import ListNotations.
Open Scope string_scope.
Open Scope list_scope.

(* ---- grouping ---- *)
Lemma add_to_group_keys {A} u (x : A) gs :
  map fst (add_to_group u x gs) = if existsb (fun g => fst g =? u) gs then map fst gs else map fst gs ++ [u].
Proof.
  induction gs as [|[u' xs] t IH]; cbn; [reflexivity|].
  destruct (u' =? u) eqn:E; cbn; [reflexivity|]. rewrite IH. destruct (existsb _ t); reflexivity.
Qed.

Lemma nodup_snoc_str (l : list string) x : NoDup l -> ~ In x l -> NoDup (l ++ [x]).
Proof.
  induction l as [|y l IH]; intros Hn Hx; cbn; [constructor; [tauto|constructor]|].
  inversion Hn; subst. constructor.
  - intro Hin. apply in_app_or in Hin as [Hin|[->|[]]]; [contradiction|]. apply Hx. now left.
  - apply IH; auto. intro. apply Hx. now right.
Qed.

Lemma add_to_group_nodup {A} u (x : A) gs : NoDup (map fst gs) -> NoDup (map fst (add_to_group u x gs)).
Proof.
  intros H. rewrite add_to_group_keys. destruct (existsb (fun g => fst g =? u) gs) eqn:E; [exact H|].
  apply nodup_snoc_str; [exact H|]. intro Hin. apply in_map_iff in Hin as (g & Hg & Hin).
  assert (existsb (fun g => fst g =? u) gs = true); [|congruence].
  apply existsb_exists. exists g. split; [exact Hin|]. rewrite Hg. apply String.eqb_refl.
Qed.

Lemma add_to_group_concat {A} u (x : A) gs : Permutation (List.concat (map snd (add_to_group u x gs))) (x :: List.concat (map snd gs)).
Proof.
  induction gs as [|[u' xs] t IH]; cbn; [constructor; constructor|].
  destruct (u' =? u); cbn.
  - rewrite <- app_assoc. cbn. apply Permutation_sym. apply Permutation_middle.
  - etransitivity; [apply Permutation_app_head; exact IH|]. apply Permutation_sym. apply Permutation_middle.
Qed.

Lemma add_to_group_urls {A} (url : A -> string) u (x : A) gs : u = url x ->
  Forall (fun g => Forall (fun y => url y = fst g) (snd g)) gs ->
  Forall (fun g => Forall (fun y => url y = fst g) (snd g)) (add_to_group u x gs).
Proof.
  intros Hu. induction gs as [|[u' xs] t IH]; intros H; cbn.
  - constructor; [|constructor]. cbn. constructor; auto.
  - inversion H as [|g0 t0 Hh Ht]. destruct (u' =? u) eqn:E; constructor; cbn in *; auto.
    apply String.eqb_eq in E. apply Forall_app. split; [auto|constructor; [congruence|constructor]].
Qed.

(* a level's requests are grouped into exactly one downstream call per service, however many requests the data
   produced and in whatever order they were collected *)
Theorem one_call_per_service {A} (url : A -> string) (l : list A) :
  NoDup (calls_at_level url l) /\
  Permutation (List.concat (map snd (partition_by url l))) l /\
  Forall (fun g => Forall (fun y => url y = fst g) (snd g)) (partition_by url l) /\
  (forall u, In u (calls_at_level url l) <-> exists x, In x l /\ url x = u).
Proof.
  unfold calls_at_level, partition_by.
  assert (G : forall l gs, NoDup (map fst gs) ->
     Forall (fun g => Forall (fun y => url y = fst g) (snd g)) gs ->
     let r := fold_left (fun gs x => add_to_group (url x) x gs) l gs in
     NoDup (map fst r) /\ Permutation (List.concat (map snd r)) (rev l ++ List.concat (map snd gs)) /\
     Forall (fun g => Forall (fun y => url y = fst g) (snd g)) r /\
     (forall u, In u (map fst r) <-> (In u (map fst gs) \/ exists x, In x l /\ url x = u))).
  { clear l. induction l as [|x t IH]; intros gs Hn Hf; cbn [fold_left rev app].
    - repeat split; auto. intros [H|(x & [] & _)]; exact H.
    - destruct (IH (add_to_group (url x) x gs) (add_to_group_nodup _ _ _ Hn) (add_to_group_urls url _ _ _ eq_refl Hf)) as (H1 & H2 & H3 & H4).
      repeat split; auto.
      + etransitivity; [exact H2|]. rewrite <- app_assoc. cbn [app]. apply Permutation_app_head. apply add_to_group_concat.
      + intros Hin. apply H4 in Hin as [Hin|(y & Hy & Hu)].
        * rewrite add_to_group_keys in Hin. destruct (existsb _ gs); [now left|].
          apply in_app_or in Hin as [Hin|[<-|[]]]; [now left|right; exists x; split; [now left|reflexivity]].
        * right. exists y. split; [now right|exact Hu].
      + intros [Hin|(y & [<-|Hy] & Hu)]; apply H4.
        * left. rewrite add_to_group_keys. destruct (existsb _ gs); [exact Hin|apply in_or_app; now left].
        * left. rewrite add_to_group_keys. subst u.
          destruct (existsb (fun g => fst g =? url x) gs) eqn:E; [|apply in_or_app; right; now left].
          apply existsb_exists in E as (g & Hg & Eg). apply String.eqb_eq in Eg. rewrite <- Eg. now apply in_map.
        * right. exists y. auto. }
  destruct (G l [] (NoDup_nil _) (Forall_nil _)) as (H1 & H2 & H3 & H4). repeat split; auto.
  - etransitivity; [exact H2|]. cbn. rewrite app_nil_r. apply Permutation_sym, Permutation_rev.
  - intros Hin. apply H4 in Hin as [[]|H]. exact H.
  - intros H. apply H4. now right.
Qed.

(* ---- the index map ---- *)
Lemma key_eqb_eq a b : key_eqb a b = true <-> a = b.
Proof.
  destruct a, b; cbn; split; intros H; try discriminate.
  - apply andb_prop in H as [H1 H2]. apply String.eqb_eq in H1. apply Nat.eqb_eq in H2. now subst.
  - inversion H; subst. now rewrite String.eqb_refl, Nat.eqb_refl.
  - apply Nat.eqb_eq in H. now subst.
  - inversion H; subst. apply Nat.eqb_refl.
Qed.

(* well-formed map: distinct keys, target indexes 0..len-1 in order *)
Definition wf_imap (m : imap) : Prop :=
  NoDup (map fst m) /\ map (fun e => fst (snd e)) m = seq 0 (List.length m).

Lemma imap_add_spec k index m : existsb (fun e => key_eqb (fst e) k) m = true ->
  map fst (fst (imap_add k index m)) = map fst m /\
  map (fun e => fst (snd e)) (fst (imap_add k index m)) = map (fun e => fst (snd e)) m /\
  snd (imap_add k index m) = false /\ List.length (fst (imap_add k index m)) = List.length m.
Proof.
  induction m as [|[k' [t ixs]] rest IH]; cbn; [discriminate|].
  destruct (key_eqb k' k) eqn:E; cbn; [auto|]. intros H.
  destruct (IH H) as (H1 & H2 & H3 & H4). destruct (imap_add k index rest) as [rest' isnew]. cbn in *.
  repeat split; auto; congruence.
Qed.

Lemma imap_set_wf index k m : wf_imap m -> wf_imap (fst (imap_set index k m)).
Proof.
  intros [Hn Ht]. unfold imap_set. destruct (existsb (fun e => key_eqb (fst e) k) m) eqn:E.
  - destruct (imap_add_spec k index m E) as (H1 & H2 & _ & H4). split; [now rewrite H1|]. now rewrite H2, H4.
  - cbn [fst]. split.
    + rewrite map_app. cbn. clear Ht. induction m as [|[k' v] t IH]; cbn in *; [constructor; [tauto|constructor]|].
      apply orb_false_iff in E as [E1 E2]. inversion Hn; subst. constructor.
      * intro Hin. apply in_app_or in Hin as [Hin|[Hk|[]]]; [contradiction|].
        rewrite Hk in E1. rewrite (proj2 (key_eqb_eq k' k') eq_refl) in E1. discriminate.
      * apply IH; auto.
    + rewrite map_app, app_length. cbn. rewrite Ht, Nat.add_1_r, seq_S. reflexivity.
Qed.

(* the sent batch never contains the same (entity, sub-query) lookup twice, and never drops a request that has no twin *)
Definition keys_sent (rs : list ereq) (sent : list nat) : list key :=
  map (fun i => match nth_error rs i with Some r => key_of i r | None => KUnique i end) sent.

Lemma build_spec rs : forall i m sent,
  wf_imap m ->
  let '(m', sent') := build rs i m sent in
  wf_imap m' /\ List.length m' = List.length m + (List.length sent' - List.length sent) /\ List.length sent <= List.length sent'.
Proof.
  induction rs as [|r t IH]; intros i m sent Hwf; cbn [build].
  - split; [exact Hwf|split; lia].
  - pose proof (imap_set_wf i (key_of i r) m Hwf) as Hwf'.
    assert (Hlen : List.length (fst (imap_set i (key_of i r) m)) = List.length m + (if snd (imap_set i (key_of i r) m) then 1 else 0)).
    { unfold imap_set. destruct (existsb (fun e => key_eqb (fst e) (key_of i r)) m) eqn:E.
      - destruct (imap_add_spec _ i m E) as (_ & _ & H3 & H4). rewrite H3, H4. lia.
      - cbn. rewrite app_length. cbn. lia. }
    destruct (imap_set i (key_of i r) m) as [m1 isnew]. cbn [fst snd] in *.
    specialize (IH (S i) m1 (if isnew then sent ++ [i] else sent) Hwf').
    destruct (build t (S i) m1 (if isnew then sent ++ [i] else sent)) as [m' sent'].
    destruct IH as (H1 & H2 & H3). split; [exact H1|]. destruct isnew; rewrite ?app_length in *; cbn in *; lia.
Qed.

(* the number of requests actually sent = the number of distinct keys: every distinct lookup is sent exactly once *)
Theorem sent_once_per_distinct_key rs :
  let '(m, sent) := build rs 0 [] [] in
  NoDup (map fst m) /\ List.length sent = List.length m.
Proof.
  pose proof (build_spec rs 0 [] [] (conj (NoDup_nil _) eq_refl)) as H.
  destruct (build rs 0 [] []) as [m sent]. destruct H as ([Hn _] & Hl & _). cbn in Hl. split; [exact Hn|lia].
Qed.

(* root steps (mutation root fields among them) are never de-duplicated: each gets its own key *)
Theorem root_requests_unique index r : er_root_parent r = true -> key_of index r = KUnique index.
Proof. intros H. unfold key_of. now rewrite H. Qed.

Theorem requests_with_other_variables_unique index r : er_nvars r <> 1 -> key_of index r = KUnique index.
Proof. intros H. unfold key_of. rewrite (proj2 (Nat.eqb_neq _ _) H). now rewrite andb_false_r. Qed.

(* two requests share a key only if they look up the same entity with the same sub-query and no other variable *)
Theorem shared_key_means_same_lookup i j r s : i <> j -> key_of i r = key_of j s ->
  er_id r = er_id s /\ er_qhash r = er_qhash s /\ er_nvars r = 1 /\ er_nvars s = 1 /\ er_root_parent r = false /\ er_root_parent s = false.
Proof.
  unfold key_of. intros Hij.
  destruct (er_root_parent r), (er_root_parent s); cbn [negb andb];
    try (intros H; inversion H; contradiction);
    destruct (Nat.eqb_spec (er_nvars r) 1), (Nat.eqb_spec (er_nvars s) 1);
    try (destruct (er_id r); destruct (er_id s); intros H; inversion H; try contradiction; subst; repeat split; auto; fail);
    try (destruct (er_id r); intros H; inversion H; contradiction);
    try (destruct (er_id s); intros H; inversion H; contradiction);
    intros H; inversion H; contradiction.
Qed.

(* ---- fan-out: every request is served from the single sent request with the same key ---- *)
Fixpoint keys_of (rs : list ereq) (i : nat) : list key :=
  match rs with [] => [] | r :: t => key_of i r :: keys_of t (S i) end.

Fixpoint build_keys (ks : list key) (i : nat) (m : imap) (sent : list nat) : imap * list nat :=
  match ks with
  | [] => (m, sent)
  | k :: t => let '(m', isnew) := imap_set i k m in build_keys t (S i) m' (if isnew then sent ++ [i] else sent)
  end.

Lemma build_is_build_keys rs : forall i m sent, build rs i m sent = build_keys (keys_of rs i) i m sent.
Proof. induction rs as [|r t IH]; intros i m sent; cbn; [reflexivity|]. destruct (imap_set i (key_of i r) m). apply IH. Qed.

(* kf : the key of every index processed so far *)
Record FInv (kf : nat -> key) (i : nat) (m : imap) (sent : list nat) : Prop := {
  fi_wf : wf_imap m;
  fi_len : List.length sent = List.length m;
  fi_entries : forall k t ixs, In (k, (t, ixs)) m ->
      (exists h, nth_error sent t = Some h /\ In h ixs /\ kf h = k) /\ (forall x, In x ixs -> x < i /\ kf x = k);
  fi_cover : forall x, x < i -> exists k t ixs, In (k, (t, ixs)) m /\ In x ixs
}.

Lemma in_imap_add k index m k0 t0 ixs0 :
  In (k0, (t0, ixs0)) (fst (imap_add k index m)) ->
  (In (k0, (t0, ixs0)) m /\ k0 <> k) \/ (k0 = k /\ exists ixs, In (k, (t0, ixs)) m /\ ixs0 = ixs ++ [index]) \/ In (k0, (t0, ixs0)) m.
Proof.
  induction m as [|[k' [t ixs]] rest IH]; cbn; [tauto|].
  destruct (key_eqb k' k) eqn:E; cbn.
  - apply key_eqb_eq in E. subst k'. intros [H|H].
    + inversion H; subst. right. left. split; [reflexivity|]. exists ixs. split; [now left|reflexivity].
    + right. right. now right.
  - destruct (imap_add k index rest) as [rest' isnew] eqn:R. cbn in *. intros [H|H].
    + inversion H; subst. right. right. now left.
    + destruct (IH H) as [[H1 H2]|[[H1 (ixs1 & H2 & H3)]|H1]].
      * left. split; [now right|exact H2].
      * right. left. split; [exact H1|]. exists ixs1. split; [now right|exact H3].
      * right. right. now right.
Qed.

Lemma imap_add_covers k index m : existsb (fun e => key_eqb (fst e) k) m = true ->
  (exists t ixs, In (k, (t, ixs ++ [index])) (fst (imap_add k index m)) /\ In (k, (t, ixs)) m) /\
  (forall k0 t0 ixs0, In (k0, (t0, ixs0)) m -> k0 <> k -> In (k0, (t0, ixs0)) (fst (imap_add k index m))).
Proof.
  induction m as [|[k' [t ixs]] rest IH]; cbn; [discriminate|].
  destruct (key_eqb k' k) eqn:E; cbn.
  - apply key_eqb_eq in E. subst k'. intros _. split.
    + exists t, ixs. split; now left.
    + intros k0 t0 ixs0 [H|H] Hne; [inversion H; subst; contradiction|now right].
  - intros H. destruct (IH H) as [(t1 & ixs1 & H1 & H2) H3].
    destruct (imap_add k index rest) as [rest' isnew]. cbn in *. split.
    + exists t1, ixs1. split; now right.
    + intros k0 t0 ixs0 [Hin|Hin] Hne; [now left|right; eauto].
Qed.

Lemma finv_step kf i m sent : FInv kf i m sent ->
  let '(m', isnew) := imap_set i (kf i) m in FInv kf (S i) m' (if isnew then sent ++ [i] else sent).
Proof.
  intros [Hwf Hlen Hent Hcov].
  pose proof (imap_set_wf i (kf i) m Hwf) as Hwf'.
  unfold imap_set in *. destruct (existsb (fun e => key_eqb (fst e) (kf i)) m) eqn:E.
  - (* existing key *)
    destruct (imap_add_spec (kf i) i m E) as (_ & _ & Hnew & Hl).
    destruct (imap_add_covers (kf i) i m E) as [(t1 & ixs1 & Hin1 & Hin1') Hkeep].
    destruct (imap_add (kf i) i m) as [m' isnew] eqn:R. cbn [fst snd] in *. subst isnew.
    constructor; auto; [congruence| |].
    + intros k t ixs Hin. pose proof (in_imap_add (kf i) i m k t ixs) as Hc. rewrite R in Hc. cbn [fst] in Hc.
      destruct (Hc Hin) as [[H1 _]|[[-> (ixs0 & H2 & ->)]|H1]].
      * destruct (Hent k t ixs H1) as [Ha Hb]. split; [exact Ha|]. intros x Hx. destruct (Hb x Hx). split; [lia|auto].
      * destruct (Hent (kf i) t ixs0 H2) as [(h & Hh1 & Hh2 & Hh3) Hb]. split.
        -- exists h. repeat split; auto. apply in_or_app. now left.
        -- intros x Hx. apply in_app_or in Hx as [Hx|[<-|[]]]; [destruct (Hb x Hx); split; [lia|auto]|split; [lia|reflexivity]].
      * destruct (Hent k t ixs H1) as [Ha Hb]. split; [exact Ha|]. intros x Hx. destruct (Hb x Hx). split; [lia|auto].
    + intros x Hx. destruct (Nat.eq_dec x i) as [->|Hne].
      * exists (kf i), t1, (ixs1 ++ [i]). split; [exact Hin1|apply in_or_app; right; now left].
      * destruct (Hcov x ltac:(lia)) as (k & t & ixs & Hin & Hx').
        destruct (key_eqb k (kf i)) eqn:Ek.
        -- apply key_eqb_eq in Ek. subst k.
           destruct Hwf as [Hnd _]. assert (t = t1 /\ ixs = ixs1) as [-> ->].
           { clear -Hnd Hin Hin1'. induction m as [|[k0 v0] rest IH]; cbn in *; [contradiction|]. inversion Hnd; subst.
             destruct Hin as [H|H]; destruct Hin1' as [H'|H'].
             - inversion H; inversion H'; subst. inversion H'; subst. auto.
             - inversion H; subst. exfalso. apply H1. apply in_map_iff. eexists. split; [|exact H']. reflexivity.
             - inversion H'; subst. exfalso. apply H1. apply in_map_iff. eexists. split; [|exact H]. reflexivity.
             - auto. }
           exists (kf i), t1, (ixs1 ++ [i]). split; [exact Hin1|apply in_or_app; now left].
        -- exists k, t, ixs. split; [|exact Hx']. apply Hkeep; [exact Hin|]. intro Ek'. subst k.
           rewrite (proj2 (key_eqb_eq _ _) eq_refl) in Ek. discriminate.
  - (* new key *)
    cbn [fst snd] in *. constructor; auto.
    + rewrite !app_length. cbn. lia.
    + intros k t ixs Hin. apply in_app_or in Hin as [Hin|[Heq|[]]].
      * destruct (Hent k t ixs Hin) as [(h & Hh1 & Hh2 & Hh3) Hb]. split.
        -- exists h. repeat split; auto. rewrite nth_error_app1; [exact Hh1|]. apply nth_error_Some. congruence.
        -- intros x Hx. destruct (Hb x Hx). split; [lia|auto].
      * inversion Heq; subst. split.
        -- exists i. repeat split; [|now left].
           rewrite nth_error_app2 by lia. rewrite Hlen, Nat.sub_diag. reflexivity.
        -- intros x [<-|[]]. split; [lia|reflexivity].
    + intros x Hx. destruct (Nat.eq_dec x i) as [->|Hne].
      * exists (kf i), (List.length m), [i]. split; [apply in_or_app; right; now left|now left].
      * destruct (Hcov x ltac:(lia)) as (k & t & ixs & Hin & Hx'). exists k, t, ixs. split; [apply in_or_app; now left|exact Hx'].
Qed.

Lemma build_keys_finv kf ks : forall i m sent,
  (forall j, nth_error ks j = Some (kf (i + j)) \/ List.length ks <= j) ->
  FInv kf i m sent ->
  let '(m', sent') := build_keys ks i m sent in FInv kf (i + List.length ks) m' sent'.
Proof.
  induction ks as [|k t IH]; intros i m sent Hk HI; cbn [build_keys List.length].
  - now rewrite Nat.add_0_r.
  - assert (k = kf i) as ->. { destruct (Hk 0) as [H|H]; [rewrite Nat.add_0_r in H; cbn in H; congruence|cbn in H; lia]. }
    pose proof (finv_step kf i m sent HI) as Hs.
    destruct (imap_set i (kf i) m) as [m1 isnew].
    specialize (IH (S i) m1 (if isnew then sent ++ [i] else sent)).
    replace (i + S (List.length t)) with (S i + List.length t) by lia. apply IH; [|exact Hs].
    intros j. destruct (Hk (S j)) as [H|H]; [left; cbn in H; replace (S i + j) with (i + S j) by lia; exact H|right; cbn in H; lia].
Qed.

(* every request of the level is served from exactly the position of the sent request that has its key *)
Theorem fan_out_correct (ks : list key) :
  let '(m, sent) := build_keys ks 0 [] [] in
  forall j, j < List.length ks ->
    exists t h, served_from m j = Some t /\ nth_error sent t = Some h /\ nth_error ks h = nth_error ks j.
Proof.
  set (kf := fun j => nth j ks (KUnique 0)).
  assert (HI0 : FInv kf 0 [] []).
  { constructor; [split; [constructor|reflexivity]|reflexivity|intros k t ixs []|intros x Hx; lia]. }
  pose proof (build_keys_finv kf ks 0 [] []) as H.
  assert (Hk : forall j, nth_error ks j = Some (kf (0 + j)) \/ List.length ks <= j).
  { intros j. destruct (Nat.lt_ge_cases j (List.length ks)) as [Hlt|Hge]; [left|now right].
    unfold kf. cbn. now apply nth_error_nth'. }
  specialize (H Hk HI0). destruct (build_keys ks 0 [] []) as [m sent]. cbn in H.
  destruct H as [[Hnd _] Hlen Hent Hcov]. intros j Hj.
  destruct (Hcov j Hj) as (k & t & ixs & Hin & Hx).
  unfold served_from.
  destruct (find (fun e => existsb (Nat.eqb j) (snd (snd e))) m) as [[k' [t' ixs']]|] eqn:F.
  - apply find_some in F as [Hin' Hex]. cbn in Hex. apply existsb_exists in Hex as (y & Hy & Ey). apply Nat.eqb_eq in Ey. subst y.
    destruct (Hent k' t' ixs' Hin') as [(h & Hh1 & Hh2 & Hh3) Hb]. destruct (Hb j Hy) as [_ Hkj].
    exists t', h. repeat split; auto. cbn.
    destruct (Hb h Hh2) as [Hlt _].
    unfold kf in *. rewrite (nth_error_nth' ks (KUnique 0) Hlt), (nth_error_nth' ks (KUnique 0) Hj). congruence.
  - exfalso. pose proof (find_none _ _ F _ Hin) as E. cbn in E.
    assert (existsb (Nat.eqb j) ixs = true); [|congruence]. apply existsb_exists. exists j. split; [exact Hx|apply Nat.eqb_refl].
Qed.

(* ---- root steps are all sent: none is merged with another (C06) ---- *)
Lemma imap_set_unique_new i m :
  (forall k v, In (k, v) m -> exists j, k = KUnique j /\ j < i) ->
  imap_set i (KUnique i) m = (m ++ [(KUnique i, (List.length m, [i]))], true).
Proof.
  intros H. unfold imap_set.
  destruct (existsb (fun e => key_eqb (fst e) (KUnique i)) m) eqn:E; [|reflexivity].
  apply existsb_exists in E as ([k v] & Hin & Ek). cbn in Ek. apply key_eqb_eq in Ek. subst k.
  destruct (H _ _ Hin) as (j & Hj & Hlt). inversion Hj; subst. exfalso. apply (Nat.lt_irrefl j Hlt).
Qed.

Theorem all_root_requests_are_sent rs : Forall (fun r => er_root_parent r = true) rs ->
  snd (build rs 0 [] []) = seq 0 (List.length rs).
Proof.
  intros Hall.
  assert (G : forall rs i m sent, Forall (fun r => er_root_parent r = true) rs ->
            (forall k v, In (k, v) m -> exists j, k = KUnique j /\ j < i) ->
            snd (build rs i m sent) = sent ++ seq i (List.length rs)).
  { clear. induction rs as [|r t IH]; intros i m sent Hall Hm; cbn [build List.length seq]; [now rewrite app_nil_r|].
    inversion Hall as [|? ? Hr Ht]; subst. rewrite (root_requests_unique i r Hr).
    rewrite (imap_set_unique_new i m Hm). rewrite IH; auto.
    - now rewrite <- app_assoc.
    - intros k v Hin. apply in_app_or in Hin as [Hin|[E|[]]].
      + destruct (Hm k v Hin) as (j & Hj & Hlt). exists j. split; [exact Hj|]. apply Nat.lt_lt_succ_r. exact Hlt.
      + inversion E; subst. exists i. split; [reflexivity|]. apply Nat.lt_succ_diag_r. }
  rewrite (G rs 0 [] [] Hall); [reflexivity|]. intros k v [].
Qed.
