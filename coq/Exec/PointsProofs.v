(* C01 / C12: dependent steps are run for every place of a step's result, each once, in order. *)
From Coq Require Import List String Ascii Bool Arith Lia.
From Pebbles Require Import Base.Json Base.Str Net.Decode Exec.PointData Exec.Points.
Import ListNotations.
Open Scope string_scope.
Open Scope list_scope.

(* ---- FindSelection ---- *)
Theorem level_first p ss c : find (fun c => fkey c =? p) ss = Some c -> find_selection p ss = Some c.
Proof. intros H. unfold find_selection. cbn [find_under]. now rewrite H. Qed.

(* the pinned depth-first search returned the nested field: { a { b } b { a } }, looking for b *)
Definition shadow_ss : list fsel := [FSel "a" false false [FSel "b" true false []]; FSel "b" true false [FSel "a" false false []]].
Example depth_first_was_shadowed :
  find_selection_dfs "b" shadow_ss = Some (FSel "b" true false []) /\
  find_selection "b" shadow_ss = Some (FSel "b" true false [FSel "a" false false []]).
Proof. split; reflexivity. Qed.

(* ---- FindInsertionPoints ---- *)
(* an object for which nothing but __typename was asked (a member type of a union or interface the operation selects
   nothing for): extractID answers nil *)
Definition typename_only (o : list (string * json)) : bool := match extract_id o with Some None => true | _ => false end.

(* the result conforms to the selection along the path: nothing is null, lists hold objects, the objects at the end
   of the path carry an id — or, in a list, nothing but __typename *)
Fixpoint Conf (rest : list string) (ss : list fsel) (chunk : list (string * json)) {struct rest} : Prop :=
  match rest with
  | [] => True
  | point :: rest' =>
      exists sel v, find_selection point ss = Some sel /\ assoc point chunk = Some v /\
        if flist sel then
          exists l, v = JArr l /\ Forall (fun e => exists o, e = JObj o /\ (is_last rest' = true -> (exists idv, assoc "id" o = Some idv) \/ typename_only o = true) /\ Conf rest' (fsub sel) o) l
        else
          exists o, v = JObj o /\ (is_last rest' = true -> exists idv, assoc "id" o = Some idv) /\ Conf rest' (fsub sel) o
  end.

Definition id_of (o : list (string * json)) : string := match assoc "id" o with Some v => render_id v | None => "" end.

(* every place, in order *)
Fixpoint paths (rest : list string) (ss : list fsel) (chunk : list (string * json)) (branch : list string) {struct rest} : list (list string) :=
  match rest with
  | [] => [branch]
  | point :: rest' =>
      match find_selection point ss, assoc point chunk with
      | Some sel, Some v =>
          if flist sel then
            match v with
            | JArr l =>
                (fix each (l : list json) (i : nat) : list (list string) :=
                   match l with
                   | [] => []
                   | JObj o :: t =>
                       if is_last rest' && typename_only o then each t (S i)
                       else paths rest' (fsub sel) o (branch ++ [if is_last rest' then render_list_point point i (id_of o) else render_list_step point i]) ++ each t (S i)
                   | _ :: t => each t (S i)
                   end) l 0
            | _ => []
            end
          else
            match v with
            | JObj o => paths rest' (fsub sel) o (branch ++ [if is_last rest' then render_obj_point point (id_of o) else point])
            | _ => []
            end
      | _, _ => []
      end
  end.

Lemma extract_id_some o idv : assoc "id" o = Some idv -> extract_id o = Some (Some (id_of o)).
Proof. intros H. unfold extract_id, id_of. now rewrite H. Qed.

Theorem every_place_is_found : forall rest ss chunk branch,
  Conf rest ss chunk -> points_go rest ss chunk branch = POk (paths rest ss chunk branch).
Proof.
  induction rest as [|point rest' IH]; intros ss chunk branch HC; [reflexivity|].
  cbn [Conf] in HC. destruct HC as (sel & v & Hs & Hv & HC). cbn [points_go paths]. rewrite Hs, Hv.
  destruct (flist sel).
  - destruct HC as (l & -> & Hall).
    assert (G : forall l i acc, Forall (fun e => exists o, e = JObj o /\ (is_last rest' = true -> (exists idv, assoc "id" o = Some idv) \/ typename_only o = true) /\ Conf rest' (fsub sel) o) l ->
      (fix each (l : list json) (i : nat) (acc : list (list string)) : pout :=
         match l with
         | [] => POk acc
         | JObj o :: t =>
             if is_last rest' then
               match extract_id o with
               | None => PErr
               | Some None => each t (S i) acc
               | Some (Some id) =>
                   match points_go rest' (fsub sel) o (branch ++ [render_list_point point i id]) with
                   | POk r => each t (S i) (acc ++ r) | PErr => PErr end
               end
             else
               match points_go rest' (fsub sel) o (branch ++ [render_list_step point i]) with
               | POk r => each t (S i) (acc ++ r) | PErr => PErr end
         | _ :: _ => PErr
         end) l i acc
      = POk (acc ++ (fix each (l : list json) (i : nat) : list (list string) :=
                   match l with
                   | [] => []
                   | JObj o :: t =>
                       if is_last rest' && typename_only o then each t (S i)
                       else paths rest' (fsub sel) o (branch ++ [if is_last rest' then render_list_point point i (id_of o) else render_list_step point i]) ++ each t (S i)
                   | _ :: t => each t (S i)
                   end) l i)).
    { clear Hall. induction l0 as [|e t IHl]; intros i acc Hall; [now rewrite app_nil_r|].
      inversion Hall as [|? ? (o & -> & Hid & Hc) Ht]; subst.
      destruct (is_last rest') eqn:El; cbn [andb].
      - destruct (Hid eq_refl) as [(idv & Hidv)|Hto].
        + assert (Hn : typename_only o = false) by (unfold typename_only; now rewrite (extract_id_some o idv Hidv)).
          rewrite Hn, (extract_id_some o idv Hidv).
          rewrite (IH _ _ _ Hc). rewrite (IHl _ _ Ht). now rewrite app_assoc.
        + rewrite Hto. unfold typename_only in Hto. destruct (extract_id o) as [[?|]|]; try discriminate. apply (IHl _ _ Ht).
      - rewrite (IH _ _ _ Hc). rewrite (IHl _ _ Ht). now rewrite app_assoc. }
    rewrite (G l 0 [] Hall). reflexivity.
  - destruct HC as (o & -> & Hid & Hc). destruct (is_last rest') eqn:El.
    + destruct (Hid eq_refl) as (idv & Hidv). rewrite (extract_id_some o idv Hidv). now apply IH.
    + now apply IH.
Qed.

(* each place once per list entry: the places below a list are the concatenation, in order, of the places below its entries *)
Lemma paths_extend : forall rest ss chunk branch p, In p (paths rest ss chunk branch) ->
  List.length p = List.length branch + List.length rest /\ firstn (List.length branch) p = branch.
Proof.
  induction rest as [|point rest' IH]; intros ss chunk branch p Hin; cbn [paths] in Hin.
  - destruct Hin as [<-|[]]. split; [cbn; lia|]. now rewrite firstn_all.
  - destruct (find_selection point ss) as [sel|]; [|contradiction]. destruct (assoc point chunk) as [v|]; [|contradiction].
    assert (Hext : forall x o, In p (paths rest' (fsub sel) o (branch ++ [x])) ->
                   List.length p = List.length branch + List.length (point :: rest') /\ firstn (List.length branch) p = branch).
    { intros x o Hp. destruct (IH _ _ _ _ Hp) as [Hl Hf]. rewrite app_length in Hl, Hf. cbn in *. split; [lia|].
      replace (List.length branch) with (Nat.min (List.length branch) (List.length branch + 1)) by lia.
      rewrite <- firstn_firstn, Hf. rewrite firstn_app, firstn_all, Nat.sub_diag. cbn. now rewrite app_nil_r. }
    destruct (flist sel).
    + destruct v as [| | | |l| |]; try contradiction.
      revert Hin. generalize 0 as i. induction l as [|e t IHl]; intros i Hin; [contradiction|].
      destruct e as [| | | | |o|]; try (now apply (IHl (S i))).
      destruct (is_last rest' && typename_only o); [now apply (IHl (S i))|].
      apply in_app_or in Hin as [Hin|Hin]; [eapply Hext; eauto|now apply (IHl (S i))].
    + destruct v as [| | | | |o|]; try contradiction. eapply Hext; eauto.
Qed.

(* what was the listed finding C01-union-member-without-fields, at this layer: an entry that carries nothing but
   __typename is passed over and the other entries are found (before fix ba7bf6b the whole list came back empty) *)
Definition beings_sel : list fsel := [FSel "beings" true true [FSel "__typename" false false []; FSel "id" false true []]].
Definition beings_result : list (string * json) :=
  [("beings", JArr [JObj [("__typename", JStr "Human")]; JObj [("__typename", JStr "Pet"); ("id", JStr "p1")]])].
Example an_entry_without_id_is_passed_over :
  Conf ["beings"] beings_sel beings_result /\
  find_points ["beings"] beings_sel beings_result [] = POk [["beings:1#p1"]] /\
  paths ["beings"] beings_sel beings_result [] = [["beings:1#p1"]].
Proof.
  split; [|split; vm_compute; reflexivity].
  cbn. eexists. eexists. split; [reflexivity|]. split; [reflexivity|]. cbn. eexists. split; [reflexivity|].
  apply Forall_cons; [|apply Forall_cons; [|apply Forall_nil]]; eexists; (split; [reflexivity|]); (split; [|exact I]); intros _; [right; reflexivity|left; eexists; reflexivity].
Qed.

(* non-vacuity: a conforming result with a list below an object below a list *)
Definition demo_sel : list fsel :=
  [FSel "node" false false [FSel "friends" true false [FSel "id" false true []; FSel "best" false false [FSel "id" false true []; FSel "pets" true true [FSel "id" false true []]]]]].
Definition demo_result : list (string * json) :=
  [("friends", JArr [JObj [("id", JStr "h1"); ("best", JObj [("id", JStr "h2"); ("pets", JArr [JObj [("id", JStr "p1")]; JObj [("id", JStr "p#2")]])])];
                     JObj [("id", JStr "h3"); ("best", JObj [("id", JStr "h1"); ("pets", JArr [])])]])].
Example demo_conforms : Conf ["friends"; "best"; "pets"] demo_sel demo_result /\
  find_points ["me#h0"; "friends"; "best"; "pets"] demo_sel demo_result ["me#h0"]
  = POk [["me#h0"; "friends:0"; "best"; "pets:0#p1"]; ["me#h0"; "friends:0"; "best"; "pets:1#p#2"]].
Proof.
  split; [|vm_compute; reflexivity].
  cbn. eexists. eexists. split; [reflexivity|]. split; [reflexivity|]. cbn. eexists. split; [reflexivity|].
  repeat first [apply Forall_nil | apply Forall_cons]; eexists; (split; [reflexivity|]); (split; [discriminate|]);
    cbn; eexists; eexists; (split; [reflexivity|]); (split; [reflexivity|]); cbn; eexists; (split; [reflexivity|]); (split; [discriminate|]);
    cbn; eexists; eexists; (split; [reflexivity|]); (split; [reflexivity|]); cbn; eexists; (split; [reflexivity|]);
    repeat first [apply Forall_nil | apply Forall_cons]; eexists; (split; [reflexivity|]); (split; [intros _; left; eexists; reflexivity|exact I]).
Qed.

(* ---- the places that are found are the places the results are merged into ----
   ExtractValueModifyingSource, on a result that already has the structure, follows a path point by point: a point with
   ':' before any '#' selects an entry of a list, any other point an object *)
Fixpoint resolve (path : list string) (chunk : list (string * json)) {struct path} : option (list (string * json)) :=
  match path with
  | [] => Some chunk
  | pt :: rest =>
      match extract pt with
      | None => None
      | Some pd =>
          if is_list_element pt then
            match assoc (pd_field pd) chunk, pd_index pd with
            | Some (JArr l), Some i => match nth_error l i with Some (JObj o) => resolve rest o | _ => None end
            | _, _ => None
            end
          else
            match assoc (pd_field pd) chunk with
            | Some (JObj o) => resolve rest o
            | _ => None
            end
      end
  end.

Definition clean_key (k : string) : Prop := has_char "#" k = false /\ has_char ":" k = false /\ k <> "".

Lemma extract_plain k : clean_key k -> extract k = Some (mkPD k None "").
Proof. intros (Hh & Hc & _). unfold extract. now rewrite (split_first_none "#" k Hh), (split_first_none ":" k Hc). Qed.

Lemma is_list_list_point k i id : clean_key k -> is_list_element (render_list_point k i id) = true.
Proof.
  intros (Hh & Hc & _). unfold is_list_element, render_list_point.
  assert (E : (k ++ ":" ++ nat_to_string i ++ "#" ++ id = (k ++ ":" ++ nat_to_string i) ++ String "#" id)%string) by (rewrite !str_app_assoc; reflexivity).
  rewrite E, split_first_app by (rewrite !has_char_app, Hh, digit_chars_only_hash; reflexivity).
  destruct (k ++ ":" ++ nat_to_string i)%string eqn:Ek.
  - destruct k; discriminate.
  - rewrite <- Ek, !has_char_app. cbn. now rewrite orb_true_r.
Qed.
Lemma is_list_list_step k i : clean_key k -> is_list_element (render_list_step k i) = true.
Proof.
  intros (Hh & Hc & _). unfold is_list_element, render_list_step.
  rewrite (split_first_none "#") by (rewrite !has_char_app, Hh; cbn; apply digit_chars_only_hash).
  rewrite !has_char_app. cbn. now rewrite orb_true_r.
Qed.
Lemma is_list_obj_point k id : clean_key k -> is_list_element (render_obj_point k id) = false.
Proof.
  intros (Hh & Hc & Hne). unfold is_list_element, render_obj_point.
  change (k ++ "#" ++ id)%string with (k ++ String "#" id)%string. rewrite split_first_app by exact Hh.
  destruct k; [contradiction|exact Hc].
Qed.
Lemma is_list_plain k : clean_key k -> is_list_element k = false.
Proof. intros (Hh & Hc & _). unfold is_list_element. now rewrite (split_first_none "#" k Hh). Qed.

(* the id a path ends with *)
Definition last_id (p : list string) : string :=
  match rev p with [] => "" | pt :: _ => match extract pt with Some pd => pd_id pd | None => "" end end.

Lemma last_id_snoc_cons q x y : last_id (x :: q ++ [y]) = last_id (q ++ [y]).
Proof. unfold last_id. cbn [rev]. rewrite !rev_app_distr. reflexivity. Qed.

Theorem found_places_are_where_results_go : forall rest ss chunk branch p,
  Forall clean_key rest -> In p (paths rest ss chunk branch) ->
  exists q o, p = branch ++ q /\ resolve q chunk = Some o /\ (rest <> [] -> last_id q = id_of o).
Proof.
  induction rest as [|point rest' IH]; intros ss chunk branch p Hk Hin; cbn [paths] in Hin.
  - destruct Hin as [<-|[]]. exists [], chunk. split; [now rewrite app_nil_r|]. split; [reflexivity|]. intros H; contradiction.
  - inversion Hk as [|? ? Hkp Hkr]; subst.
    destruct (find_selection point ss) as [sel|]; [|contradiction]. destruct (assoc point chunk) as [v|] eqn:Ev; [|contradiction].
    (* one step below an object o reached through the point x *)
    assert (Hstep : forall x o, In p (paths rest' (fsub sel) o (branch ++ [x])) ->
              (rest' = [] -> last_id [x] = id_of o) ->
              (forall q o', resolve q o = Some o' -> resolve (x :: q) chunk = Some o') ->
              exists q o', p = branch ++ q /\ resolve q chunk = Some o' /\ (point :: rest' <> [] -> last_id q = id_of o')).
    { intros x o Hp Hlast Hres. destruct (IH _ _ _ _ Hkr Hp) as (q & o' & -> & Hr & Hl).
      exists (x :: q), o'. split; [now rewrite <- app_assoc|]. split; [now apply Hres|]. intros _.
      destruct rest' as [|r0 rr].
      - cbn [paths] in Hp. destruct Hp as [Hp|[]].
        assert (Eq : q = []) by (apply (app_inv_head (branch ++ [x])); now rewrite app_nil_r). subst q.
        cbn in Hr. inversion Hr; subst o'. now apply Hlast.
      - rewrite <- (Hl ltac:(discriminate)). destruct (IH _ _ _ _ Hkr Hp) as (q2 & o2 & E2 & _ & _). apply app_inv_head in E2. subst q2.
        destruct q as [|y q'] using rev_ind; [|now rewrite last_id_snoc_cons].
        exfalso. apply paths_extend in Hp as [Hlen _]. rewrite app_nil_r, app_length in Hlen. cbn in Hlen. lia. }
    destruct (flist sel).
    + destruct v as [| | | |l| |]; try contradiction.
      assert (G : forall l0 i, (forall j e, nth_error l0 j = Some e -> nth_error l (i + j) = Some e) ->
                In p ((fix each (l : list json) (i : nat) : list (list string) :=
                   match l with
                   | [] => []
                   | JObj o :: t => if is_last rest' && typename_only o then each t (S i)
                                    else paths rest' (fsub sel) o (branch ++ [if is_last rest' then render_list_point point i (id_of o) else render_list_step point i]) ++ each t (S i)
                   | _ :: t => each t (S i)
                   end) l0 i) ->
                exists q o', p = branch ++ q /\ resolve q chunk = Some o' /\ (point :: rest' <> [] -> last_id q = id_of o')).
      { induction l0 as [|e t IHl]; intros i Hnth Hp; [contradiction|].
        assert (Ht : forall j e0, nth_error t j = Some e0 -> nth_error l (S i + j) = Some e0).
        { intros j e0 Hj. specialize (Hnth (S j) e0 Hj). now rewrite Nat.add_succ_r in Hnth. }
        destruct e as [| | | | |o|]; try (now apply (IHl (S i) Ht)).
        destruct (is_last rest' && typename_only o); [now apply (IHl (S i) Ht)|].
        apply in_app_or in Hp as [Hp|Hp]; [|now apply (IHl (S i) Ht)].
        specialize (Hnth 0 (JObj o) eq_refl). rewrite Nat.add_0_r in Hnth.
        apply (Hstep _ o Hp).
        - intros ->. cbn [is_last]. unfold last_id. cbn [rev app]. now rewrite (extract_list_point point i (id_of o) (proj1 Hkp) (proj1 (proj2 Hkp))).
        - intros q o' Hr. cbn [resolve]. destruct (is_last rest').
          + rewrite (extract_list_point point i (id_of o) (proj1 Hkp) (proj1 (proj2 Hkp))), (is_list_list_point _ _ _ Hkp). cbn [pd_field pd_index]. now rewrite Ev, Hnth.
          + rewrite (extract_list_step point i (proj1 Hkp) (proj1 (proj2 Hkp))), (is_list_list_step _ _ Hkp). cbn [pd_field pd_index]. now rewrite Ev, Hnth. }
      apply (G l 0); [intros j e Hj; exact Hj|exact Hin].
    + destruct v as [| | | | |o|]; try contradiction.
      apply (Hstep _ o Hin).
      * intros ->. cbn [is_last]. unfold last_id. cbn [rev app]. now rewrite (extract_obj_point point (id_of o) (proj1 Hkp) (proj1 (proj2 Hkp))).
      * intros q o' Hr. cbn [resolve]. destruct (is_last rest').
        -- rewrite (extract_obj_point point (id_of o) (proj1 Hkp) (proj1 (proj2 Hkp))), (is_list_obj_point _ _ Hkp). cbn [pd_field]. now rewrite Ev.
        -- rewrite (extract_plain point Hkp), (is_list_plain _ Hkp). cbn [pd_field]. now rewrite Ev.
Qed.
