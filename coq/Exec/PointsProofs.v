(* C01 / C12: dependent steps are run for every place of a step's result, each once, in order. *)
From Coq Require Import List String Bool Arith Lia.
From Pebbles Require Import Base.Json Exec.PointData Exec.Points.
Import ListNotations.
Open Scope string_scope.
Open Scope list_scope.

(* ---- FindSelection ---- *)
Theorem level_first p ss c : find (fun c => fkey c =? p) ss = Some c -> find_selection p ss = Some c.
Proof. intros H. unfold find_selection. cbn [find_under]. now rewrite H. Qed.

(* the pinned depth-first search returned the nested field: { a { b } b { a } }, looking for b *)
Definition shadow_ss : list fsel := [FSel "a" false false [FSel "b" true false []]; FSel "b" true false [FSel "a" false false []]].
Example depth_first_was_shadowed :
  find_selection_dfs "b" shadow_ss = Some (FSel "b" true false []) /\
  find_selection "b" shadow_ss = Some (FSel "b" true false [FSel "a" false false []]).
Proof. split; reflexivity. Qed.

(* ---- FindInsertionPoints ---- *)
(* the result conforms to the selection along the path: nothing is null, lists hold objects, the objects at the end
   of the path carry an id *)
Fixpoint Conf (rest : list string) (ss : list fsel) (chunk : list (string * json)) {struct rest} : Prop :=
  match rest with
  | [] => True
  | point :: rest' =>
      exists sel v, find_selection point ss = Some sel /\ assoc point chunk = Some v /\
        if flist sel then
          exists l, v = JArr l /\ Forall (fun e => exists o, e = JObj o /\ (is_last rest' = true -> exists idv, assoc "id" o = Some idv) /\ Conf rest' (fsub sel) o) l
        else
          exists o, v = JObj o /\ (is_last rest' = true -> exists idv, assoc "id" o = Some idv) /\ Conf rest' (fsub sel) o
  end.

Definition id_of (o : list (string * json)) : string := match assoc "id" o with Some v => render_id v | None => "" end.

(* every place, in order *)
Fixpoint paths (rest : list string) (ss : list fsel) (chunk : list (string * json)) (branch : list string) {struct rest} : list (list string) :=
  match rest with
  | [] => [branch]
  | point :: rest' =>
      match find_selection point ss, assoc point chunk with
      | Some sel, Some v =>
          if flist sel then
            match v with
            | JArr l =>
                (fix each (l : list json) (i : nat) : list (list string) :=
                   match l with
                   | [] => []
                   | JObj o :: t =>
                       paths rest' (fsub sel) o (branch ++ [if is_last rest' then render_list_point point i (id_of o) else render_list_step point i]) ++ each t (S i)
                   | _ :: t => each t (S i)
                   end) l 0
            | _ => []
            end
          else
            match v with
            | JObj o => paths rest' (fsub sel) o (branch ++ [if is_last rest' then render_obj_point point (id_of o) else point])
            | _ => []
            end
      | _, _ => []
      end
  end.

Lemma extract_id_some o idv : assoc "id" o = Some idv -> extract_id o = Some (Some (id_of o)).
Proof. intros H. unfold extract_id, id_of. now rewrite H. Qed.

Theorem every_place_is_found : forall rest ss chunk branch,
  Conf rest ss chunk -> points_go rest ss chunk branch = POk (paths rest ss chunk branch).
Proof.
  induction rest as [|point rest' IH]; intros ss chunk branch HC; [reflexivity|].
  cbn [Conf] in HC. destruct HC as (sel & v & Hs & Hv & HC). cbn [points_go paths]. rewrite Hs, Hv.
  destruct (flist sel).
  - destruct HC as (l & -> & Hall).
    assert (G : forall l i acc, Forall (fun e => exists o, e = JObj o /\ (is_last rest' = true -> exists idv, assoc "id" o = Some idv) /\ Conf rest' (fsub sel) o) l ->
      (fix each (l : list json) (i : nat) (acc : list (list string)) : pout :=
         match l with
         | [] => POk acc
         | JObj o :: t =>
             if is_last rest' then
               match extract_id o with
               | None => PErr
               | Some None => POk []
               | Some (Some id) =>
                   match points_go rest' (fsub sel) o (branch ++ [render_list_point point i id]) with
                   | POk r => each t (S i) (acc ++ r) | PErr => PErr end
               end
             else
               match points_go rest' (fsub sel) o (branch ++ [render_list_step point i]) with
               | POk r => each t (S i) (acc ++ r) | PErr => PErr end
         | _ :: _ => PErr
         end) l i acc
      = POk (acc ++ (fix each (l : list json) (i : nat) : list (list string) :=
                   match l with
                   | [] => []
                   | JObj o :: t =>
                       paths rest' (fsub sel) o (branch ++ [if is_last rest' then render_list_point point i (id_of o) else render_list_step point i]) ++ each t (S i)
                   | _ :: t => each t (S i)
                   end) l i)).
    { clear Hall. induction l0 as [|e t IHl]; intros i acc Hall; [now rewrite app_nil_r|].
      inversion Hall as [|? ? (o & -> & Hid & Hc) Ht]; subst.
      destruct (is_last rest') eqn:El.
      - destruct (Hid eq_refl) as (idv & Hidv). rewrite (extract_id_some o idv Hidv).
        rewrite (IH _ _ _ Hc). rewrite (IHl _ _ Ht). now rewrite app_assoc.
      - rewrite (IH _ _ _ Hc). rewrite (IHl _ _ Ht). now rewrite app_assoc. }
    rewrite (G l 0 [] Hall). reflexivity.
  - destruct HC as (o & -> & Hid & Hc). destruct (is_last rest') eqn:El.
    + destruct (Hid eq_refl) as (idv & Hidv). rewrite (extract_id_some o idv Hidv). now apply IH.
    + now apply IH.
Qed.

(* each place once per list entry: the places below a list are the concatenation, in order, of the places below its entries *)
Lemma paths_extend : forall rest ss chunk branch p, In p (paths rest ss chunk branch) ->
  List.length p = List.length branch + List.length rest /\ firstn (List.length branch) p = branch.
Proof.
  induction rest as [|point rest' IH]; intros ss chunk branch p Hin; cbn [paths] in Hin.
  - destruct Hin as [<-|[]]. split; [cbn; lia|]. now rewrite firstn_all.
  - destruct (find_selection point ss) as [sel|]; [|contradiction]. destruct (assoc point chunk) as [v|]; [|contradiction].
    assert (Hext : forall x o, In p (paths rest' (fsub sel) o (branch ++ [x])) ->
                   List.length p = List.length branch + List.length (point :: rest') /\ firstn (List.length branch) p = branch).
    { intros x o Hp. destruct (IH _ _ _ _ Hp) as [Hl Hf]. rewrite app_length in Hl, Hf. cbn in *. split; [lia|].
      replace (List.length branch) with (Nat.min (List.length branch) (List.length branch + 1)) by lia.
      rewrite <- firstn_firstn, Hf. rewrite firstn_app, firstn_all, Nat.sub_diag. cbn. now rewrite app_nil_r. }
    destruct (flist sel).
    + destruct v as [| | | |l| |]; try contradiction.
      revert Hin. generalize 0 as i. induction l as [|e t IHl]; intros i Hin; [contradiction|].
      destruct e as [| | | | |o|]; try (now apply (IHl (S i))).
      apply in_app_or in Hin as [Hin|Hin]; [eapply Hext; eauto|now apply (IHl (S i))].
    + destruct v as [| | | | |o|]; try contradiction. eapply Hext; eauto.
Qed.

(* the listed finding C01-union-member-without-fields at this layer: one entry that carries nothing but __typename
   makes the whole list come back empty, although the other entries are perfectly good places *)
Definition beings_sel : list fsel := [FSel "beings" true true [FSel "__typename" false false []; FSel "id" false true []]].
Definition beings_result : list (string * json) :=
  [("beings", JArr [JObj [("__typename", JStr "Human")]; JObj [("__typename", JStr "Pet"); ("id", JStr "p1")]])].
Example one_entry_without_id_hides_the_others :
  find_points ["beings"] beings_sel beings_result [] = POk [] /\
  paths ["beings"] beings_sel beings_result [] = [["beings:0#"]; ["beings:1#p1"]].
Proof. split; vm_compute; reflexivity. Qed.

(* non-vacuity: a conforming result with a list below an object below a list *)
Definition demo_sel : list fsel :=
  [FSel "node" false false [FSel "friends" true false [FSel "id" false true []; FSel "best" false false [FSel "id" false true []; FSel "pets" true true [FSel "id" false true []]]]]].
Definition demo_result : list (string * json) :=
  [("friends", JArr [JObj [("id", JStr "h1"); ("best", JObj [("id", JStr "h2"); ("pets", JArr [JObj [("id", JStr "p1")]; JObj [("id", JStr "p#2")]])])];
                     JObj [("id", JStr "h3"); ("best", JObj [("id", JStr "h1"); ("pets", JArr [])])]])].
Example demo_conforms : Conf ["friends"; "best"; "pets"] demo_sel demo_result /\
  find_points ["me#h0"; "friends"; "best"; "pets"] demo_sel demo_result ["me#h0"]
  = POk [["me#h0"; "friends:0"; "best"; "pets:0#p1"]; ["me#h0"; "friends:0"; "best"; "pets:1#p#2"]].
Proof.
  split; [|vm_compute; reflexivity].
  cbn. eexists. eexists. split; [reflexivity|]. split; [reflexivity|]. cbn. eexists. split; [reflexivity|].
  repeat constructor; eexists; (split; [reflexivity|]); (split; [discriminate|]);
    cbn; eexists; eexists; (split; [reflexivity|]); (split; [reflexivity|]); cbn; eexists; (split; [reflexivity|]); (split; [discriminate|]);
    cbn; eexists; eexists; (split; [reflexivity|]); (split; [reflexivity|]); cbn; eexists; (split; [reflexivity|]);
    repeat constructor; eexists; (split; [reflexivity|]); (split; [intros _; eexists; reflexivity|exact I]).
Qed.
