(* Model of executor/selection_set.go FindSelection (after fix 61dcc21) and executor/result.go FindInsertionPoints
   (called with one starting branch, as every caller does): which places of a step's result the dependent steps
   have to be run for. No proofs here. *)
From Coq Require Import List String Bool Arith.
From Pebbles Require Import Base.Json Exec.PointData.
Import ListNotations.
Open Scope string_scope.
Open Scope list_scope.

(* a selection set after common.SelectionSetToFields: fields only; key = alias or name; the two flags are
   Definition.Type.Elem != nil and Definition.Type.NonNull *)
Inductive fsel := FSel (key : string) (is_list nonnull : bool) (sub : list fsel).
Definition fkey (s : fsel) := match s with FSel k _ _ _ => k end.
Definition flist (s : fsel) := match s with FSel _ l _ _ => l end.
Definition fnonnull (s : fsel) := match s with FSel _ _ n _ => n end.
Definition fsub (s : fsel) := match s with FSel _ _ _ sub => sub end.

(* FindSelection: the field of this level wins; only then the siblings' subtrees are searched, in order
   (descending is what looks through the `node(id:)` wrapper of a follow-up step) *)
Fixpoint find_under (p : string) (s : fsel) {struct s} : option fsel :=
  match s with
  | FSel _ _ _ sub =>
      match find (fun c => fkey c =? p) sub with
      | Some c => Some c
      | None => (fix desc (l : list fsel) : option fsel :=
                   match l with
                   | [] => None
                   | c :: t => match find_under p c with Some r => Some r | None => desc t end
                   end) sub
      end
  end.
Definition find_selection (p : string) (ss : list fsel) : option fsel := find_under p (FSel "" false false ss).

(* the pinned tree searched depth first *)
Fixpoint find_under_dfs (p : string) (s : fsel) {struct s} : option fsel :=
  match s with
  | FSel _ _ _ sub =>
      (fix go (l : list fsel) : option fsel :=
         match l with
         | [] => None
         | c :: t => if fkey c =? p then Some c else match find_under_dfs p c with Some r => Some r | None => go t end
         end) sub
  end.
Definition find_selection_dfs (p : string) (ss : list fsel) : option fsel := find_under_dfs p (FSel "" false false ss).

Inductive pout := POk (l : list (list string)) | PErr.

Definition render_id (v : json) : string := match v with JStr s => s | JNum r => r | JBool true => "true" | JBool false => "false" | _ => "?" end.
(* extractID: the id; nil for an object that carries nothing but __typename; otherwise an error *)
Definition extract_id (o : list (string * json)) : option (option string) :=
  match assoc "id" o with
  | Some v => Some (Some (render_id v))
  | None => match assoc "__typename" o with
            | Some _ => if Nat.eqb (List.length o) 1 then Some None else None
            | None => None end
  end.

Definition is_last (rest : list string) : bool := match rest with [] => true | _ => false end.

Fixpoint points_go (rest : list string) (ss : list fsel) (chunk : list (string * json)) (branch : list string) {struct rest} : pout :=
  match rest with
  | [] => POk [branch]
  | point :: rest' =>
      match find_selection point ss with
      | None => POk []
      | Some sel =>
          match assoc point chunk with
          | None => POk []
          | Some JNull => if fnonnull sel then PErr else POk []
          | Some v =>
              if flist sel then
                match v with
                | JArr l =>
                    (fix each (l : list json) (i : nat) (acc : list (list string)) : pout :=
                       match l with
                       | [] => POk acc
                       | JObj o :: t =>
                           if is_last rest' then
                             match extract_id o with
                             | None => PErr
                             | Some None => each t (S i) acc                         (* nothing but __typename: passed over (since fix ba7bf6b; before: return nil, nil for the whole list) *)
                             | Some (Some id) =>
                                 match points_go rest' (fsub sel) o (branch ++ [render_list_point point i id]) with
                                 | POk r => each t (S i) (acc ++ r) | PErr => PErr end
                             end
                           else
                             match points_go rest' (fsub sel) o (branch ++ [render_list_step point i]) with
                             | POk r => each t (S i) (acc ++ r) | PErr => PErr end
                       | _ :: _ => PErr                                              (* entry in result wasn't a map *)
                       end) l 0 []
                | _ => PErr                                                          (* root value was not a list *)
                end
              else
                let chunk' := match v with JObj o => o | _ => chunk end in
                if is_last rest' then
                  match v with
                  | JObj o => match extract_id o with
                              | None => PErr
                              | Some None => POk []
                              | Some (Some id) => points_go rest' (fsub sel) chunk' (branch ++ [render_obj_point point id])
                              end
                  | JArr (JObj o :: _) =>
                      (* a list where the schema has an object: the entry that corresponds to the (single) starting
                         point, i.e. the first one, gives the id; an empty list is an error since fix b2e9541
                         (it indexed past the end before: a panic in a worker goroutine) *)
                      match extract_id o with
                      | None => PErr
                      | Some None => POk []
                      | Some (Some id) => points_go rest' (fsub sel) chunk' (branch ++ [render_list_point point 0 id])
                      end
                  | _ => PErr                                                        (* not an object *)
                  end
                else points_go rest' (fsub sel) chunk' (branch ++ [point])
          end
      end
  end.

(* FindInsertionPoints(targetPoints, selectionSet, result, [][]string{branch}) *)
Definition find_points (target : list string) (ss : list fsel) (result : list (string * json)) (branch : list string) : pout :=
  points_go (skipn (List.length branch) target) ss result branch.
