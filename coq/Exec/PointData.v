(* Model of executor/point_data.go (CachedPointDataExtractor.Extract, after fix 57c83f6), of the rendering of
   insertion points in executor/result.go (fmt.Sprintf("%s:%v#%v") / "%s#%v") and of utils.isListElement, with the
   round-trip theorem that ties them together (C01). *)
From Coq Require Import String Ascii Decimal DecimalString DecimalNat Arith Lia List Bool.
From Pebbles Require Import Net.Decode Base.Str.
Import ListNotations.
Open Scope string_scope.

Record pdata := mkPD { pd_field : string; pd_index : option nat; pd_id : string }.

Definition extract (point : string) : option pdata :=
  let '(f, id) := match split_first "#" point with Some (a, b) => (a, b) | None => (point, "") end in
  match split_first ":" f with
  | None => Some (mkPD f None id)
  | Some (a, rest) =>
      let ix := match split_first ":" rest with Some (x, _) => x | None => rest end in   (* indexData[1] *)
      match atoi ix with
      | IntPos n => Some (mkPD a (Some n) id)
      | _ => None
      end
  end.

(* what FindInsertionPoints writes *)
Definition render_list_point (field : string) (i : nat) (id : string) : string :=
  field ++ ":" ++ nat_to_string i ++ "#" ++ id.
Definition render_obj_point (field : string) (id : string) : string := field ++ "#" ++ id.
Definition render_list_step (field : string) (i : nat) : string := field ++ ":" ++ nat_to_string i.

Definition is_list_element (path : string) : bool :=
  match split_first "#" path with
  | Some (String c a, _) => has_char ":" (String c a)       (* hashLocation > 0 *)
  | _ => has_char ":" path
  end.

Lemma digit_chars_only_hash n : has_char "#" (nat_to_string n) = false.
Proof.
  unfold nat_to_string. induction (Nat.to_uint n); cbn [NilEmpty.string_of_uint has_char]; try reflexivity; exact IHu.
Qed.
Lemma digit_chars_only_colon n : has_char ":" (nat_to_string n) = false.
Proof.
  unfold nat_to_string. induction (Nat.to_uint n); cbn [NilEmpty.string_of_uint has_char]; try reflexivity; exact IHu.
Qed.

(* Round trip: whatever characters the entity id contains ('#', ':', '.', spaces, quotes ...), the point written for
   a list entry is read back as exactly (field, index, id) *)
Theorem extract_list_point field i id :
  has_char "#" field = false -> has_char ":" field = false ->
  extract (render_list_point field i id) = Some (mkPD field (Some i) id).
Proof.
  intros Hh Hc. unfold extract, render_list_point.
  assert (E : field ++ ":" ++ nat_to_string i ++ "#" ++ id = (field ++ ":" ++ nat_to_string i) ++ String "#" id).
  { rewrite !str_app_assoc. reflexivity. }
  rewrite E, split_first_app.
  2:{ rewrite !has_char_app, Hh, digit_chars_only_hash. reflexivity. }
  change (field ++ ":" ++ nat_to_string i) with (field ++ String ":" (nat_to_string i)).
  rewrite split_first_app by exact Hc.
  rewrite (split_first_none ":" (nat_to_string i) (digit_chars_only_colon i)).
  now rewrite atoi_itoa.
Qed.

Theorem extract_obj_point field id :
  has_char "#" field = false -> has_char ":" field = false ->
  extract (render_obj_point field id) = Some (mkPD field None id).
Proof.
  intros Hh Hc. unfold extract, render_obj_point.
  change (field ++ "#" ++ id) with (field ++ String "#" id).
  rewrite split_first_app by exact Hh. now rewrite (split_first_none ":" field Hc).
Qed.

Theorem extract_list_step field i :
  has_char "#" field = false -> has_char ":" field = false ->
  extract (render_list_step field i) = Some (mkPD field (Some i) "").
Proof.
  intros Hh Hc. unfold extract, render_list_step.
  rewrite (split_first_none "#").
  2:{ rewrite !has_char_app, Hh. cbn. apply digit_chars_only_hash. }
  change (field ++ ":" ++ nat_to_string i) with (field ++ String ":" (nat_to_string i)).
  rewrite split_first_app by exact Hc.
  rewrite (split_first_none ":" (nat_to_string i) (digit_chars_only_colon i)).
  now rewrite atoi_itoa.
Qed.

(* The pinned tree split on EVERY '#': with that reading an id containing '#' is lost (listed as fixed: 57c83f6). *)
Definition extract_pinned_id (point : string) : string :=
  match split_first "#" point with
  | Some (_, rest) => match split_first "#" rest with Some _ => "" (* three parts: len(idData) <> 2 *) | None => rest end
  | None => "" end.
Theorem pinned_split_loses_ids_with_hash : extract_pinned_id (render_obj_point "user" "a#b") = "".
Proof. reflexivity. Qed.
