From Coq Require Import List String Bool Arith Permutation.
From Pebbles Require Import Base.Json Exec.Scrub.
Import ListNotations.
Open Scope string_scope.
Open Scope list_scope.

Lemma find_perm_unique {V} (f : string -> bool) (l l' : list (string * V)) :
  NoDup (map fst l) -> Permutation l l' ->
  (forall a b, f a = true -> f b = true -> a = b) ->
  find (fun e => f (fst e)) l = find (fun e => f (fst e)) l'.
Proof.
  intros Hnd Hp Hf.
  assert (Hnd' : NoDup (map fst l')) by (eapply Permutation_NoDup; [apply Permutation_map; exact Hp|exact Hnd]).
  destruct (find (fun e => f (fst e)) l) as [e|] eqn:F; destruct (find (fun e => f (fst e)) l') as [e'|] eqn:F'; auto.
  - apply find_some in F as [Hin He]. apply find_some in F' as [Hin' He'].
    assert (fst e = fst e') by (apply Hf; assumption).
    apply (Permutation_in _ Hp) in Hin. f_equal.
    clear -Hnd' Hin Hin' H. induction l' as [|x t IH]; [contradiction|]. cbn in Hnd'. inversion Hnd'; subst.
    destruct Hin as [->|Hin]; destruct Hin' as [->|Hin']; auto.
    + exfalso. apply H2. rewrite H. now apply in_map.
    + exfalso. apply H2. rewrite <- H. now apply in_map.
  - apply find_some in F as [Hin He]. apply (Permutation_in _ Hp) in Hin.
    pose proof (find_none _ _ F' _ Hin) as E. cbn in E. congruence.
  - apply find_some in F' as [Hin He]. apply (Permutation_in _ (Permutation_sym Hp)) in Hin.
    pose proof (find_none _ _ F _ Hin) as E. cbn in E. congruence.
Qed.

(* the object carries a string __typename *)
Definition has_typename (o : list (string * json)) : Prop := exists s, assoc "__typename" o = Some (JStr s).

(* which helper list is used does not depend on the map iteration order, PROVIDED the object says what it is
   (or there is nothing to choose from) *)
Theorem pick_fields_order_independent o (fields fields' : typefields) :
  NoDup (map fst fields) -> Permutation fields fields' ->
  (has_typename o \/ List.length fields <= 1) ->
  pick_fields o fields = pick_fields o fields'.
Proof.
  intros Hnd Hp [[s Hs]|Hl]; unfold pick_fields.
  - rewrite Hs.
    rewrite (find_perm_unique (fun k => k =? s) fields fields' Hnd Hp); [reflexivity|].
    intros a b Ha Hb. apply String.eqb_eq in Ha. apply String.eqb_eq in Hb. congruence.
  - destruct fields as [|e [|e2 t]]; cbn in Hl.
    + apply Permutation_nil in Hp. now subst.
    + apply Permutation_length_1_inv in Hp. now subst.
    + exfalso. apply (Nat.nle_succ_0 _ (le_S_n _ _ Hl)).
Qed.

(* every object the path ends at says what it is *)
Fixpoint typed_at (path : list string) (o : list (string * json)) : Prop :=
  match path with
  | [] => has_typename o
  | p :: rest =>
      match assoc p o with
      | Some (JObj m) => typed_at rest m
      | Some (JArr l) => Forall (fun x => match x with JObj m => typed_at rest m | _ => True end) l
      | _ => True
      end
  end.

Theorem clean_order_independent path : forall o (fields fields' : typefields),
  NoDup (map fst fields) -> Permutation fields fields' ->
  (typed_at path o \/ List.length fields <= 1) ->
  clean path fields o = clean path fields' o.
Proof.
  induction path as [|p rest IH]; intros o fields fields' Hnd Hp Ht; cbn [clean].
  - rewrite (pick_fields_order_independent o fields fields' Hnd Hp); [reflexivity|]. destruct Ht; [left|right]; assumption.
  - destruct (assoc p o) as [[| | | |l|m|]|] eqn:A; try reflexivity.
    + assert (E : map (fun x => match x with JObj m => let '(m', rm) := clean rest fields m in (JObj m', rm) | other => (other, true) end) l
                = map (fun x => match x with JObj m => let '(m', rm) := clean rest fields' m in (JObj m', rm) | other => (other, true) end) l).
      { apply map_ext_in. intros x Hx. destruct x; try reflexivity.
        rewrite (IH l0 fields fields' Hnd Hp); [reflexivity|].
        destruct Ht as [Ht|Ht]; [left|now right]. cbn [typed_at] in Ht. rewrite A in Ht.
        rewrite Forall_forall in Ht. exact (Ht _ Hx). }
      now rewrite E.
    + rewrite (IH m fields fields' Hnd Hp); [reflexivity|].
      destruct Ht as [Ht|Ht]; [left|now right]. cbn [typed_at] in Ht. now rewrite A in Ht.
Qed.
