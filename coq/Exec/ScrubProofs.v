From Coq Require Import List String Bool Arith Permutation.
From Pebbles Require Import Base.Json Exec.Scrub.
Import ListNotations.
Open Scope string_scope.
Open Scope list_scope.

Lemma find_perm_unique {V} (f : string -> bool) (l l' : list (string * V)) :
  NoDup (map fst l) -> Permutation l l' ->
  (forall a b, f a = true -> f b = true -> a = b) ->
  find (fun e => f (fst e)) l = find (fun e => f (fst e)) l'.
Proof.
  intros Hnd Hp Hf.
  assert (Hnd' : NoDup (map fst l')) by (eapply Permutation_NoDup; [apply Permutation_map; exact Hp|exact Hnd]).
  destruct (find (fun e => f (fst e)) l) as [e|] eqn:F; destruct (find (fun e => f (fst e)) l') as [e'|] eqn:F'; auto.
  - apply find_some in F as [Hin He]. apply find_some in F' as [Hin' He'].
    assert (fst e = fst e') by (apply Hf; assumption).
    apply (Permutation_in _ Hp) in Hin. f_equal.
    clear -Hnd' Hin Hin' H. induction l' as [|x t IH]; [contradiction|]. cbn in Hnd'. inversion Hnd'; subst.
    destruct Hin as [->|Hin]; destruct Hin' as [->|Hin']; auto.
    + exfalso. apply H2. rewrite H. now apply in_map.
    + exfalso. apply H2. rewrite <- H. now apply in_map.
  - apply find_some in F as [Hin He]. apply (Permutation_in _ Hp) in Hin.
    pose proof (find_none _ _ F' _ Hin) as E. cbn in E. congruence.
  - apply find_some in F' as [Hin He]. apply (Permutation_in _ (Permutation_sym Hp)) in Hin.
    pose proof (find_none _ _ F _ Hin) as E. cbn in E. congruence.
Qed.

(* the object carries a string __typename *)
Definition has_typename (o : list (string * json)) : Prop := exists s, assoc "__typename" o = Some (JStr s).

(* which helper list is used does not depend on the map iteration order, PROVIDED the object says what it is
   (or there is nothing to choose from) *)
Theorem pick_fields_order_independent o (fields fields' : typefields) :
  NoDup (map fst fields) -> Permutation fields fields' ->
  (has_typename o \/ List.length fields <= 1) ->
  pick_fields o fields = pick_fields o fields'.
Proof.
  intros Hnd Hp [[s Hs]|Hl]; unfold pick_fields.
  - rewrite Hs.
    rewrite (find_perm_unique (fun k => k =? s) fields fields' Hnd Hp); [reflexivity|].
    intros a b Ha Hb. apply String.eqb_eq in Ha. apply String.eqb_eq in Hb. congruence.
  - destruct fields as [|e [|e2 t]]; cbn in Hl.
    + apply Permutation_nil in Hp. now subst.
    + apply Permutation_length_1_inv in Hp. now subst.
    + exfalso. apply (Nat.nle_succ_0 _ (le_S_n _ _ Hl)).
Qed.

(* every object the path ends at says what it is *)
Fixpoint typed_elem (P : list (string * json) -> Prop) (x : json) {struct x} : Prop :=
  match x with
  | JObj m => P m
  | JArr l => (fix all (l : list json) := match l with [] => True | y :: r => typed_elem P y /\ all r end) l
  | _ => True
  end.
Lemma typed_elem_all P l :
  (fix all (l : list json) := match l with [] => True | y :: r => typed_elem P y /\ all r end) l <-> Forall (typed_elem P) l.
Proof.
  induction l as [|y r IH]; [split; [constructor|trivial]|]. split.
  - intros [H1 H2]. constructor; [exact H1|apply IH, H2].
  - intros H. inversion H; subst. split; [assumption|apply IH; assumption].
Qed.
Fixpoint typed_at (path : list string) (o : list (string * json)) : Prop :=
  match path with
  | [] => has_typename o
  | p :: rest =>
      match assoc p o with
      | Some (JObj m) => typed_at rest m
      | Some (JArr l) => Forall (typed_elem (typed_at rest)) l
      | _ => True
      end
  end.

Section json_ind2.
  Variable P : json -> Prop.
  Hypothesis HNull : P JNull.
  Hypothesis HBool : forall b, P (JBool b).
  Hypothesis HNum : forall r, P (JNum r).
  Hypothesis HStr : forall s, P (JStr s).
  Hypothesis HArr : forall l, Forall P l -> P (JArr l).
  Hypothesis HObj : forall l, P (JObj l).
  Hypothesis HFile : forall k, P (JFile k).
  Fixpoint json_ind2 (x : json) : P x :=
    match x with
    | JNull => HNull | JBool b => HBool b | JNum r => HNum r | JStr s => HStr s | JFile k => HFile k
    | JObj l => HObj l
    | JArr l => HArr l ((fix go (l : list json) : Forall P l :=
                           match l with [] => Forall_nil _ | y :: t => Forall_cons y (json_ind2 y) (go t) end) l)
    end.
End json_ind2.

(* two object cleaners that agree on every object reachable through lists agree on the entry *)
Lemma clean_elem_ext (co co' : list (string * json) -> list (string * json) * bool) (Q : list (string * json) -> Prop) x :
  (forall m, Q m -> co m = co' m) -> typed_elem Q x -> clean_elem co x = clean_elem co' x.
Proof.
  intros Hco. induction x as [| | | |l IH| |] using json_ind2; intros Ht; cbn [clean_elem]; try reflexivity.
  - assert (E : map (clean_elem co) l = map (clean_elem co') l).
    { apply map_ext_in. intros y Hy. rewrite Forall_forall in IH. apply (IH y Hy).
      cbn [typed_elem] in Ht. apply typed_elem_all in Ht. rewrite Forall_forall in Ht. exact (Ht y Hy). }
    rewrite E. reflexivity.
  - cbn [typed_elem] in Ht. rewrite (Hco l Ht). reflexivity.
Qed.

Theorem clean_order_independent path : forall o (fields fields' : typefields),
  NoDup (map fst fields) -> Permutation fields fields' ->
  (typed_at path o \/ List.length fields <= 1) ->
  clean path fields o = clean path fields' o.
Proof.
  induction path as [|p rest IH]; intros o fields fields' Hnd Hp Ht; cbn [clean].
  - rewrite (pick_fields_order_independent o fields fields' Hnd Hp); [reflexivity|]. destruct Ht; [left|right]; assumption.
  - destruct (assoc p o) as [[| | | |l|m|]|] eqn:A; try reflexivity.
    + assert (E : map (clean_elem (clean rest fields)) l = map (clean_elem (clean rest fields')) l).
      { apply map_ext_in. intros x Hx. destruct Ht as [Ht|Ht].
        - cbn [typed_at] in Ht. rewrite A in Ht. rewrite Forall_forall in Ht.
          apply (clean_elem_ext _ _ (typed_at rest)); [|exact (Ht x Hx)].
          intros m Hm. apply (IH m fields fields' Hnd Hp). left. exact Hm.
        - apply (clean_elem_ext _ _ (fun _ => True)).
          + intros m _. apply (IH m fields fields' Hnd Hp). right. exact Ht.
          + clear. induction x as [| | | |l IH| |] using json_ind2; cbn [typed_elem]; try exact I.
            apply typed_elem_all. exact IH. }
      now rewrite E.
    + rewrite (IH m fields fields' Hnd Hp); [reflexivity|].
      destruct Ht as [Ht|Ht]; [left|now right]. cbn [typed_at] in Ht. now rewrite A in Ht.
Qed.

(* ---- what cleaning removes and what it leaves (C01, layer "scrub") ---- *)
Lemma assoc_remove_key k k' (o : list (string * json)) :
  assoc k (remove_key k' o) = if k' =? k then None else assoc k o.
Proof.
  induction o as [|[k0 v] t IH]; cbn; [now destruct (k' =? k)|].
  destruct (k0 =? k') eqn:E0.
  - rewrite IH. apply String.eqb_eq in E0. subst k0. destruct (k' =? k); reflexivity.
  - cbn. destruct (k0 =? k) eqn:E1; [|exact IH].
    destruct (k' =? k) eqn:E2; [|reflexivity].
    apply String.eqb_eq in E1. apply String.eqb_eq in E2. subst. rewrite String.eqb_refl in E0. discriminate.
Qed.

Lemma assoc_remove_keys ks : forall k (o : list (string * json)),
  assoc k (remove_keys ks o) = if existsb (fun x => x =? k) ks then None else assoc k o.
Proof.
  induction ks as [|x t IH]; intros k o; cbn; [reflexivity|].
  unfold remove_keys in *. cbn [fold_left]. rewrite IH, assoc_remove_key.
  destruct (x =? k); cbn; [now destruct (existsb _ t)|reflexivity].
Qed.

(* at the object the path ends at: exactly the picked helper fields disappear, every other member is untouched *)
Theorem clean_here_removes_exactly_the_helpers fields o k :
  assoc k (fst (clean [] fields o)) = if existsb (fun x => x =? k) (pick_fields o fields) then None else assoc k o.
Proof. cbn. apply assoc_remove_keys. Qed.

Lemma assoc_assoc_set_ne {V} k k' (v : V) o : k' <> k -> assoc k (assoc_set k' v o) = assoc k o.
Proof.
  intros Hne. induction o as [|[k0 v0] t IH]; cbn.
  - now rewrite (proj2 (String.eqb_neq k' k) Hne).
  - destruct (k0 =? k') eqn:E; cbn.
    + apply String.eqb_eq in E. subst k0. now rewrite (proj2 (String.eqb_neq k' k) Hne).
    + destruct (k0 =? k); [reflexivity|exact IH].
Qed.

(* along the path: members of the enclosing objects other than the path component are untouched *)
Theorem clean_leaves_other_members p rest fields o k : k <> p ->
  assoc k (fst (clean (p :: rest) fields o)) = assoc k o.
Proof.
  intros Hne. cbn [clean]. destruct (assoc p o) as [[| | | |l|m|]|]; try reflexivity.
  - set (cl := map _ l). destruct (forallb snd cl && negb (is_empty l)); cbn [fst].
    + rewrite assoc_remove_key. rewrite (proj2 (String.eqb_neq p k)) by congruence. apply assoc_assoc_set_ne. congruence.
    + apply assoc_assoc_set_ne. congruence.
  - destruct (clean rest fields m) as [m' rm]. destruct rm; cbn [fst].
    + rewrite assoc_remove_key. rewrite (proj2 (String.eqb_neq p k)) by congruence. apply assoc_assoc_set_ne. congruence.
    + apply assoc_assoc_set_ne. congruence.
Qed.

(* a helper registered under a type the object does not have is NOT removed: the leak of listed finding
   C01-node-fragment-in-object (helper registered under the abstract type Node, object says it is a Pet) *)
Theorem helper_under_other_type_leaks :
  exists fields o, assoc "__typename" (fst (clean [] fields o)) <> None /\ existsb (fun e => existsb (String.eqb "__typename") (snd e)) fields = true.
Proof.
  exists [("Node", ["__typename"])], [("__typename", JStr "Pet"); ("id", JStr "p1"); ("kind", JStr "cat")].
  split; [cbn; discriminate|reflexivity].
Qed.
