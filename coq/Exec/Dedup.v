(* Model of executor/depth_executor.go (grouping of a level's requests per service) and
   executor/depth_executor_query.go (indexMap, setIMap, executeRequests' fan-out) for C12 / C06.
   No proofs in this file. *)
From Coq Require Import List String Bool Arith.
Import ListNotations.
Open Scope string_scope.
Open Scope list_scope.

(* ---- lo.PartitionBy(ers, URL): groups in order of first appearance ---- *)
Fixpoint add_to_group {A} (u : string) (x : A) (gs : list (string * list A)) : list (string * list A) :=
  match gs with
  | [] => [(u, [x])]
  | (u', xs) :: t => if u' =? u then (u', xs ++ [x]) :: t else (u', xs) :: add_to_group u x t
  end.
Definition partition_by {A} (url : A -> string) (l : list A) : list (string * list A) :=
  fold_left (fun gs x => add_to_group (url x) x gs) l [].

(* one Queryer.Query call per group *)
Definition calls_at_level {A} (url : A -> string) (l : list A) : list string := map fst (partition_by url l).

(* ---- the de-duplication index map ---- *)
Inductive key :=
| KDedup (id : string) (qhash : nat)      (* "!"+id+QueryStringHash: child step whose only variable is the id *)
| KUnique (index : nat).                  (* strconv.Itoa(index) *)

Definition key_eqb (a b : key) : bool :=
  match a, b with
  | KDedup i h, KDedup i' h' => (i =? i') && Nat.eqb h h'
  | KUnique n, KUnique n' => Nat.eqb n n'
  | _, _ => false end.

(* one execution request as setIMap sees it *)
Record ereq := mkEReq {
  er_root_parent : bool;             (* common.IsRootObjectName(step.ParentType) *)
  er_nvars : nat;                    (* len(variables) *)
  er_id : option string;             (* variables["id"] *)
  er_qhash : nat                     (* step.QueryStringHash, as an abstract number *)
}.

Definition key_of (index : nat) (r : ereq) : key :=
  if negb (er_root_parent r) && Nat.eqb (er_nvars r) 1 then
    match er_id r with Some i => KDedup i (er_qhash r) | None => KUnique index end
  else KUnique index.

(* iMap: key -> (targetIndex, indexes) ; batch: indexes that were actually sent, in order *)
Definition imap := list (key * (nat * list nat)).

Fixpoint imap_add (k : key) (index : nat) (m : imap) : imap * bool (* isNew *) :=
  match m with
  | [] => ([], true)                                          (* placeholder, see imap_set *)
  | (k', (t, ixs)) :: rest =>
      if key_eqb k' k then ((k', (t, ixs ++ [index])) :: rest, false)
      else let '(rest', isnew) := imap_add k index rest in ((k', (t, ixs)) :: rest', isnew)
  end.

Definition imap_set (index : nat) (k : key) (m : imap) : imap * bool :=
  if existsb (fun e => key_eqb (fst e) k) m then imap_add k index m
  else (m ++ [(k, (List.length m, [index]))], true).

(* the loop over the requests of one service: which indexes are sent (batchRequest) and the final map *)
Fixpoint build (rs : list ereq) (i : nat) (m : imap) (sent : list nat) : imap * list nat :=
  match rs with
  | [] => (m, sent)
  | r :: t => let '(m', isnew) := imap_set i (key_of i r) m in
              build t (S i) m' (if isnew then sent ++ [i] else sent)
  end.

(* GetSameIndexes(targetIndex) *)
Definition same_indexes (m : imap) (target : nat) : list nat :=
  match find (fun e => Nat.eqb (fst (snd e)) target) m with Some e => snd (snd e) | None => [] end.

(* fan-out: which position of the downstream answer every original index is served from *)
Definition served_from (m : imap) (index : nat) : option nat :=
  match find (fun e => existsb (Nat.eqb index) (snd (snd e))) m with Some e => Some (fst (snd e)) | None => None end.
