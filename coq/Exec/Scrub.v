(* Model of planner/scrub_fields.go: ScrubFields.Clean / clean on a response tree (C01, C13).
   No proofs in this file.  ScrubFields is map[path]map[typename][]field; Go ranges over both maps, so both
   iteration orders are explicit here: the list order of [sf] and of each [fields]. *)
From Coq Require Import List String Bool Arith.
From Pebbles Require Import Base.Json.
Import ListNotations.
Open Scope string_scope.
Open Scope list_scope.

Definition typefields := list (string * list string).       (* typename -> helper fields, in iteration order *)
Definition scrubfields := list (list string * typefields).  (* path -> ..., in iteration order *)

Fixpoint remove_key (k : string) (o : list (string * json)) : list (string * json) :=
  match o with [] => [] | (k', v) :: t => if k' =? k then remove_key k t else (k', v) :: remove_key k t end.
Definition remove_keys (ks : list string) (o : list (string * json)) := fold_left (fun o k => remove_key k o) ks o.
Definition is_empty {A} (l : list A) : bool := match l with [] => true | _ => false end.

(* the loop `for typename, fields := range fields { if tn, ok := payload["__typename"]; ok && typename != tn {continue}; ...; break }` *)
Definition pick_fields (o : list (string * json)) (fields : typefields) : list string :=
  match assoc "__typename" o with
  | Some tn => match find (fun e => match tn with JStr s => fst e =? s | _ => false end) fields with
               | Some e => snd e | None => [] end
  | None => match fields with e :: _ => snd e | [] => [] end
  end.

(* cleanList, for one entry of a list: objects are cleaned by co, lists of lists entry by entry (an empty list keeps
   its parent), anything else is left alone and does not keep the parent *)
Fixpoint clean_elem (co : list (string * json) -> list (string * json) * bool) (x : json) {struct x} : json * bool :=
  match x with
  | JObj m => let '(m', rm) := co m in (JObj m', rm)
  | JArr l =>
      let c := map (clean_elem co) l in
      (JArr (map fst c), forallb snd c && negb (is_empty l))
  | other => (other, true)
  end.

(* clean(payload, path, fields): the cleaned object and whether it became empty (so that the parent drops it) *)
Fixpoint clean (path : list string) (fields : typefields) (o : list (string * json)) : list (string * json) * bool :=
  match path with
  | [] => let o' := remove_keys (pick_fields o fields) o in (o', is_empty o')
  | p :: rest =>
      match assoc p o with
      | None => (o, false)
      | Some (JObj m) =>
          let '(m', rm) := clean rest fields m in
          let o1 := assoc_set p (JObj m') o in
          let o2 := if rm then remove_key p o1 else o1 in
          (o2, is_empty o2)
      | Some (JArr l) =>
          let cleaned := map (clean_elem (clean rest fields)) l in
          let l' := map fst cleaned in
          let rm := forallb snd cleaned && negb (is_empty l) in
          let o1 := assoc_set p (JArr l') o in
          let o2 := if rm then remove_key p o1 else o1 in
          (o2, is_empty o2)
      | Some _ => (o, is_empty o)
      end
  end.

Definition clean_all (sf : scrubfields) (o : list (string * json)) : list (string * json) :=
  fold_left (fun o e => fst (clean (fst e) (snd e) o)) sf o.
