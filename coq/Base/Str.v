(* Strings: decimal rendering of naturals and its inverse (strconv.Itoa / Atoi on what the gateway renders),
   splitting at the first occurrence of a character. *)
From Coq Require Import String Ascii Decimal DecimalString DecimalNat Arith Lia List Bool.
From Pebbles Require Import Net.Decode.
Import ListNotations.
Open Scope string_scope.

Definition nat_to_string (n : nat) : string := NilEmpty.string_of_uint (Nat.to_uint n).

Lemma atoi_digits_of_uint d : forall acc seen,
  (d <> Nil \/ seen = true) ->
  atoi_digits (NilEmpty.string_of_uint d) acc seen = Some (Nat.of_uint_acc d acc).
Proof.
  induction d; intros acc seen H; cbn [NilEmpty.string_of_uint atoi_digits Nat.of_uint_acc];
    try (match goal with |- context [digit_of ?c] => let v := eval vm_compute in (digit_of c) in change (digit_of c) with v end;
         cbv iota beta; rewrite IHd by (now right); rewrite Nat.tail_mul_spec; f_equal; f_equal; lia).
  destruct H as [H|H]; [contradiction|]. now rewrite H.
Qed.

Lemma to_uint_not_nil n : Nat.to_uint n <> Nil.
Proof.
  intro H. pose proof (Unsigned.of_to n) as E. rewrite H in E. cbn in E.
  destruct n; [|discriminate].
  cbn in H. discriminate.
Qed.

(* Atoi (Itoa n) = n *)
Theorem atoi_nat_to_string n : atoi_digits (nat_to_string n) 0 false = Some n.
Proof.
  unfold nat_to_string. rewrite atoi_digits_of_uint by (left; apply to_uint_not_nil).
  f_equal. apply (Unsigned.of_to n).
Qed.

(* the first character of a rendered number is a digit, so Atoi's sign branch is not taken *)
Lemma nat_to_string_first n : exists c t, nat_to_string n = String c t /\ c <> "-"%char /\ c <> "+"%char.
Proof.
  unfold nat_to_string. pose proof (to_uint_not_nil n) as H.
  destruct (Nat.to_uint n); try contradiction; cbn; eexists; eexists; (split; [reflexivity|split; discriminate]).
Qed.

Theorem atoi_itoa n : atoi (nat_to_string n) = IntPos n.
Proof.
  destruct (nat_to_string_first n) as (c & t & E & H1 & H2).
  unfold atoi. rewrite E.
  destruct (Ascii.eqb_spec c "-"%char) as [->|_]; [contradiction|].
  destruct (Ascii.eqb_spec c "+"%char) as [->|_]; [contradiction|].
  rewrite <- E. 
  assert (forall s, (match s with
                     | String "-" t0 => match atoi_digits t0 0 false with Some n0 => if Nat.eqb n0 0 then IntPos 0 else IntNeg n0 | None => IntErr end
                     | String "+" t0 => match atoi_digits t0 0 false with Some n0 => IntPos n0 | None => IntErr end
                     | _ => match atoi_digits s 0 false with Some n0 => IntPos n0 | None => IntErr end end) = atoi s) by reflexivity.
  rewrite E. cbn [atoi]. 
  destruct c as [[] [] [] [] [] [] [] []]; try (rewrite <- E, atoi_nat_to_string; reflexivity); contradiction.
Qed.

(* ---- splitting at the first occurrence of a character (strings.SplitN(s, sep, 2), strings.Contains) ---- *)
Fixpoint split_first (sep : ascii) (s : string) : option (string * string) :=
  match s with
  | EmptyString => None
  | String c t => if Ascii.eqb c sep then Some ("", t)
                  else match split_first sep t with Some (a, b) => Some (String c a, b) | None => None end
  end.

Fixpoint has_char (sep : ascii) (s : string) : bool :=
  match s with EmptyString => false | String c t => Ascii.eqb c sep || has_char sep t end.

Lemma split_first_app sep a b : has_char sep a = false -> split_first sep (a ++ String sep b) = Some (a, b).
Proof.
  induction a as [|c a IH]; cbn; intros H.
  - now rewrite Ascii.eqb_refl.
  - apply orb_false_iff in H as [H1 H2]. rewrite H1, (IH H2). reflexivity.
Qed.

Lemma split_first_none sep s : has_char sep s = false -> split_first sep s = None.
Proof.
  induction s as [|c t IH]; cbn; intros H; [reflexivity|].
  apply orb_false_iff in H as [H1 H2]. now rewrite H1, (IH H2).
Qed.

Lemma has_char_app sep a b : has_char sep (a ++ b) = has_char sep a || has_char sep b.
Proof. induction a as [|c a IH]; cbn; [reflexivity|]. now rewrite IH, orb_assoc. Qed.

Lemma str_app_assoc a b c : (a ++ b) ++ c = a ++ (b ++ c).
Proof. induction a as [|x a IH]; cbn; [reflexivity|]. now rewrite IH. Qed.
