(* JSON-like trees shared by the transport models (request variables, responses). *)
From Coq Require Import List String Bool Arith ZArith.
Import ListNotations.

Inductive json :=
| JNull
| JBool (b : bool)
| JNum (raw : string)           (* numbers are never inspected, only carried *)
| JStr (s : string)
| JArr (l : list json)
| JObj (l : list (string * json))
| JFile (k : nat).              (* an upload placed into a variable tree (Go: *requests.Upload) *)

Definition is_null (j : json) : bool := match j with JNull => true | _ => false end.

Fixpoint assoc {V} (k : string) (l : list (string * V)) : option V :=
  match l with
  | [] => None
  | (k', v) :: t => if String.eqb k' k then Some v else assoc k t
  end.

Fixpoint assoc_set {V} (k : string) (v : V) (l : list (string * V)) : list (string * V) :=
  match l with
  | [] => [(k, v)]
  | (k', v') :: t => if String.eqb k' k then (k', v) :: t else (k', v') :: assoc_set k v t
  end.

Fixpoint list_set {A} (n : nat) (x : A) (l : list A) : list A :=
  match l, n with
  | [], _ => []
  | _ :: t, 0 => x :: t
  | h :: t, S n' => h :: list_set n' x t
  end.
