(* Shared list lemmas missing from the Coq 8.16 standard library. *)
From Coq Require Import List Arith Lia Bool Permutation.
Import ListNotations.

Section ListX.
Context {A : Type}.

Lemma nth_error_skipn n (l : list A) k : nth_error (skipn n l) k = nth_error l (n + k).
Proof. revert l; induction n as [|n IH]; intros [|x l]; cbn; auto. destruct k; reflexivity. Qed.

Lemma nth_error_firstn n (l : list A) k :
  nth_error (firstn n l) k = if k <? n then nth_error l k else None.
Proof.
  revert l k; induction n as [|n IH]; intros l k.
  - destruct k; reflexivity.
  - destruct l as [|x l]; [destruct k; cbn [firstn nth_error]; [reflexivity | now destruct (S k <? S n)] |].
    destruct k; [reflexivity|]. cbn [firstn nth_error]. rewrite IH. reflexivity.
Qed.

Lemma nth_error_ext_eq (l l' : list A) : (forall k, nth_error l k = nth_error l' k) -> l = l'.
Proof.
  revert l'; induction l as [|x l IH]; intros [|y l'] H; auto.
  - specialize (H 0); discriminate.
  - specialize (H 0); discriminate.
  - pose proof (H 0) as H0; cbn in H0; inversion H0; subst. f_equal. apply IH. intro k. exact (H (S k)).
Qed.

Lemma nth_error_repeat_lt (x : A) n k : k < n -> nth_error (repeat x n) k = Some x.
Proof. revert k; induction n as [|n IH]; intros k H; [lia|]. destruct k; cbn; auto. apply IH. lia. Qed.

Lemma nth_error_repeat_ge (x : A) n k : n <= k -> nth_error (repeat x n) k = None.
Proof. intros. apply nth_error_None. rewrite repeat_length. exact H. Qed.

(* in-place slot update; out of range leaves the list unchanged (callers prove in-range) *)
Fixpoint set_nth (n : nat) (x : A) (l : list A) : list A :=
  match l, n with
  | [], _ => []
  | _ :: t, 0 => x :: t
  | h :: t, S n => h :: set_nth n x t
  end.

Lemma set_nth_length n x l : length (set_nth n x l) = length l.
Proof. revert n; induction l as [|h t IH]; intros [|n]; cbn; auto. Qed.

Lemma nth_error_set_nth n x l k :
  nth_error (set_nth n x l) k = if (k =? n) && (n <? length l) then Some x else nth_error l k.
Proof.
  revert n k; induction l as [|h t IH]; intros n k.
  - cbn. destruct n; cbn; rewrite andb_false_r; reflexivity.
  - destruct n as [|n]; destruct k as [|k]; cbn [set_nth nth_error length]; auto.
    rewrite IH. replace (S k =? S n) with (k =? n) by reflexivity.
    replace (S n <? S (length t)) with (n <? length t) by reflexivity. reflexivity.
Qed.

Lemma firstn_skipn_concat_perm (l : list A) n : Permutation (firstn n l ++ skipn n l) l.
Proof. rewrite firstn_skipn. apply Permutation_refl. Qed.

End ListX.

Lemma filter_partition_perm {A} (f : A -> bool) (l : list A) :
  Permutation (filter f l ++ filter (fun x => negb (f x)) l) l.
Proof.
  induction l as [|x l IH]; cbn; [constructor|].
  destruct (f x); cbn.
  - constructor. exact IH.
  - apply Permutation_sym. apply Permutation_cons_app. apply Permutation_sym. exact IH.
Qed.

Lemma filter_length_le {A} (f : A -> bool) (l : list A) : length (filter f l) <= length l.
Proof. induction l as [|x l IH]; cbn; [lia|]. destruct (f x); cbn; lia. Qed.
