From Coq Require Import List Arith Bool Lia Permutation.
From Pebbles Require Import Base.ListX Base.Json Net.BatchResp.
Import ListNotations.

Section Proofs.
Context {A : Type}.

Lemma list_set_length' n (x : option A) l : length (list_set n x l) = length l.
Proof. revert n; induction l as [|h t IH]; intros [|n]; cbn; auto. Qed.

Lemma nth_list_set n (x : option A) l k :
  nth_error (list_set n x l) k = if (k =? n) && (n <? length l) then Some x else nth_error l k.
Proof.
  revert n k. induction l as [|h t IH]; intros n k.
  - cbn. destruct n; cbn; rewrite andb_false_r; reflexivity.
  - destruct n as [|n]; destruct k as [|k]; cbn [list_set nth_error length]; auto.
    rewrite IH. replace (S k =? S n) with (k =? n) by reflexivity.
    replace (S n <? S (length t)) with (n <? length t) by reflexivity. reflexivity.
Qed.

Lemma find_app {B} (f : B -> bool) l1 l2 : find f (l1 ++ l2) = match find f l1 with Some x => Some x | None => find f l2 end.
Proof. induction l1 as [|x t IH]; cbn; [reflexivity|]. destruct (f x); [reflexivity|exact IH]. Qed.

(* position k holds the result whose index is k once it has arrived, nothing before *)
Definition arrived (k : nat) (arrivals : list (nat * A)) : option A :=
  match find (fun r => fst r =? k) (rev arrivals) with Some r => Some (snd r) | None => None end.

Lemma place_nth n arrivals : forall acc, length acc = n ->
  forall k, k < n ->
  nth_error (fold_left (fun acc r => list_set (fst r) (Some (snd r)) acc) arrivals acc) k =
    match arrived k arrivals with Some v => Some (Some v) | None => nth_error acc k end.
Proof.
  induction arrivals as [|[i v] t IH]; intros acc Hl k Hk; cbn [fold_left fst snd].
  - reflexivity.
  - rewrite IH by (try (rewrite list_set_length'; exact Hl); exact Hk). unfold arrived. cbn [rev]. rewrite find_app.
    destruct (find (fun r => fst r =? k) (rev t)) as [r|]; [reflexivity|].
    cbn [find fst snd]. rewrite nth_list_set. rewrite (Nat.eqb_sym i k).
    destruct (k =? i) eqn:E; cbn [andb]; [|reflexivity].
    apply Nat.eqb_eq in E. subst i. destruct (Nat.ltb_spec k (length acc)); [reflexivity|lia].
Qed.

Lemma in_indexed (l : list A) i x : In (i, x) (indexed l) <-> nth_error l i = Some x.
Proof.
  unfold indexed.
  assert (H : forall s, In (i, x) (combine (seq s (length l)) l) <-> (s <= i /\ nth_error l (i - s) = Some x)).
  { induction l as [|y l IH]; intros s; cbn [length seq combine In].
    - split; [tauto|]. intros [_ H]. destruct (i - s); discriminate.
    - rewrite IH. split.
      + intros [E|[Hle Hn]].
        * inversion E; subst. split; [lia|]. rewrite Nat.sub_diag. reflexivity.
        * split; [lia|]. replace (i - s) with (S (i - S s)) by lia. exact Hn.
      + intros [Hle Hn]. destruct (Nat.eq_dec s i) as [->|Hne].
        * rewrite Nat.sub_diag in Hn. cbn in Hn. inversion Hn; subst. now left.
        * right. split; [lia|]. replace (i - s) with (S (i - S s)) in Hn by lia. exact Hn. }
  rewrite (H 0), Nat.sub_0_r. split; [tauto|]. intros; split; [lia|assumption].
Qed.

(* whatever the completion order, slot i of the response is the result of operation i *)
Theorem placement_order_independent (results : list A) (pi : list (nat * A)) :
  Permutation pi (indexed results) -> place_results (length results) pi = map Some results.
Proof.
  intros Hp. apply nth_error_ext_eq. intros k. unfold place_results.
  destruct (Nat.lt_ge_cases k (length results)) as [Hlt|Hge].
  - rewrite (place_nth (length results)) by (auto using repeat_length). rewrite nth_error_map.
    destruct (nth_error results k) as [x|] eqn:Nk; [|apply nth_error_None in Nk; lia].
    assert (Hin : In (k, x) pi). { apply (Permutation_in _ (Permutation_sym Hp)). now apply in_indexed. }
    unfold arrived.
    destruct (find (fun r => fst r =? k) (rev pi)) as [[i y]|] eqn:F.
    + apply find_some in F as [Hin' E]. cbn in E. apply Nat.eqb_eq in E. subst i.
      apply in_rev in Hin'. apply (Permutation_in _ Hp) in Hin'. apply in_indexed in Hin'. cbn. congruence.
    + exfalso. apply in_rev in Hin. pose proof (find_none _ _ F _ Hin) as E. cbn in E. rewrite Nat.eqb_refl in E. discriminate.
  - rewrite (proj2 (nth_error_None _ k)); [symmetry; apply nth_error_None; rewrite map_length; lia|].
    assert (forall (arr : list (nat * A)) (acc : list (option A)), length (fold_left (fun acc r => list_set (fst r) (Some (snd r)) acc) arr acc) = length acc) as Hlen.
    { induction arr as [|r t IH]; intros acc; cbn [fold_left]; [reflexivity|]. rewrite IH. apply list_set_length'. }
    rewrite Hlen, repeat_length. exact Hge.
Qed.

(* an empty batch is answered with an empty array *)
Theorem empty_batch : place_results 0 (@nil (nat * A)) = [].
Proof. reflexivity. Qed.

End Proofs.
