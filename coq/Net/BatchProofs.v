(* Proofs about Net/Batch.v (C11). *)
From Coq Require Import List Arith Lia Bool Permutation.
From Pebbles Require Import Base.ListX Net.Batch.
Import ListNotations.

Lemma firstn_add {A} a b (l : list A) : firstn (a + b) l = firstn a l ++ firstn b (skipn a l).
Proof. revert l; induction a as [|a IH]; intros l; cbn; auto. destruct l; cbn; [now rewrite firstn_nil|]. now rewrite IH. Qed.

Lemma nth_error_indexed {A} (l : list A) i x : In (i, x) (indexed l) <-> nth_error l i = Some x.
Proof.
  unfold indexed.
  assert (H : forall s, In (i, x) (combine (seq s (length l)) l) <-> (s <= i /\ nth_error l (i - s) = Some x)).
  { induction l as [|y l IH]; intros s; cbn [length seq combine In].
    - split; [tauto|]. intros [_ H]. destruct (i - s); discriminate.
    - rewrite IH. split.
      + intros [E|[Hle Hn]].
        * inversion E; subst. split; [lia|]. rewrite Nat.sub_diag. reflexivity.
        * split; [lia|]. replace (i - s) with (S (i - S s)) by lia. exact Hn.
      + intros [Hle Hn]. destruct (Nat.eq_dec s i) as [->|Hne].
        * rewrite Nat.sub_diag in Hn. cbn in Hn. inversion Hn; subst. now left.
        * right. split; [lia|]. replace (i - s) with (S (i - S s)) in Hn by lia. exact Hn. }
  intros. rewrite (H 0), Nat.sub_0_r. split; [tauto|]. intros; split; [lia|assumption].
Qed.

Lemma map_snd_indexed {A} (l : list A) : map snd (indexed l) = l.
Proof. unfold indexed. generalize 0. induction l as [|x l IH]; intros s; cbn; auto. now rewrite IH. Qed.

Lemma indexed_length {A} (l : list A) : length (indexed l) = length l.
Proof. unfold indexed. rewrite combine_length, seq_length. lia. Qed.

Section Proofs.
Context {Q R : Type}.
Variable ans : Q -> R.
Variable isfile : Q -> bool.
Variable fails : list Q -> bool.

Notation put := (put ans).
Notation qb_results := (qb_results ans isfile).
Notation qb_calls := (qb_calls isfile).
Notation qb_files := (@qb_files Q isfile).
Notation qb_plain := (@qb_plain Q isfile).
Notation all_calls := (all_calls isfile).
Notation query := (query ans isfile fails).

(* ---------- queryBatch bookkeeping ---------- *)

Lemma fold_put_spec (c : list Q) ps r :
  (forall p, In p ps -> nth_error c (fst p) = Some (snd p)) -> length r = length c ->
  forall k, nth_error (fold_left put ps r) k =
    if existsb (fun p => fst p =? k) ps then option_map (fun x => Some (ans x)) (nth_error c k) else nth_error r k.
Proof.
  revert r. induction ps as [|p ps IH]; intros r Hin Hlen k; cbn [fold_left existsb]; [reflexivity|].
  rewrite IH.
  - unfold Batch.put. rewrite nth_error_set_nth.
    assert (Hp : nth_error c (fst p) = Some (snd p)) by (apply Hin; now left).
    assert (Hlt : fst p < length r). { rewrite Hlen. apply nth_error_Some. congruence. }
    destruct (existsb (fun p0 => fst p0 =? k) ps) eqn:Ex.
    + now rewrite orb_true_r.
    + rewrite orb_false_r. rewrite (Nat.eqb_sym k (fst p)).
      destruct (Nat.eqb_spec (fst p) k) as [E|Hne]; cbn [andb].
      * subst k. destruct (Nat.ltb_spec (fst p) (length r)); [|lia]. rewrite Hp. reflexivity.
      * reflexivity.
  - intros q Hq. apply Hin. now right.
  - unfold Batch.put. now rewrite set_nth_length.
Qed.

Lemma fold_put_length ps r : length (fold_left put ps r) = length r.
Proof. revert r; induction ps as [|p ps IH]; intros r; cbn [fold_left]; auto. rewrite IH. unfold Batch.put. apply set_nth_length. Qed.

Theorem qb_results_eq (c : list Q) : qb_results c = map (fun x => Some (ans x)) c.
Proof.
  apply nth_error_ext_eq. intro k. unfold Batch.qb_results.
  assert (Hf : forall p, In p (qb_files c) -> nth_error c (fst p) = Some (snd p)).
  { intros [i x] Hp. apply filter_In in Hp as [Hp _]. now apply nth_error_indexed. }
  assert (Hp : forall p, In p (qb_plain c) -> nth_error c (fst p) = Some (snd p)).
  { intros [i x] Hq. apply filter_In in Hq as [Hq _]. now apply nth_error_indexed. }
  rewrite (fold_put_spec c) by (auto; rewrite fold_put_length; apply repeat_length).
  rewrite (fold_put_spec c) by (auto; apply repeat_length).
  rewrite nth_error_map.
  destruct (nth_error c k) as [x|] eqn:Hk.
  - cbn [option_map].
    destruct (existsb (fun p => fst p =? k) (qb_plain c)) eqn:E1; [reflexivity|].
    destruct (existsb (fun p => fst p =? k) (qb_files c)) eqn:E2; [reflexivity|].
    exfalso. apply nth_error_indexed in Hk.
    destruct (isfile x) eqn:Hx.
    + assert (In (k, x) (qb_files c)) by (apply filter_In; split; auto).
      assert (existsb (fun p => fst p =? k) (qb_files c) = true); [|congruence].
      apply existsb_exists. exists (k, x). split; auto. apply Nat.eqb_refl.
    + assert (In (k, x) (qb_plain c)) by (apply filter_In; split; auto; cbn; now rewrite Hx).
      assert (existsb (fun p => fst p =? k) (qb_plain c) = true); [|congruence].
      apply existsb_exists. exists (k, x). split; auto. apply Nat.eqb_refl.
  - cbn [option_map].
    assert (length c <= k) by now apply nth_error_None.
    rewrite nth_error_repeat_ge by lia.
    destruct (existsb (fun p => fst p =? k) (qb_plain c)); destruct (existsb (fun p => fst p =? k) (qb_files c)); reflexivity.
Qed.

(* ---------- calls of one chunk ---------- *)

Lemma qb_calls_concat (c : list Q) : Permutation (concat (qb_calls c)) c.
Proof.
  unfold Batch.qb_calls. rewrite concat_app.
  assert (E1 : concat (map (fun p : nat * Q => [snd p]) (qb_files c)) = map snd (qb_files c)).
  { induction (qb_files c) as [|p l IH]; cbn; auto. now rewrite IH. }
  assert (E2 : concat (match qb_plain c with [] => [] | ps => [map snd ps] end) = map snd (qb_plain c)).
  { destruct (qb_plain c); cbn; auto. now rewrite app_nil_r. }
  rewrite E1, E2, <- map_app.
  rewrite <- (map_snd_indexed c) at 3. apply Permutation_map.
  unfold Batch.qb_files, Batch.qb_plain. apply filter_partition_perm.
Qed.

Lemma qb_calls_sizes (c : list Q) m : 1 <= m -> length c <= m ->
  Forall (fun call => 1 <= length call <= m) (qb_calls c).
Proof.
  intros Hm Hc. unfold Batch.qb_calls. apply Forall_app. split.
  - apply Forall_forall. intros call Hin. apply in_map_iff in Hin as (p & <- & _). cbn. lia.
  - destruct (qb_plain c) as [|p ps] eqn:E; constructor; [|constructor].
    rewrite map_length. split; [cbn; lia|].
    rewrite <- E. unfold Batch.qb_plain.
    pose proof (filter_length_le (fun p0 : nat * Q => negb (isfile (snd p0))) (indexed c)) as Hl.
    rewrite indexed_length in Hl. lia.
Qed.

(* ---------- chunks ---------- *)

Lemma chunk_length {A} m i (l : list A) : length (chunk m i l) = min m (length l - i*m).
Proof. unfold chunk. rewrite firstn_length, skipn_length. reflexivity. Qed.

Lemma nth_chunk {A} m i (l : list A) j : j < m -> nth_error (chunk m i l) j = nth_error l (i*m + j).
Proof. intros. unfold chunk. rewrite nth_error_firstn. destruct (Nat.ltb_spec j m); [|lia]. apply nth_error_skipn. Qed.

Lemma chunks_concat_firstn {A} m K (l : list A) :
  concat (map (fun i => chunk m i l) (seq 0 K)) = firstn (K * m) l.
Proof.
  induction K as [|K IH]; [reflexivity|].
  rewrite seq_S, map_app, concat_app, IH. cbn [map concat plus]. rewrite app_nil_r.
  replace (S K * m) with (K * m + m) by ring. now rewrite firstn_add.
Qed.

Lemma chunks_concat {A} m (l : list A) : 1 <= m ->
  concat (map (fun i => chunk m i l) (chunk_indices (length l) m)) = l.
Proof.
  intros Hm. unfold chunk_indices. destruct (Nat.leb_spec (length l) m) as [Hle|Hgt].
  - cbn. rewrite app_nil_r. unfold chunk. cbn. now apply firstn_all2.
  - rewrite chunks_concat_firstn. apply firstn_all2.
    pose proof (Nat.mul_succ_div_gt (length l) m ltac:(lia)). lia.
Qed.

(* ---------- the reducer ---------- *)

Definition splice (m : nat) (acc : list (option R)) (i : nat) (resp : list (option R)) :=
  firstn (i*m) acc ++ resp ++ skipn ((i+1)*m) acc.

Lemma splice_go_eq m N acc i resp : length acc = N -> splice_go m N acc i resp = splice m acc i resp.
Proof.
  intros Hl. unfold splice_go, splice. destruct (Nat.ltb_spec ((i+1)*m) N); [reflexivity|].
  rewrite skipn_all2 by lia. now rewrite app_nil_r.
Qed.

Lemma splice_length m acc i resp N :
  length acc = N -> i*m <= N -> length resp = min m (N - i*m) -> length (splice m acc i resp) = N.
Proof.
  intros Ha Hi Hr. unfold splice. rewrite !app_length, firstn_length, skipn_length.
  replace ((i+1)*m) with (i*m + m) by ring. lia.
Qed.

Lemma nth_splice m acc i resp N k :
  length acc = N -> i*m <= N -> length resp = min m (N - i*m) ->
  nth_error (splice m acc i resp) k =
    if andb (i*m <=? k) (k <? i*m + m) then nth_error resp (k - i*m) else nth_error acc k.
Proof.
  intros Ha Hi Hr. unfold splice.
  replace ((i+1)*m) with (i*m + m) by ring.
  destruct (Nat.leb_spec (i*m) k) as [Hle|Hlt]; cbn [andb].
  - rewrite nth_error_app2; rewrite firstn_length, Nat.min_l by lia; [|lia].
    destruct (Nat.ltb_spec k (i*m + m)) as [Hk|Hk].
    + destruct (Nat.lt_ge_cases (k - i*m) (length resp)) as [Hlt|Hge].
      * rewrite nth_error_app1 by lia. reflexivity.
      * rewrite nth_error_app2 by lia.
        rewrite (proj2 (nth_error_None resp (k - i*m))) by lia.
        apply nth_error_None. rewrite skipn_length. lia.
    + rewrite nth_error_app2 by lia. rewrite nth_error_skipn.
      destruct (Nat.eq_dec (length resp) m) as [E|E].
      * f_equal. lia.
      * rewrite (proj2 (nth_error_None acc k)) by lia. apply nth_error_None. lia.
  - rewrite nth_error_app1 by (rewrite firstn_length; lia).
    rewrite nth_error_firstn. destruct (Nat.ltb_spec k (i*m)); [reflexivity|lia].
Qed.

(* position k holds Some (answer k) iff its chunk has completed, else None *)
Definition inv (m : nat) (answers : list R) (done : list nat) (acc : list (option R)) : Prop :=
  length acc = length answers /\
  forall k, k < length answers ->
    nth_error acc k = if existsb (Nat.eqb (k / m)) done then option_map Some (nth_error answers k) else Some None.

Definition step (m : nat) (answers : list R) (acc : list (option R)) (i : nat) :=
  splice m acc i (map Some (chunk m i answers)).

Lemma step_inv m answers done acc i :
  1 <= m -> i*m <= length answers -> inv m answers done acc -> inv m answers (i :: done) (step m answers acc i).
Proof.
  intros Hm Hi [Hl Hk]. unfold step. split.
  - apply splice_length; auto. now rewrite map_length, chunk_length.
  - intros k Hlt. rewrite (nth_splice m acc i _ (length answers)); auto.
    2:{ now rewrite map_length, chunk_length. }
    cbn [existsb].
    destruct (Nat.leb_spec (i*m) k) as [H1|H1]; cbn [andb].
    + destruct (Nat.ltb_spec k (i*m + m)) as [H2|H2].
      * assert (k / m = i) as -> by (symmetry; apply (Nat.div_unique k m i (k - i*m)); lia).
        rewrite Nat.eqb_refl. cbn [orb].
        rewrite nth_error_map, nth_chunk by lia. replace (i*m + (k - i*m)) with k by lia. reflexivity.
      * assert (k / m <> i). { intro E. subst i. pose proof (Nat.mul_succ_div_gt k m ltac:(lia)). lia. }
        rewrite (proj2 (Nat.eqb_neq _ _)) by auto. cbn [orb]. auto.
    + assert (k / m <> i). { intro E. subst i. pose proof (Nat.mul_div_le k m ltac:(lia)). lia. }
      rewrite (proj2 (Nat.eqb_neq _ _)) by auto. cbn [orb]. auto.
Qed.

Lemma run_inv m answers pi done acc :
  1 <= m -> Forall (fun i => i*m <= length answers) pi ->
  inv m answers done acc -> inv m answers (rev pi ++ done) (fold_left (step m answers) pi acc).
Proof.
  intros Hm. revert done acc. induction pi as [|i pi IH]; intros done acc HF Hinv; cbn [fold_left rev app].
  - exact Hinv.
  - inversion HF; subst. rewrite <- app_assoc. cbn [app]. apply IH; auto. apply step_inv; auto.
Qed.

Theorem splice_fold_any_order m (answers : list R) pi :
  1 <= m -> Permutation pi (seq 0 (length answers / m + 1)) ->
  fold_left (step m answers) pi (repeat None (length answers)) = map Some answers.
Proof.
  intros Hm Hp.
  assert (HF : Forall (fun i => i*m <= length answers) pi).
  { apply Forall_forall. intros i Hi. apply (Permutation_in _ Hp) in Hi. apply in_seq in Hi.
    assert (i <= length answers / m) by lia. pose proof (Nat.mul_div_le (length answers) m ltac:(lia)). nia. }
  pose proof (run_inv m answers pi [] (repeat None (length answers)) Hm HF) as [Hl Hk].
  { split; [apply repeat_length|]. intros k Hk. cbn [existsb]. apply nth_error_repeat_lt; auto. }
  apply nth_error_ext_eq. intro k.
  destruct (Nat.lt_ge_cases k (length answers)) as [Hlt|Hge].
  - rewrite Hk by auto. rewrite app_nil_r.
    assert (In (k / m) pi) as Hin.
    { apply (Permutation_in _ (Permutation_sym Hp)). apply in_seq.
      pose proof (Nat.div_le_mono k (length answers) m ltac:(lia) ltac:(lia)). lia. }
    assert (existsb (Nat.eqb (k / m)) (rev pi) = true) as ->.
    { apply existsb_exists. exists (k / m). split; [now apply in_rev in Hin|apply Nat.eqb_refl]. }
    rewrite nth_error_map. destruct (nth_error answers k); reflexivity.
  - rewrite (proj2 (nth_error_None _ k)) by lia.
    symmetry. apply nth_error_None. rewrite map_length. lia.
Qed.

(* the Go fold equals the pure fold: the accumulator keeps length N *)
Lemma go_fold_eq m (inputs : list Q) pi acc :
  1 <= m -> Forall (fun i => i*m <= length inputs) pi -> length acc = length inputs ->
  fold_left (fun acc i => splice_go m (length inputs) acc i (qb_results (chunk m i inputs))) pi acc =
  fold_left (step m (map ans inputs)) pi acc.
Proof.
  intros Hm. revert acc. induction pi as [|i pi IH]; intros acc HF Hl; cbn [fold_left]; [reflexivity|].
  inversion HF; subst.
  assert (E : splice_go m (length inputs) acc i (qb_results (chunk m i inputs)) = step m (map ans inputs) acc i).
  { rewrite splice_go_eq by auto. unfold step. f_equal. rewrite qb_results_eq.
    unfold chunk. rewrite skipn_map, firstn_map, map_map. reflexivity. }
  rewrite E. apply IH; auto.
  unfold step. apply splice_length; rewrite ?map_length; auto.
  now rewrite chunk_length, map_length.
Qed.

Lemma chunk_indices_bound (N m : nat) pi : 1 <= m -> N > m \/ True ->
  Permutation pi (seq 0 (N / m + 1)) -> Forall (fun i => i*m <= N) pi.
Proof.
  intros Hm _ Hp. apply Forall_forall. intros i Hi. apply (Permutation_in _ Hp) in Hi. apply in_seq in Hi.
  assert (i <= N / m) by lia. pose proof (Nat.mul_div_le N m ltac:(lia)). nia.
Qed.

(* ---------- all calls ---------- *)

Lemma all_calls_concat m (inputs : list Q) : 1 <= m -> Permutation (concat (all_calls m inputs)) inputs.
Proof.
  intros Hm. unfold Batch.all_calls.
  rewrite <- (chunks_concat m inputs Hm) at 2.
  induction (chunk_indices (length inputs) m) as [|i l IH]; cbn [flat_map map concat]; [constructor|].
  rewrite concat_app. apply Permutation_app; [apply qb_calls_concat|exact IH].
Qed.

Lemma all_calls_sizes m (inputs : list Q) : 1 <= m ->
  Forall (fun call => 1 <= length call <= m) (all_calls m inputs).
Proof.
  intros Hm. unfold Batch.all_calls. apply Forall_flat_map. apply Forall_forall. intros i _.
  apply qb_calls_sizes; auto. rewrite chunk_length. lia.
Qed.

Lemma existsb_perm {A} (f : A -> bool) l l' : Permutation l l' -> existsb f l = existsb f l'.
Proof. induction 1; cbn; auto; try congruence. destruct (f x), (f y); reflexivity. Qed.

Lemma existsb_flat_map {A B} (f : B -> bool) (g : A -> list B) l :
  existsb f (flat_map g l) = existsb (fun a => existsb f (g a)) l.
Proof. induction l as [|a l IH]; cbn; auto. now rewrite existsb_app, IH. Qed.

Theorem query_ok m (inputs : list Q) pi :
  1 <= m -> Permutation pi (chunk_indices (length inputs) m) ->
  existsb fails (all_calls m inputs) = false ->
  query m inputs pi = Some (map (fun x => Some (ans x)) inputs).
Proof.
  intros Hm Hp Hnf. unfold Batch.query, Batch.all_calls in *.
  rewrite existsb_flat_map in Hnf. unfold chunk_indices in *.
  destruct (Nat.leb_spec (length inputs) m) as [Hle|Hgt].
  - cbn in Hnf. rewrite orb_false_r in Hnf.
    assert (E : chunk m 0 inputs = inputs) by (unfold chunk; cbn; now apply firstn_all2).
    rewrite E in Hnf. unfold Batch.qb. rewrite Hnf. now rewrite qb_results_eq.
  - rewrite (existsb_perm _ _ _ Hp), Hnf.
    rewrite go_fold_eq; auto using repeat_length.
    + rewrite <- (map_length ans inputs).
      rewrite splice_fold_any_order; [now rewrite map_map| auto | now rewrite map_length].
    + eapply chunk_indices_bound; eauto.
Qed.

Theorem query_err m (inputs : list Q) pi :
  1 <= m -> Permutation pi (chunk_indices (length inputs) m) ->
  existsb fails (all_calls m inputs) = true -> query m inputs pi = None.
Proof.
  intros Hm Hp Hf. unfold Batch.query, Batch.all_calls in *.
  rewrite existsb_flat_map in Hf. unfold chunk_indices in *.
  destruct (Nat.leb_spec (length inputs) m) as [Hle|Hgt].
  - cbn in Hf. rewrite orb_false_r in Hf.
    assert (E : chunk m 0 inputs = inputs) by (unfold chunk; cbn; now apply firstn_all2).
    rewrite E in Hf. unfold Batch.qb. now rewrite Hf.
  - now rewrite (existsb_perm _ _ _ Hp), Hf.
Qed.

End Proofs.
