From Coq Require Import List String Bool Arith Permutation.
From Pebbles Require Import Base.Json Net.Decode Net.Errors.
Import ListNotations.
Open Scope string_scope.
Open Scope list_scope.

Lemma format_error_list l : format_error (EList l) = flat_map format_error l.
Proof. cbn. induction l as [|x t IH]; cbn; [reflexivity|]. now rewrite IH. Qed.

(* a list of service errors passes FormatError unchanged: same errors, same order, same fields *)
Theorem format_service_errors es : format_error (EList (map EOne es)) = es.
Proof. rewrite format_error_list. induction es as [|e t IH]; cbn; [reflexivity|]. now rewrite IH. Qed.

Theorem extend_keeps_everything errs es : extend_error_list errs (EList (map EOne es)) = errs ++ es.
Proof. unfold extend_error_list. now rewrite format_service_errors. Qed.

(* nesting (ErrorList inside ErrorList, as AsyncMapReduce + DepthExecutorManager + queryHandler produce) does not lose,
   duplicate or reorder anything *)
Theorem format_nested ls : format_error (EList (map (fun es => EList (map EOne es)) ls)) = List.concat ls.
Proof.
  rewrite format_error_list. induction ls as [|es t IH]; cbn [map flat_map List.concat]; [reflexivity|].
  now rewrite format_service_errors, IH.
Qed.

(* ---- any nesting depth, any mixture of service errors and other Go errors ---- *)
Lemma goerr_ind' (P : goerr -> Prop) :
  (forall x, P (EOne x)) -> (forall m, P (EOther m)) ->
  (forall l, Forall P l -> P (EList l)) -> forall e, P e.
Proof.
  intros H1 H2 H3. fix IH 1. intros [x|l|m]; [apply H1| |apply H2].
  apply H3. induction l as [|a t IHl]; constructor; [apply IH|exact IHl].
Qed.

Theorem format_any_nesting e : all_service e = true -> format_error e = service_leaves e.
Proof.
  induction e as [x|m|l IH] using goerr_ind'; intros H; [reflexivity|discriminate|].
  cbn in *. induction IH as [|a t Ha _ IHt]; [reflexivity|].
  apply andb_true_iff in H as [Hh Ht]. rewrite (Ha Hh), (IHt Ht). reflexivity.
Qed.

Theorem format_counts_every_leaf e : List.length (format_error e) = leaf_count e.
Proof.
  induction e as [x|m|l IH] using goerr_ind'; [reflexivity|reflexivity|].
  cbn. induction IH as [|a t Ha _ IHt]; [reflexivity|].
  rewrite app_length, Ha, IHt. reflexivity.
Qed.

Theorem service_error_never_lost e x : In x (service_leaves e) -> In x (format_error e).
Proof.
  induction e as [y|m|l IH] using goerr_ind'; intros H; [exact H|destruct H|].
  cbn in *. induction IH as [|a t Ha _ IHt]; [exact H|].
  apply in_app_or in H as [H|H]; apply in_or_app; [left; apply Ha, H|right; apply IHt, H].
Qed.

(* the round trip is a projection: an error that went through one hop is unchanged by a second *)
Lemma reencode_canonical ext msg locs path :
  (ext = JNull \/ exists x, ext = JObj x) ->
  (locs = [] \/ exists a t, locs = [("locations", JArr (a :: t))]) ->
  (path = [] \/ exists a t, path = [("path", JArr (a :: t))]) ->
  reencode_error (JObj ([("extensions", ext); ("message", JStr msg)] ++ locs ++ path))
  = JObj ([("extensions", ext); ("message", JStr msg)] ++ locs ++ path).
Proof. intros [->|[x ->]] [->|[a [t ->]]] [->|[b [u ->]]]; reflexivity. Qed.

Theorem reencode_idempotent e : reencode_error (reencode_error e) = reencode_error e.
Proof.
  destruct e as [| | | | |ms|]; try reflexivity.
  unfold reencode_error at 2 3.
  assert (Hm : exists m, match member_ci "message" ms with Some (JStr s) => JStr s | _ => JStr "" end = JStr m).
  { destruct (member_ci "message" ms) as [[| | |m| | |]|]; eauto. }
  destruct Hm as [m ->].
  apply reencode_canonical.
  - destruct (member_ci "extensions" ms) as [[| | | | |x|]|]; eauto.
  - destruct (member_ci "locations" ms) as [[| | | |[|a t]| |]|]; eauto.
  - destruct (member_ci "path" ms) as [[| | | |[|a t]| |]|]; eauto.
Qed.

(* whatever the completion order of the concurrently failing groups, the client gets every error of every group
   exactly once (only the relative order of groups varies) *)
Lemma client_errors_perm_aux (groups : list (list json)) : forall pi pi', Permutation pi pi' -> Permutation (client_errors groups pi) (client_errors groups pi').
Proof.
  unfold client_errors. induction 1; cbn.
  - constructor.
  - apply Permutation_app_head. assumption.
  - rewrite !app_assoc. apply Permutation_app_tail. apply Permutation_app_comm.
  - etransitivity; eassumption.
Qed.

Lemma client_errors_seq (groups : list (list json)) : forall k, flat_map (fun i => nth i groups []) (seq k (List.length groups - k)) = List.concat (skipn k groups).
Proof.
  induction groups as [|g t IH]; intros k; cbn [List.length].
  - destruct k; reflexivity.
  - destruct k as [|k].
    + cbn [Nat.sub seq flat_map nth skipn List.concat]. f_equal.
      specialize (IH 0). rewrite Nat.sub_0_r in IH. cbn [skipn] in IH. rewrite <- IH.
      rewrite <- seq_shift, flat_map_concat_map, map_map, <- flat_map_concat_map. reflexivity.
    + cbn [Nat.sub skipn]. rewrite <- IH.
      rewrite <- seq_shift, flat_map_concat_map, map_map, <- flat_map_concat_map. reflexivity.
Qed.

Theorem all_errors_reach_the_client (groups : list (list json)) pi :
  Permutation pi (seq 0 (List.length groups)) -> Permutation (client_errors groups pi) (List.concat groups).
Proof.
  intros Hp. etransitivity; [apply client_errors_perm_aux; exact Hp|].
  unfold client_errors. pose proof (client_errors_seq groups 0) as H. rewrite Nat.sub_0_r in H. cbn [skipn] in H.
  rewrite H. apply Permutation_refl.
Qed.

(* the JSON round trip keeps message, extensions and path *)
Theorem reencode_keeps_fields ms :
  let r := reencode_error (JObj ms) in
  (forall s, member_ci "message" ms = Some (JStr s) -> assoc "message" (match r with JObj l => l | _ => [] end) = Some (JStr s)) /\
  (forall x, member_ci "extensions" ms = Some (JObj x) -> assoc "extensions" (match r with JObj l => l | _ => [] end) = Some (JObj x)) /\
  (forall p t, member_ci "path" ms = Some (JArr (p :: t)) -> assoc "path" (match r with JObj l => l | _ => [] end) = Some (JArr (p :: t))).
Proof.
  cbn. repeat split.
  - intros s ->. reflexivity.
  - intros x ->. reflexivity.
  - intros p t ->. destruct (member_ci "locations" ms) as [[| | | |[|x0 t0]| |]|]; reflexivity.
Qed.

(* the gate: services are reached only by valid, selected, plannable, non-introspection operations; every rejected
   operation is answered with data null and errors *)
Theorem gate_blocks_invalid valid has_op plan_ok intro :
  (valid = false \/ has_op = false \/ plan_ok = false) ->
  reaches_services (gate_of valid has_op plan_ok intro) = false /\
  answers_null_data_with_errors (gate_of valid has_op plan_ok intro) = true.
Proof.
  intros H. unfold gate_of. destruct valid, has_op, plan_ok, intro; cbn; auto; destruct H as [H|[H|H]]; discriminate.
Qed.
