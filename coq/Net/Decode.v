(* Model of requests/request.go: IsBatchMode, parseRequest, the multipart branch of Parse and injectFile.
   No proofs in this file.

   encoding/json and mime/multipart are oracles: the harness hands over the parsed JSON tree (or "not JSON")
   and the decoded form values; the model covers what pebbles does with them.  Every Go indexing /
   dereference step is explicit: a step that would fault in Go yields [Panic]. *)
From Coq Require Import NArith List String Ascii Bool Arith ZArith.
From Pebbles Require Import Base.Json.
Import ListNotations.
Open Scope string_scope.
Open Scope list_scope.

Record request := mkReq { rq_query : string; rq_vars : option (list (string * json)); rq_opname : option string }.
Definition zero_request := mkReq "" None None.

(* ---- IsBatchMode: the first of '[' / '{' in the body decides ---- *)
Fixpoint is_batch_mode (body : list N) : bool :=
  match body with
  | [] => false
  | c :: t => if N.eqb c 91%N then true else if N.eqb c 123%N then false else is_batch_mode t
  end.

(* ---- encoding/json into the Request struct ---- *)
Definition lower_ascii (c : ascii) : ascii :=
  let n := nat_of_ascii c in if Nat.leb 65 n && Nat.leb n 90 then ascii_of_nat (n + 32) else c.
Fixpoint lower (s : string) : string :=
  match s with EmptyString => EmptyString | String c t => String (lower_ascii c) (lower t) end.

(* one member of the JSON object; None = type mismatch (json.Unmarshal reports an error) *)
Definition set_member (r : request) (k : string) (v : json) : option request :=
  let lk := lower k in
  if lk =? "query" then
    match v with JStr s => Some (mkReq s (rq_vars r) (rq_opname r)) | JNull => Some r | _ => None end
  else if lk =? "variables" then
    match v with JObj l => Some (mkReq (rq_query r) (Some l) (rq_opname r)) | JNull => Some (mkReq (rq_query r) None (rq_opname r)) | _ => None end
  else if lk =? "operationname" then
    match v with JStr s => Some (mkReq (rq_query r) (rq_vars r) (Some s)) | JNull => Some (mkReq (rq_query r) (rq_vars r) None) | _ => None end
  else Some r.

Fixpoint set_members (r : request) (l : list (string * json)) : option request :=
  match l with
  | [] => Some r
  | (k, v) :: t => match set_member r k v with Some r' => set_members r' t | None =>
                     (* the decoder keeps going and reports the first error at the end *) None end
  end.

(* Unmarshal into a Request value *)
Definition decode_struct (j : json) : option request :=
  match j with
  | JNull => Some zero_request
  | JObj l => set_members zero_request l
  | _ => None
  end.

(* Unmarshal into a *Request element of a slice: null gives a nil pointer *)
Definition decode_elem (j : json) : option (option request) :=
  match j with
  | JNull => Some None
  | JObj l => match set_members zero_request l with Some r => Some (Some r) | None => None end
  | _ => None
  end.

Fixpoint decode_elems (l : list json) : option (list (option request)) :=
  match l with
  | [] => Some []
  | j :: t => match decode_elem j, decode_elems t with
              | Some e, Some es => Some (e :: es)
              | _, _ => None end
  end.

Inductive presult :=
| PErr                                   (* Parse returns an error: HTTP 422 *)
| POk (batch : bool) (rs : list request)
| PPanic.

(* the loop `for _, r := range multipleRequests { if r == nil || r.Query == "" {error} }`;
   r.Query on a nil pointer is a nil dereference, which the guard excludes *)
Fixpoint check_queries (es : list (option request)) (acc : list request) : presult :=
  match es with
  | [] => POk true (rev acc)
  | e :: t =>
      match e with
      | None => PErr                                  (* r == nil *)
      | Some r => if rq_query r =? "" then PErr else check_queries t (r :: acc)
      end
  end.

(* parseRequest(body); [j] is what encoding/json makes of the body, None = not JSON *)
Definition parse_request (body : list N) (j : option json) : presult :=
  if is_batch_mode body then
    match j with
    | None => PErr
    | Some JNull => POk true []
    | Some (JArr l) => match decode_elems l with Some es => check_queries es [] | None => PErr end
    | Some _ => PErr
    end
  else
    match j with
    | None => PErr
    | Some v => match decode_struct v with
                | Some r => if rq_query r =? "" then PErr else POk false [r]
                | None => PErr end
    end.

(* ---- injectFile ---- *)
Fixpoint split_on (sep : ascii) (s : string) (cur : string) : list string :=
  match s with
  | EmptyString => [cur]
  | String c t => if Ascii.eqb c sep then cur :: split_on sep t "" else split_on sep t (cur ++ String c EmptyString)%string
  end.
Definition split_dot (s : string) : list string := split_on "."%char s "".

(* strconv.Atoi on the strings that occur here: optional sign, at least one digit, nothing else *)
Definition digit_of (c : ascii) : option nat :=
  let n := nat_of_ascii c in if Nat.leb 48 n && Nat.leb n 57 then Some (n - 48) else None.
Fixpoint atoi_digits (s : string) (acc : nat) (seen : bool) : option nat :=
  match s with
  | EmptyString => if seen then Some acc else None
  | String c t => match digit_of c with Some d => atoi_digits t (acc * 10 + d) true | None => None end
  end.
Inductive int_res := IntErr | IntNeg (n : nat) (* -n, n > 0 or "-0" *) | IntPos (n : nat).
Definition atoi (s : string) : int_res :=
  match s with
  | String "-"%char t => match atoi_digits t 0 false with Some n => if Nat.eqb n 0 then IntPos 0 else IntNeg n | None => IntErr end
  | String "+"%char t => match atoi_digits t 0 false with Some n => IntPos n | None => IntErr end
  | _ => match atoi_digits s 0 false with Some n => IntPos n | None => IntErr end
  end.

Inductive iresult := IErr | IOk (vars : list (string * json)) | IPanic.

(* the loop `for i := 1; i < len(parts); i++` of injectFile over one path, on the variables map of the request.
   [vars] is the map currently being stepped through; the result is that map after the update.
   Fuel = number of remaining parts. *)
Fixpoint step_path (fuel : nat) (parts : list string) (vars : list (string * json)) (file : nat) : iresult :=
  match fuel with
  | 0 => IOk vars
  | S fuel' =>
      match parts with
      | [] => IOk vars
      | p :: rest =>
          match assoc p vars with
          | None => IErr                                          (* key not found in variables *)
          | Some (JObj m) =>
              match step_path fuel' rest m file with
              | IOk m' => IOk (assoc_set p (JObj m') vars)
              | r => r end
          | Some JNull =>
              (* variables[parts[i]] = upload, and the loop goes on in the same map *)
              step_path fuel' rest (assoc_set p (JFile file) vars) file
          | Some (JArr l) =>
              match rest with
              | [] => IErr                                        (* invalid number of parts *)
              | ix :: rest' =>
                  match atoi ix with
                  | IntErr => IErr                                (* expected numeric index *)
                  | IntNeg _ => IErr                              (* guard index < 0 (fix e2d5955) *)
                  | IntPos n =>
                      if Nat.leb (List.length l) n then IErr                 (* index >= len(v) *)
                      else match nth_error l n with
                           | None => IPanic                       (* v[index] out of range *)
                           | Some JNull => step_path (pred fuel') rest' (assoc_set p (JArr (list_set n (JFile file) l)) vars) file
                           | Some _ => IErr                       (* expected nil value *)
                           end
                  end
              end
          | Some _ => IErr                                        (* expected nil value *)
          end
      end
  end.

Inductive inject_res := JErr | JOk (rs : list request) | JPanic.

Fixpoint replace_nth {A} (n : nat) (x : A) (l : list A) : list A := list_set n x l.

(* injectFile for one path *)
Definition inject_path (batch : bool) (rs : list request) (file : nat) (path : string) : inject_res :=
  let parts := split_dot path in
  let after_idx : option (nat * list string) + bool (* inr true = error *) :=
    if batch then
      match parts with
      | [] => inl None                                            (* strings.Split never returns an empty slice *)
      | p0 :: rest =>
          match atoi p0 with
          | IntErr => inr true
          | IntNeg _ => inr true                                  (* guard idx < 0 (fix e2d5955) *)
          | IntPos idx =>
              match rest with
              | [] => inr true                                    (* guard len(parts) == 0 (fix e2d5955) *)
              | _ => if Nat.leb (List.length rs) idx then inr true           (* guard idx >= len(r.Requests) (fix e2d5955) *)
                     else inl (Some (idx, rest))
              end
          end
      end
    else inl (Some (0, parts)) in
  match after_idx with
  | inr _ => JErr
  | inl None => JPanic
  | inl (Some (idx, parts')) =>
      match parts' with
      | [] => JPanic                                              (* parts[0] on an empty slice *)
      | p0 :: rest =>
          if negb (p0 =? "variables") then JErr
          else if Nat.ltb (List.length parts') 2 then JErr
          else match nth_error rs idx with
               | None => JPanic                                   (* r.Requests[idx] out of range *)
               | Some r =>
                   let vars := match rq_vars r with Some m => m | None => [] end in   (* reading a nil map is fine *)
                   match step_path (List.length rest) rest vars file with
                   | IErr => JErr
                   | IPanic => JPanic
                   | IOk vars' =>
                       (* writes go through the map reference; a nil map cannot have been written to
                          because every write is preceded by a successful lookup in it *)
                       JOk (list_set idx (mkReq (rq_query r) (match rq_vars r with Some _ => Some vars' | None => None end) (rq_opname r)) rs)
                   end
               end
      end
  end.

Fixpoint inject_paths (batch : bool) (rs : list request) (file : nat) (paths : list string) : inject_res :=
  match paths with
  | [] => JOk rs
  | p :: t => match inject_path batch rs file p with
              | JOk rs' => inject_paths batch rs' file t
              | r => r end
  end.

(* the multipart branch of Parse: operations, map (None = not a JSON object of string lists), which file keys exist *)
Fixpoint inject_all (batch : bool) (rs : list request) (m : list (string * list string)) (present : string -> bool) (k : nat) : inject_res :=
  match m with
  | [] => JOk rs
  | (key, paths) :: t =>
      if negb (present key) then JErr                             (* r.FormFile(filePos) fails *)
      else match inject_paths batch rs k paths with
           | JOk rs' => inject_all batch rs' t present (S k)
           | r => r end
  end.

Definition parse_multipart (ops_body : list N) (ops_json : option json)
           (filemap : option (list (string * list string))) (present : string -> bool) : presult :=
  match parse_request ops_body ops_json with
  | POk batch rs =>
      match filemap with
      | None => PErr                                              (* error parsing file map *)
      | Some [] => PErr                                           (* file map is empty *)
      | Some m => match inject_all batch rs m present 0 with
                  | JOk rs' => POk batch rs'
                  | JErr => PErr
                  | JPanic => PPanic end
      end
  | r => r
  end.

(* status code of the handler *)
Definition status_of (p : presult) : option nat :=
  match p with PErr => Some 422 | POk _ _ => Some 200 | PPanic => None end.
