(* C19 proofs: extraction finds exactly the uploads, nulls exactly them, and the forwarded parts carry the
   full content iff no upload is used twice. *)
From Coq Require Import List String Ascii Bool Arith Lia.
From Pebbles Require Import Base.Json Net.Files.
Import ListNotations.
Open Scope string_scope.
Open Scope list_scope.

(* induction principle for nested json *)
Section JsonInd.
Variable P : json -> Prop.
Hypothesis Hnull : P JNull.
Hypothesis Hbool : forall b, P (JBool b).
Hypothesis Hnum : forall r, P (JNum r).
Hypothesis Hstr : forall s, P (JStr s).
Hypothesis Hfile : forall k, P (JFile k).
Hypothesis Harr : forall l, Forall P l -> P (JArr l).
Hypothesis Hobj : forall l, Forall (fun kv => P (snd kv)) l -> P (JObj l).

Fixpoint json_ind' (j : json) : P j :=
  match j with
  | JNull => Hnull | JBool b => Hbool b | JNum r => Hnum r | JStr s => Hstr s | JFile k => Hfile k
  | JArr l => Harr l ((fix go (l : list json) : Forall P l :=
                         match l with [] => Forall_nil _ | x :: t => Forall_cons _ (json_ind' x) (go t) end) l)
  | JObj l => Hobj l ((fix go (l : list (string * json)) : Forall (fun kv => P (snd kv)) l :=
                         match l with [] => Forall_nil _ | (k, v) :: t => Forall_cons (k, v) (json_ind' v) (go t) end) l)
  end.
End JsonInd.

(* the local loops of [extract], named *)
Fixpoint ex_members (path : list seg) (l : list (string * json)) : list (string * json) * list (list seg * nat) :=
  match l with
  | [] => ([], [])
  | (k, v) :: t =>
      let '(v', iv) := extract v (path ++ [Key k]) in
      let '(t', it) := ex_members path t in
      ((k, v') :: t', iv ++ it)
  end.
Fixpoint ex_elems (path : list seg) (i : nat) (l : list json) : list json * list (list seg * nat) :=
  match l with
  | [] => ([], [])
  | v :: t =>
      let '(v', iv) := extract v (path ++ [Idx i]) in
      let '(t', it) := ex_elems path (S i) t in
      (v' :: t', iv ++ it)
  end.

Lemma extract_obj l path : extract (JObj l) path = let '(l', items) := ex_members path l in (JObj l', items).
Proof.
  cbn [extract]. 
  assert (E : forall l, (fix members (l0 : list (string * json)) : list (string * json) * list (list seg * nat) :=
            match l0 with [] => ([], []) | (k, v) :: t => let '(v', iv) := extract v (path ++ [Key k]) in let '(t', it) := members t in ((k, v') :: t', iv ++ it) end) l
          = ex_members path l).
  { clear. induction l as [|[k v] t IH]; cbn; [reflexivity|]. now rewrite IH. }
  now rewrite E.
Qed.

Lemma extract_arr l path : extract (JArr l) path = let '(l', items) := ex_elems path 0 l in (JArr l', items).
Proof.
  cbn [extract].
  assert (E : forall l i, (fix elems (i0 : nat) (l0 : list json) : list json * list (list seg * nat) :=
            match l0 with [] => ([], []) | v :: t => let '(v', iv) := extract v (path ++ [Idx i0]) in let '(t', it) := elems (S i0) t in (v' :: t', iv ++ it) end) i l
          = ex_elems path i l).
  { clear. induction l as [|v t IH]; intros i; cbn; [reflexivity|]. now rewrite IH. }
  now rewrite E.
Qed.

Fixpoint nf_members (l : list (string * json)) := match l with [] => [] | (k, v) :: t => (k, null_files v) :: nf_members t end.
Fixpoint nf_elems (l : list json) := match l with [] => [] | v :: t => null_files v :: nf_elems t end.
Lemma null_files_obj l : null_files (JObj l) = JObj (nf_members l).
Proof. cbn. f_equal; try (induction l as [|[k v] t IH]; cbn; [reflexivity|]; now rewrite IH). Qed.
Lemma null_files_arr l : null_files (JArr l) = JArr (nf_elems l).
Proof. cbn. f_equal; try (induction l as [|v t IH]; cbn; [reflexivity|]; now rewrite IH). Qed.

(* (b) the tree left behind is the original with exactly the uploads replaced by null *)
Theorem extract_nulls_exactly j : forall path, fst (extract j path) = null_files j.
Proof.
  induction j using json_ind'; intros path; try reflexivity.
  - rewrite extract_arr, null_files_arr.
    assert (G : forall i, fst (ex_elems path i l) = nf_elems l).
    { induction H as [|v t Hv Ht IH]; intros i; cbn; [reflexivity|].
      specialize (Hv (path ++ [Idx i])). destruct (extract v (path ++ [Idx i])) as [v' iv]. cbn in Hv. subst v'.
      specialize (IH (S i)). destruct (ex_elems path (S i) t) as [t' it]. cbn in *. now subst. }
    specialize (G 0). destruct (ex_elems path 0 l) as [l' items]. cbn in *. now subst.
  - rewrite extract_obj, null_files_obj.
    assert (G : fst (ex_members path l) = nf_members l).
    { induction H as [|[k v] t Hv Ht IH]; cbn; [reflexivity|]. cbn [snd] in Hv.
      specialize (Hv (path ++ [Key k])). destruct (extract v (path ++ [Key k])) as [v' iv]. cbn in Hv. subst v'.
      destruct (ex_members path t) as [t' it]. cbn in *. now subst. }
    destruct (ex_members path l) as [l' items]. cbn in *. now subst.
Qed.

(* relative paths *)
Definition strip (pre : list seg) (items : list (list seg * nat)) (rel : list (list seg * nat)) : Prop :=
  items = map (fun it => (pre ++ fst it, snd it)) rel.

Definition unique_keys (l : list (string * json)) : Prop := NoDup (map fst l).
Inductive wf_tree : json -> Prop :=
| wf_null : wf_tree JNull | wf_bool b : wf_tree (JBool b) | wf_num r : wf_tree (JNum r) | wf_str s : wf_tree (JStr s)
| wf_file k : wf_tree (JFile k)
| wf_arr l : Forall wf_tree l -> wf_tree (JArr l)
| wf_obj l : unique_keys l -> Forall (fun kv => wf_tree (snd kv)) l -> wf_tree (JObj l).

Lemma assoc_cons_ne {V} k k' (v : V) l : k' <> k -> assoc k ((k', v) :: l) = assoc k l.
Proof. intros H. cbn. now rewrite (proj2 (String.eqb_neq k' k) H). Qed.

(* (a) every item names a position that holds that upload in the original tree and null in the forwarded tree *)
Theorem extract_items_sound j : forall pre, wf_tree j ->
  exists rel, strip pre (snd (extract j pre)) rel /\
    forall p k, In (p, k) rel -> get_path p j = Some (JFile k) /\ get_path p (null_files j) = Some JNull.
Proof.
  induction j using json_ind'; intros pre Hwf; try (exists []; split; [reflexivity|intros p k0 []]).
  - exists [([], k)]. split; [unfold strip; cbn; now rewrite app_nil_r|].
    intros p k0 [E|[]]. inversion E; subst. cbn. auto.
  - (* arrays *)
    rewrite extract_arr, null_files_arr. inversion Hwf as [| | | | |l0 Hall|]; subst.
    assert (G : Forall wf_tree l -> forall i, exists rel, strip pre (snd (ex_elems pre i l)) rel /\
               forall p k, In (p, k) rel -> exists q n, p = Idx n :: q /\ i <= n /\
                 (match nth_error l (n - i) with Some v => get_path q v = Some (JFile k) /\ get_path q (null_files v) = Some JNull | None => False end)).
    { clear Hwf Hall. induction H as [|v t Hv Ht IH]; intros Hall i; cbn [ex_elems]; [exists []; split; [reflexivity|intros p k []]|].
      inversion Hall as [|? ? Hwv Hwt]; subst.
      destruct (Hv (pre ++ [Idx i]) Hwv) as (relv & Hsv & Hpv).
      destruct (IH Hwt (S i)) as (relt & Hst & Hpt).
      destruct (extract v (pre ++ [Idx i])) as [v' iv]. destruct (ex_elems pre (S i) t) as [t' it]. cbn [snd] in *.
      exists (map (fun it0 => (Idx i :: fst it0, snd it0)) relv ++ relt). split.
      - unfold strip in *. rewrite map_app, map_map. subst iv it. f_equal.
        apply map_ext. intros [q n]. cbn. now rewrite <- app_assoc.
      - intros p k Hin. apply in_app_or in Hin as [Hin|Hin].
        + apply in_map_iff in Hin as ([q n] & E & Hq). inversion E; subst. cbn [fst snd].
          exists q, i. split; [reflexivity|]. split; [lia|]. rewrite Nat.sub_diag. cbn. apply Hpv. exact Hq.
        + destruct (Hpt p k Hin) as (q & n & -> & Hle & Hn). exists q, n. split; [reflexivity|]. split; [lia|].
          replace (n - i) with (S (n - S i)) by lia. cbn. exact Hn. }
    destruct (G Hall 0) as (rel & Hs & Hp). destruct (ex_elems pre 0 l) as [l' items]. cbn [snd] in *.
    exists rel. split; [exact Hs|]. intros p k Hin. destruct (Hp p k Hin) as (q & n & -> & _ & Hn).
    rewrite Nat.sub_0_r in Hn. cbn [get_path].
    assert (E : nth_error (nf_elems l) n = option_map null_files (nth_error l n)).
    { clear. revert n. induction l as [|v t IH]; intros [|n]; cbn; auto. }
    rewrite E. destruct (nth_error l n) as [v|]; [|contradiction]. cbn. exact Hn.
  - (* objects *)
    rewrite extract_obj, null_files_obj. inversion Hwf as [| | | | | |l0 Huniq Hall]; subst.
    assert (G : Forall (fun kv => wf_tree (snd kv)) l -> unique_keys l -> exists rel, strip pre (snd (ex_members pre l)) rel /\
               forall p k, In (p, k) rel -> exists q key v, p = Key key :: q /\ assoc key l = Some v /\
                 get_path q v = Some (JFile k) /\ get_path q (null_files v) = Some JNull).
    { clear Hwf Huniq Hall. induction H as [|[key v] t Hv Ht IH]; intros Hall Hu; cbn [ex_members]; [exists []; split; [reflexivity|intros p k []]|].
      inversion Hall as [|? ? Hwv Hwt]; subst. cbn [snd] in Hv, Hwv.
      unfold unique_keys in Hu. cbn [map fst] in Hu. inversion Hu as [|? ? Hnotin Hu']; subst.
      destruct (Hv (pre ++ [Key key]) Hwv) as (relv & Hsv & Hpv).
      destruct (IH Hwt Hu') as (relt & Hst & Hpt).
      destruct (extract v (pre ++ [Key key])) as [v' iv]. destruct (ex_members pre t) as [t' it]. cbn [snd] in *.
      exists (map (fun it0 => (Key key :: fst it0, snd it0)) relv ++ relt). split.
      - unfold strip in *. rewrite map_app, map_map. subst iv it. f_equal.
        apply map_ext. intros [q n]. cbn. now rewrite <- app_assoc.
      - intros p k Hin. apply in_app_or in Hin as [Hin|Hin].
        + apply in_map_iff in Hin as ([q n] & E & Hq). inversion E; subst. cbn [fst snd].
          exists q, key, v. split; [reflexivity|]. split; [cbn; now rewrite String.eqb_refl|]. apply Hpv. exact Hq.
        + destruct (Hpt p k Hin) as (q & key' & v0 & -> & Ha & Hg). exists q, key', v0. split; [reflexivity|]. split; [|exact Hg].
          rewrite assoc_cons_ne; [exact Ha|]. intro E. subst key'. apply Hnotin.
          clear -Ha. induction t as [|[k1 v1] t IH]; cbn in *; [discriminate|].
          destruct (k1 =? key) eqn:E; [apply String.eqb_eq in E; now left|right; auto]. }
    destruct (G Hall Huniq) as (rel & Hs & Hp). destruct (ex_members pre l) as [l' items]. cbn [snd] in *.
    exists rel. split; [exact Hs|]. intros p k Hin. destruct (Hp p k Hin) as (q & key & v & -> & Ha & Hg1 & Hg2).
    cbn [get_path]. rewrite Ha. split; [exact Hg1|].
    assert (E : assoc key (nf_members l) = option_map null_files (assoc key l)).
    { clear. induction l as [|[k1 v1] t IH]; cbn; [reflexivity|]. destruct (k1 =? key); [reflexivity|exact IH]. }
    rewrite E, Ha. cbn. exact Hg2.
Qed.

(* ---- content of the forwarded parts ---- *)
Fixpoint lookup_file (k : nat) (fs : file_store) : list nat :=
  match fs with [] => [] | (k', b) :: t => if Nat.eqb k' k then b else lookup_file k t end.

Lemma read_all_spec k fs : fst (read_all k fs) = lookup_file k fs /\
  forall k', lookup_file k' (snd (read_all k fs)) = if Nat.eqb k' k then [] else lookup_file k' fs.
Proof.
  induction fs as [|[k0 b] t [IH1 IH2]]; cbn.
  - split; [reflexivity|]. intros k'. now destruct (Nat.eqb k' k).
  - destruct (Nat.eqb k0 k) eqn:E; cbn.
    + split; [reflexivity|]. intros k'. apply Nat.eqb_eq in E. subst k0.
      rewrite (Nat.eqb_sym k' k). destruct (Nat.eqb k k'); reflexivity.
    + destruct (read_all k t) as [b' t'] eqn:R. cbn in *. split; [exact IH1|].
      intros k'. destruct (Nat.eqb k0 k') eqn:E2.
      * apply Nat.eqb_eq in E2. subst k'. now rewrite E.
      * apply IH2.
Qed.

(* every upload used once: each part carries the complete content of its file *)
Theorem parts_carry_full_content items : forall fs,
  NoDup (map snd items) ->
  Forall (fun part => snd part = lookup_file (snd (fst part)) fs) (encode_parts items fs).
Proof.
  induction items as [|[p k] t IH]; intros fs Hnd; cbn [encode_parts]; [constructor|].
  cbn [map snd] in Hnd. inversion Hnd as [|? ? Hnotin Hnd']; subst.
  destruct (read_all_spec k fs) as [H1 H2]. destruct (read_all k fs) as [b fs'] eqn:R. cbn [fst snd] in *.
  constructor; [cbn; exact H1|].
  specialize (IH fs' Hnd'). rewrite Forall_forall in *. intros part Hin. rewrite (IH part Hin).
  assert (Hk : In (snd (fst part)) (map snd t)).
  { clear -Hin. revert fs' Hin. induction t as [|[p1 k1] t IH]; intros fs' Hin; cbn [encode_parts] in Hin; [contradiction|].
    destruct (read_all k1 fs') as [b1 fs1]. destruct Hin as [<-|Hin]; [now left|right; eauto]. }
  rewrite H2. destruct (Nat.eqb (snd (fst part)) k) eqn:E; [|reflexivity].
  apply Nat.eqb_eq in E. rewrite E in Hk. contradiction.
Qed.

(* ---- one part per upload (after fix d5310c8) ---- *)
Lemma add_item_keys k p gs : map fst (add_item k p gs) = if existsb (Nat.eqb k) (map fst gs) then map fst gs else map fst gs ++ [k].
Proof.
  induction gs as [|[k' ps] t IH]; cbn; [reflexivity|].
  rewrite (Nat.eqb_sym k k'). destruct (Nat.eqb k' k) eqn:E; cbn; [reflexivity|].
  rewrite IH. destruct (existsb (Nat.eqb k) (map fst t)); reflexivity.
Qed.

Lemma nodup_snoc_nat (l : list nat) x : NoDup l -> ~ In x l -> NoDup (l ++ [x]).
Proof.
  induction l as [|y l IH]; intros Hn Hx; cbn; [constructor; [tauto|constructor]|].
  inversion Hn; subst. constructor.
  - intro Hin. apply in_app_or in Hin as [Hin|[->|[]]]; [contradiction|]. apply Hx. now left.
  - apply IH; auto. intro. apply Hx. now right.
Qed.

Lemma add_item_nodup k p gs : NoDup (map fst gs) -> NoDup (map fst (add_item k p gs)).
Proof.
  intros H. rewrite add_item_keys. destruct (existsb (Nat.eqb k) (map fst gs)) eqn:E; [exact H|].
  apply nodup_snoc_nat; [exact H|]. intro Hin.
  assert (existsb (Nat.eqb k) (map fst gs) = true); [|congruence].
  apply existsb_exists. exists k. split; [exact Hin|apply Nat.eqb_refl].
Qed.

Lemma add_item_in k p gs k0 p0 :
  (exists ps, In (k0, ps) (add_item k p gs) /\ In p0 ps) <->
  ((exists ps, In (k0, ps) gs /\ In p0 ps) \/ (k0 = k /\ p0 = p)).
Proof.
  induction gs as [|[k' ps'] t IH]; cbn [add_item].
  - split.
    + intros (ps & [E|[]] & Hp). inversion E; subst. destruct Hp as [->|[]]. right. auto.
    + intros [(ps & [] & _)|[-> ->]]. exists [p]. split; now left.
  - destruct (Nat.eqb k' k) eqn:E.
    + apply Nat.eqb_eq in E. subst k'. split.
      * intros (ps & [Eq|Hin] & Hp).
        -- inversion Eq; subst. apply in_app_or in Hp as [Hp|[->|[]]]; [left; exists ps'; split; [now left|exact Hp]|right; auto].
        -- left. exists ps. split; [now right|exact Hp].
      * intros [(ps & [Eq|Hin] & Hp)|[-> ->]].
        -- inversion Eq; subst. exists (ps ++ [p]). split; [now left|apply in_or_app; now left].
        -- exists ps. split; [now right|exact Hp].
        -- exists (ps' ++ [p]). split; [now left|apply in_or_app; right; now left].
    + split.
      * intros (ps & [Eq|Hin] & Hp).
        -- inversion Eq; subst. left. exists ps. split; [now left|exact Hp].
        -- destruct (proj1 IH (ex_intro _ ps (conj Hin Hp))) as [(ps2 & H1 & H2)|H]; [left; exists ps2; split; [now right|exact H2]|now right].
      * intros [(ps & [Eq|Hin] & Hp)|H].
        -- inversion Eq; subst. exists ps. split; [now left|exact Hp].
        -- destruct (proj2 IH (or_introl (ex_intro _ ps (conj Hin Hp)))) as (ps2 & H1 & H2). exists ps2. split; [now right|exact H2].
        -- destruct (proj2 IH (or_intror H)) as (ps2 & H1 & H2). exists ps2. split; [now right|exact H2].
Qed.

Lemma group_fold items : forall gs, NoDup (map fst gs) ->
  NoDup (map fst (fold_left (fun gs it => add_item (snd it) (fst it) gs) items gs)) /\
  forall k p, (exists ps, In (k, ps) (fold_left (fun gs it => add_item (snd it) (fst it) gs) items gs) /\ In p ps) <->
              ((exists ps, In (k, ps) gs /\ In p ps) \/ In (p, k) items).
Proof.
  induction items as [|[p0 k0] t IH]; intros gs Hnd; cbn [fold_left].
  - split; [exact Hnd|]. intros k p. split; [intros H; now left|intros [H|[]]; exact H].
  - destruct (IH (add_item k0 p0 gs) (add_item_nodup k0 p0 gs Hnd)) as [H1 H2]. split; [exact H1|].
    intros k p. rewrite H2. cbn [snd fst]. rewrite add_item_in. cbn [In]. split.
    + intros [[H|[-> ->]]|H]; [now left|right; now left|right; now right].
    + intros [H|[E|H]]; [left; now left|inversion E; subst; left; right; auto|now right].
Qed.

(* each upload gets exactly one map entry, whose positions are exactly the places where it occurs *)
Theorem group_items_spec items :
  NoDup (map fst (group_items items)) /\
  forall k p, (exists ps, In (k, ps) (group_items items) /\ In p ps) <-> In (p, k) items.
Proof.
  destruct (group_fold items [] (NoDup_nil _)) as [H1 H2]. split; [exact H1|].
  intros k p. unfold group_items. rewrite H2. split; [intros [(ps & [] & _)|H]; exact H|intros H; now right].
Qed.

(* every file part carries the complete content of its file *)
Theorem groups_carry_full_content gs : forall fs,
  NoDup (map fst gs) ->
  Forall (fun part => snd part = lookup_file (fst (fst part)) fs) (encode_groups gs fs).
Proof.
  induction gs as [|[k ps] t IH]; intros fs Hnd; cbn [encode_groups]; [constructor|].
  cbn [map fst] in Hnd. inversion Hnd as [|? ? Hnotin Hnd']; subst.
  destruct (read_all_spec k fs) as [H1 H2]. destruct (read_all k fs) as [b fs'] eqn:R. cbn [fst snd] in *.
  constructor; [cbn; exact H1|].
  specialize (IH fs' Hnd'). rewrite Forall_forall in *. intros part Hin. rewrite (IH part Hin).
  assert (Hk : In (fst (fst part)) (map fst t)).
  { clear -Hin. revert fs' Hin. induction t as [|[k1 ps1] t IH]; intros fs' Hin; cbn [encode_groups] in Hin; [contradiction|].
    destruct (read_all k1 fs') as [b1 fs1]. destruct Hin as [<-|Hin]; [now left|right; eauto]. }
  rewrite H2. destruct (Nat.eqb (fst (fst part)) k) eqn:E; [|reflexivity].
  apply Nat.eqb_eq in E. rewrite E in Hk. contradiction.
Qed.
