(* Model for C09: what queryer.MultiOpQueryer (fetch + queryBatch, after fix 8df4d50) and the executor
   (executeRequests' count check, parseRespones' node extraction) make of an ARBITRARY downstream answer.
   No proofs in this file.  encoding/json's typed decoding into requests.Response is part of the model
   (member names case-insensitive, null = zero value, wrong member types = decode error). *)
From Coq Require Import List String Ascii Bool Arith.
From Pebbles Require Import Base.Json Net.Decode.
Import ListNotations.
Open Scope string_scope.
Open Scope list_scope.

(* a downstream answer to one HTTP call *)
Inductive answer :=
| ATransport                       (* client.Do fails *)
| AStatus (code : nat) (* outside 200..299 *)
| ABody (j : option json).         (* 2xx with this body; None = not JSON *)

Record resp := mkResp { r_errors : list json; r_data : option (list (string * json)) }.

Definition obj_or_null (j : json) : bool := match j with JObj _ | JNull => true | _ => false end.
Definition arr_or_null (j : json) : bool := match j with JArr _ | JNull => true | _ => false end.
Definition str_or_null (j : json) : bool := match j with JStr _ | JNull => true | _ => false end.

(* one element of "errors" into *gqlerrors.Error *)
Definition error_member_ok (k : string) (v : json) : bool :=
  let lk := lower k in
  if lk =? "message" then str_or_null v
  else if lk =? "extensions" then obj_or_null v
  else if lk =? "path" then arr_or_null v
  else if lk =? "locations" then
    match v with
    | JNull => true
    | JArr ls => forallb (fun l => match l with
                                   | JNull => true
                                   | JObj ms => forallb (fun m => match snd m with JNum _ | JNull => true | _ =>
                                                   negb ((lower (fst m) =? "line") || (lower (fst m) =? "column")) end) ms
                                   | _ => false end) ls
    | _ => false end
  else true.
Definition error_ok (e : json) : bool :=
  match e with JNull => true | JObj ms => forallb (fun m => error_member_ok (fst m) (snd m)) ms | _ => false end.

Definition set_resp_member (r : resp) (k : string) (v : json) : option resp :=
  let lk := lower k in
  if lk =? "errors" then
    match v with
    | JNull => Some (mkResp [] (r_data r))
    | JArr es => if forallb error_ok es then Some (mkResp es (r_data r)) else None
    | _ => None end
  else if lk =? "data" then
    match v with
    | JNull => Some (mkResp (r_errors r) None)
    | JObj m => Some (mkResp (r_errors r) (Some m))
    | _ => None end
  else Some r.

Fixpoint set_resp_members (r : resp) (l : list (string * json)) : option resp :=
  match l with [] => Some r | (k, v) :: t => match set_resp_member r k v with Some r' => set_resp_members r' t | None => None end end.

Definition decode_resp (j : json) : option resp :=
  match j with
  | JNull => Some (mkResp [] None)
  | JObj l => set_resp_members (mkResp [] None) l
  | _ => None end.

Fixpoint decode_resps (l : list json) : option (list resp) :=
  match l with
  | [] => Some []
  | j :: t => match decode_resp j, decode_resps t with Some r, Some rs => Some (r :: rs) | _, _ => None end
  end.

Inductive qerr := EFetch | ECount | EServiceErrors (es : list json).
Inductive qres := QErr (e : qerr) | QOk (datas : list (list (string * json))) | QPanic.

(* the synthetic error for an element that carries neither data nor errors (fix 8df4d50 / 10b468e) *)
Definition nodata_error : json := JObj [("message", JStr "response contains neither data nor errors")].

(* the loop `for i, resp := range resps { ... results[toFetchIndexes[i]] = resp.Data }` with n result slots
   (toFetchIndexes = 0..n-1: no upload in the batch); errors of ALL elements are collected (fix 10b468e) *)
Fixpoint place (n : nat) (i : nat) (rs : list resp) (results : list (option (list (string * json)))) (errs : list json)
  : option (list (option (list (string * json))) * list json) :=   (* None = index out of range *)
  match rs with
  | [] => Some (results, errs)
  | r :: t =>
      match r_errors r with
      | _ :: _ => place n (S i) t results (errs ++ r_errors r)
      | [] =>
          match r_data r with
          | None => place n (S i) t results (errs ++ [nodata_error])
          | Some d =>
              if Nat.ltb i n then place n (S i) t (list_set i (Some d) results) errs
              else None                                        (* results[toFetchIndexes[i]]: index out of range *)
          end
      end
  end.

Fixpoint all_some {A} (l : list (option A)) : option (list A) :=
  match l with [] => Some [] | Some x :: t => match all_some t with Some r => Some (x :: r) | None => None end | None :: _ => None end.

(* queryBatch for n >= 0 plain requests answered by one HTTP call *)
Definition query_batch (n : nat) (a : answer) : qres :=
  if Nat.eqb n 0 then QOk [] else
  match a with
  | ATransport => QErr EFetch
  | AStatus _ => QErr EFetch
  | ABody None => QErr EFetch
  | ABody (Some j) =>
      let decoded := match j with
                     | JNull => Some []                       (* Unmarshal null into the slice: nil *)
                     | JArr l => decode_resps l
                     | _ => None end in
      match decoded with
      | None => QErr EFetch
      | Some rs =>
          if negb (Nat.eqb (List.length rs) n) then QErr ECount  (* fix 8df4d50 *)
          else match place n 0 rs (repeat None n) [] with
               | None => QPanic
               | Some (results, []) => match all_some results with Some ds => QOk ds | None => QPanic (* a nil result would be handed on *) end
               | Some (_, es) => QErr (EServiceErrors es)
               end
      end
  end.

(* what one response element contributes to the error list *)
Definition resp_errors (r : resp) : list json :=
  match r_errors r with _ :: _ => r_errors r | [] => match r_data r with None => [nodata_error] | Some _ => [] end end.

(* ---- the executor's view of one answered sub-request (parseRespones) ---- *)
Inductive pres := PRErr | PROk (obj : list (string * json)).

Definition parse_response (is_root : bool) (data : list (string * json)) : pres :=
  if is_root then PROk data
  else match assoc "node" data with
       | None => PRErr                                         (* missing node key when expected *)
       | Some JNull => PROk []
       | Some (JObj m) => PROk m
       | Some _ => PRErr                                       (* node is not a map *)
       end.

(* is this answer one of the failure signals of the statement (for an n-request batch)? *)
Definition is_failure_signal (n : nat) (a : answer) : bool :=
  match a with
  | ATransport | AStatus _ | ABody None => true
  | ABody (Some j) =>
      match j with
      | JArr l => match decode_resps l with
                  | None => true
                  | Some rs => negb (Nat.eqb (List.length rs) n) ||
                               existsb (fun r => match r_errors r with [] => false | _ => true end) rs ||
                               existsb (fun r => match r_data r with None => true | _ => false end) rs
                  end
      | _ => true
      end
  end.
