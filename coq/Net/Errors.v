(* Model of gqlerrors/errors.go (FormatError, ExtendErrorList) and of the JSON round trip of a service error
   through *gqlerrors.Error, plus the order in which one failing depth's errors reach the client (C10, C13).
   No proofs in this file. *)
From Coq Require Import List String Bool Arith.
From Pebbles Require Import Base.Json Net.Decode.
Import ListNotations.
Open Scope string_scope.
Open Scope list_scope.

(* Go error values that reach FormatError *)
Inductive goerr :=
| EOne (e : json)                       (* *gqlerrors.Error, kept as the JSON object it encodes to *)
| EList (l : list goerr)                (* gqlerrors.ErrorList *)
| EOther (msg : string).                (* any other error: wrapped by NewError(UNDEFINED_ERROR, err) *)

Definition new_error (code msg : string) : json :=
  JObj [("extensions", JObj [("code", JStr code)]); ("message", JStr msg)].

Fixpoint format_error (e : goerr) : list json :=
  match e with
  | EOne x => [x]
  | EList l => (fix go (l : list goerr) := match l with [] => [] | x :: t => format_error x ++ go t end) l
  | EOther m => [new_error "UNDEFINED_ERROR" m]
  end.

Definition extend_error_list (errs : list json) (e : goerr) : list json := errs ++ format_error e.

(* a service error element decoded into *gqlerrors.Error and encoded again for the client:
   struct tags: extensions (always), message (always), locations,omitempty, path,omitempty *)
Definition member_ci (name : string) (ms : list (string * json)) : option json :=
  (* last member whose name matches case-insensitively wins, as encoding/json does *)
  fold_left (fun acc m => if lower (fst m) =? name then Some (snd m) else acc) ms None.

Definition reencode_error (e : json) : json :=
  match e with
  | JObj ms =>
      let ext := match member_ci "extensions" ms with Some (JObj x) => JObj x | _ => JNull end in
      let msg := match member_ci "message" ms with Some (JStr s) => JStr s | _ => JStr "" end in
      let path := match member_ci "path" ms with Some (JArr (x :: t)) => [("path", JArr (x :: t))] | _ => [] end in
      let locs := match member_ci "locations" ms with Some (JArr (x :: t)) => [("locations", JArr (x :: t))] | _ => [] end in
      JObj ([("extensions", ext); ("message", msg)] ++ locs ++ path)
  | other => other
  end.

(* ---- arbitrary nesting of ErrorList values: the service errors among the leaves, in order; whether every leaf is
   one; the number of leaves (each EOther leaf is wrapped into exactly one error) ---- *)
Fixpoint service_leaves (e : goerr) : list json :=
  match e with
  | EOne x => [x]
  | EList l => (fix go (l : list goerr) := match l with [] => [] | x :: t => service_leaves x ++ go t end) l
  | EOther _ => []
  end.
Fixpoint all_service (e : goerr) : bool :=
  match e with
  | EOne _ => true
  | EList l => (fix go (l : list goerr) := match l with [] => true | x :: t => all_service x && go t end) l
  | EOther _ => false
  end.
Fixpoint leaf_count (e : goerr) : nat :=
  match e with
  | EOne _ => 1
  | EList l => (fix go (l : list goerr) := match l with [] => 0 | x :: t => leaf_count x + go t end) l
  | EOther _ => 1
  end.


(* one failing depth: groups of sub-requests (one group per service) fail with these error lists; AsyncMapReduce's
   reducer appends them in completion order [pi] (a permutation of the group indexes) *)
Definition client_errors (groups : list (list json)) (pi : list nat) : list json :=
  flat_map (fun i => nth i groups []) pi.

(* ---- the gate of queryHandler for one request ---- *)
Inductive gate := GInvalid | GNoOperation | GPlanError | GIntrospection | GExecute.

Definition gate_of (valid : bool) (has_operation : bool) (plan_ok : bool) (introspection : bool) : gate :=
  if negb valid then GInvalid
  else if negb has_operation then GNoOperation
  else if negb plan_ok then GPlanError
  else if introspection then GIntrospection
  else GExecute.

(* the executor (the only code that talks to services) runs in exactly one case *)
Definition reaches_services (g : gate) : bool := match g with GExecute => true | _ => false end.
Definition answers_null_data_with_errors (g : gate) : bool :=
  match g with GInvalid | GNoOperation | GPlanError => true | _ => false end.
