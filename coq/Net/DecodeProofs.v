(* C07 (decoding part): no input makes the decoding / file-injection code index out of range or dereference nil. *)
From Coq Require Import NArith List String Ascii Bool Arith Lia.
From Pebbles Require Import Base.Json Net.Decode.
Import ListNotations.
Open Scope string_scope.
Open Scope list_scope.

Lemma check_queries_no_panic es : forall acc, check_queries es acc <> PPanic.
Proof.
  induction es as [|e t IH]; intros acc; cbn; [discriminate|].
  destruct e as [r|]; [|discriminate]. destruct (rq_query r =? ""); [discriminate|apply IH].
Qed.

Lemma check_queries_ok es : forall acc b rs, check_queries es acc = POk b rs ->
  b = true /\ List.length rs = List.length acc + List.length es /\
  (Forall (fun r => rq_query r <> "") acc -> Forall (fun r => rq_query r <> "") rs).
Proof.
  induction es as [|e t IH]; intros acc b rs H; cbn in H.
  - inversion H; subst. rewrite rev_length. repeat split; auto.
    intros Hf. apply Forall_forall. intros x Hx. apply in_rev in Hx. eapply Forall_forall in Hf; eauto.
  - destruct e as [r|]; [|discriminate]. destruct (rq_query r =? "") eqn:E; [discriminate|].
    apply IH in H as (Hb & Hl & Hf). cbn [List.length] in *. repeat split; auto; [lia|].
    intros Ha. apply Hf. constructor; auto. now apply String.eqb_neq.
Qed.

Theorem parse_request_no_panic body j : parse_request body j <> PPanic.
Proof.
  unfold parse_request. destruct (is_batch_mode body).
  - destruct j as [[| | | |l| |]|]; try discriminate.
    destruct (decode_elems l); [apply check_queries_no_panic|discriminate].
  - destruct j as [v|]; [|discriminate]. destruct (decode_struct v) as [r|]; [|discriminate].
    destruct (rq_query r =? ""); discriminate.
Qed.

(* a decoded request list is never empty in single mode and every request has a query *)
Theorem parse_request_ok body j b rs : parse_request body j = POk b rs ->
  (b = false -> List.length rs = 1) /\ Forall (fun r => rq_query r <> "") rs.
Proof.
  unfold parse_request. destruct (is_batch_mode body).
  - destruct j as [[| | | |l| |]|]; try discriminate.
    + intros H; inversion H; subst. split; [discriminate|constructor].
    + destruct (decode_elems l) as [es|]; [|discriminate]. intros H.
      apply check_queries_ok in H as (Hb & _ & Hf). subst. split; [discriminate|]. apply Hf. constructor.
  - destruct j as [v|]; [|discriminate]. destruct (decode_struct v) as [r|]; [|discriminate].
    destruct (rq_query r =? "") eqn:E; [discriminate|]. intros H; inversion H; subst.
    split; [reflexivity|]. constructor; [now apply String.eqb_neq|constructor].
Qed.

Lemma step_path_no_panic fuel : forall parts vars file, step_path fuel parts vars file <> IPanic.
Proof.
  induction fuel as [fuel IH] using lt_wf_ind. intros parts vars file.
  destruct fuel as [|fuel']; cbn [step_path]; [discriminate|].
  destruct parts as [|p rest]; [discriminate|].
  destruct (assoc p vars) as [[| | | |l|m|]|]; try discriminate.
  - apply IH. lia.
  - destruct rest as [|ix rest']; [discriminate|].
    destruct (atoi ix) as [| |n]; try discriminate.
    destruct (Nat.leb (List.length l) n) eqn:E; [discriminate|].
    apply Nat.leb_gt in E.
    destruct (nth_error l n) as [x|] eqn:N.
    + destruct x; try discriminate. apply IH. lia.
    + apply nth_error_None in N. lia.
  - specialize (IH fuel' ltac:(lia) rest m file).
    destruct (step_path fuel' rest m file); [discriminate|discriminate|contradiction].
Qed.

Lemma split_on_nonempty sep s cur : split_on sep s cur <> [].
Proof. revert cur; induction s as [|c t IH]; intros cur; cbn; [discriminate|]. destruct (Ascii.eqb c sep); [discriminate|apply IH]. Qed.

Lemma list_set_length {A} n (x : A) l : List.length (list_set n x l) = List.length l.
Proof. revert n; induction l as [|h t IH]; intros [|n]; cbn; auto. Qed.

Lemma inject_path_no_panic batch rs file path :
  (batch = false -> rs <> []) -> inject_path batch rs file path <> JPanic.
Proof.
  intros Hne. unfold inject_path.
  pose proof (split_on_nonempty "."%char path "") as Hsp. fold (split_dot path) in Hsp.
  destruct batch.
  - destruct (split_dot path) as [|p0 rest]; [contradiction|].
    destruct (atoi p0) as [| |idx]; try discriminate.
    destruct rest as [|p1 rest']; [discriminate|].
    destruct (Nat.leb (List.length rs) idx) eqn:E; [discriminate|]. apply Nat.leb_gt in E.
    destruct (negb (p1 =? "variables")); [discriminate|].
    destruct (Nat.ltb (List.length (p1 :: rest')) 2); [discriminate|].
    destruct (nth_error rs idx) as [r|] eqn:N; [|apply nth_error_None in N; lia].
    pose proof (step_path_no_panic (List.length rest') rest' (match rq_vars r with Some m => m | None => [] end) file) as Hs.
    destruct (step_path _ _ _ _); [discriminate|discriminate|contradiction].
  - destruct (split_dot path) as [|p0 rest]; [contradiction|].
    destruct (negb (p0 =? "variables")); [discriminate|].
    destruct (Nat.ltb (List.length (p0 :: rest)) 2); [discriminate|].
    destruct rs as [|r rs']; [exfalso; now apply Hne|]. cbn [nth_error].
    pose proof (step_path_no_panic (List.length rest) rest (match rq_vars r with Some m => m | None => [] end) file) as Hs.
    destruct (step_path _ _ _ _); [discriminate|discriminate|contradiction].
Qed.

Lemma inject_path_length batch rs file path rs' : inject_path batch rs file path = JOk rs' -> List.length rs' = List.length rs.
Proof.
  unfold inject_path.
  destruct (if batch then _ else _) as [[[idx parts']|]|]; try discriminate.
  destruct parts' as [|p0 rest]; [discriminate|].
  destruct (negb (p0 =? "variables")); [discriminate|].
  destruct (Nat.ltb _ 2); [discriminate|].
  destruct (nth_error rs idx) as [r|]; [|discriminate].
  destruct (step_path _ _ _ _); try discriminate.
  intros H; inversion H. apply list_set_length.
Qed.

Lemma inject_paths_no_panic batch file paths : forall rs,
  (batch = false -> rs <> []) -> inject_paths batch rs file paths <> JPanic.
Proof.
  induction paths as [|p t IH]; intros rs Hne; cbn [inject_paths]; [discriminate|].
  pose proof (inject_path_no_panic batch rs file p Hne) as Hp.
  destruct (inject_path batch rs file p) as [|rs'|] eqn:E; [discriminate| |contradiction].
  apply IH. intros Hb Hnil. apply inject_path_length in E. subst rs'. destruct rs; [now apply Hne|discriminate].
Qed.

Lemma inject_paths_length batch file paths : forall rs rs', inject_paths batch rs file paths = JOk rs' -> List.length rs' = List.length rs.
Proof.
  induction paths as [|p t IH]; intros rs rs' H; cbn [inject_paths] in H; [inversion H; reflexivity|].
  destruct (inject_path batch rs file p) as [|rs1|] eqn:E; try discriminate.
  apply IH in H. apply inject_path_length in E. lia.
Qed.

Lemma inject_all_no_panic batch present m : forall rs k,
  (batch = false -> rs <> []) -> inject_all batch rs m present k <> JPanic.
Proof.
  induction m as [|[key paths] t IH]; intros rs k Hne; cbn [inject_all]; [discriminate|].
  destruct (negb (present key)); [discriminate|].
  pose proof (inject_paths_no_panic batch k paths rs Hne) as Hp.
  destruct (inject_paths batch rs k paths) as [|rs'|] eqn:E; [discriminate| |contradiction].
  apply IH. intros Hb Hnil. apply inject_paths_length in E. subst rs'. destruct rs; [now apply Hne|discriminate].
Qed.

Theorem parse_multipart_no_panic ops_body ops_json filemap present :
  parse_multipart ops_body ops_json filemap present <> PPanic.
Proof.
  unfold parse_multipart.
  pose proof (parse_request_no_panic ops_body ops_json) as Hp.
  destruct (parse_request ops_body ops_json) as [|batch rs|] eqn:E; [discriminate| |contradiction].
  destruct filemap as [[|e m]|]; try discriminate.
  assert (Hne : batch = false -> rs <> []).
  { intros Hb. apply parse_request_ok in E as [Hl _]. specialize (Hl Hb). destruct rs; [discriminate|discriminate]. }
  pose proof (inject_all_no_panic batch present (e :: m) rs 0 Hne) as Hi.
  destruct (inject_all batch rs (e :: m) present 0); [discriminate|discriminate|contradiction].
Qed.

(* the status code: 422 exactly when the request cannot be decoded, 200 otherwise; never "no answer" *)
Theorem status_total p : p <> PPanic -> status_of p = Some 422 \/ status_of p = Some 200.
Proof. destruct p; cbn; auto. intros H. contradiction. Qed.
Theorem status_422_iff p : status_of p = Some 422 <-> p = PErr.
Proof. destruct p; cbn; split; intros H; try discriminate; auto. Qed.
