(* C09 proofs on Net/Faults.v *)
From Coq Require Import List String Bool Arith Lia.
From Pebbles Require Import Base.ListX Base.Json Net.Decode Net.Faults Net.DecodeProofs.
Import ListNotations.
Open Scope string_scope.
Open Scope list_scope.

Definition filled (i : nat) (results : list (option (list (string * json)))) : Prop :=
  forall k, k < i -> exists d, nth_error results k = Some (Some d).

Lemma nth_error_list_set {A} n (x : A) l k : n < List.length l ->
  nth_error (list_set n x l) k = if Nat.eqb k n then Some x else nth_error l k.
Proof.
  revert n k. induction l as [|h t IH]; intros n k Hn; cbn in Hn; [lia|].
  destruct n as [|n]; destruct k as [|k]; cbn; auto. apply IH. lia.
Qed.

(* [place] over exactly n decoded responses never indexes out of range, fills every slot, and only with data
   that the service returned *)
Lemma place_spec n rs : forall i results,
  List.length results = n -> i + List.length rs = n -> filled i results ->
  match place n i rs results with
  | inl QPanic => False
  | inl (QOk _) => False
  | inl (QErr _) => True
  | inr res => Forall (fun r => r_errors r = [] /\ r_data r <> None) rs /\ List.length res = n /\ filled n res /\
               (forall k, i <= k -> k < n -> nth_error res k = option_map (fun r => r_data r) (nth_error rs (k - i))) /\
               (forall k, k < i -> nth_error res k = nth_error results k)
  end.
Proof.
  induction rs as [|r t IH]; intros i results Hl Hn Hf; cbn [place].
  - cbn in Hn. rewrite Nat.add_0_r in Hn. subst i. repeat split; auto. intros k H1 H2. lia.
  - destruct (r_errors r) as [|e es] eqn:Ee; [|exact I].
    destruct (r_data r) as [d|] eqn:Ed; [|exact I].
    cbn [List.length] in Hn. destruct (Nat.ltb_spec i n) as [Hlt|Hge]; [|lia].
    assert (Hl' : List.length (list_set i (Some d) results) = n) by (rewrite list_set_length; exact Hl).
    assert (Hf' : filled (S i) (list_set i (Some d) results)).
    { intros k Hk. rewrite nth_error_list_set by lia. destruct (Nat.eqb_spec k i); [eauto|]. apply Hf. lia. }
    specialize (IH (S i) _ Hl' ltac:(lia) Hf').
    destruct (place n (S i) t (list_set i (Some d) results)) as [q|res]; [exact IH|].
    destruct IH as (H0 & H1 & H2 & H3 & H4). split; [constructor; [split; [exact Ee|congruence]|exact H0]|]. repeat split; auto.
    + intros k Hk1 Hk2. destruct (Nat.eq_dec k i) as [->|Hne].
      * rewrite H4 by lia. rewrite nth_error_list_set by lia. rewrite Nat.eqb_refl, Nat.sub_diag. cbn. now rewrite Ed.
      * rewrite H3 by lia. replace (k - i) with (S (k - S i)) by lia. reflexivity.
    + intros k Hk. rewrite H4 by lia. rewrite nth_error_list_set by lia. destruct (Nat.eqb_spec k i); [lia|reflexivity].
Qed.

Lemma all_some_filled {A} (l : list (option A)) :
  (forall k, k < List.length l -> exists d, nth_error l k = Some (Some d)) -> exists ds, all_some l = Some ds /\ map Some ds = l.
Proof.
  induction l as [|x t IH]; intros H; cbn; [exists []; auto|].
  destruct (H 0 ltac:(cbn; lia)) as [d Hd]. cbn in Hd. inversion Hd; subst.
  destruct IH as (ds & E & M). { intros k Hk. apply (H (S k)). cbn. lia. }
  rewrite E. exists (d :: ds). cbn. now rewrite M.
Qed.

(* no answer whatsoever makes the queryer index out of range or hand a nil result on *)
Theorem query_batch_no_panic n a : query_batch n a <> QPanic.
Proof.
  unfold query_batch. destruct (Nat.eqb n 0); [discriminate|].
  destruct a as [| |[j|]]; try discriminate.
  destruct (match j with JNull => Some [] | JArr l => decode_resps l | _ => None end) as [rs|]; [|discriminate].
  destruct (Nat.eqb_spec (List.length rs) n) as [E|E]; cbn [negb]; [|discriminate].
  pose proof (place_spec n rs 0 (repeat None n) (repeat_length _ _) ltac:(cbn; lia) ltac:(intros k Hk; lia)) as H.
  destruct (place n 0 rs (repeat None n)) as [q|res].
  - destruct q; [discriminate|contradiction|contradiction].
  - destruct H as (_ & H1 & H2 & _). destruct (all_some_filled res) as (ds & Eq & _).
    { rewrite H1. exact H2. }
    rewrite Eq. discriminate.
Qed.

(* every failure signal of the statement is reported as an error of the sub-request *)
Theorem failure_signals_are_errors n a : n <> 0 -> is_failure_signal n a = true -> exists e, query_batch n a = QErr e.
Proof.
  intros Hn Hs. unfold query_batch. rewrite (proj2 (Nat.eqb_neq n 0) Hn).
  destruct a as [| |[j|]]; try (eexists; reflexivity).
  cbn [is_failure_signal] in Hs.
  destruct j; try (eexists; reflexivity).
  - (* null body *) cbn. destruct n; [contradiction|]. eexists; reflexivity.
  - destruct (decode_resps l) as [rs|] eqn:D; [|eexists; reflexivity].
    destruct (Nat.eqb_spec (List.length rs) n) as [E|E]; cbn [negb orb] in *; [|eexists; reflexivity].
    pose proof (place_spec n rs 0 (repeat None n) (repeat_length _ _) ltac:(cbn; lia) ltac:(intros k Hk; lia)) as H.
    destruct (place n 0 rs (repeat None n)) as [q|res].
    + destruct q; [eexists; reflexivity|contradiction|contradiction].
    + exfalso. destruct H as (H0 & _). rewrite Forall_forall in H0.
      apply orb_true_iff in Hs as [Hs|Hs]; apply existsb_exists in Hs as (r & Hin & Hr); destruct (H0 r Hin) as [He Hd].
      * rewrite He in Hr. discriminate.
      * destruct (r_data r); [discriminate|contradiction].
Qed.

(* no invented values: what is handed to the executor is, slot by slot, the `data` object of the service's answer *)
Theorem data_provenance n l ds : query_batch n (ABody (Some (JArr l))) = QOk ds -> n <> 0 ->
  exists rs, decode_resps l = Some rs /\ map Some ds = map r_data rs.
Proof.
  intros H Hn. unfold query_batch in H. rewrite (proj2 (Nat.eqb_neq n 0) Hn) in H.
  destruct (decode_resps l) as [rs|]; [|discriminate]. exists rs. split; [reflexivity|].
  destruct (Nat.eqb_spec (List.length rs) n) as [E|E]; cbn [negb] in H; [|discriminate].
  pose proof (place_spec n rs 0 (repeat None n) (repeat_length _ _) ltac:(cbn; lia) ltac:(intros k Hk; lia)) as Hp.
  destruct (place n 0 rs (repeat None n)) as [q|res]; [destruct q; try discriminate; contradiction|].
  destruct Hp as (_ & H1 & H2 & H3 & _).
  destruct (all_some_filled res) as (ds' & Eq & M). { rewrite H1. exact H2. }
  rewrite Eq in H. inversion H; subst ds'. rewrite M.
  apply Base.ListX.nth_error_ext_eq. intros k. rewrite nth_error_map.
  destruct (Nat.lt_ge_cases k n) as [Hlt|Hge].
  - rewrite (H3 k ltac:(lia) Hlt), Nat.sub_0_r. reflexivity.
  - rewrite (proj2 (nth_error_None res k)) by lia. rewrite (proj2 (nth_error_None rs k)) by lia. reflexivity.
Qed.

(* node extraction: a missing or mistyped `node` is an error, never a value *)
Theorem node_faults_are_errors data : 
  (assoc "node" data = None -> parse_response false data = PRErr) /\
  (forall v, assoc "node" data = Some v -> v <> JNull -> (forall m, v <> JObj m) -> parse_response false data = PRErr).
Proof.
  unfold parse_response. split.
  - intros ->. reflexivity.
  - intros v -> Hn Hm. destruct v; try reflexivity; [contradiction|exfalso; eapply Hm; reflexivity].
Qed.
