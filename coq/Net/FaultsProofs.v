(* C09 proofs on Net/Faults.v *)
From Coq Require Import List String Bool Arith Lia.
From Pebbles Require Import Base.ListX Base.Json Net.Decode Net.Faults Net.DecodeProofs.
Import ListNotations.
Open Scope string_scope.
Open Scope list_scope.

Definition filled (i : nat) (results : list (option (list (string * json)))) : Prop :=
  forall k, k < i -> exists d, nth_error results k = Some (Some d).

Lemma nth_error_list_set {A} n (x : A) l k : n < List.length l ->
  nth_error (list_set n x l) k = if Nat.eqb k n then Some x else nth_error l k.
Proof.
  revert n k. induction l as [|h t IH]; intros n k Hn; cbn in Hn; [lia|].
  destruct n as [|n]; destruct k as [|k]; cbn; auto. apply IH. lia.
Qed.

(* [place] over decoded responses: never out of range when they fit, collects exactly the errors, and fills the
   slot of every element that has data and no errors with that data *)
Definition good (r : resp) : Prop := r_errors r = [] /\ r_data r <> None.

Lemma place_spec n rs : forall i results errs,
  List.length results = n -> i + List.length rs = n ->
  exists res, place n i rs results errs = Some (res, errs ++ flat_map resp_errors rs) /\
    List.length res = n /\
    (forall k, i <= k -> k < n -> match nth_error rs (k - i) with
                                  | Some r => (good r -> nth_error res k = Some (r_data r)) /\ (~ good r -> nth_error res k = nth_error results k)
                                  | None => True end) /\
    (forall k, k < i -> nth_error res k = nth_error results k).
Proof.
  induction rs as [|r t IH]; intros i results errs Hl Hn; cbn [place flat_map].
  - exists results. rewrite app_nil_r. repeat split; auto. intros k H1 H2. cbn in Hn. lia.
  - cbn [List.length] in Hn. unfold resp_errors at 1.
    destruct (r_errors r) as [|e es] eqn:Ee.
    + destruct (r_data r) as [d|] eqn:Ed.
      * destruct (Nat.ltb_spec i n) as [Hlt|Hge]; [|lia].
        destruct (IH (S i) (list_set i (Some d) results) errs) as (res & Hp & Hlen & H3 & H4); [now rewrite list_set_length|lia|].
        exists res. cbn [app]. split; [exact Hp|]. split; [exact Hlen|]. split.
        -- intros k Hk1 Hk2. destruct (Nat.eq_dec k i) as [->|Hne].
           ++ rewrite Nat.sub_diag. cbn. split.
              ** intros _. rewrite H4 by lia. rewrite nth_error_list_set by lia. now rewrite Nat.eqb_refl, Ed.
              ** intros Hng. exfalso. apply Hng. split; [exact Ee|congruence].
           ++ specialize (H3 k ltac:(lia) Hk2). replace (k - i) with (S (k - S i)) by lia. cbn.
              destruct (nth_error t (k - S i)) as [r'|]; [|exact I]. destruct H3 as [Ha Hb]. split; [exact Ha|].
              intros Hng. rewrite (Hb Hng). rewrite nth_error_list_set by lia. destruct (Nat.eqb_spec k i); [lia|reflexivity].
        -- intros k Hk. rewrite H4 by lia. rewrite nth_error_list_set by lia. destruct (Nat.eqb_spec k i); [lia|reflexivity].
      * destruct (IH (S i) results (errs ++ [nodata_error])) as (res & Hp & Hlen & H3 & H4); [exact Hl|lia|].
        exists res. rewrite <- app_assoc in Hp. split; [exact Hp|]. split; [exact Hlen|]. split.
        -- intros k Hk1 Hk2. destruct (Nat.eq_dec k i) as [->|Hne].
           ++ rewrite Nat.sub_diag. cbn. split; [intros [_ Hd]; congruence|intros _; apply H4; lia].
           ++ specialize (H3 k ltac:(lia) Hk2). replace (k - i) with (S (k - S i)) by lia. exact H3.
        -- intros k Hk. apply H4. lia.
    + destruct (IH (S i) results (errs ++ e :: es)) as (res & Hp & Hlen & H3 & H4); [exact Hl|lia|].
      exists res. rewrite <- app_assoc in Hp. split; [exact Hp|]. split; [exact Hlen|]. split.
      * intros k Hk1 Hk2. destruct (Nat.eq_dec k i) as [->|Hne].
        -- rewrite Nat.sub_diag. cbn. split; [intros [He _]; congruence|intros _; apply H4; lia].
        -- specialize (H3 k ltac:(lia) Hk2). replace (k - i) with (S (k - S i)) by lia. exact H3.
      * intros k Hk. apply H4. lia.
Qed.

Lemma all_some_filled {A} (l : list (option A)) :
  (forall k, k < List.length l -> exists d, nth_error l k = Some (Some d)) -> exists ds, all_some l = Some ds /\ map Some ds = l.
Proof.
  induction l as [|x t IH]; intros H; cbn; [exists []; auto|].
  destruct (H 0 ltac:(cbn; lia)) as [d Hd]. cbn in Hd. inversion Hd; subst.
  destruct IH as (ds & E & M). { intros k Hk. apply (H (S k)). cbn. lia. }
  rewrite E. exists (d :: ds). cbn. now rewrite M.
Qed.

Lemma no_errors_all_good rs : flat_map resp_errors rs = [] -> Forall good rs.
Proof.
  induction rs as [|r t IH]; cbn; intros H; [constructor|].
  apply app_eq_nil in H as [H1 H2]. constructor; [|auto].
  unfold resp_errors in H1. destruct (r_errors r) eqn:E; [|discriminate].
  destruct (r_data r) eqn:D; [split; [exact E|congruence]|discriminate].
Qed.

(* the outcome of queryBatch on n decoded responses *)
Lemma query_batch_decoded n rs : n <> 0 -> List.length rs = n ->
  match place n 0 rs (repeat None n) [] with
  | Some (res, es) => es = flat_map resp_errors rs /\
                      (es = [] -> exists ds, all_some res = Some ds /\ map Some ds = map r_data rs)
  | None => False
  end.
Proof.
  intros Hn Hl.
  destruct (place_spec n rs 0 (repeat None n) [] (repeat_length _ _) ltac:(cbn; lia)) as (res & Hp & Hlen & H3 & _).
  rewrite Hp. cbn [app]. split; [reflexivity|]. intros He.
  pose proof (no_errors_all_good rs He) as Hg.
  assert (Hres : forall k, k < n -> nth_error res k = option_map r_data (nth_error rs k)).
  { intros k Hk. specialize (H3 k ltac:(lia) Hk). rewrite Nat.sub_0_r in H3.
    destruct (nth_error rs k) as [r|] eqn:Nk.
    - destruct H3 as [Ha _]. cbn. apply Ha. rewrite Forall_forall in Hg. apply Hg. eapply nth_error_In; eauto.
    - apply nth_error_None in Nk. lia. }
  destruct (all_some_filled res) as (ds & Eq & M).
  { intros k Hk. rewrite Hlen in Hk. rewrite (Hres k Hk).
    destruct (nth_error rs k) as [r|] eqn:Nk; [|apply nth_error_None in Nk; lia]. cbn.
    rewrite Forall_forall in Hg. destruct (Hg r (nth_error_In _ _ Nk)) as [_ Hd]. destruct (r_data r) as [d|]; [eauto|contradiction]. }
  exists ds. split; [exact Eq|]. rewrite M.
  apply Base.ListX.nth_error_ext_eq. intros k. rewrite nth_error_map.
  destruct (Nat.lt_ge_cases k n) as [Hlt|Hge]; [apply Hres; exact Hlt|].
  rewrite (proj2 (nth_error_None res k)) by lia. rewrite (proj2 (nth_error_None rs k)) by lia. reflexivity.
Qed.

(* no answer whatsoever makes the queryer index out of range or hand a nil result on *)
Theorem query_batch_no_panic n a : query_batch n a <> QPanic.
Proof.
  unfold query_batch. destruct (Nat.eqb_spec n 0) as [|Hn]; [discriminate|].
  destruct a as [| |[j|]]; try discriminate.
  destruct (match j with JNull => Some [] | JArr l => decode_resps l | _ => None end) as [rs|]; [|discriminate].
  destruct (Nat.eqb_spec (List.length rs) n) as [E|E]; cbn [negb]; [|discriminate].
  pose proof (query_batch_decoded n rs Hn E) as H.
  destruct (place n 0 rs (repeat None n) []) as [[res es]|]; [|contradiction].
  destruct H as [_ H]. destruct es as [|e es]; [|discriminate].
  destruct (H eq_refl) as (ds & Eq & _). rewrite Eq. discriminate.
Qed.

Lemma failure_has_errors rs n : List.length rs = n ->
  (existsb (fun r => match r_errors r with [] => false | _ => true end) rs ||
   existsb (fun r => match r_data r with None => true | _ => false end) rs) = true ->
  flat_map resp_errors rs <> [].
Proof.
  intros _ Hs Hnil. apply no_errors_all_good in Hnil. rewrite Forall_forall in Hnil.
  apply orb_true_iff in Hs as [Hs|Hs]; apply existsb_exists in Hs as (r & Hin & Hr); destruct (Hnil r Hin) as [He Hd].
  - rewrite He in Hr. discriminate.
  - destruct (r_data r); [discriminate|contradiction].
Qed.

(* every failure signal of the statement is reported as an error of the sub-request *)
Theorem failure_signals_are_errors n a : n <> 0 -> is_failure_signal n a = true -> exists e, query_batch n a = QErr e.
Proof.
  intros Hn Hs. unfold query_batch. rewrite (proj2 (Nat.eqb_neq n 0) Hn).
  destruct a as [| |[j|]]; try (eexists; reflexivity).
  cbn [is_failure_signal] in Hs.
  destruct j; try (eexists; reflexivity).
  - (* null body *) cbn. destruct n; [contradiction|]. eexists; reflexivity.
  - destruct (decode_resps l) as [rs|] eqn:D; [|eexists; reflexivity].
    destruct (Nat.eqb_spec (List.length rs) n) as [E|E]; cbn [negb orb] in *; [|eexists; reflexivity].
    pose proof (query_batch_decoded n rs Hn E) as H.
    destruct (place n 0 rs (repeat None n) []) as [[res es]|]; [|contradiction].
    destruct H as [He _]. pose proof (failure_has_errors rs n E Hs) as Hne. rewrite <- He in Hne.
    destruct es; [contradiction|eexists; reflexivity].
Qed.

(* service errors intact (C10): the error reported for the batch is exactly the concatenation, in order, of the
   errors of every failing element *)
Theorem batch_errors_are_all_service_errors n l es : n <> 0 ->
  query_batch n (ABody (Some (JArr l))) = QErr (EServiceErrors es) ->
  exists rs, decode_resps l = Some rs /\ es = flat_map resp_errors rs.
Proof.
  intros Hn H. unfold query_batch in H. rewrite (proj2 (Nat.eqb_neq n 0) Hn) in H.
  destruct (decode_resps l) as [rs|]; [|discriminate]. exists rs. split; [reflexivity|].
  destruct (Nat.eqb_spec (List.length rs) n) as [E|E]; cbn [negb] in H; [|discriminate].
  pose proof (query_batch_decoded n rs Hn E) as Hq.
  destruct (place n 0 rs (repeat None n) []) as [[res es']|]; [|contradiction].
  destruct Hq as [He _]. destruct es' as [|e es']; [destruct (all_some res); discriminate|].
  inversion H; subst. exact He.
Qed.

(* no invented values: what is handed to the executor is, slot by slot, the `data` object of the service's answer *)
Theorem data_provenance n l ds : query_batch n (ABody (Some (JArr l))) = QOk ds -> n <> 0 ->
  exists rs, decode_resps l = Some rs /\ map Some ds = map r_data rs.
Proof.
  intros H Hn. unfold query_batch in H. rewrite (proj2 (Nat.eqb_neq n 0) Hn) in H.
  destruct (decode_resps l) as [rs|]; [|discriminate]. exists rs. split; [reflexivity|].
  destruct (Nat.eqb_spec (List.length rs) n) as [E|E]; cbn [negb] in H; [|discriminate].
  pose proof (query_batch_decoded n rs Hn E) as Hq.
  destruct (place n 0 rs (repeat None n) []) as [[res es]|]; [|contradiction].
  destruct Hq as [_ Hq]. destruct es as [|e es]; [|discriminate].
  destruct (Hq eq_refl) as (ds' & Eq & M). rewrite Eq in H. inversion H; subst. exact M.
Qed.

(* node extraction: a missing or mistyped `node` is an error, never a value *)
Theorem node_faults_are_errors data : 
  (assoc "node" data = None -> parse_response false data = PRErr) /\
  (forall v, assoc "node" data = Some v -> v <> JNull -> (forall m, v <> JObj m) -> parse_response false data = PRErr).
Proof.
  unfold parse_response. split.
  - intros ->. reflexivity.
  - intros v -> Hn Hm. destruct v; try reflexivity; [contradiction|exfalso; eapply Hm; reflexivity].
Qed.
