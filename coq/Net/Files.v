(* Model of queryer/files.go (extractFiles, UploadMap.extract, prepareMultipart) for C19.
   No proofs in this file.
   Variable trees are Base.Json.json with [JFile k] where Go holds a *requests.Upload; an upload's reader is a
   cursor: copying it into a multipart part drains it. Map iteration order (Go: random) is the list order here;
   the correspondence compares the resulting parts as a set. *)
From Coq Require Import List String Ascii Bool Arith.
From Pebbles Require Import Base.Json.
Import ListNotations.
Open Scope string_scope.
Open Scope list_scope.

Inductive seg := Key (k : string) | Idx (i : nat).

(* UploadMap.extract(value, path): the tree with every upload set to nil by its parent, and one item per upload
   occurrence (path from the root of `variables`, file id) *)
Fixpoint extract (j : json) (path : list seg) : json * list (list seg * nat) :=
  match j with
  | JFile k => (JNull, [(path, k)])
  | JObj l =>
      let fix members (l : list (string * json)) : list (string * json) * list (list seg * nat) :=
        match l with
        | [] => ([], [])
        | (k, v) :: t =>
            let '(v', iv) := extract v (path ++ [Key k]) in
            let '(t', it) := members t in
            ((k, v') :: t', iv ++ it)
        end in
      let '(l', items) := members l in (JObj l', items)
  | JArr l =>
      let fix elems (i : nat) (l : list json) : list json * list (list seg * nat) :=
        match l with
        | [] => ([], [])
        | v :: t =>
            let '(v', iv) := extract v (path ++ [Idx i]) in
            let '(t', it) := elems (S i) t in
            (v' :: t', iv ++ it)
        end in
      let '(l', items) := elems 0 l in (JArr l', items)
  | _ => (j, [])
  end.

(* extractFiles(input): over the variables map *)
Definition extract_files (vars : list (string * json)) : list (string * json) * list (list seg * nat) :=
  match extract (JObj vars) [] with
  | (JObj l, items) => (l, items)
  | (_, items) => (vars, items)
  end.

(* following a path *)
Fixpoint get_path (p : list seg) (j : json) : option json :=
  match p with
  | [] => Some j
  | Key k :: t => match j with JObj l => match assoc k l with Some v => get_path t v | None => None end | _ => None end
  | Idx i :: t => match j with JArr l => match nth_error l i with Some v => get_path t v | None => None end | _ => None end
  end.

(* the tree with every upload replaced by null *)
Fixpoint null_files (j : json) : json :=
  match j with
  | JFile _ => JNull
  | JObj l => JObj ((fix go (l : list (string * json)) := match l with [] => [] | (k, v) :: t => (k, null_files v) :: go t end) l)
  | JArr l => JArr ((fix go (l : list json) := match l with [] => [] | v :: t => null_files v :: go t end) l)
  | _ => j
  end.

(* prepareMultipart: part i carries what is left in the reader of item i's upload; io.Copy drains it *)
Definition file_store := list (nat * list nat).     (* file id -> remaining bytes *)

Fixpoint read_all (k : nat) (fs : file_store) : list nat * file_store :=
  match fs with
  | [] => ([], [])
  | (k', bytes) :: t =>
      if Nat.eqb k' k then (bytes, (k', []) :: t)
      else let '(b, t') := read_all k t in (b, (k', bytes) :: t')
  end.

Fixpoint encode_parts (items : list (list seg * nat)) (fs : file_store) : list (list seg * nat * list nat) :=
  match items with
  | [] => []
  | (p, k) :: t => let '(b, fs') := read_all k fs in (p, k, b) :: encode_parts t fs'
  end.

(* UploadMap.Add after fix d5310c8: occurrences of one upload are collected into one map entry / one file part *)
Fixpoint add_item (k : nat) (p : list seg) (gs : list (nat * list (list seg))) : list (nat * list (list seg)) :=
  match gs with
  | [] => [(k, [p])]
  | (k', ps) :: t => if Nat.eqb k' k then (k', ps ++ [p]) :: t else (k', ps) :: add_item k p t
  end.
Definition group_items (items : list (list seg * nat)) : list (nat * list (list seg)) :=
  fold_left (fun gs it => add_item (snd it) (fst it) gs) items [].

Fixpoint encode_groups (gs : list (nat * list (list seg))) (fs : file_store) : list (nat * list (list seg) * list nat) :=
  match gs with
  | [] => []
  | (k, ps) :: t => let '(b, fs') := read_all k fs in (k, ps, b) :: encode_groups t fs'
  end.

(* what one downstream multipart request carries: operations (variables with uploads nulled), and per file part
   its map positions and content *)
Definition forward (vars : list (string * json)) (fs : file_store) :=
  let '(vars', items) := extract_files vars in (vars', encode_groups (group_items items) fs).
