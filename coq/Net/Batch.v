(* Model of queryer/multiop_queryer.go: MultiOpQueryer.Query and queryBatch.
   No proofs in this file (it must keep evaluating when a proof breaks).

   Go                                   | here
   -------------------------------------+---------------------------------------
   Query: lInputs <= maxBatchSize       | [query], first branch
   chunks := lInputs/maxBatchSize + 1   | [chunk_indices]
   inputs[i*m : min((i+1)*m, N)]        | [chunk m i inputs]
   queryBatch (fetchFile / fetch,       | [qb_calls] (one HTTP call per file-carrying input,
     toFetchIndexes bookkeeping)        |   one for all the others), [qb_results]
   reducer: append(acc[0:i*m], tail...) | [splice_go]; pure-list semantics, see BatchProofs.splice_go_eq
   AsyncMapReduce completion order      | the list [pi] of chunk indices, in the order the reducer sees them
   a failing HTTP call                  | [fails call = true]
*)
From Coq Require Import List Arith Bool.
From Pebbles Require Import Base.ListX.
Import ListNotations.

Section Batch.
Context {Q R : Type}.
Variable ans : Q -> R.          (* what a well-behaved service answers to one request *)
Variable isfile : Q -> bool.    (* request carries an upload: sent alone as multipart *)
Variable fails : list Q -> bool. (* the HTTP call carrying exactly these requests fails *)

Definition chunk_indices (N m : nat) : list nat :=
  if N <=? m then [0] else seq 0 (N / m + 1).

Definition chunk {A} (m i : nat) (l : list A) : list A := firstn m (skipn (i * m) l).

Definition indexed {A} (l : list A) : list (nat * A) := combine (seq 0 (length l)) l.

Definition qb_files (c : list Q) := filter (fun p => isfile (snd p)) (indexed c).
Definition qb_plain (c : list Q) := filter (fun p => negb (isfile (snd p))) (indexed c).

(* HTTP calls made by queryBatch for one chunk (when none fails) *)
Definition qb_calls (c : list Q) : list (list Q) :=
  map (fun p => [snd p]) (qb_files c) ++
  match qb_plain c with [] => [] | ps => [map snd ps] end.

Definition put (r : list (option R)) (p : nat * Q) := set_nth (fst p) (Some (ans (snd p))) r.

Definition qb_results (c : list Q) : list (option R) :=
  fold_left put (qb_plain c) (fold_left put (qb_files c) (repeat None (length c))).

Definition qb (c : list Q) : option (list (option R)) :=
  if existsb fails (qb_calls c) then None else Some (qb_results c).

(* the reducer of Query *)
Definition splice_go (m N : nat) (acc : list (option R)) (i : nat) (resp : list (option R)) :=
  let tail := if (i + 1) * m <? N then resp ++ skipn ((i + 1) * m) acc else resp in
  firstn (i * m) acc ++ tail.

Definition query (m : nat) (inputs : list Q) (pi : list nat) : option (list (option R)) :=
  let N := length inputs in
  if N <=? m then qb inputs
  else if existsb (fun i => existsb fails (qb_calls (chunk m i inputs))) pi then None
  else Some (fold_left (fun acc i => splice_go m N acc i (qb_results (chunk m i inputs))) pi (repeat None N)).

Definition all_calls (m : nat) (inputs : list Q) : list (list Q) :=
  flat_map (fun i => qb_calls (chunk m i inputs)) (chunk_indices (length inputs) m).

End Batch.
