(* Model of the batch reducer of Gateway.queryHandler: `acc[value.index] = value` over the completion order of the
   per-operation goroutines (C08). *)
From Coq Require Import List Arith Bool.
From Pebbles Require Import Base.Json.
Import ListNotations.

Section BatchResp.
Context {A : Type}.

(* results arrive as (index, result) in completion order *)
Definition place_results (n : nat) (arrivals : list (nat * A)) : list (option A) :=
  fold_left (fun acc r => list_set (fst r) (Some (snd r)) acc) arrivals (repeat None n).

Definition indexed (l : list A) : list (nat * A) := combine (seq 0 (length l)) l.

(* the whole handler on a batch: every operation is handled on its own ([handle1] is a function of the operation
   alone) and tagged with its position *)
Definition handle_batch {Op} (handle1 : Op -> A) (ops : list Op) (pi : list (nat * A)) : list (option A) :=
  place_results (length ops) pi.
End BatchResp.
