(* A client connection: the handler's bookkeeping of subscription entries (subscription.go subscriptionHandler,
   subscriptionDict.Clean / CleanAll, after fixes 83122f0, e6e43ce, 6ae81b8) and the frames that several entries
   write to the one connection (after fix 21651f3 a frame is written as a whole). No proofs here. *)
From Coq Require Import List String Bool Arith.
From Pebbles Require Import Sub.LTS.
Import ListNotations.
Open Scope string_scope.
Open Scope list_scope.

(* ---- the handler loop ---- *)
Inductive cmsg :=
| MInit
| MStart (id : string) (req : nat) (ok : bool)   (* ok = the operation loads, plans and the upstream accepts it *)
| MStop (id : string)
| MTerminate
| MBad.                                          (* not JSON, unknown type, start without payload, read error / EOF *)

Inductive action :=
| AAck
| ASpawn (entry : nat) (id : string) (req : nat)  (* newSubscriptionEntry + go Listen: upstream connection opened *)
| AClose (entry : nat)                             (* go entry.Close() *)
| AEnd.                                            (* close frame, conn.Close() *)

Record hstate := mkH { dict : list (string * nat); fresh : nat; ended : bool }.
Definition h0 := mkH [] 0 false.

Fixpoint remove_id (id : string) (d : list (string * nat)) : list (string * nat) :=
  match d with [] => [] | (k, e) :: t => if k =? id then remove_id id t else (k, e) :: remove_id id t end.
Fixpoint lookup_id (id : string) (d : list (string * nat)) : option nat :=
  match d with [] => None | (k, e) :: t => if k =? id then Some e else lookup_id id t end.

Definition clean (id : string) (d : list (string * nat)) : list action :=
  match lookup_id id d with Some e => [AClose e] | None => [] end.
(* the deferred clean-up: close frame, conn.Close(), CleanAll *)
Definition finish (s : hstate) : hstate * list action :=
  (mkH [] (fresh s) true, AEnd :: map (fun p => AClose (snd p)) (dict s)).

Definition handle (s : hstate) (m : cmsg) : hstate * list action :=
  if ended s then (s, []) else
  match m with
  | MInit => (s, [AAck])
  | MStart id req true =>
      (mkH ((id, fresh s) :: remove_id id (dict s)) (S (fresh s)) false, ASpawn (fresh s) id req :: clean id (dict s))
  | MStart _ _ false => finish s
  | MStop id => (mkH (remove_id id (dict s)) (fresh s) false, clean id (dict s))
  | MTerminate => let '(s', acts) := finish (mkH [] (fresh s) false) in (s', map (fun p => AClose (snd p)) (dict s) ++ acts)
  | MBad => finish s
  end.

Fixpoint handle_all (s : hstate) (ms : list cmsg) : hstate * list action :=
  match ms with
  | [] => (s, [])
  | m :: t => let '(s1, a1) := handle s m in let '(s2, a2) := handle_all s1 t in (s2, a1 ++ a2)
  end.

(* a connection always ends: the read loop fails at the latest when the client is gone *)
Definition session (ms : list cmsg) : list action := snd (handle_all h0 (ms ++ [MBad])).

(* ---- the frames of several entries on one connection ----
   a global trace tags every step with the entry that took it; a frame is (id of the entry, number of the event) *)
Definition upd (f : nat -> data) (i : nat) (d : data) : nat -> data := fun j => if Nat.eqb j i then d else f j.
Definition cstep (ids : nat -> string) (st : (nat -> data) * list (string * nat)) (x : nat * label) : (nat -> data) * list (string * nat) :=
  let '(i, a) := x in
  let d := fst st i in
  (upd (fst st) i (carry d a),
   match a, cur d with o_l_written, Some k => (ids i, k) :: snd st | _, _ => snd st end).
Definition conn_run (ids : nat -> string) (tr : list (nat * label)) := fold_left (cstep ids) tr (fun _ => d0, []).
Definition conn_frames ids tr : list (string * nat) := rev (snd (conn_run ids tr)).     (* oldest first *)
Definition proj (i : nat) (tr : list (nat * label)) : list label := map snd (filter (fun x => Nat.eqb (fst x) i) tr).
