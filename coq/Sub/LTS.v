(* One subscription entry of the gateway as a labelled transition system (subscription_entry.go Listen / Close,
   queryer/subscribe.go closer and reader goroutines), after fixes 37671b5 and 21651f3:

     L   Listen            select { resp := <-respCh | <-closeCh }, handle + write, deferred close(queryerCloseCh)
     C   Close             select { closeCh <- {} | <-queryerCloseCh }            (spawned by stop / terminate / disconnect)
     U1  upstream closer   <-closeCh(= queryerCloseCh); conn.Close()
     U2  upstream reader   read; send(resp) = select { resCh <- resp | <-closeCh }; finally conn.Close(); send(nil)

   Channels are unbuffered: a send and a receive happen together (the t_* rendezvous steps, not observable); every
   goroutine reports what it did afterwards at its own pace (the o_* steps: these are the verif hook points).
   Generic channel rules are kept: closing a closed channel is a crash. No proofs here. *)
From Coq Require Import List Bool Arith.
Import ListNotations.

Inductive lpc := L_select | L_got_ev | L_handle | L_got_nil | L_got_close | L_defer | L_closed | L_end.
Inductive cpc := C_none | C_select | C_sent | C_late | C_end.
Inductive u1pc := U1_wait | U1_woke | U1_closed | U1_end.
Inductive u2pc := U2_read | U2_got | U2_gotend | U2_send | U2_sent | U2_defer | U2_sendnil | U2_nilsent | U2_nilabort | U2_end.

Record st := mk {
  l : lpc; c : cpc; u1 : u1pc; u2 : u2pc;
  qc_closed : bool;        (* queryerCloseCh closed *)
  upstream_open : bool;    (* the websocket connection to the owning service *)
  crashed : bool }.

Definition init := mk L_select C_none U1_wait U2_read false true false.

Inductive label :=
(* environment *)
| e_stop            (* the handler spawns go Close() (stop, terminate, disconnect, replaced id) *)
| e_drop            (* the owning service drops the connection *)
| t_u2_msg          (* a data / error message of the owning service reaches the reader *)
| t_u2_endmsg       (* complete / connection_error / a message the reader cannot decode reaches it *)
| o_l_writefail     (* writing the frame to the client failed *)
(* rendezvous and other steps that leave no mark of their own (a goroutine reports what it did afterwards) *)
| t_send_ev | t_send_nil | t_send_close | t_c_late | t_u1_wake | t_u1_close | t_u2_connclose | t_nil_abort | t_l_close
(* the goroutines' own steps *)
| o_l_resp | o_l_written | o_l_nil | o_l_close | o_l_closed
| o_c_sent | o_c_late_done
| o_u1_closed
| o_u2_read | o_u2_end_msg | o_u2_end_closed | o_u2_sent | o_u2_abort | o_u2_nilsent | o_u2_nilabort | o_u2_done.

Definition is_env (a : label) : bool :=
  match a with e_stop | e_drop | t_u2_msg | t_u2_endmsg | o_l_writefail => true | _ => false end.

Definition set_l s x := mk x (c s) (u1 s) (u2 s) (qc_closed s) (upstream_open s) (crashed s).
Definition set_c s x := mk (l s) x (u1 s) (u2 s) (qc_closed s) (upstream_open s) (crashed s).
Definition set_u1 s x := mk (l s) (c s) x (u2 s) (qc_closed s) (upstream_open s) (crashed s).
Definition set_u2 s x := mk (l s) (c s) (u1 s) x (qc_closed s) (upstream_open s) (crashed s).
Definition set_up s x := mk (l s) (c s) (u1 s) (u2 s) (qc_closed s) x (crashed s).
Definition close_qc s := if qc_closed s then mk (l s) (c s) (u1 s) (u2 s) true (upstream_open s) true   (* close of closed channel *)
                         else mk (l s) (c s) (u1 s) (u2 s) true (upstream_open s) (crashed s).

Definition in_select s := match l s with L_select => true | _ => false end.

Definition step (s : st) : list (label * st) :=
  if crashed s then [] else
  (* environment *)
  (match c s with C_none => [(e_stop, set_c s C_select)] | _ => [] end) ++
  (if upstream_open s then [(e_drop, set_up s false)] else []) ++
  (* Close *)
  (match c s with
   | C_select => (if in_select s then [(t_send_close, set_l (set_c s C_sent) L_got_close)] else []) ++
                 (if qc_closed s then [(t_c_late, set_c s C_late)] else [])
   | C_sent => [(o_c_sent, set_c s C_end)]
   | C_late => [(o_c_late_done, set_c s C_end)]
   | _ => [] end) ++
  (* upstream closer *)
  (match u1 s with
   | U1_wait => if qc_closed s then [(t_u1_wake, set_u1 s U1_woke)] else []
   | U1_woke => [(t_u1_close, set_u1 (set_up s false) U1_closed)]
   | U1_closed => [(o_u1_closed, set_u1 s U1_end)]
   | U1_end => [] end) ++
  (* upstream reader *)
  (match u2 s with
   | U2_read => if upstream_open s then [(t_u2_msg, set_u2 s U2_got); (t_u2_endmsg, set_u2 s U2_gotend)]
                else [(o_u2_end_closed, set_u2 s U2_defer)]
   | U2_got => [(o_u2_read, set_u2 s U2_send)]
   | U2_gotend => [(o_u2_end_msg, set_u2 s U2_defer)]
   | U2_send => (if in_select s then [(t_send_ev, set_l (set_u2 s U2_sent) L_got_ev)] else []) ++
                (if qc_closed s then [(o_u2_abort, set_u2 s U2_defer)] else [])
   | U2_sent => [(o_u2_sent, set_u2 s U2_read)]
   | U2_defer => [(t_u2_connclose, set_u2 (set_up s false) U2_sendnil)]
   | U2_sendnil => (if in_select s then [(t_send_nil, set_l (set_u2 s U2_nilsent) L_got_nil)] else []) ++
                   (if qc_closed s then [(t_nil_abort, set_u2 s U2_nilabort)] else [])
   | U2_nilsent => [(o_u2_nilsent, set_u2 s U2_end)]
   | U2_nilabort => [(o_u2_nilabort, set_u2 s U2_end)]
   | U2_end => [] end) ++
  (* Listen *)
  (match l s with
   | L_select => []
   | L_got_ev => [(o_l_resp, set_l s L_handle)]
   | L_handle => [(o_l_written, set_l s L_select); (o_l_writefail, set_l s L_defer)]
   | L_got_nil => [(o_l_nil, set_l s L_defer)]
   | L_got_close => [(o_l_close, set_l s L_defer)]
   | L_defer => [(t_l_close, set_l (close_qc s) L_closed)]
   | L_closed => [(o_l_closed, set_l s L_end)]
   | L_end => [] end).

Definition terminal (s : st) : bool :=
  match l s, c s, u1 s, u2 s with
  | L_end, (C_none | C_end), U1_end, U2_end => negb (upstream_open s)
  | _, _, _, _ => false end.

(* ---- what a run delivers: the data carried along a trace ----
   upstream events are numbered in emission order; held = the reader's message, cur = the one Listen is handling,
   out = frames written to the client (newest first) *)
Record data := mkD { next : nat; held : option nat; cur : option nat; out : list nat; lost : list nat }.
Definition d0 := mkD 0 None None [] [].
Definition carry (d : data) (a : label) : data :=
  match a with
  | o_u2_read => mkD (S (next d)) (Some (next d)) (cur d) (out d) (lost d)
  | t_send_ev => mkD (next d) None (held d) (out d) (lost d)
  | o_l_written => mkD (next d) (held d) None (match cur d with Some k => k :: out d | None => out d end) (lost d)
  | o_l_writefail => mkD (next d) (held d) None (out d) (match cur d with Some k => k :: lost d | None => lost d end)
  | o_u2_abort => mkD (next d) None (cur d) (out d) (match held d with Some k => k :: lost d | None => lost d end)
  | _ => d
  end.
Definition replay (tr : list label) : data := fold_left carry tr d0.

(* ---- runs ---- *)
Inductive run : st -> list label -> st -> Prop :=
| run_nil s : run s [] s
| run_step s tr s' a s'' : run s tr s' -> In (a, s'') (step s') -> run s (tr ++ [a]) s''.
