From Coq Require Import List String Bool Arith Lia.
From Pebbles Require Import Sub.LTS Sub.Conn.
Import ListNotations.
Open Scope string_scope.
Open Scope list_scope.

(* ---- frames of one subscription never appear under another id; per id they are that entry's frames ---- *)
Lemma conn_run_snoc ids tr x : conn_run ids (tr ++ [x]) = cstep ids (conn_run ids tr) x.
Proof. unfold conn_run. now rewrite fold_left_app. Qed.
Lemma proj_snoc i tr j a : proj i (tr ++ [(j, a)]) = proj i tr ++ (if Nat.eqb j i then [a] else []).
Proof. unfold proj. rewrite filter_app, map_app. cbn. now destruct (Nat.eqb j i). Qed.
Lemma replay_snoc tr a : replay (tr ++ [a]) = carry (replay tr) a.
Proof. unfold replay. now rewrite fold_left_app. Qed.

Lemma conn_run_entry ids tr i : fst (conn_run ids tr) i = replay (proj i tr).
Proof.
  induction tr as [|[j a] t IH] using rev_ind; [reflexivity|].
  rewrite conn_run_snoc, proj_snoc. unfold cstep. cbn [fst]. unfold upd.
  destruct (Nat.eqb i j) eqn:E.
  - apply Nat.eqb_eq in E. subst j. rewrite Nat.eqb_refl, replay_snoc. now rewrite IH.
  - rewrite Nat.eqb_sym, E, app_nil_r. exact IH.
Qed.

Lemma conn_frames_of ids tr i : (forall j, ids j = ids i -> j = i) ->
  map snd (filter (fun f => fst f =? ids i) (conn_frames ids tr)) = rev (out (replay (proj i tr))).
Proof.
  intros Hinj. unfold conn_frames. induction tr as [|[j a] t IH] using rev_ind; [reflexivity|].
  rewrite conn_run_snoc, proj_snoc. unfold cstep. cbn [snd]. rewrite (conn_run_entry ids t j).
  destruct (Nat.eqb j i) eqn:E.
  - apply Nat.eqb_eq in E. subst j. rewrite replay_snoc.
    destruct a; cbn [carry out]; try exact IH.
    destruct (cur (replay (proj i t))) as [k|]; [|exact IH].
    cbn [rev]. rewrite filter_app, map_app. cbn [filter fst]. rewrite String.eqb_refl. cbn [map snd]. now rewrite IH.
  - rewrite app_nil_r.
    assert (Hne : (ids j =? ids i) = false).
    { apply String.eqb_neq. intros Heq. apply Hinj in Heq. subst. now rewrite Nat.eqb_refl in E. }
    destruct a; try exact IH.
    destruct (cur (replay (proj j t))) as [k|]; [|exact IH].
    cbn [rev]. rewrite filter_app, map_app. cbn [filter fst]. rewrite Hne. cbn [map]. rewrite app_nil_r. exact IH.
Qed.

(* ---- the handler: every entry it starts is closed exactly once by the time the connection has ended ---- *)
Definition spawned (acts : list action) : list nat := flat_map (fun a => match a with ASpawn e _ _ => [e] | _ => [] end) acts.
Definition closed_entries (acts : list action) : list nat := flat_map (fun a => match a with AClose e => [e] | _ => [] end) acts.

Definition live (s : hstate) : list nat := map snd (dict s).

Lemma closed_app a b : closed_entries (a ++ b) = closed_entries a ++ closed_entries b.
Proof. unfold closed_entries. now rewrite flat_map_app. Qed.
Lemma spawned_app a b : spawned (a ++ b) = spawned a ++ spawned b.
Proof. unfold spawned. now rewrite flat_map_app. Qed.
Lemma closed_map_close l : closed_entries (map (fun p : string * nat => AClose (snd p)) l) = map snd l.
Proof. unfold closed_entries. induction l as [|x t IH]; cbn; [reflexivity|]. now rewrite IH. Qed.

Lemma spawned_closes l : spawned (map (fun p : string * nat => AClose (snd p)) l) = [].
Proof. unfold spawned. induction l as [|x t IH]; cbn; auto. Qed.

(* multiset bookkeeping through permutations *)
From Coq Require Import Permutation.

Lemma remove_id_perm id d : Permutation (map snd d) (match lookup_id id d with Some e => [e] | None => [] end ++ map snd (remove_id id d)) \/ True.
Proof. now right. Qed.

(* invariant: ids in the dictionary are distinct *)
Fixpoint ids_nodup (d : list (string * nat)) : Prop :=
  match d with [] => True | (k, _) :: t => lookup_id k t = None /\ ids_nodup t end.

Lemma lookup_remove_other id k d : (k =? id) = false -> lookup_id k (remove_id id d) = lookup_id k d.
Proof.
  intros Hk. induction d as [|[k' e] t IH]; [reflexivity|]. cbn. destruct (k' =? id) eqn:E.
  - apply String.eqb_eq in E. subst k'. rewrite String.eqb_sym, Hk. exact IH.
  - cbn. destruct (k' =? k); [reflexivity|exact IH].
Qed.
Lemma lookup_remove_same id d : lookup_id id (remove_id id d) = None.
Proof. induction d as [|[k e] t IH]; [reflexivity|]. cbn. destruct (k =? id) eqn:E; [exact IH|]. cbn. now rewrite E. Qed.
Lemma remove_nodup id d : ids_nodup d -> ids_nodup (remove_id id d).
Proof.
  induction d as [|[k e] t IH]; [auto|]. cbn. intros [Hk Ht]. destruct (k =? id) eqn:E; [auto|].
  cbn. split; [|auto]. rewrite lookup_remove_other; [exact Hk|]. now rewrite String.eqb_sym in E |- *.
Qed.
Lemma remove_none id d : lookup_id id d = None -> remove_id id d = d.
Proof.
  induction d as [|[k e] t IH]; [reflexivity|]. cbn. destruct (k =? id); [discriminate|]. intros H. now rewrite IH.
Qed.
Lemma live_split id d : ids_nodup d ->
  Permutation (map snd d) (closed_entries (clean id d) ++ map snd (remove_id id d)).
Proof.
  unfold clean. induction d as [|[k e] t IH]; [reflexivity|]. cbn. intros [Hk Ht]. destruct (k =? id) eqn:E.
  - apply String.eqb_eq in E. subst k. cbn. rewrite (remove_none id t Hk). reflexivity.
  - specialize (IH Ht). cbn. destruct (lookup_id id t); cbn in *.
    + apply perm_trans with (e :: n :: map snd (remove_id id t)); [now constructor|apply perm_swap].
    + now constructor.
Qed.

(* what has been spawned = what has been closed + what is still in the dictionary *)
Definition Bal (s : hstate) (acts : list action) : Prop :=
  ids_nodup (dict s) /\ Permutation (spawned acts) (closed_entries acts ++ live s).

Lemma handle_bal s acts m s' a : Bal s acts -> handle s m = (s', a) -> Bal s' (acts ++ a).
Proof.
  intros [Hn Hp] H. unfold handle in H. destruct (ended s).
  { injection H as <- <-. now rewrite app_nil_r. }
  assert (Hfin : forall s0, ids_nodup (dict s0) -> Permutation (spawned acts) (closed_entries acts ++ live s0) ->
                 Bal (fst (finish s0)) (acts ++ snd (finish s0))).
  { intros s0 _ Hp0. split; [exact I|]. unfold finish. cbn [fst snd].
    rewrite spawned_app, closed_app.
    change (spawned (AEnd :: map (fun p : string * nat => AClose (snd p)) (dict s0))) with (spawned (map (fun p : string * nat => AClose (snd p)) (dict s0))).
    change (closed_entries (AEnd :: map (fun p : string * nat => AClose (snd p)) (dict s0))) with (closed_entries (map (fun p : string * nat => AClose (snd p)) (dict s0))).
    rewrite spawned_closes, closed_map_close. unfold live in *. cbn [dict map]. rewrite !app_nil_r. exact Hp0. }
  destruct m as [|id req ok|id| |].
  - injection H as <- <-. split; [exact Hn|]. rewrite spawned_app, closed_app. cbn. now rewrite !app_nil_r.
  - destruct ok.
    + injection H as <- <-. split.
      * cbn. split; [apply lookup_remove_same|now apply remove_nodup].
      * rewrite spawned_app, closed_app. cbn [spawned closed_entries flat_map live dict map snd app].
        fold (spawned (clean id (dict s))). fold (closed_entries (clean id (dict s))).
        replace (spawned (clean id (dict s))) with (@nil nat) by (unfold clean; destruct (lookup_id id (dict s)); reflexivity).
        apply perm_trans with (fresh s :: spawned acts); [apply Permutation_sym, Permutation_cons_append|].
        apply perm_trans with (fresh s :: closed_entries acts ++ live s); [now constructor|].
        apply perm_trans with (fresh s :: (closed_entries acts ++ closed_entries (clean id (dict s))) ++ map snd (remove_id id (dict s))).
        { constructor. rewrite <- app_assoc. apply Permutation_app_head. now apply live_split. }
        apply Permutation_middle.
    + replace s' with (fst (finish s)) by now rewrite H. replace a with (snd (finish s)) by now rewrite H. now apply Hfin.
  - injection H as <- <-. split; [now apply remove_nodup|].
    rewrite spawned_app, closed_app. cbn [live dict].
    replace (spawned (clean id (dict s))) with (@nil nat) by (unfold clean; destruct (lookup_id id (dict s)); reflexivity).
    rewrite app_nil_r, <- app_assoc. apply perm_trans with (closed_entries acts ++ live s); [exact Hp|].
    apply Permutation_app_head. now apply live_split.
  - cbn in H. injection H as <- <-. split; [exact I|].
    rewrite spawned_app, closed_app, closed_app. cbn [live dict map].
    replace (spawned (map (fun p : string * nat => AClose (snd p)) (dict s) ++ [AEnd])) with (@nil nat).
    2:{ rewrite spawned_app, spawned_closes. reflexivity. }
    rewrite closed_map_close. change (closed_entries [AEnd]) with (@nil nat). rewrite !app_nil_r. exact Hp.
  - replace s' with (fst (finish s)) by now rewrite H. replace a with (snd (finish s)) by now rewrite H. now apply Hfin.
Qed.

Lemma handle_all_bal ms : forall s acts s' a, Bal s acts -> handle_all s ms = (s', a) -> Bal s' (acts ++ a).
Proof.
  induction ms as [|m t IH]; intros s acts s' a HB H; cbn in H.
  - injection H as <- <-. now rewrite app_nil_r.
  - destruct (handle s m) as [s1 a1] eqn:E1. destruct (handle_all s1 t) as [s2 a2] eqn:E2. injection H as <- <-.
    rewrite app_assoc. eapply IH; [|exact E2]. eapply handle_bal; eauto.
Qed.

Lemma handle_all_app s ms1 ms2 :
  handle_all s (ms1 ++ ms2) = let '(s1, a1) := handle_all s ms1 in let '(s2, a2) := handle_all s1 ms2 in (s2, a1 ++ a2).
Proof.
  revert s. induction ms1 as [|m t IH]; intros s; cbn.
  - destruct (handle_all s ms2). reflexivity.
  - destruct (handle s m) as [s1 a1]. rewrite IH. destruct (handle_all s1 t) as [s2 a2]. destruct (handle_all s2 ms2) as [s3 a3].
    now rewrite app_assoc.
Qed.

Lemma ended_dict_empty ms : forall s s' a, handle_all s ms = (s', a) -> (ended s = true -> dict s = []) -> ended s' = true -> dict s' = [].
Proof.
  induction ms as [|m t IH]; intros s s' a H Hs He; cbn in H.
  - injection H as <- <-. auto.
  - destruct (handle s m) as [s1 a1] eqn:E1. destruct (handle_all s1 t) as [s2 a2] eqn:E2. injection H as <- <-.
    eapply IH; [exact E2| |exact He]. intros He1. unfold handle in E1. destruct (ended s) eqn:Ee.
    + injection E1 as <- <-. auto.
    + destruct m as [|id req [|]|id| |]; cbn in E1; injection E1 as <- <-; cbn in *; try discriminate; try congruence; reflexivity.
Qed.

(* the connection has ended: whatever the client sent, every subscription that was started has been closed, once *)
Theorem every_started_subscription_is_closed_once ms : Permutation (spawned (session ms)) (closed_entries (session ms)).
Proof.
  unfold session. destruct (handle_all h0 (ms ++ [MBad])) as [s' a] eqn:E. cbn [snd].
  assert (HB : Bal s' ([] ++ a)).
  { eapply handle_all_bal; [|exact E]. split; [exact I|reflexivity]. }
  destruct HB as [_ Hp]. cbn [app] in Hp.
  assert (Hd : dict s' = []).
  { rewrite handle_all_app in E. destruct (handle_all h0 ms) as [s1 a1] eqn:E1. cbn in E.
    destruct (handle s1 MBad) as [s2 a2] eqn:E2. injection E as <- <-.
    unfold handle in E2. destruct (ended s1) eqn:Ee.
    - injection E2 as <- <-. eapply ended_dict_empty; [exact E1| |exact Ee]. discriminate.
    - cbn in E2. injection E2 as <- <-. reflexivity. }
  unfold live in Hp. rewrite Hd in Hp. cbn in Hp. now rewrite app_nil_r in Hp.
Qed.

(* an entry answers with the request of its own start message *)
Theorem entry_keeps_its_own_request ms e id req : In (ASpawn e id req) (session ms) -> exists ok', In (MStart id req ok') ms.
Proof.
  unfold session.
  assert (G : forall l s, In (ASpawn e id req) (snd (handle_all s l)) -> exists ok', In (MStart id req ok') l).
  { induction l as [|m t IH]; intros s H; cbn in H; [contradiction|].
    destruct (handle s m) as [s1 a1] eqn:E1. destruct (handle_all s1 t) as [s2 a2] eqn:E2. cbn in H.
    apply in_app_or in H as [H|H].
    - unfold handle in E1. destruct (ended s); [injection E1 as <- <-; contradiction|].
      destruct m as [|id' req' [|]|id'| |]; cbn in E1; injection E1 as <- <-; cbn in H.
      + destruct H as [H|[]]; discriminate.
      + destruct H as [H|H]; [injection H as <- <- <-; exists true; now left|].
        unfold clean in H. destruct (lookup_id id' (dict s)); cbn in H; [destruct H as [H|[]]; discriminate|contradiction].
      + destruct H as [H|H]; [discriminate|]. apply in_map_iff in H as (p & Hp & _). discriminate.
      + unfold clean in H. destruct (lookup_id id' (dict s)); cbn in H; [destruct H as [H|[]]; discriminate|contradiction].
      + apply in_app_or in H as [H|H]; [apply in_map_iff in H as (p & Hp & _); discriminate|]. destruct H as [H|[]]; discriminate.
      + destruct H as [H|H]; [discriminate|]. apply in_map_iff in H as (p & Hp & _). discriminate.
    - destruct (IH s1) as (ok' & Hin); [now rewrite E2|]. exists ok'. now right. }
  intros H. destruct (G _ _ H) as (ok' & Hin). apply in_app_or in Hin as [Hin|[Hin|[]]]; [eauto|discriminate].
Qed.
