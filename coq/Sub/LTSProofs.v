(* C17 / C18 on the subscription LTS: the reachable state space is finite and is enumerated inside Coq (closure
   checked by vm_compute, lifted to every run by induction); the data carried along a run is unbounded and is handled
   by an inductive invariant. *)
From Coq Require Import List Bool Arith Lia.
From Pebbles Require Import Sub.LTS.
Import ListNotations.

Scheme Equality for lpc.
Scheme Equality for cpc.
Scheme Equality for u1pc.
Scheme Equality for u2pc.

Definition st_eqb (a b : st) : bool :=
  lpc_beq (l a) (l b) && cpc_beq (c a) (c b) && u1pc_beq (u1 a) (u1 b) && u2pc_beq (u2 a) (u2 b) &&
  Bool.eqb (qc_closed a) (qc_closed b) && Bool.eqb (upstream_open a) (upstream_open b) && Bool.eqb (crashed a) (crashed b).

Lemma st_eqb_eq a b : st_eqb a b = true <-> a = b.
Proof.
  unfold st_eqb. split.
  - intros H. repeat (apply andb_prop in H as [H ?]).
    destruct a, b; cbn in *.
    apply internal_lpc_dec_bl in H. apply internal_cpc_dec_bl in H5. apply internal_u1pc_dec_bl in H4. apply internal_u2pc_dec_bl in H3.
    apply eqb_prop in H2, H1, H0. now subst.
  - intros ->. destruct b as [l0 c0 u10 u20 q o cr]; cbn.
    rewrite (internal_lpc_dec_lb l0 l0 eq_refl), (internal_cpc_dec_lb c0 c0 eq_refl), (internal_u1pc_dec_lb _ _ eq_refl), (internal_u2pc_dec_lb _ _ eq_refl), !eqb_reflx.
    reflexivity.
Qed.

(* ---- the shape of the carried data: is the reader holding a message, is Listen handling one, was anything lost ---- *)
Record shape := mkSh { sh_held : bool; sh_cur : bool; sh_lost : bool }.
Definition shape_of (d : data) : shape :=
  mkSh (match held d with Some _ => true | None => false end) (match cur d with Some _ => true | None => false end)
       (match lost d with [] => false | _ => true end).
Definition carry_shape (sh : shape) (a : label) : shape :=
  match a with
  | o_u2_read => mkSh true (sh_cur sh) (sh_lost sh)
  | t_send_ev => mkSh false (sh_held sh) (sh_lost sh)
  | o_l_written => mkSh (sh_held sh) false (sh_lost sh)
  | o_l_writefail => mkSh (sh_held sh) false (sh_lost sh || sh_cur sh)
  | o_u2_abort => mkSh false (sh_cur sh) (sh_lost sh || sh_held sh)
  | _ => sh
  end.
Lemma shape_carry d a : shape_of (carry d a) = carry_shape (shape_of d) a.
Proof. destruct d as [n h cu o lo]; destruct a; cbn; try reflexivity; destruct h, cu, lo; reflexivity. Qed.

Definition xst := (st * shape)%type.
Definition sh_eqb (a b : shape) := Bool.eqb (sh_held a) (sh_held b) && Bool.eqb (sh_cur a) (sh_cur b) && Bool.eqb (sh_lost a) (sh_lost b).
Definition xst_eqb (a b : xst) := st_eqb (fst a) (fst b) && sh_eqb (snd a) (snd b).
Lemma xst_eqb_eq a b : xst_eqb a b = true <-> a = b.
Proof.
  unfold xst_eqb, sh_eqb. destruct a as [s1 [h1 c1 l1]], b as [s2 [h2 c2 l2]]; cbn. split.
  - intros H. apply andb_prop in H as [H1 H2]. apply st_eqb_eq in H1. repeat (apply andb_prop in H2 as [H2 ?]).
    apply eqb_prop in H2, H0, H. now subst.
  - intros E. injection E as -> -> -> ->. rewrite (proj2 (st_eqb_eq s2 s2) eq_refl), !eqb_reflx. reflexivity.
Qed.

Definition xstep (x : xst) : list (label * xst) := map (fun p => (fst p, (snd p, carry_shape (snd x) (fst p)))) (step (fst x)).
Definition xmem (x : xst) (lst : list xst) : bool := existsb (xst_eqb x) lst.

Fixpoint add_new (cands seen : list xst) : list xst * list xst :=   (* (new ones, seen extended) *)
  match cands with
  | [] => ([], seen)
  | x :: t => if xmem x seen then add_new t seen
              else let '(n, s') := add_new t (x :: seen) in (x :: n, s')
  end.
Fixpoint explore (fuel : nat) (frontier seen : list xst) : list xst :=
  match fuel with
  | 0 => seen
  | S f => let '(new, seen') := add_new (flat_map (fun x => map snd (xstep x)) frontier) seen in
           match new with [] => seen' | _ => explore f new seen' end
  end.

Definition x0 : xst := (init, mkSh false false false).
Definition xstates : list xst := Eval vm_compute in explore 200 [x0] [x0].

Definition closed_under_steps : bool :=
  forallb (fun x => forallb (fun p => xmem (snd p) xstates) (xstep x)) xstates.
Lemma xstates_closed : closed_under_steps = true.
Proof. vm_compute. reflexivity. Qed.

Lemma xmem_In x lst : xmem x lst = true <-> In x lst.
Proof.
  unfold xmem. rewrite existsb_exists. split.
  - intros (y & Hy & E). apply xst_eqb_eq in E. now subst.
  - intros H. exists x. split; [exact H|]. now apply xst_eqb_eq.
Qed.

(* every run stays inside the enumerated set *)
Lemma run_in_xstates tr s : run init tr s -> In (s, shape_of (replay tr)) xstates.
Proof.
  intros R. remember init as s0 eqn:E0. induction R as [s|s tr s' a s'' R IH Hstep]; subst.
  - apply xmem_In. vm_compute. reflexivity.
  - specialize (IH eq_refl).
    pose proof xstates_closed as Hc. unfold closed_under_steps in Hc. rewrite forallb_forall in Hc.
    specialize (Hc _ IH). rewrite forallb_forall in Hc.
    unfold replay. rewrite fold_left_app. cbn [fold_left]. fold (replay tr). rewrite shape_carry.
    apply xmem_In. apply (Hc (a, (s'', carry_shape (shape_of (replay tr)) a))).
    unfold xstep. apply in_map_iff. exists (a, s''). split; [reflexivity|exact Hstep].
Qed.

Lemma all_xstates (P : xst -> bool) : forallb P xstates = true -> forall tr s, run init tr s -> P (s, shape_of (replay tr)) = true.
Proof. intros H tr s R. rewrite forallb_forall in H. apply H. now apply run_in_xstates. Qed.

(* ================= C18: safety ================= *)
Theorem never_crashes tr s : run init tr s -> crashed s = false.
Proof.
  intros R. apply (all_xstates (fun x => negb (crashed (fst x))) ltac:(vm_compute; reflexivity)) in R. cbn in R. now destruct (crashed s).
Qed.

(* ================= C18: progress and termination ================= *)
(* once a Close has been spawned, or the reader has left its loop, whatever state is reached is terminal or can move
   without any help from the environment *)
Definition teardown_started (s : st) : bool :=
  match c s with C_none => match u2 s with U2_read | U2_got | U2_send | U2_sent => false | _ => true end | _ => true end.
Definition can_move_alone (s : st) : bool := existsb (fun p => negb (is_env (fst p))) (step s).
Theorem teardown_never_stuck tr s : run init tr s -> teardown_started s = true -> terminal s = true \/ can_move_alone s = true.
Proof.
  intros R Ht.
  apply (all_xstates (fun x => negb (teardown_started (fst x)) || terminal (fst x) || can_move_alone (fst x)) ltac:(vm_compute; reflexivity)) in R.
  cbn [fst] in R. rewrite Ht in R. cbn in R. apply orb_prop in R. tauto.
Qed.

(* a rank that every step the system takes on its own decreases *)
Definition rank (s : st) : nat :=
  (match l s with L_select => 10 | L_got_ev => 14 | L_handle => 12 | L_got_nil => 9 | L_got_close => 8 | L_defer => 5 | L_closed => 2 | L_end => 0 end) +
  (match c s with C_none => 0 | C_select => 10 | C_sent => 5 | C_late => 5 | C_end => 0 end) +
  (match u1 s with U1_wait => 10 | U1_woke => 5 | U1_closed => 2 | U1_end => 0 end) +
  (match u2 s with U2_read => 20 | U2_got => 32 | U2_gotend => 18 | U2_send => 30 | U2_sent => 24 | U2_defer => 15 | U2_sendnil => 10 | U2_nilsent => 5 | U2_nilabort => 5 | U2_end => 0 end).
Definition own_steps_decrease (s : st) : bool :=
  forallb (fun p => is_env (fst p) || Nat.ltb (rank (snd p)) (rank s)) (step s).
Theorem own_steps_decrease_rank tr s a s' : run init tr s -> In (a, s') (step s) -> is_env a = false -> rank s' < rank s.
Proof.
  intros R Hin He.
  apply (all_xstates (fun x => own_steps_decrease (fst x)) ltac:(vm_compute; reflexivity)) in R. cbn [fst] in R.
  unfold own_steps_decrease in R. rewrite forallb_forall in R. specialize (R _ Hin). cbn [fst snd] in R.
  rewrite He in R. cbn in R. now apply Nat.ltb_lt.
Qed.

(* in a terminal state everything started for the subscription is gone and the upstream connection is closed *)
Lemma terminal_spec s : terminal s = true -> l s = L_end /\ u1 s = U1_end /\ u2 s = U2_end /\ upstream_open s = false /\ (c s = C_none \/ c s = C_end).
Proof. unfold terminal. destruct (l s), (c s), (u1 s), (u2 s), (upstream_open s); cbn; intros H; try discriminate; tauto. Qed.

(* ================= C17: what is delivered ================= *)
Definition pre (a : label) (sh : shape) : bool :=
  match a with
  | o_u2_read => negb (sh_held sh)
  | t_send_ev => sh_held sh && negb (sh_cur sh) && negb (sh_lost sh)
  | o_l_written => sh_cur sh && negb (sh_lost sh)
  | o_l_writefail => sh_cur sh && negb (sh_lost sh)
  | o_u2_abort => sh_held sh && negb (sh_cur sh)
  | _ => true
  end.
Lemma steps_meet_pre tr s a s' : run init tr s -> In (a, s') (step s) -> pre a (shape_of (replay tr)) = true.
Proof.
  intros R Hin.
  apply (all_xstates (fun x => forallb (fun p => pre (fst p) (snd x)) (step (fst x))) ltac:(vm_compute; reflexivity)) in R.
  cbn [fst snd] in R. rewrite forallb_forall in R. exact (R _ Hin).
Qed.

Definition olen (o : option nat) : nat := match o with Some _ => 1 | None => 0 end.
Definition NumInv (d : data) : Prop :=
  out d = rev (seq 0 (length (out d))) /\
  (forall k, cur d = Some k -> k = length (out d) /\ lost d = []) /\
  (forall k, held d = Some k -> k = length (out d) + olen (cur d) + length (lost d)) /\
  next d = length (out d) + olen (cur d) + olen (held d) + length (lost d).

Local Arguments seq : simpl never.
Local Arguments rev : simpl never.
Lemma NumInv_carry d a : NumInv d -> pre a (shape_of d) = true -> NumInv (carry d a).
Proof.
  intros HI Hp. destruct a; try exact HI; destruct HI as (I1 & I2 & I3 & I4); destruct d as [n h cu o lo]; cbn in *;
    unfold NumInv; cbn.
  - (* o_l_writefail *) destruct cu as [k|]; [|cbn in Hp; discriminate]. destruct lo; [|cbn in Hp; discriminate].
    destruct (I2 k eq_refl) as [-> _]. cbn in *.
    split; [exact I1|]. split; [intros k0 E; discriminate|]. split; [|lia].
    intros k0 E. specialize (I3 _ E). lia.
  - (* t_send_ev *) destruct h as [k|]; [|cbn in Hp; discriminate]. destruct cu; [cbn in Hp; discriminate|]. destruct lo; [|cbn in Hp; discriminate].
    specialize (I3 k eq_refl). cbn in *.
    split; [exact I1|]. split; [intros k0 E; injection E as <-; split; [lia|reflexivity]|]. split; [intros k0 E; discriminate|lia].
  - (* o_l_written *) destruct cu as [k|]; [|cbn in Hp; discriminate]. destruct lo; [|cbn in Hp; discriminate].
    destruct (I2 k eq_refl) as [-> _]. cbn in *.
    split; [rewrite seq_S, rev_app_distr; change (rev [0 + length o]) with [length o]; cbn [app]; now rewrite <- I1|]. split; [intros k0 E; discriminate|]. split; [|lia].
    intros k0 E. specialize (I3 _ E). lia.
  - (* o_u2_read *) destruct h; [cbn in Hp; discriminate|]. cbn in *.
    split; [exact I1|]. split; [exact I2|]. split; [|lia].
    intros k0 E. injection E as <-. lia.
  - (* o_u2_abort *) destruct h as [k|]; [|cbn in Hp; discriminate]. destruct cu; [cbn in Hp; discriminate|]. cbn in *.
    split; [exact I1|]. split; [intros k0 E; discriminate|]. split; [intros k0 E; discriminate|lia].
Qed.

Lemma run_NumInv tr s : run init tr s -> NumInv (replay tr).
Proof.
  intros R. remember init as s0 eqn:E0. induction R as [s|s tr s' a s'' R IH Hstep]; subst.
  - repeat split; cbn; auto; discriminate.
  - specialize (IH eq_refl). unfold replay. rewrite fold_left_app. cbn [fold_left]. fold (replay tr).
    apply NumInv_carry; [exact IH|]. eapply steps_meet_pre; eauto.
Qed.

(* the frames written for a subscription are, under every schedule, exactly the first events its upstream emitted,
   each once, in emission order *)
Theorem delivered_once_in_order tr s : run init tr s ->
  rev (out (replay tr)) = seq 0 (length (out (replay tr))).
Proof. intros R. destruct (run_NumInv _ _ R) as (I1 & _). rewrite I1 at 1. now rewrite rev_involutive. Qed.

(* ... and nothing is withheld: whenever Listen is back in its select and the reader is back at its read, every
   event emitted so far has been written *)
Theorem nothing_withheld tr s : run init tr s -> l s = L_select -> u2 s = U2_read ->
  length (out (replay tr)) = next (replay tr) /\ lost (replay tr) = [].
Proof.
  intros R Hl Hu. pose proof (run_NumInv _ _ R) as (_ & _ & _ & I4).
  apply (all_xstates (fun x => match l (fst x), u2 (fst x) with
                               | L_select, U2_read => negb (sh_held (snd x)) && negb (sh_cur (snd x)) && negb (sh_lost (snd x))
                               | _, _ => true end) ltac:(vm_compute; reflexivity)) in R.
  cbn [fst snd] in R. rewrite Hl, Hu in R. unfold shape_of in R. cbn in R.
  destruct (held (replay tr)), (cur (replay tr)), (lost (replay tr)) as [|x0 xs]; try discriminate. cbn in I4. split; [lia|reflexivity].
Qed.

(* an event is lost only to a subscription that is ending (Listen has left its loop) *)
Theorem lost_only_when_ending tr s : run init tr s -> lost (replay tr) <> [] -> l s = L_defer \/ l s = L_closed \/ l s = L_end.
Proof.
  intros R Hl.
  apply (all_xstates (fun x => negb (sh_lost (snd x)) || match l (fst x) with L_defer | L_closed | L_end => true | _ => false end) ltac:(vm_compute; reflexivity)) in R.
  cbn [fst snd] in R. unfold shape_of in R. cbn in R. destruct (lost (replay tr)) as [|x0 xs]; [contradiction|]. cbn in R. destruct (l s); try discriminate; tauto.
Qed.

(* ---- teardown completes: once it has started, the system's own steps run out within rank-many steps, and where
   they run out everything is gone ---- *)
Lemma run_app a t1 b : run a t1 b -> forall t2 c0, run b t2 c0 -> run a (t1 ++ t2) c0.
Proof.
  intros R1 t2 c0 R2. induction R2 as [s|s tr s' x s'' R IH Hs]; [now rewrite app_nil_r|].
  rewrite app_assoc. econstructor; [apply IH; exact R1|exact Hs].
Qed.

Lemma started_stays tr s a s' : run init tr s -> In (a, s') (step s) -> teardown_started s = true -> teardown_started s' = true.
Proof.
  intros R Hin Hs.
  apply (all_xstates (fun x => negb (teardown_started (fst x)) || forallb (fun p => teardown_started (snd p)) (step (fst x))) ltac:(vm_compute; reflexivity)) in R.
  cbn [fst] in R. rewrite Hs in R. cbn in R. rewrite forallb_forall in R. exact (R _ Hin).
Qed.

Theorem teardown_completes tr s : run init tr s -> teardown_started s = true ->
  forall tr' s', run s tr' s' -> forallb (fun a => negb (is_env a)) tr' = true ->
  length tr' + rank s' <= rank s /\ teardown_started s' = true /\ (can_move_alone s' = false -> terminal s' = true).
Proof.
  intros R Hs tr' s' R'. induction R' as [s|s tr1 s1 a s2 R1 IH Hstep]; intros Hown.
  - split; [cbn; lia|]. split; [exact Hs|]. intros Hc. destruct (teardown_never_stuck _ _ R Hs) as [Ht|Hm]; [exact Ht|congruence].
  - rewrite forallb_app in Hown. apply andb_prop in Hown as [Hown1 Ha]. cbn in Ha. rewrite andb_true_r in Ha.
    destruct (IH R Hs Hown1) as (Hlen & Hst & _).
    pose proof (run_app _ _ _ R _ _ R1) as R01.
    assert (Hdec : rank s2 < rank s1) by (eapply own_steps_decrease_rank; eauto; now destruct (is_env a)).
    assert (Hst2 : teardown_started s2 = true) by (eapply started_stays; eauto).
    split; [rewrite app_length; cbn; lia|]. split; [exact Hst2|].
    intros Hc. assert (R02 : run init ((tr ++ tr1) ++ [a]) s2) by (econstructor; eauto).
    destruct (teardown_never_stuck _ _ R02 Hst2) as [Ht|Hm]; [exact Ht|congruence].
Qed.

(* non-vacuity: a run that delivers two events, is stopped, and ends with everything gone *)
Definition demo_run : list label :=
  [t_u2_msg; o_u2_read; t_send_ev; o_u2_sent; o_l_resp; o_l_written; t_u2_msg; o_u2_read; t_send_ev; o_l_resp; o_l_written; o_u2_sent;
   e_stop; t_send_close; o_c_sent; o_l_close; t_l_close; o_l_closed; t_u1_wake; t_u1_close; o_u1_closed; o_u2_end_closed; t_u2_connclose; t_nil_abort; o_u2_nilabort].
Lemma label_eq_dec_aux (a b : label) : {a = b} + {a <> b}.
Proof. decide equality. Defined.
Fixpoint follow (s : st) (tr : list label) : option st :=
  match tr with
  | [] => Some s
  | a :: t => match find (fun p => if label_eq_dec_aux (fst p) a then true else false) (step s) with
              | Some p => follow (snd p) t | None => None end
  end.
Lemma follow_run tr : forall s s', follow s tr = Some s' -> run s tr s'.
Proof.
  induction tr as [|a t IH] using rev_ind; intros s s' H.
  - cbn in H. injection H as <-. constructor.
  - assert (G : forall l0 s0, follow s0 (l0 ++ [a]) = match follow s0 l0 with Some m => follow m [a] | None => None end).
    { induction l0 as [|x l0 IHl]; intros s0; [cbn; now destruct (find _ _)|]. cbn [app follow]. destruct (find _ (step s0)); [apply IHl|reflexivity]. }
    rewrite G in H. destruct (follow s t) as [m|] eqn:E; [|discriminate].
    cbn in H. destruct (find _ (step m)) as [[a' m']|] eqn:Ef; [|discriminate]. injection H as <-.
    apply find_some in Ef as [Hin Heq]. cbn in Heq. destruct (label_eq_dec_aux a' a); [subst|discriminate].
    econstructor; [apply IH; exact E|exact Hin].
Qed.
Example demo_is_a_run : exists s, run init demo_run s /\ terminal s = true /\ rev (out (replay demo_run)) = [0; 1].
Proof.
  destruct (follow init demo_run) as [s|] eqn:E; [|vm_compute in E; discriminate].
  exists s. split; [now apply follow_run|]. vm_compute in E. injection E as <-. split; vm_compute; reflexivity.
Qed.
