(* Model of merger/extend_merger.go (ExtendMergerFunc.Merge, mergeTypes, mergeRootObjects,
   mergeCustomObjects, mergeCustomObjectFields), merger/sanitize_node_merger.go and
   merger/type_url_map.go (SetFromSchema, Set, Get, GetTypeIsImplementsNode, GetURLs).
   No proofs in this file.

   Types are kept as their SDL rendering (e.g. "[Foo!]!"): the merger only ever compares them with
   "ID!" and "Node".  Go maps become association lists; where Go ranges over a map the result does not
   depend on the order except for WHICH error is reported when several types conflict, so the model
   returns all of them.  Applied directives on types are not modelled.  The final
   formatSchema + gqlparser.LoadSchema round trip is treated as the identity on accepted results
   (exercised by the correspondence check). *)
From Coq Require Import List String Bool Arith.
Import ListNotations.
Open Scope string_scope.
Open Scope list_scope.

Record arg := mkArg { a_name : string; a_type : string; a_default : option string }.
Record field := mkField { f_name : string; f_args : list arg; f_type : string }.
Inductive kind := KObject | KInterface | KUnion | KEnum | KScalar | KInput.
Record def := mkDef {
  d_kind : kind; d_name : string; d_desc : string;
  d_ifaces : list string; d_fields : list field; d_evalues : list string; d_utypes : list string }.
Definition schema := list def.

Definition kind_eqb (a b : kind) : bool :=
  match a, b with
  | KObject, KObject | KInterface, KInterface | KUnion, KUnion | KEnum, KEnum | KScalar, KScalar | KInput, KInput => true
  | _, _ => false end.

Definition mem (x : string) (l : list string) : bool := existsb (String.eqb x) l.

Definition is_builtin (s : string) : bool := String.prefix "__" s.      (* common.IsBuiltinName *)
Definition is_root (s : string) : bool := (s =? "Query") || (s =? "Mutation") || (s =? "Subscription").

Definition is_id_field (f : field) : bool :=                              (* isIDField *)
  (f_name f =? "id") && (match f_args f with [] => true | _ => false end) && (f_type f =? "ID!").
Definition is_node_field (f : field) : bool :=                            (* isNodeField *)
  negb (f_name f =? "Node") &&
  match f_args f with
  | [a] => (a_name a =? "id") && (a_type a =? "ID!") && (f_type f =? "Node")
  | _ => false end.
Definition implements_node (d : def) : bool := mem "Node" (d_ifaces d).   (* isImplementsNodeInterface *)

Fixpoint uniq (l : list string) (seen : list string) : list string :=     (* lo.Uniq, keeps first occurrences *)
  match l with
  | [] => []
  | x :: t => if mem x seen then uniq t seen else x :: uniq t (x :: seen)
  end.

Definition find_def (n : string) (s : schema) : option def := find (fun d => d_name d =? n) s.
Definition field_named (n : string) (fs : list field) : bool := existsb (fun f => f_name f =? n) fs.  (* FieldList.ForName <> nil *)

Inductive merr := ENameCollision | EUnionCollision | ENodeCollision | ERootOverlap | EOverlapNode | EOverlapPartial | ESignature.

Definition nl : string := String (Ascii.ascii_of_nat 10) EmptyString.
Definition merge_desc (a b : string) : string :=                          (* mergeDescriptions *)
  if a =? "" then b else if b =? "" then a else if a =? b then a else String.append b (String.append nl (String.append nl a)).

(* the Relay entry point, and the field of that name which is already there is one too *)
Definition node_there (f : field) (fields : list field) : bool :=
  is_node_field f && match find (fun r => f_name r =? f_name f) fields with Some rf => is_node_field rf | None => false end.

(* mergeRootObjects(a := the later input's root type, b := the accumulated one) *)
Fixpoint root_fields (acc_fields : list field) (fields : list field) : option (list field) :=
  match acc_fields with
  | [] => Some fields
  | f :: t =>
      if is_builtin (f_name f) then root_fields t fields
      (* since fix: the Relay entry point of an earlier service is kept when the later one has none (before: dropped
         whenever it came from the accumulated side, so `node` survived only if the LAST service declared it) *)
      else if node_there f fields then root_fields t fields
      else if field_named (f_name f) fields then None
      else root_fields t (fields ++ [f])
  end.

Definition merge_root (a b : def) : merr + def :=
  match root_fields (d_fields b) (d_fields a) with
  | None => inl ERootOverlap
  | Some fs => inr (mkDef KObject (d_name a) (merge_desc (d_desc a) (d_desc b)) (uniq (d_ifaces a ++ d_ifaces b) []) fs [] [])
  end.

(* mergeCustomObjectFields(a, b) *)
Fixpoint overlap_scan (mf : list field) (result : list field) (flags : list bool) : list field * list bool :=
  match mf with
  | [] => (result, flags)
  | f :: t => if is_id_field f then overlap_scan t result flags
              else overlap_scan t (result ++ [f]) (flags ++ [field_named (f_name f) result])
  end.

(* isSameFieldSignature: type, argument names, types and defaults *)
Definition opt_str_eqb (a b : option string) : bool :=
  match a, b with None, None => true | Some x, Some y => x =? y | _, _ => false end.
Definition same_sig (a b : field) : bool :=
  (f_type a =? f_type b) && Nat.eqb (List.length (f_args a)) (List.length (f_args b)) &&
  forallb (fun x => match find (fun y => a_name y =? a_name x) (f_args b) with
                    | Some y => (a_type x =? a_type y) && opt_str_eqb (a_default x) (a_default y)
                    | None => false end) (f_args a).
(* since the fix: the scan stops with an error at a field that is already there (FieldList.ForName: the first of that
   name) with another signature *)
Fixpoint sig_clash (mf : list field) (result : list field) : bool :=
  match mf with
  | [] => false
  | f :: t => (match find (fun r => f_name r =? f_name f) result with Some rf => negb (same_sig rf f) | None => false end)
              || (if is_id_field f then sig_clash t result else sig_clash t (result ++ [f]))
  end.

Definition mcf (a b : def) : merr + list field :=
  let result0 := filter (fun f => negb ((d_name a =? "Query") && is_node_field f)) (d_fields a) in
  let mf := filter (fun f => negb (is_builtin (f_name f))) (d_fields b) in
  if sig_clash mf result0 then inl ESignature else
  let '(result, flags) := overlap_scan mf result0 [] in
  let some := existsb (fun x => x) flags in
  let all := forallb (fun x => x) flags in
  if implements_node a && some then inl EOverlapNode
  else if some && negb all then inl EOverlapPartial
  else if all then inr result0
  else inr result.

(* mergeCustomObjects(a := later input's definition, b := accumulated) *)
Definition merge_custom (a b : def) : merr + def :=
  match mcf a b with
  | inl e => inl e
  | inr fs =>
      match mcf b a with
      | inl e => inl e
      | inr _ => inr (mkDef (d_kind a) (d_name a) (merge_desc (d_desc a) (d_desc b)) (uniq (d_ifaces a ++ d_ifaces b) [])
                           fs (uniq (d_evalues a ++ d_evalues b) []) (uniq (d_utypes a ++ d_utypes b) []))
      end
  end.

Definition set_eq (a b : list string) : bool := forallb (fun x => mem x b) a && forallb (fun x => mem x a) b.

Inductive action := Keep | Put (d : def) | Fail (e : merr).

(* the body of the loop in mergeTypes for one type of the later input that already exists *)
Definition merge_def (va nvb : def) : action :=
  if d_name nvb =? "Node" then Keep
  else if negb (kind_eqb (d_kind nvb) (d_kind va)) then Fail ENameCollision
  else match d_kind nvb with
  | KScalar => Put nvb
  | KUnion => if set_eq (d_utypes va) (d_utypes nvb) then Keep else Fail EUnionCollision
  | _ =>
      if negb (Bool.eqb (implements_node nvb) (implements_node va)) then Fail ENodeCollision
      else match (if is_root (d_name nvb) then merge_root nvb va else merge_custom nvb va) with
           | inl e => Fail e
           | inr d => Put d
           end
  end.

Fixpoint replace_def (d : def) (s : schema) : schema :=
  match s with
  | [] => []
  | x :: t => if d_name x =? d_name d then d :: t else x :: replace_def d t
  end.

(* mergeTypes(a := accumulated, b := later input): all errors, and the result when there is none *)
Fixpoint merge_types_go (acc : schema) (new : list def) (result : schema) (errs : list merr) : schema * list merr :=
  match new with
  | [] => (result, errs)
  | nvb :: t =>
      if is_builtin (d_name nvb) then merge_types_go acc t result errs
      else match find_def (d_name nvb) acc with
           | None => merge_types_go acc t (result ++ [nvb]) errs
           | Some va =>
               match merge_def va nvb with
               | Keep => merge_types_go acc t result errs
               | Put d => merge_types_go acc t (replace_def d result) errs
               | Fail e => merge_types_go acc t result (errs ++ [e])
               end
           end
  end.

Definition merge_types (acc new : schema) : schema * list merr := merge_types_go acc new acc [].

(* ---- TypeURLMap ---- *)
Record tprops := mkTP { tp_node : bool; tp_fields : list (string * string) }.
Definition tmap := list (string * tprops).

Fixpoint upsert {V} (k : string) (f : option V -> V) (l : list (string * V)) : list (string * V) :=
  match l with
  | [] => [(k, f None)]
  | (k', v) :: t => if k' =? k then (k', f (Some v)) :: t else (k', v) :: upsert k f t
  end.
Definition lookup {V} (k : string) (l : list (string * V)) : option V :=
  match find (fun p => fst p =? k) l with Some p => Some (snd p) | None => None end.

Definition tm_set (tm : tmap) (ty fld url : string) : tmap :=               (* TypeURLMap.Set *)
  if fld =? "id" then tm
  else upsert ty (fun o => match o with
                           | None => mkTP false [(fld, url)]
                           | Some p => mkTP (tp_node p) (upsert fld (fun _ => url) (tp_fields p)) end) tm.
Definition tm_set_node (tm : tmap) (ty : string) : tmap :=                  (* SetTypeIsImplementsNode *)
  upsert ty (fun o => match o with None => mkTP true [] | Some p => mkTP true (tp_fields p) end) tm.
Definition tm_get (tm : tmap) (ty fld : string) : option string :=          (* Get *)
  match lookup ty tm with Some p => lookup fld (tp_fields p) | None => None end.
Definition tm_is_node (tm : tmap) (ty : string) : option bool :=            (* GetTypeIsImplementsNode *)
  match lookup ty tm with Some p => Some (tp_node p) | None => None end.
Definition tm_urls (tm : tmap) : list string :=                             (* GetURLs, as a duplicate-free list *)
  uniq (flat_map (fun e => map snd (tp_fields (snd e))) tm) [].

Definition routable (f : field) : bool := negb (is_builtin (f_name f)) && negb (is_node_field f).

Definition tm_set_def (url : string) (tm : tmap) (d : def) : tmap :=
  match d_kind d with
  | KObject =>
      if is_builtin (d_name d) then tm
      else
        let tm1 := if implements_node d then tm_set_node tm (d_name d) else tm in
        fold_left (fun m f => if routable f then tm_set m (d_name d) (f_name f) url else m) (d_fields d) tm1
  | _ => tm
  end.
Definition tm_set_from_schema (tm : tmap) (s : schema) (url : string) : tmap :=   (* SetFromSchema *)
  fold_left (tm_set_def url) s tm.

(* ---- Merge ---- *)
Definition input := (string * schema)%type.     (* (URL, service schema) *)

Inductive merge_result := MNoInputs | MErr (es : list merr) | MOk (types : schema) (tm : tmap).

Fixpoint merge_loop (acc : schema) (tm : tmap) (rest : list input) : merge_result :=
  match rest with
  | [] => MOk acc tm
  | (url, s) :: t =>
      match merge_types acc s with
      | (res, []) => merge_loop res (tm_set_from_schema tm s url) t
      | (_, es) => MErr es
      end
  end.

Definition merge (inputs : list input) : merge_result :=                     (* ExtendMergerFunc.Merge *)
  match inputs with
  | [] => MNoInputs
  | (url, s) :: t => merge_loop s (tm_set_from_schema [] s url) t
  end.

(* SanitizeNodeMergerFunc.Merge: drop Query.node from the result *)
Definition hide_node (s : schema) : schema :=
  map (fun d => if d_name d =? "Query"
                then mkDef (d_kind d) (d_name d) (d_desc d) (d_ifaces d) (filter (fun f => negb (f_name f =? "node")) (d_fields d)) (d_evalues d) (d_utypes d)
                else d) s.
Definition merge_sanitized (inputs : list input) : merge_result :=
  match merge inputs with MOk t tm => MOk (hide_node t) tm | r => r end.

(* ---- planner/context.go: PlanningContext.GetURL — how the planner reads the routing table ---- *)
Definition internal_service : string := "%#!".                 (* common.InternalServiceName *)
Inductive route := RUrl (u : string) | RNoType | RNoField.
Definition get_url (tm : tmap) (ty fld fb : string) : route :=
  if is_builtin fld then RUrl fb
  else match tm_is_node tm ty with
       | None => RNoType
       | Some n =>
           if negb n && negb (fb =? internal_service) && negb (is_root ty) then RUrl fb
           else match tm_get tm ty fld with Some u => RUrl u | None => RNoField end
       end.
