(* C04: the routing table is "last declarer wins" over exactly the routable fields of the object types of the inputs. *)
From Coq Require Import List String Bool Arith Lia.
From Pebbles Require Import Merge.Model.
Import ListNotations.
Open Scope string_scope.
Open Scope list_scope.

(* ---- association lists ---- *)
Lemma lookup_upsert {V} k k' (f : option V -> V) l :
  lookup k (upsert k' f l) = if k' =? k then Some (f (lookup k' l)) else lookup k l.
Proof.
  unfold lookup. induction l as [|[k0 v] l IH]; simpl.
  - destruct (k' =? k) eqn:E; reflexivity.
  - destruct (k0 =? k') eqn:E0; simpl.
    + apply String.eqb_eq in E0. subst k0.
      destruct (k' =? k) eqn:E; reflexivity.
    + destruct (k0 =? k) eqn:E1.
      * destruct (k' =? k) eqn:E; [|reflexivity].
        apply String.eqb_eq in E. apply String.eqb_eq in E1. subst. rewrite String.eqb_refl in E0. discriminate.
      * exact IH.
Qed.

(* ---- the table as a sequence of operations ---- *)
Inductive op := OSet (ty fld url : string) | ONode (ty : string).

Definition apply1 (tm : tmap) (o : op) : tmap :=
  match o with OSet t f u => tm_set tm t f u | ONode t => tm_set_node tm t end.
Definition apply_ops (tm : tmap) (ops : list op) : tmap := fold_left apply1 ops tm.

Definition def_ops (url : string) (d : def) : list op :=
  match d_kind d with
  | KObject =>
      if is_builtin (d_name d) then []
      else (if implements_node d then [ONode (d_name d)] else []) ++
           map (fun f => OSet (d_name d) (f_name f) url) (filter routable (d_fields d))
  | _ => []
  end.
Definition schema_ops (url : string) (s : schema) : list op := flat_map (def_ops url) s.
Definition all_ops (inputs : list input) : list op := flat_map (fun i => schema_ops (fst i) (snd i)) inputs.

Lemma apply_ops_app tm a b : apply_ops tm (a ++ b) = apply_ops (apply_ops tm a) b.
Proof. unfold apply_ops. apply fold_left_app. Qed.

Lemma fields_fold url T fs tm :
  fold_left (fun m f => if routable f then tm_set m T (f_name f) url else m) fs tm =
  apply_ops tm (map (fun f => OSet T (f_name f) url) (filter routable fs)).
Proof.
  revert tm. induction fs as [|f fs IH]; intros tm; cbn [fold_left filter]; [reflexivity|].
  destruct (routable f); cbn [map]; rewrite IH; reflexivity.
Qed.

Lemma tm_set_def_ops url tm d : tm_set_def url tm d = apply_ops tm (def_ops url d).
Proof.
  unfold tm_set_def, def_ops. destruct (d_kind d); try reflexivity.
  destruct (is_builtin (d_name d)); [reflexivity|].
  rewrite fields_fold. destruct (implements_node d); reflexivity.
Qed.

Lemma set_from_schema_ops tm s url : tm_set_from_schema tm s url = apply_ops tm (schema_ops url s).
Proof.
  unfold tm_set_from_schema, schema_ops. revert tm. induction s as [|d s IH]; intros tm; cbn [fold_left flat_map]; [reflexivity|].
  rewrite apply_ops_app, <- tm_set_def_ops. apply IH.
Qed.

Definition tm_of (inputs : list input) : tmap :=
  fold_left (fun tm i => tm_set_from_schema tm (snd i) (fst i)) inputs [].

Lemma tm_of_ops_gen inputs tm :
  fold_left (fun tm i => tm_set_from_schema tm (snd i) (fst i)) inputs tm = apply_ops tm (all_ops inputs).
Proof.
  revert tm. induction inputs as [|i inputs IH]; intros tm; cbn [fold_left all_ops flat_map]; [reflexivity|].
  rewrite apply_ops_app, <- set_from_schema_ops. apply IH.
Qed.
Lemma tm_of_ops inputs : tm_of inputs = apply_ops [] (all_ops inputs).
Proof. apply tm_of_ops_gen. Qed.

(* ---- reading the table ---- *)
Lemma tm_get_set tm T f u T' f' :
  tm_get (tm_set tm T f u) T' f' =
    if f =? "id" then tm_get tm T' f'
    else if (T =? T') && (f =? f') then Some u else tm_get tm T' f'.
Proof.
  unfold tm_set, tm_get. destruct (f =? "id"); [reflexivity|].
  rewrite lookup_upsert. destruct (T =? T') eqn:ET; cbn [andb].
  - apply String.eqb_eq in ET. subst T'. destruct (lookup T tm) as [p|]; cbn [tp_fields].
    + rewrite lookup_upsert. destruct (f =? f'); reflexivity.
    + unfold lookup. cbn [find fst snd]. destruct (f =? f'); reflexivity.
  - reflexivity.
Qed.

Lemma tm_get_set_node tm T T' f' : tm_get (tm_set_node tm T) T' f' = tm_get tm T' f'.
Proof.
  unfold tm_set_node, tm_get. rewrite lookup_upsert. destruct (T =? T') eqn:ET; [|reflexivity].
  apply String.eqb_eq in ET. subst T'. destruct (lookup T tm) as [p|]; reflexivity.
Qed.

Definition op_sets (T f : string) (o : op) : option string :=
  match o with
  | OSet t g u => if negb (g =? "id") && (t =? T) && (g =? f) then Some u else None
  | ONode _ => None end.

(* last writer among the operations *)
Fixpoint last_set (T f : string) (ops : list op) : option string :=
  match ops with
  | [] => None
  | o :: t => match last_set T f t with Some u => Some u | None => op_sets T f o end
  end.

Lemma tm_get_apply T f ops : forall tm,
  tm_get (apply_ops tm ops) T f = match last_set T f ops with Some u => Some u | None => tm_get tm T f end.
Proof.
  induction ops as [|o ops IH]; intros tm; cbn [apply_ops fold_left last_set]; [reflexivity|].
  change (fold_left apply1 ops (apply1 tm o)) with (apply_ops (apply1 tm o) ops). rewrite IH.
  destruct (last_set T f ops) as [u|]; [reflexivity|].
  destruct o as [t g u|t]; cbn [apply1 op_sets].
  - rewrite tm_get_set. destruct (g =? "id"); cbn [negb andb]; [reflexivity|].
    destruct ((t =? T) && (g =? f)); reflexivity.
  - apply tm_get_set_node.
Qed.

Theorem route_is_last_writer inputs T f : tm_get (tm_of inputs) T f = last_set T f (all_ops inputs).
Proof. rewrite tm_of_ops, tm_get_apply. destruct (last_set T f (all_ops inputs)); reflexivity. Qed.

(* ---- what the operations are ---- *)
(* service schema [s] declares routable field [f] on object type [T] *)
Definition declares (s : schema) (T f : string) : Prop :=
  exists d fld, In d s /\ d_kind d = KObject /\ is_builtin (d_name d) = false /\ d_name d = T /\
                In fld (d_fields d) /\ routable fld = true /\ f_name fld = f /\ f <> "id".

Lemma last_set_in T f ops u : last_set T f ops = Some u -> exists o, In o ops /\ op_sets T f o = Some u.
Proof.
  induction ops as [|o ops IH]; cbn [last_set]; [discriminate|].
  destruct (last_set T f ops) as [u'|].
  - intros H. inversion H; subst. destruct (IH eq_refl) as (o' & Hin & Ho). exists o'. split; [now right|exact Ho].
  - intros H. exists o. split; [now left|exact H].
Qed.

Lemma last_set_some T f ops o u : In o ops -> op_sets T f o = Some u -> exists u', last_set T f ops = Some u'.
Proof.
  induction ops as [|o' ops IH]; cbn [In last_set]; [tauto|].
  intros [->|Hin] Ho.
  - destruct (last_set T f ops); eauto.
  - destruct (IH Hin Ho) as [u' ->]. eauto.
Qed.

Lemma in_all_ops_set inputs T f u :
  In (OSet T f u) (all_ops inputs) <->
  exists s, In (u, s) inputs /\ exists d fld, In d s /\ d_kind d = KObject /\ is_builtin (d_name d) = false /\ d_name d = T /\
            In fld (d_fields d) /\ routable fld = true /\ f_name fld = f.
Proof.
  unfold all_ops, schema_ops. rewrite in_flat_map. split.
  - intros ([u0 s] & Hi & Hin). cbn [fst snd] in Hin. apply in_flat_map in Hin as (d & Hd & Hop).
    unfold def_ops in Hop. destruct (d_kind d) eqn:K; try contradiction.
    destruct (is_builtin (d_name d)) eqn:B; [contradiction|].
    apply in_app_or in Hop as [Hop|Hop].
    + destruct (implements_node d); [|contradiction]. destruct Hop as [Hop|[]]. discriminate.
    + apply in_map_iff in Hop as (fld & Heq & Hf). inversion Heq; subst. apply filter_In in Hf as [Hf Hr].
      exists s. split; [exact Hi|]. exists d, fld. repeat split; auto.
  - intros (s & Hi & d & fld & Hd & K & B & Hn & Hf & Hr & Hfn).
    exists (u, s). split; [exact Hi|]. cbn [fst snd]. apply in_flat_map. exists d. split; [exact Hd|].
    unfold def_ops. rewrite K, B. apply in_or_app. right. apply in_map_iff. exists fld. subst. split; [reflexivity|].
    apply filter_In. auto.
Qed.

(* soundness: a route always names a service whose schema declares that field on that type *)
Theorem route_sound inputs T f u :
  tm_get (tm_of inputs) T f = Some u -> exists s, In (u, s) inputs /\ declares s T f.
Proof.
  rewrite route_is_last_writer. intros H. apply last_set_in in H as (o & Hin & Ho).
  destruct o as [t g u0|t]; cbn [op_sets] in Ho; [|discriminate].
  destruct (g =? "id") eqn:Eid; cbn [negb andb] in Ho; [discriminate|].
  destruct (t =? T) eqn:Et; cbn [andb] in Ho; [|discriminate].
  destruct (g =? f) eqn:Eg; [|discriminate]. inversion Ho; subst u0.
  apply String.eqb_eq in Et. apply String.eqb_eq in Eg. subst t g.
  apply in_all_ops_set in Hin as (s & Hi & d & fld & Hd & K & B & Hn & Hf & Hr & Hfn).
  exists s. split; [exact Hi|]. exists d, fld. repeat split; auto.
  intro E. subst f. rewrite E in Eid. discriminate.
Qed.

(* totality: every routable non-id field of every object type of every service has a route *)
Theorem route_total inputs u s T f :
  In (u, s) inputs -> declares s T f -> exists u', tm_get (tm_of inputs) T f = Some u'.
Proof.
  intros Hi (d & fld & Hd & K & B & Hn & Hf & Hr & Hfn & Hid).
  rewrite route_is_last_writer.
  apply (last_set_some T f _ (OSet T f u) u).
  - apply in_all_ops_set. exists s. split; [exact Hi|]. exists d, fld. repeat split; auto.
  - cbn [op_sets]. assert (E : (f =? "id") = false) by (apply String.eqb_neq; exact Hid).
    rewrite E, !String.eqb_refl. reflexivity.
Qed.

(* a field declared by exactly one service is routed to that service *)
Theorem route_unique_owner inputs u s T f :
  In (u, s) inputs -> declares s T f ->
  (forall u' s', In (u', s') inputs -> declares s' T f -> u' = u) ->
  tm_get (tm_of inputs) T f = Some u.
Proof.
  intros Hi Hd Huniq. destruct (route_total inputs u s T f Hi Hd) as [u' Hu'].
  destruct (route_sound inputs T f u' Hu') as (s' & Hi' & Hd'). rewrite Hu'. f_equal. eauto.
Qed.

(* ---- the stitchable-by-id flag ---- *)
Lemma tm_is_node_set tm T f u T' :
  tm_is_node (tm_set tm T f u) T' =
    if f =? "id" then tm_is_node tm T'
    else if T =? T' then Some (match tm_is_node tm T with Some b => b | None => false end) else tm_is_node tm T'.
Proof.
  unfold tm_set, tm_is_node. destruct (f =? "id"); [reflexivity|].
  rewrite lookup_upsert. destruct (T =? T') eqn:ET; [|reflexivity].
  destruct (lookup T tm) as [p|]; reflexivity.
Qed.
Lemma tm_is_node_set_node tm T T' :
  tm_is_node (tm_set_node tm T) T' = if T =? T' then Some true else tm_is_node tm T'.
Proof.
  unfold tm_set_node, tm_is_node. rewrite lookup_upsert. destruct (T =? T'); [|reflexivity].
  destruct (lookup T tm); reflexivity.
Qed.

Definition marks (T : string) (o : op) : bool := match o with ONode t => t =? T | _ => false end.
Definition touches (T : string) (o : op) : bool :=
  match o with ONode t => t =? T | OSet t g _ => negb (g =? "id") && (t =? T) end.

Lemma is_node_apply T ops : forall tm,
  tm_is_node (apply_ops tm ops) T =
    match tm_is_node tm T with
    | Some b => Some (b || existsb (marks T) ops)
    | None => if existsb (touches T) ops then Some (existsb (marks T) ops) else None
    end.
Proof.
  induction ops as [|o ops IH]; intros tm; cbn [apply_ops fold_left existsb].
  - destruct (tm_is_node tm T) as [b|]; [now rewrite orb_false_r|reflexivity].
  - change (fold_left apply1 ops (apply1 tm o)) with (apply_ops (apply1 tm o) ops). rewrite IH.
    destruct o as [t g u|t]; cbn [apply1 marks touches].
    + rewrite tm_is_node_set. destruct (g =? "id"); cbn [negb andb orb]; [reflexivity|].
      destruct (t =? T) eqn:Et; cbn [orb].
      * apply String.eqb_eq in Et. subst t. destruct (tm_is_node tm T) as [b|]; reflexivity.
      * reflexivity.
    + rewrite tm_is_node_set_node. destruct (t =? T) eqn:Et; cbn [orb].
      * destruct (tm_is_node tm T) as [b|]; [now rewrite orb_true_r|reflexivity].
      * reflexivity.
Qed.

(* some service declares object type T as implementing Node *)
Definition node_object (inputs : list input) (T : string) : Prop :=
  exists u s d, In (u, s) inputs /\ In d s /\ d_kind d = KObject /\ is_builtin (d_name d) = false /\
                d_name d = T /\ implements_node d = true.

Lemma in_all_ops_node inputs T :
  In (ONode T) (all_ops inputs) <-> node_object inputs T.
Proof.
  unfold all_ops, schema_ops, node_object. rewrite in_flat_map. split.
  - intros ([u s] & Hi & Hin). cbn [fst snd] in Hin. apply in_flat_map in Hin as (d & Hd & Hop).
    unfold def_ops in Hop. destruct (d_kind d) eqn:K; try contradiction.
    destruct (is_builtin (d_name d)) eqn:B; [contradiction|].
    apply in_app_or in Hop as [Hop|Hop].
    + destruct (implements_node d) eqn:N; [|contradiction]. destruct Hop as [Hop|[]]. inversion Hop; subst.
      exists u, s, d. repeat split; auto.
    + apply in_map_iff in Hop as (fld & Heq & _). discriminate.
  - intros (u & s & d & Hi & Hd & K & B & Hn & N).
    exists (u, s). split; [exact Hi|]. cbn [fst snd]. apply in_flat_map. exists d. split; [exact Hd|].
    unfold def_ops. rewrite K, B, N. subst. now left.
Qed.

Theorem node_flag_iff inputs T :
  tm_is_node (tm_of inputs) T = Some true <-> node_object inputs T.
Proof.
  rewrite tm_of_ops, is_node_apply. cbn. rewrite <- in_all_ops_node.
  destruct (existsb (touches T) (all_ops inputs)) eqn:Et.
  - split.
    + intros H. inversion H as [Hm]. apply existsb_exists in Hm as (o & Hin & Ho).
      destruct o as [|t]; cbn in Ho; [discriminate|]. apply String.eqb_eq in Ho. now subst.
    + intros Hin. f_equal. apply existsb_exists. exists (ONode T). split; [exact Hin|]. cbn. apply String.eqb_refl.
  - split; [discriminate|]. intros Hin. exfalso.
    assert (existsb (touches T) (all_ops inputs) = true); [|congruence].
    apply existsb_exists. exists (ONode T). split; [exact Hin|]. cbn. apply String.eqb_refl.
Qed.

(* ---- the set of routed services ---- *)
Lemma mem_In x l : mem x l = true <-> In x l.
Proof.
  unfold mem. rewrite existsb_exists. split.
  - intros (y & Hin & E). apply String.eqb_eq in E. now subst.
  - intros H. exists x. split; [exact H|apply String.eqb_refl].
Qed.

Lemma uniq_In l : forall seen x, In x (uniq l seen) <-> (In x l /\ ~ In x seen).
Proof.
  induction l as [|y l IH]; intros seen x; cbn [uniq].
  - cbn. tauto.
  - destruct (mem y seen) eqn:M.
    + rewrite IH. apply mem_In in M. cbn [In]. split.
      * intros [H1 H2]. split; auto.
      * intros [[->|H1] H2]; [contradiction|auto].
    + assert (~ In y seen) as Hn. { intro H. apply mem_In in H. congruence. }
      cbn [In]. rewrite IH. cbn [In]. split.
      * intros [->|[H1 H2]]; [split; auto|split; auto]. 
      * intros [[->|H1] H2]; [now left|]. destruct (String.eqb_spec y x); [now left|]. right. split; auto.
        intros [E|H]; [congruence|contradiction].
Qed.

Lemma lookup_In {V} k (l : list (string * V)) v : lookup k l = Some v -> In (k, v) l.
Proof.
  unfold lookup. destruct (find (fun p => fst p =? k) l) as [[k' v']|] eqn:F; [|discriminate].
  intros H. inversion H; subst. apply find_some in F as [Hin E]. cbn in E. apply String.eqb_eq in E. now subst.
Qed.

(* ---- well-formedness of the table (unique keys) and GetURLs ---- *)
Lemma upsert_keys {V} k (f : option V -> V) l :
  map fst (upsert k f l) = if mem k (map fst l) then map fst l else map fst l ++ [k].
Proof.
  induction l as [|[k0 v] l IH]; simpl; [reflexivity|].
  rewrite (String.eqb_sym k k0). destruct (k0 =? k) eqn:E; simpl; [reflexivity|].
  rewrite IH. unfold mem. destruct (existsb (String.eqb k) (map fst l)); reflexivity.
Qed.

Lemma nodup_snoc {A} (l : list A) x : NoDup l -> ~ In x l -> NoDup (l ++ [x]).
Proof.
  induction l as [|y l IH]; intros Hn Hx; cbn; [constructor; [tauto|constructor]|].
  inversion Hn; subst. constructor.
  - intro Hin. apply in_app_or in Hin as [Hin|[->|[]]]; [contradiction|]. apply Hx. now left.
  - apply IH; auto. intro. apply Hx. now right.
Qed.

Lemma upsert_nodup {V} k (f : option V -> V) l : NoDup (map fst l) -> NoDup (map fst (upsert k f l)).
Proof.
  intros H. rewrite upsert_keys. destruct (mem k (map fst l)) eqn:M; [exact H|].
  apply nodup_snoc; [exact H|]. intro Hin. apply mem_In in Hin. congruence.
Qed.

Lemma lookup_of_In {V} k (l : list (string * V)) v : NoDup (map fst l) -> In (k, v) l -> lookup k l = Some v.
Proof.
  unfold lookup. induction l as [|[k0 v0] l IH]; simpl; intros Hn Hin; [contradiction|].
  inversion Hn; subst. destruct Hin as [H|H].
  - inversion H; subst. now rewrite String.eqb_refl.
  - destruct (k0 =? k) eqn:E.
    + apply String.eqb_eq in E. subst k0. exfalso. apply H1. apply in_map_iff. exists (k, v). auto.
    + apply IH; auto.
Qed.

Definition wf_tm (tm : tmap) : Prop :=
  NoDup (map fst tm) /\ forall T p, lookup T tm = Some p -> NoDup (map fst (tp_fields p)).

Lemma wf_tm_nil : wf_tm [].
Proof. split; [constructor|]. intros T p H. discriminate. Qed.

Lemma wf_tm_set tm T f u : wf_tm tm -> wf_tm (tm_set tm T f u).
Proof.
  intros [H1 H2]. unfold tm_set. destruct (f =? "id"); [split; auto|].
  split; [apply upsert_nodup; exact H1|].
  intros T' p Hl. rewrite lookup_upsert in Hl. destruct (T =? T') eqn:E.
  - inversion Hl; subst. destruct (lookup T tm) as [p0|] eqn:L; cbn [tp_fields].
    + apply upsert_nodup. eapply H2; eauto.
    + constructor; [tauto|constructor].
  - eapply H2; eauto.
Qed.

Lemma wf_tm_set_node tm T : wf_tm tm -> wf_tm (tm_set_node tm T).
Proof.
  intros [H1 H2]. unfold tm_set_node. split; [apply upsert_nodup; exact H1|].
  intros T' p Hl. rewrite lookup_upsert in Hl. destruct (T =? T') eqn:E.
  - inversion Hl; subst. destruct (lookup T tm) as [p0|] eqn:L; cbn [tp_fields]; [eapply H2; eauto|constructor].
  - eapply H2; eauto.
Qed.

Lemma wf_apply_ops ops : forall tm, wf_tm tm -> wf_tm (apply_ops tm ops).
Proof.
  induction ops as [|o ops IH]; intros tm H; cbn [apply_ops fold_left]; [exact H|].
  apply IH. destruct o; cbn [apply1]; [apply wf_tm_set|apply wf_tm_set_node]; exact H.
Qed.

Theorem wf_tm_of inputs : wf_tm (tm_of inputs).
Proof. rewrite tm_of_ops. apply wf_apply_ops, wf_tm_nil. Qed.

(* GetURLs is exactly the set of services that some field is routed to *)
Theorem urls_exact inputs u :
  In u (tm_urls (tm_of inputs)) <-> exists T f, tm_get (tm_of inputs) T f = Some u.
Proof.
  destruct (wf_tm_of inputs) as [H1 H2]. unfold tm_urls. rewrite uniq_In. split.
  - intros [Hin _]. apply in_flat_map in Hin as ([T p] & Hi & Hu). cbn [snd] in Hu.
    apply in_map_iff in Hu as ([f u'] & Heq & Hf). cbn [snd] in Heq. subst u'.
    exists T, f. unfold tm_get. rewrite (lookup_of_In T _ p H1 Hi).
    apply lookup_of_In; [|exact Hf]. eapply H2. apply lookup_of_In; eauto.
  - intros (T & f & Hg). split; [|tauto]. unfold tm_get in Hg.
    destruct (lookup T (tm_of inputs)) as [p|] eqn:L; [|discriminate].
    apply in_flat_map. exists (T, p). split; [apply lookup_In; exact L|]. cbn [snd].
    apply in_map_iff. exists (f, u). split; [reflexivity|apply lookup_In; exact Hg].
Qed.

(* ---- PlanningContext.GetURL: what the planner does with the table ---- *)

Lemma tm_get_some_is_node tm T f u : tm_get tm T f = Some u -> exists n, tm_is_node tm T = Some n.
Proof.
  unfold tm_get, tm_is_node. destruct (lookup T tm) as [p|]; [|discriminate]. intros _. eexists; reflexivity.
Qed.

(* a routed field of a root type or of a Node type goes to its route, whatever service the parent step runs
   at and whatever the kind of the running operation (the function has no such parameter) *)
Theorem get_url_routed tm T f fb u :
  is_builtin f = false -> tm_get tm T f = Some u ->
  is_root T = true \/ tm_is_node tm T = Some true ->
  get_url tm T f fb = RUrl u.
Proof.
  intros Hb Hg Hc. unfold get_url. rewrite Hb.
  destruct (tm_get_some_is_node _ _ _ _ Hg) as [n Hn]. rewrite Hn, Hg.
  destruct Hc as [Hr|Hn']; [rewrite Hr, andb_false_r; reflexivity|].
  rewrite Hn in Hn'. inversion Hn'; subst. reflexivity.
Qed.

Theorem root_field_goes_to_its_declarer inputs u s T f fb :
  is_root T = true ->
  In (u, s) inputs -> declares s T f ->
  (forall u' s', In (u', s') inputs -> declares s' T f -> u' = u) ->
  get_url (tm_of inputs) T f fb = RUrl u.
Proof.
  intros Hr Hi Hd Hu. apply get_url_routed; [| apply (route_unique_owner inputs u s T f Hi Hd Hu) | left; exact Hr].
  destruct Hd as (d & fld & _ & _ & _ & _ & _ & Hrt & Hn & _). subst f.
  unfold routable in Hrt. apply andb_true_iff in Hrt as [Hrt _]. apply negb_true_iff in Hrt. exact Hrt.
Qed.

(* a type that is neither a root nor stitchable by id is served where its parent is served *)
Theorem shared_type_stays_with_parent tm T f fb :
  tm_is_node tm T = Some false -> is_root T = false -> fb <> internal_service ->
  get_url tm T f fb = RUrl fb.
Proof.
  intros Hn Hr Hfb. unfold get_url. destruct (is_builtin f); [reflexivity|]. rewrite Hn, Hr.
  apply String.eqb_neq in Hfb. rewrite Hfb. reflexivity.
Qed.
