(* Proofs about Merge.Model.merge used by C03 / C04 / C05. *)
From Coq Require Import List String Bool Arith Lia.
From Pebbles Require Import Merge.Model Merge.TypeUrlProofs.
Import ListNotations.
Open Scope string_scope.
Open Scope list_scope.

(* ---- the routing table computed by merge is tm_of ---- *)
Lemma merge_loop_tm rest : forall acc tm M tm',
  merge_loop acc tm rest = MOk M tm' ->
  tm' = fold_left (fun tm i => tm_set_from_schema tm (snd i) (fst i)) rest tm.
Proof.
  induction rest as [|[u s] rest IH]; intros acc tm M tm' H; cbn [merge_loop fold_left fst snd] in *.
  - inversion H; reflexivity.
  - destruct (merge_types acc s) as [res es]. destruct es; [|discriminate]. eapply IH; eauto.
Qed.

Theorem merge_routes inputs M tm : merge inputs = MOk M tm -> tm = tm_of inputs.
Proof.
  destruct inputs as [|[u s] rest]; cbn [merge]; [discriminate|].
  intros H. apply merge_loop_tm in H. unfold tm_of. cbn [fold_left fst snd]. exact H.
Qed.

(* ---- errors only accumulate ---- *)
Lemma mtg_errs acc new : forall result errs res es,
  merge_types_go acc new result errs = (res, es) -> exists es', es = errs ++ es'.
Proof.
  induction new as [|nvb new IH]; intros result errs res es H; cbn [merge_types_go] in H.
  - inversion H; subst. exists []. now rewrite app_nil_r.
  - destruct (is_builtin (d_name nvb)); [eauto|].
    destruct (find_def (d_name nvb) acc) as [va|]; [|eauto].
    destruct (merge_def va nvb); [eauto|eauto|].
    apply IH in H as [es' ->]. exists (e :: es'). now rewrite <- app_assoc.
Qed.

Lemma mtg_fail_recorded acc new : forall result errs res es nvb va e,
  In nvb new -> is_builtin (d_name nvb) = false -> find_def (d_name nvb) acc = Some va ->
  merge_def va nvb = Fail e ->
  merge_types_go acc new result errs = (res, es) -> In e es.
Proof.
  induction new as [|x new IH]; intros result errs res es nvb va e Hin Hb Hf Hm H; [contradiction|].
  cbn [merge_types_go] in H. destruct Hin as [->|Hin].
  - rewrite Hb, Hf, Hm in H. apply mtg_errs in H as [es' ->]. apply in_or_app. left. apply in_or_app. right. now left.
  - destruct (is_builtin (d_name x)); [eapply IH; eauto|].
    destruct (find_def (d_name x) acc) as [vx|]; [|eapply IH; eauto].
    destruct (merge_def vx x); eapply IH; eauto.
Qed.

(* two services: a conflict between a type of the second and the same-named type of the first is an error *)
Theorem conflict_rejected2 uA A uB B nvb va e :
  In nvb B -> is_builtin (d_name nvb) = false -> find_def (d_name nvb) A = Some va ->
  merge_def va nvb = Fail e ->
  exists es, merge [(uA, A); (uB, B)] = MErr es /\ In e es.
Proof.
  intros Hin Hb Hf Hm. cbn [merge merge_loop]. unfold merge_types.
  destruct (merge_types_go A B A []) as [res es] eqn:E.
  pose proof (mtg_fail_recorded A B A [] res es nvb va e Hin Hb Hf Hm E) as Hine.
  destruct es as [|e0 es]; [contradiction|]. exists (e0 :: es). split; [reflexivity|exact Hine].
Qed.

(* ---- each conflict kind of C05 makes merge_def fail ---- *)
Lemma kind_eqb_eq a b : kind_eqb a b = true <-> a = b.
Proof. destruct a, b; cbn; split; intros H; try reflexivity; try discriminate. Qed.

Lemma conflict_kind va nvb : d_name nvb <> "Node" -> d_kind nvb <> d_kind va -> merge_def va nvb = Fail ENameCollision.
Proof.
  intros Hn Hk. unfold merge_def. rewrite (proj2 (String.eqb_neq _ _) Hn).
  destruct (kind_eqb (d_kind nvb) (d_kind va)) eqn:E; [apply kind_eqb_eq in E; contradiction|reflexivity].
Qed.

Lemma conflict_union va nvb : d_name nvb <> "Node" -> d_kind nvb = KUnion -> d_kind va = KUnion ->
  set_eq (d_utypes va) (d_utypes nvb) = false -> merge_def va nvb = Fail EUnionCollision.
Proof.
  intros Hn K1 K2 Hs. unfold merge_def. rewrite (proj2 (String.eqb_neq _ _) Hn), K1, K2. cbn. now rewrite Hs.
Qed.

Definition fielded (k : kind) : Prop := k = KObject \/ k = KInterface \/ k = KInput \/ k = KEnum.

Lemma conflict_node va nvb : d_name nvb <> "Node" -> d_kind nvb = d_kind va -> fielded (d_kind nvb) ->
  implements_node nvb <> implements_node va -> merge_def va nvb = Fail ENodeCollision.
Proof.
  intros Hn K F Hi. unfold merge_def. rewrite (proj2 (String.eqb_neq _ _) Hn), <- K.
  assert (kind_eqb (d_kind nvb) (d_kind nvb) = true) as -> by now apply kind_eqb_eq.
  cbn [negb]. destruct (Bool.eqb (implements_node nvb) (implements_node va)) eqn:E.
  - apply Bool.eqb_prop in E. contradiction.
  - destruct F as [F|[F|[F|F]]]; rewrite F; reflexivity.
Qed.

Lemma node_there_named f fields : node_there f fields = true -> field_named (f_name f) fields = true.
Proof.
  unfold node_there, field_named. intros H. apply andb_true_iff in H as [_ H].
  destruct (find (fun r => f_name r =? f_name f) fields) as [rf|] eqn:E; [|discriminate].
  apply find_some in E as [Hin Hn]. apply existsb_exists. exists rf. split; assumption.
Qed.
Lemma node_there_shape f fields : node_there f fields = true -> is_node_field f = true.
Proof. unfold node_there. intros H. apply andb_true_iff in H. apply H. Qed.

(* the same root field declared twice *)
Lemma root_fields_overlap acc_fields : forall fields f,
  In f acc_fields -> is_builtin (f_name f) = false -> is_node_field f = false ->
  field_named (f_name f) fields = true -> root_fields acc_fields fields = None.
Proof.
  induction acc_fields as [|g t IH]; intros fields f Hin Hb Hn Hf; [contradiction|]. cbn [root_fields].
  destruct Hin as [->|Hin].
  - rewrite Hb. unfold node_there. rewrite Hn. cbn [andb]. now rewrite Hf.
  - destruct (is_builtin (f_name g)); [eapply IH; eauto|].
    destruct (node_there g fields); [eapply IH; eauto|].
    destruct (field_named (f_name g) fields); [reflexivity|].
    eapply IH; eauto. unfold field_named in *. rewrite existsb_app, Hf. reflexivity.
Qed.

Lemma conflict_root va nvb f :
  is_root (d_name nvb) = true -> d_name nvb <> "Node" -> d_kind nvb = KObject -> d_kind va = KObject ->
  implements_node nvb = implements_node va ->
  In f (d_fields va) -> is_builtin (f_name f) = false -> is_node_field f = false ->
  field_named (f_name f) (d_fields nvb) = true ->
  merge_def va nvb = Fail ERootOverlap.
Proof.
  intros Hr Hn K1 K2 Hi Hin Hb Hnf Hf. unfold merge_def.
  rewrite (proj2 (String.eqb_neq _ _) Hn), K1, K2. cbn [kind_eqb negb].
  rewrite Hi, Bool.eqb_reflx. cbn [negb]. rewrite Hr. unfold merge_root.
  now rewrite (root_fields_overlap _ _ f Hin Hb Hnf Hf).
Qed.

(* overlap_scan: what it appends and which flags it raises *)
Lemma overlap_scan_flags mf : forall result flags,
  snd (overlap_scan mf result flags) =
  flags ++ snd (overlap_scan mf result []).
Proof.
  induction mf as [|f t IH]; intros result flags; cbn [overlap_scan snd]; [now rewrite app_nil_r|].
  destruct (is_id_field f); [apply IH|].
  rewrite IH. rewrite (IH (result ++ [f]) ([] ++ [field_named (f_name f) result])). now rewrite <- app_assoc.
Qed.

(* a Node type with a non-id field declared by both services *)
Lemma scan_some_overlap mf : forall result f,
  In f mf -> is_id_field f = false -> field_named (f_name f) result = true ->
  existsb (fun x => x) (snd (overlap_scan mf result [])) = true.
Proof.
  induction mf as [|g t IH]; intros result f Hin Hid Hf; [contradiction|]. cbn [overlap_scan].
  destruct Hin as [->|Hin].
  - rewrite Hid. rewrite overlap_scan_flags. cbn [app]. rewrite Hf. reflexivity.
  - destruct (is_id_field g); [eapply IH; eauto|].
    rewrite overlap_scan_flags. rewrite existsb_app. apply orb_true_iff. right.
    eapply IH; eauto. unfold field_named in *. rewrite existsb_app, Hf. reflexivity.
Qed.

Lemma mcf_node_overlap a b f :
  implements_node a = true -> d_name a <> "Query" ->
  In f (d_fields b) -> is_builtin (f_name f) = false -> is_id_field f = false ->
  field_named (f_name f) (d_fields a) = true ->
  mcf a b = inl EOverlapNode \/ mcf a b = inl ESignature.
Proof.
  intros Hn Hq Hin Hb Hid Hf. unfold mcf.
  assert (E : filter (fun g => negb ((d_name a =? "Query") && is_node_field g)) (d_fields a) = d_fields a).
  { rewrite (proj2 (String.eqb_neq _ _) Hq). cbn. clear. induction (d_fields a); cbn; congruence. }
  rewrite E.
  destruct (sig_clash _ _); [right; reflexivity|left].
  destruct (overlap_scan (filter (fun g => negb (is_builtin (f_name g))) (d_fields b)) (d_fields a) []) as [result flags] eqn:S.
  assert (Hs : existsb (fun x => x) flags = true).
  { change flags with (snd (result, flags)). rewrite <- S. apply (scan_some_overlap _ _ f); auto.
    apply filter_In. split; [exact Hin|]. now rewrite Hb. }
  now rewrite Hn, Hs.
Qed.

Lemma conflict_node_field va nvb f :
  d_name nvb <> "Node" -> is_root (d_name nvb) = false -> d_name nvb <> "Query" ->
  d_kind nvb = KObject -> d_kind va = KObject ->
  implements_node nvb = true -> implements_node va = true ->
  In f (d_fields va) -> is_builtin (f_name f) = false -> is_id_field f = false ->
  field_named (f_name f) (d_fields nvb) = true ->
  merge_def va nvb = Fail EOverlapNode \/ merge_def va nvb = Fail ESignature.
Proof.
  intros Hn Hr Hq K1 K2 N1 N2 Hin Hb Hid Hf. unfold merge_def.
  rewrite (proj2 (String.eqb_neq _ _) Hn), K1, K2. cbn [kind_eqb negb]. rewrite N1, N2. cbn [Bool.eqb negb].
  rewrite Hr. unfold merge_custom.
  destruct (mcf_node_overlap nvb va f N1 Hq Hin Hb Hid Hf) as [E|E]; rewrite E; [left|right]; reflexivity.
Qed.

(* a shared field with another type or other arguments (since the fix of C03/C05-field-signature) *)
Lemma find_app_some {A} (p : A -> bool) (l l' : list A) x : find p l = Some x -> find p (l ++ l') = Some x.
Proof. induction l as [|y t IH]; cbn; [discriminate|]. destruct (p y); [auto|exact IH]. Qed.
Lemma sig_clash_true : forall mf result g rf,
  In g mf -> find (fun r => f_name r =? f_name g) result = Some rf -> same_sig rf g = false -> sig_clash mf result = true.
Proof.
  induction mf as [|h t IH]; intros result g rf Hin Hf Hs; [contradiction|]. cbn [sig_clash].
  destruct Hin as [->|Hin]; [rewrite Hf, Hs; reflexivity|].
  apply orb_true_iff. right. destruct (is_id_field h); [eapply IH; eauto|].
  eapply IH; [exact Hin|apply find_app_some; exact Hf|exact Hs].
Qed.
Lemma mcf_signature a b g rf :
  d_name a <> "Query" -> In g (d_fields b) -> is_builtin (f_name g) = false ->
  find (fun r => f_name r =? f_name g) (d_fields a) = Some rf -> same_sig rf g = false ->
  mcf a b = inl ESignature.
Proof.
  intros Hq Hin Hb Hf Hs. unfold mcf.
  assert (E : filter (fun h => negb ((d_name a =? "Query") && is_node_field h)) (d_fields a) = d_fields a).
  { rewrite (proj2 (String.eqb_neq _ _) Hq). cbn. clear. induction (d_fields a); cbn; congruence. }
  rewrite E. rewrite (sig_clash_true _ _ g rf); [reflexivity| |exact Hf|exact Hs].
  apply filter_In. split; [exact Hin|]. now rewrite Hb.
Qed.
Lemma conflict_signature va nvb g rf :
  d_name nvb <> "Node" -> is_root (d_name nvb) = false -> d_kind nvb = d_kind va -> fielded (d_kind nvb) ->
  implements_node nvb = implements_node va ->
  In g (d_fields va) -> is_builtin (f_name g) = false ->
  find (fun r => f_name r =? f_name g) (d_fields nvb) = Some rf -> same_sig rf g = false ->
  merge_def va nvb = Fail ESignature.
Proof.
  intros Hn Hr K F Hi Hin Hb Hf Hs. unfold merge_def. rewrite (proj2 (String.eqb_neq _ _) Hn), <- K.
  assert (kind_eqb (d_kind nvb) (d_kind nvb) = true) as -> by now apply kind_eqb_eq.
  cbn [negb]. rewrite Hi, Bool.eqb_reflx. cbn [negb]. rewrite Hr.
  assert (Hq : d_name nvb <> "Query").
  { intros E. unfold is_root in Hr. rewrite E in Hr. cbn in Hr. discriminate. }
  unfold merge_custom. rewrite (mcf_signature nvb va g rf Hq Hin Hb Hf Hs).
  destruct F as [F|[F|[F|F]]]; rewrite F; reflexivity.
Qed.
(* the comparison does not reject a declaration against itself (argument names distinct, as GraphQL requires) *)
Lemma opt_str_eqb_refl o : opt_str_eqb o o = true.
Proof. destruct o; cbn; [apply String.eqb_refl|reflexivity]. Qed.
Lemma find_self_nodup (l : list arg) : NoDup (map a_name l) ->
  forall x, In x l -> find (fun y => a_name y =? a_name x) l = Some x.
Proof.
  induction l as [|z r IH]; intros Hnd x Hin; [destruct Hin|]. inversion Hnd as [|? ? Hni Hnd']; subst. cbn [find].
  destruct Hin as [<-|Hin]; [rewrite String.eqb_refl; reflexivity|].
  destruct (a_name z =? a_name x) eqn:E; [|apply IH; assumption].
  exfalso. apply String.eqb_eq in E. apply Hni. rewrite E. apply in_map, Hin.
Qed.
Theorem same_sig_refl f : NoDup (map a_name (f_args f)) -> same_sig f f = true.
Proof.
  intros Hnd. unfold same_sig. rewrite String.eqb_refl, Nat.eqb_refl. cbn [andb].
  apply forallb_forall. intros x Hx. rewrite (find_self_nodup _ Hnd x Hx). rewrite String.eqb_refl, opt_str_eqb_refl. reflexivity.
Qed.

(* two services: whatever else the schemas contain, the set is rejected *)
Theorem signature_conflict_rejected2 uA A uB B dA dB f g :
  In dB B -> find_def (d_name dB) A = Some dA -> is_builtin (d_name dB) = false ->
  d_name dB <> "Node" -> is_root (d_name dB) = false -> fielded (d_kind dB) ->
  In g (d_fields dA) -> is_builtin (f_name g) = false ->
  find (fun r => f_name r =? f_name g) (d_fields dB) = Some f -> same_sig f g = false ->
  exists es, merge [(uA, A); (uB, B)] = MErr es.
Proof.
  intros HB HA Hb Hn Hr F Hg Hbg Hf Hs.
  assert (Hfail : exists e, merge_def dA dB = Fail e).
  { destruct (kind_eqb (d_kind dB) (d_kind dA)) eqn:K.
    - apply kind_eqb_eq in K. destruct (Bool.eqb (implements_node dB) (implements_node dA)) eqn:I.
      + apply Bool.eqb_prop in I. eexists. eapply conflict_signature; eauto.
      + eexists. apply conflict_node; auto. intros E. rewrite E, Bool.eqb_reflx in I. discriminate.
    - eexists. apply conflict_kind; [exact Hn|]. intros E. rewrite E in K.
      assert (kind_eqb (d_kind dA) (d_kind dA) = true) by now apply kind_eqb_eq. congruence. }
  destruct Hfail as (e & He).
  destruct (conflict_rejected2 uA A uB B dB dA e HB Hb HA He) as (es & Hm & _). exists es. exact Hm.
Qed.

(* a shared plain type that is neither identical nor disjoint *)
Lemma forallb_app {A} (f : A -> bool) a b : forallb f (a ++ b) = forallb f a && forallb f b.
Proof. induction a as [|x a IH]; cbn; [reflexivity|]. now rewrite IH, andb_assoc. Qed.

Lemma scan_has_false mf : forall result g,
  NoDup (map f_name mf) -> In g mf -> is_id_field g = false -> field_named (f_name g) result = false ->
  forallb (fun x => x) (snd (overlap_scan mf result [])) = false.
Proof.
  induction mf as [|h t IH]; intros result g Hnd Hin Hid Hf; [contradiction|]. cbn [overlap_scan].
  inversion Hnd as [|? ? Hnotin Hnd']; subst.
  destruct Hin as [->|Hin].
  - rewrite Hid, overlap_scan_flags, forallb_app. cbn [app forallb]. now rewrite Hf.
  - destruct (is_id_field h); [eapply IH; eauto|].
    rewrite overlap_scan_flags, forallb_app. apply andb_false_iff. right.
    eapply IH; eauto. unfold field_named in *. rewrite existsb_app, Hf. cbn [existsb orb].
    rewrite orb_false_r. apply String.eqb_neq. intro E. apply Hnotin. rewrite E. now apply in_map.
Qed.

Lemma mcf_partial_overlap a b f g :
  d_name a <> "Query" -> NoDup (map f_name (d_fields b)) ->
  In f (d_fields b) -> is_builtin (f_name f) = false -> is_id_field f = false -> field_named (f_name f) (d_fields a) = true ->
  In g (d_fields b) -> is_builtin (f_name g) = false -> is_id_field g = false -> field_named (f_name g) (d_fields a) = false ->
  exists e, mcf a b = inl e.
Proof.
  intros Hq Hnd Hf Hfb Hfid Hfo Hg Hgb Hgid Hgo. unfold mcf.
  assert (E : filter (fun h => negb ((d_name a =? "Query") && is_node_field h)) (d_fields a) = d_fields a).
  { rewrite (proj2 (String.eqb_neq _ _) Hq). cbn. clear. induction (d_fields a); cbn; congruence. }
  rewrite E.
  destruct (sig_clash _ _); [eexists; reflexivity|].
  destruct (overlap_scan (filter (fun h => negb (is_builtin (f_name h))) (d_fields b)) (d_fields a) []) as [result flags] eqn:S.
  assert (Hs : existsb (fun x => x) flags = true).
  { change flags with (snd (result, flags)). rewrite <- S. apply (scan_some_overlap _ _ f); auto.
    apply filter_In. split; [exact Hf|]. now rewrite Hfb. }
  assert (Ha : forallb (fun x => x) flags = false).
  { change flags with (snd (result, flags)). rewrite <- S. apply (scan_has_false _ _ g); auto.
    - clear -Hnd. induction (d_fields b) as [|h t IH]; cbn; [constructor|]. inversion Hnd; subst.
      destruct (negb (is_builtin (f_name h))); cbn; auto. constructor; auto.
      intro Hin. apply in_map_iff in Hin as (x & Hx & Hin). apply filter_In in Hin as [Hin _]. apply H1. rewrite <- Hx. now apply in_map.
    - apply filter_In. split; [exact Hg|]. now rewrite Hgb. }
  rewrite Hs, Ha. destruct (implements_node a); cbn; eauto.
Qed.

(* ---- merge_types, pointwise by type name ---- *)
Lemma find_def_app n r d :
  find_def n (r ++ [d]) = match find_def n r with Some x => Some x | None => if d_name d =? n then Some d else None end.
Proof.
  unfold find_def. induction r as [|x r IH]; cbn [app find]; [reflexivity|].
  destruct (d_name x =? n); [reflexivity|exact IH].
Qed.

Lemma find_def_replace n d r :
  find_def n (replace_def d r) =
    if d_name d =? n then match find_def n r with Some _ => Some d | None => None end else find_def n r.
Proof.
  unfold find_def. induction r as [|x r IH]; cbn [replace_def find].
  - destruct (d_name d =? n); reflexivity.
  - destruct (d_name x =? d_name d) eqn:E; cbn [find].
    + apply String.eqb_eq in E. rewrite E. destruct (d_name d =? n); reflexivity.
    + rewrite IH. destruct (d_name d =? n) eqn:E2.
      * apply String.eqb_eq in E2. subst n. now rewrite E.
      * reflexivity.
Qed.

Lemma find_def_some n s d : find_def n s = Some d -> In d s /\ d_name d = n.
Proof. unfold find_def. intros H. apply find_some in H as [Hin E]. apply String.eqb_eq in E. auto. Qed.

Lemma find_def_none n s : find_def n s = None -> ~ In n (map d_name s).
Proof.
  unfold find_def. intros H Hin. apply in_map_iff in Hin as (d & Hn & Hin).
  pose proof (find_none _ _ H d Hin) as E. cbn in E. rewrite Hn, String.eqb_refl in E. discriminate.
Qed.

Lemma find_def_of_In s d : NoDup (map d_name s) -> In d s -> find_def (d_name d) s = Some d.
Proof.
  unfold find_def. induction s as [|x s IH]; intros Hnd Hin; [contradiction|]. cbn [find].
  inversion Hnd; subst. destruct Hin as [->|Hin]; [now rewrite String.eqb_refl|].
  destruct (d_name x =? d_name d) eqn:E; [|auto].
  apply String.eqb_eq in E. exfalso. apply H1. rewrite E. now apply in_map.
Qed.

Lemma merge_root_name a b d : merge_root a b = inr d -> d_name d = d_name a.
Proof. unfold merge_root. destruct (root_fields _ _); intros H; inversion H; reflexivity. Qed.
Lemma merge_custom_name a b d : merge_custom a b = inr d -> d_name d = d_name a.
Proof. unfold merge_custom. destruct (mcf a b); [discriminate|]. destruct (mcf b a); intros H; inversion H; reflexivity. Qed.

Lemma merge_def_put_name va nvb d : merge_def va nvb = Put d -> d_name d = d_name nvb.
Proof.
  unfold merge_def. destruct (d_name nvb =? "Node"); [discriminate|].
  destruct (negb (kind_eqb (d_kind nvb) (d_kind va))); [discriminate|].
  destruct (d_kind nvb);
    try (destruct (negb (Bool.eqb (implements_node nvb) (implements_node va))); [discriminate|];
         destruct (is_root (d_name nvb));
         [destruct (merge_root nvb va) eqn:E; [discriminate|]; intros H; inversion H; subst; eapply merge_root_name; eauto
         |destruct (merge_custom nvb va) eqn:E; [discriminate|]; intros H; inversion H; subst; eapply merge_custom_name; eauto]).
  - destruct (set_eq _ _); discriminate.
  - intros H; inversion H; reflexivity.
Qed.

Definition touched (n : string) (new : list def) : option def :=
  find (fun d => (d_name d =? n) && negb (is_builtin (d_name d))) new.

(* what mergeTypes leaves under the name of a type of the later input *)
Definition entry (acc : schema) (nvb : def) : option def :=
  match find_def (d_name nvb) acc with
  | None => Some nvb
  | Some va => match merge_def va nvb with Put d => Some d | Keep => Some va | Fail _ => None end
  end.

Lemma touched_tail x t n : NoDup (map d_name (x :: t)) -> d_name x = n -> touched n t = None.
Proof.
  intros Hnd E. inversion Hnd; subst. unfold touched.
  destruct (find _ t) as [y|] eqn:F; [|reflexivity].
  apply find_some in F as [Hin Hy]. apply andb_prop in Hy as [Hy _]. apply String.eqb_eq in Hy.
  exfalso. apply H1. rewrite <- Hy. now apply in_map.
Qed.

Lemma mtg_find acc new : forall result errs res,
  NoDup (map d_name new) ->
  merge_types_go acc new result errs = (res, []) ->
  (forall nvb, In nvb new -> find_def (d_name nvb) result = find_def (d_name nvb) acc) ->
  forall n, find_def n res = match touched n new with Some nvb => entry acc nvb | None => find_def n result end.
Proof.
  induction new as [|x t IH]; intros result errs res Hnd H Hun n; cbn [merge_types_go] in H.
  - inversion H; subst. reflexivity.
  - assert (Hnd' : NoDup (map d_name t)) by (inversion Hnd; assumption).
    assert (Hx : find_def (d_name x) result = find_def (d_name x) acc) by (apply Hun; now left).
    assert (Hdiff : forall nvb, In nvb t -> d_name nvb <> d_name x).
    { intros nvb Hin E. inversion Hnd; subst. apply H2. rewrite <- E. now apply in_map. }
    unfold touched. cbn [find]. fold (touched n t).
    destruct (is_builtin (d_name x)) eqn:B.
    + rewrite andb_false_r. apply (IH result errs res); auto. intros; apply Hun; now right.
    + rewrite andb_true_r.
      destruct (find_def (d_name x) acc) as [va|] eqn:Fa.
      * destruct (merge_def va x) as [|d|e] eqn:Md.
        -- (* Keep *)
           rewrite (IH result errs res Hnd' H (fun nvb Hin => Hun nvb (or_intror Hin)) n).
           destruct (d_name x =? n) eqn:E.
           ++ apply String.eqb_eq in E. rewrite (touched_tail x t n Hnd E). unfold entry. rewrite Fa, Md. now rewrite <- E, Hx.
           ++ reflexivity.
        -- (* Put *)
           pose proof (merge_def_put_name _ _ _ Md) as Hdn.
           assert (Hun' : forall nvb, In nvb t -> find_def (d_name nvb) (replace_def d result) = find_def (d_name nvb) acc).
           { intros nvb Hin. rewrite find_def_replace, Hdn.
             rewrite (proj2 (String.eqb_neq _ _)); [apply Hun; now right|]. intro E. apply (Hdiff nvb Hin). now rewrite E. }
           rewrite (IH _ errs res Hnd' H Hun' n).
           destruct (d_name x =? n) eqn:E.
           ++ apply String.eqb_eq in E. rewrite (touched_tail x t n Hnd E). unfold entry. rewrite Fa, Md.
              rewrite find_def_replace, Hdn, <- E, String.eqb_refl, Hx. reflexivity.
           ++ destruct (touched n t); [reflexivity|]. rewrite find_def_replace, Hdn, E. reflexivity.
        -- (* Fail *)
           apply mtg_errs in H as [es' Hes]. destruct errs; discriminate.
      * (* new type *)
        assert (Hun' : forall nvb, In nvb t -> find_def (d_name nvb) (result ++ [x]) = find_def (d_name nvb) acc).
        { intros nvb Hin. rewrite find_def_app, (Hun nvb (or_intror Hin)).
          destruct (find_def (d_name nvb) acc); [reflexivity|].
          rewrite (proj2 (String.eqb_neq _ _)); [reflexivity|]. intro E. apply (Hdiff nvb Hin). now rewrite E. }
        rewrite (IH _ errs res Hnd' H Hun' n).
        destruct (d_name x =? n) eqn:E.
        -- apply String.eqb_eq in E. rewrite (touched_tail x t n Hnd E). unfold entry. rewrite Fa.
           rewrite find_def_app, <- E, Hx, String.eqb_refl. reflexivity.
        -- destruct (touched n t); [reflexivity|]. rewrite find_def_app, E. destruct (find_def n result); reflexivity.
Qed.

Lemma replace_def_names d r : map d_name (replace_def d r) = map d_name r.
Proof.
  induction r as [|x r IH]; cbn [replace_def map]; [reflexivity|].
  destruct (d_name x =? d_name d) eqn:E; cbn [map]; [apply String.eqb_eq in E; now rewrite E|now rewrite IH].
Qed.

Lemma mtg_nodup acc new : forall result errs res es,
  NoDup (map d_name new) -> NoDup (map d_name result) ->
  (forall nvb, In nvb new -> find_def (d_name nvb) result = find_def (d_name nvb) acc) ->
  merge_types_go acc new result errs = (res, es) -> NoDup (map d_name res).
Proof.
  induction new as [|x t IH]; intros result errs res es Hnd Hr Hun H; cbn [merge_types_go] in H.
  - inversion H; subst. exact Hr.
  - assert (Hnd' : NoDup (map d_name t)) by (inversion Hnd; assumption).
    assert (Hdiff : forall nvb, In nvb t -> d_name nvb <> d_name x).
    { intros nvb Hin E. inversion Hnd; subst. apply H2. rewrite <- E. now apply in_map. }
    assert (Hx : find_def (d_name x) result = find_def (d_name x) acc) by (apply Hun; now left).
    destruct (is_builtin (d_name x)); [eapply IH; [exact Hnd'|exact Hr|intros nvb0 Hin0; apply Hun; now right|exact H]|].
    destruct (find_def (d_name x) acc) as [va|] eqn:Fa.
    + destruct (merge_def va x) as [|d|e] eqn:Md.
      * eapply IH; [exact Hnd'|exact Hr|intros nvb0 Hin0; apply Hun; now right|exact H].
      * pose proof (merge_def_put_name _ _ _ Md) as Hdn. eapply IH; [exact Hnd'| |  |exact H].
        -- now rewrite replace_def_names.
        -- intros nvb Hin. rewrite find_def_replace, Hdn.
           rewrite (proj2 (String.eqb_neq _ _)); [apply Hun; now right|]. intro E. apply (Hdiff nvb Hin). now rewrite E.
      * eapply IH; [exact Hnd'|exact Hr|intros nvb0 Hin0; apply Hun; now right|exact H].
    + eapply IH; [exact Hnd'| | |exact H].
      * rewrite map_app. cbn [map]. apply nodup_snoc; [exact Hr|]. now apply find_def_none.
      * intros nvb Hin. rewrite find_def_app, (Hun nvb (or_intror Hin)).
        destruct (find_def (d_name nvb) acc); [reflexivity|].
        rewrite (proj2 (String.eqb_neq _ _)); [reflexivity|]. intro E. apply (Hdiff nvb Hin). now rewrite E.
Qed.

(* the pointwise characterisation of mergeTypes *)
Theorem merge_types_find acc new res :
  NoDup (map d_name new) -> merge_types acc new = (res, []) ->
  forall n, find_def n res = match touched n new with Some nvb => entry acc nvb | None => find_def n acc end.
Proof. intros Hnd H. unfold merge_types in H. apply (mtg_find acc new acc [] res Hnd H). reflexivity. Qed.

Theorem merge_types_nodup acc new res es :
  NoDup (map d_name new) -> NoDup (map d_name acc) -> merge_types acc new = (res, es) -> NoDup (map d_name res).
Proof. intros Hn Ha H. unfold merge_types in H. eapply (mtg_nodup acc new acc [] res es Hn Ha); [reflexivity|exact H]. Qed.

(* ---- what Put / Keep preserve ---- *)
Lemma root_fields_sub acc_fields : forall fields fs,
  root_fields acc_fields fields = Some fs -> forall fld, In fld fs -> In fld fields \/ In fld acc_fields.
Proof.
  induction acc_fields as [|g t IH]; intros fields fs H fld Hin; cbn [root_fields] in H.
  - inversion H; subst. now left.
  - destruct (is_builtin (f_name g)); [destruct (IH _ _ H fld Hin); [now left|right; now right]|].
    destruct (node_there g fields); [destruct (IH _ _ H fld Hin); [now left|right; now right]|].
    destruct (field_named (f_name g) fields); [discriminate|].
    destruct (IH _ _ H fld Hin) as [Hf|Hf]; [|right; now right].
    apply in_app_or in Hf as [Hf|[->|[]]]; [now left|right; now left].
Qed.

Lemma overlap_scan_sub mf : forall result flags fld,
  In fld (fst (overlap_scan mf result flags)) -> In fld result \/ In fld mf.
Proof.
  induction mf as [|g t IH]; intros result flags fld Hin; cbn [overlap_scan fst] in Hin; [now left|].
  destruct (is_id_field g).
  - destruct (IH _ _ _ Hin); [now left|right; now right].
  - destruct (IH _ _ _ Hin) as [Hf|Hf]; [|right; now right].
    apply in_app_or in Hf as [Hf|[->|[]]]; [now left|right; now left].
Qed.

Lemma mcf_sub a b fs : mcf a b = inr fs -> forall fld, In fld fs -> In fld (d_fields a) \/ In fld (d_fields b).
Proof.
  unfold mcf. intros H fld Hin.
  destruct (sig_clash _ _); [discriminate|].
  destruct (overlap_scan _ _ []) as [result flags] eqn:S.
  destruct (implements_node a && existsb (fun x => x) flags); [discriminate|].
  destruct (existsb (fun x => x) flags && negb (forallb (fun x => x) flags)); [discriminate|].
  destruct (forallb (fun x => x) flags); inversion H as [Hfs]; rewrite <- Hfs in Hin.
  - left. apply filter_In in Hin. tauto.
  - change result with (fst (result, flags)) in Hin. rewrite <- S in Hin.
    apply overlap_scan_sub in Hin as [Hin|Hin]; apply filter_In in Hin; tauto.
Qed.

Lemma put_fields_sub va nvb d : merge_def va nvb = Put d ->
  forall fld, In fld (d_fields d) -> In fld (d_fields nvb) \/ In fld (d_fields va).
Proof.
  unfold merge_def. destruct (d_name nvb =? "Node"); [discriminate|].
  destruct (negb (kind_eqb (d_kind nvb) (d_kind va))); [discriminate|].
  destruct (d_kind nvb);
    try (destruct (negb (Bool.eqb (implements_node nvb) (implements_node va))); [discriminate|];
         destruct (is_root (d_name nvb));
         [ unfold merge_root; destruct (root_fields (d_fields va) (d_fields nvb)) as [fs|] eqn:R; [|discriminate];
           intros H fld Hin; inversion H; subst; cbn [d_fields] in Hin; eapply root_fields_sub; eauto
         | unfold merge_custom; destruct (mcf nvb va) as [e|fs] eqn:M1; [discriminate|]; destruct (mcf va nvb); [discriminate|];
           intros H fld Hin; inversion H; subst; cbn [d_fields] in Hin; eapply mcf_sub; eauto ]).
  - destruct (set_eq _ _); discriminate.
  - intros H fld Hin. inversion H; subst. now left.
Qed.

Lemma put_kind va nvb d : merge_def va nvb = Put d ->
  d_kind nvb = d_kind va /\ (is_root (d_name nvb) = false -> d_kind d = d_kind nvb) /\ (is_root (d_name nvb) = true -> d_kind nvb <> KScalar -> d_kind d = KObject).
Proof.
  unfold merge_def. destruct (d_name nvb =? "Node"); [discriminate|].
  destruct (kind_eqb (d_kind nvb) (d_kind va)) eqn:K; [|discriminate]. apply kind_eqb_eq in K. cbn [negb].
  destruct (d_kind nvb) eqn:Kn;
    try (destruct (negb (Bool.eqb (implements_node nvb) (implements_node va))); [discriminate|];
         destruct (is_root (d_name nvb));
         [ unfold merge_root; destruct (root_fields (d_fields va) (d_fields nvb)); [|discriminate];
           intros H; inversion H; subst; cbn [d_kind]; repeat split; auto; discriminate
         | unfold merge_custom; destruct (mcf nvb va); [discriminate|]; destruct (mcf va nvb); [discriminate|];
           intros H; inversion H; subst; cbn [d_kind]; repeat split; auto; discriminate ]).
  - destruct (set_eq _ _); discriminate.
  - intros H; inversion H; subst. repeat split; auto. intros _ Hc. congruence.
Qed.

Lemma keep_kind va nvb : merge_def va nvb = Keep -> d_name nvb <> "Node" -> d_kind nvb = d_kind va.
Proof.
  unfold merge_def. intros H Hn. rewrite (proj2 (String.eqb_neq _ _) Hn) in H.
  destruct (kind_eqb (d_kind nvb) (d_kind va)) eqn:K; [now apply kind_eqb_eq in K|discriminate].
Qed.

(* ---- well-formed inputs ---- *)
Definition wf_schema (s : schema) : Prop :=
  NoDup (map d_name s) /\ forall d, In d s -> is_root (d_name d) = true -> d_kind d = KObject.

Fixpoint nodupb (l : list string) : bool := match l with [] => true | x :: t => negb (mem x t) && nodupb t end.
Definition wf_schemab (s : schema) : bool :=
  nodupb (map d_name s) && forallb (fun d => negb (is_root (d_name d)) || kind_eqb (d_kind d) KObject) s.

Lemma nodupb_ok l : nodupb l = true -> NoDup l.
Proof.
  induction l as [|x l IH]; cbn; [constructor|]. intros H. apply andb_prop in H as [H1 H2].
  constructor; [|auto]. intro Hin. apply mem_In in Hin. rewrite Hin in H1. discriminate.
Qed.
Lemma wf_schemab_ok s : wf_schemab s = true -> wf_schema s.
Proof.
  unfold wf_schemab, wf_schema. intros H. apply andb_prop in H as [H1 H2]. split; [now apply nodupb_ok|].
  intros d Hin Hr. rewrite forallb_forall in H2. specialize (H2 d Hin). rewrite Hr in H2. cbn in H2. now apply kind_eqb_eq.
Qed.

Lemma touched_of_In s d : NoDup (map d_name s) -> In d s -> is_builtin (d_name d) = false -> touched (d_name d) s = Some d.
Proof.
  unfold touched. induction s as [|x s IH]; intros Hnd Hin Hb; [contradiction|]. cbn [find].
  inversion Hnd; subst. destruct Hin as [->|Hin].
  - now rewrite String.eqb_refl, Hb.
  - destruct (d_name x =? d_name d) eqn:E.
    + apply String.eqb_eq in E. exfalso. apply H1. rewrite E. now apply in_map.
    + cbn [andb]. auto.
Qed.

Lemma touched_some n s d : touched n s = Some d -> In d s /\ d_name d = n /\ is_builtin (d_name d) = false.
Proof.
  unfold touched. intros H. apply find_some in H as [Hin E]. apply andb_prop in E as [E1 E2].
  apply String.eqb_eq in E1. apply negb_true_iff in E2. auto.
Qed.

Lemma merge_no_fail acc s res nvb va e :
  merge_types acc s = (res, []) -> In nvb s -> is_builtin (d_name nvb) = false ->
  find_def (d_name nvb) acc = Some va -> merge_def va nvb = Fail e -> False.
Proof.
  intros H Hin Hb Hf Hm. unfold merge_types in H.
  exact (mtg_fail_recorded acc s acc [] res [] nvb va e Hin Hb Hf Hm H).
Qed.

(* ---- the merge invariant ---- *)
Record Inv (inputs : list input) (acc : schema) : Prop := {
  inv_nodup : NoDup (map d_name acc);
  inv_sub : forall D fld, In D acc -> In fld (d_fields D) ->
            exists u s d, In (u, s) inputs /\ In d s /\ d_name d = d_name D /\ In fld (d_fields d);
  inv_sup : forall u s d, In (u, s) inputs -> In d s -> is_builtin (d_name d) = false ->
            exists D, find_def (d_name d) acc = Some D /\ (d_name d <> "Node" -> d_kind d = d_kind D)
}.

Lemma inv_first u s : wf_schema s -> Inv [(u, s)] s.
Proof.
  intros [Hnd Hr]. constructor; [exact Hnd| |].
  - intros D fld HD Hf. exists u, s, D. repeat split; auto. now left.
  - intros u' s' d [E|[]] Hd _. inversion E; subst. exists d. split; [now apply find_def_of_In|auto].
Qed.

Lemma inv_step inputs acc u s res :
  (forall u' s', In (u', s') inputs -> wf_schema s') -> wf_schema s ->
  Inv inputs acc -> merge_types acc s = (res, []) -> Inv (inputs ++ [(u, s)]) res.
Proof.
  intros Hwf [Hnd Hroot] [Ind Isub Isup] Hm.
  pose proof (merge_types_find acc s res Hnd Hm) as Hfind.
  assert (Hres : NoDup (map d_name res)) by exact (merge_types_nodup acc s res [] Hnd Ind Hm).
  constructor; [exact Hres| |].
  - intros D fld HD Hf.
    pose proof (find_def_of_In res D Hres HD) as HfD. rewrite Hfind in HfD.
    destruct (touched (d_name D) s) as [nvb|] eqn:T.
    + apply touched_some in T as (Hin & Hn & Hb). unfold entry in HfD.
      destruct (find_def (d_name nvb) acc) as [va|] eqn:Fa.
      * destruct (merge_def va nvb) as [|d|e] eqn:Md; inversion HfD; subst.
        -- apply find_def_some in Fa as [Hva Hvn].
           destruct (Isub D fld Hva Hf) as (u0 & s0 & d0 & H1 & H2 & H3 & H4).
           exists u0, s0, d0. repeat split; auto. apply in_or_app. now left.
        -- destruct (put_fields_sub _ _ _ Md fld Hf) as [Hx|Hx].
           ++ exists u, s, nvb. repeat split; auto. apply in_or_app. right. now left.
           ++ apply find_def_some in Fa as [Hva Hvn].
              destruct (Isub va fld Hva Hx) as (u0 & s0 & d0 & H1 & H2 & H3 & H4).
              exists u0, s0, d0. repeat split; auto; [apply in_or_app; now left|congruence].
      * inversion HfD; subst. exists u, s, D. repeat split; auto. apply in_or_app. right. now left.
    + apply find_def_some in HfD as [HDa _].
      destruct (Isub D fld HDa Hf) as (u0 & s0 & d0 & H1 & H2 & H3 & H4).
      exists u0, s0, d0. repeat split; auto. apply in_or_app. now left.
  - intros u' s' d Hi Hd Hb. rewrite Hfind.
    apply in_app_or in Hi as [Hi|[E|[]]].
    + destruct (Isup u' s' d Hi Hd Hb) as (D0 & HD0 & Hk).
      destruct (touched (d_name d) s) as [nvb|] eqn:T; [|exists D0; auto].
      apply touched_some in T as (Hin & Hn & Hnb). unfold entry. rewrite Hn, HD0.
      destruct (merge_def D0 nvb) as [|D|e] eqn:Md.
      * exists D0. auto.
      * exists D. split; [reflexivity|]. intros Hnode. rewrite (Hk Hnode).
        destruct (put_kind _ _ _ Md) as (K1 & K2 & K3).
        destruct (is_root (d_name nvb)) eqn:R.
        -- assert (d_kind nvb = KObject) by (apply Hroot; auto).
           rewrite K3; auto; [congruence|congruence].
        -- rewrite K2; auto.
      * exfalso. eapply (merge_no_fail acc s res nvb D0 e); eauto. now rewrite Hn.
    + inversion E; subst u' s'. rewrite (touched_of_In s d Hnd Hd Hb). unfold entry.
      destruct (find_def (d_name d) acc) as [va|] eqn:Fa; [|exists d; auto].
      destruct (merge_def va d) as [|D|e] eqn:Md.
      * exists va. split; [reflexivity|]. intros Hnode. eapply keep_kind; eauto.
      * exists D. split; [reflexivity|]. intros _.
        destruct (put_kind _ _ _ Md) as (K1 & K2 & K3).
        destruct (is_root (d_name d)) eqn:R.
        -- assert (Hk : d_kind d = KObject) by (apply Hroot; auto). rewrite K3; auto. congruence.
        -- now rewrite K2.
      * exfalso. eapply (merge_no_fail acc s res d va e); eauto.
Qed.

Lemma merge_loop_inv rest : forall pre acc M tm tm',
  (forall u s, In (u, s) (pre ++ rest) -> wf_schema s) ->
  Inv pre acc -> merge_loop acc tm rest = MOk M tm' -> Inv (pre ++ rest) M.
Proof.
  induction rest as [|[u s] rest IH]; intros pre acc M tm tm' Hwf HI H; cbn [merge_loop] in H.
  - inversion H; subst. now rewrite app_nil_r.
  - destruct (merge_types acc s) as [res es] eqn:Mt. destruct es; [|discriminate].
    replace (pre ++ (u, s) :: rest) with ((pre ++ [(u, s)]) ++ rest) by (now rewrite <- app_assoc).
    eapply IH; [|eapply inv_step; eauto|exact H].
    + intros u' s' Hin. apply (Hwf u' s'). now rewrite <- app_assoc in Hin.
    + intros u' s' Hin. apply (Hwf u' s'). apply in_or_app. now left.
    + apply (Hwf u s). apply in_or_app. right. now left.
Qed.

Theorem merge_inv inputs M tm :
  (forall u s, In (u, s) inputs -> wf_schema s) -> merge inputs = MOk M tm -> Inv inputs M.
Proof.
  destruct inputs as [|[u s] rest]; cbn [merge]; [discriminate|]. intros Hwf H.
  apply (merge_loop_inv rest [(u, s)] s M (tm_set_from_schema [] s u) tm); auto.
  apply inv_first. apply (Hwf u s). now left.
Qed.

(* C04: every routable non-id field of every object type of the merged schema has a route to a declarer *)
Theorem merged_field_has_route inputs M tm D fld :
  (forall u s, In (u, s) inputs -> wf_schema s) -> merge inputs = MOk M tm ->
  In D M -> d_kind D = KObject -> is_builtin (d_name D) = false -> d_name D <> "Node" ->
  In fld (d_fields D) -> routable fld = true -> f_name fld <> "id" ->
  exists u s, tm_get tm (d_name D) (f_name fld) = Some u /\ In (u, s) inputs /\ declares s (d_name D) (f_name fld).
Proof.
  intros Hwf Hm HD HK Hb Hn Hf Hr Hid.
  pose proof (merge_routes _ _ _ Hm) as ->.
  destruct (merge_inv _ _ _ Hwf Hm) as [Hnd Isub Isup].
  destruct (Isub D fld HD Hf) as (u0 & s0 & d0 & Hi & Hd0 & Hname & Hfd).
  assert (Hb0 : is_builtin (d_name d0) = false) by now rewrite Hname.
  destruct (Isup u0 s0 d0 Hi Hd0 Hb0) as (D' & HfD' & Hk).
  rewrite Hname, (find_def_of_In M D Hnd HD) in HfD'. inversion HfD'; subst D'.
  assert (Hdecl : declares s0 (d_name D) (f_name fld)).
  { exists d0, fld. repeat split; auto. rewrite Hk; [exact HK|now rewrite Hname]. }
  destruct (route_total inputs u0 s0 _ _ Hi Hdecl) as [u' Hu'].
  destruct (route_sound inputs _ _ u' Hu') as (s' & Hi' & Hd').
  exists u', s'. auto.
Qed.
