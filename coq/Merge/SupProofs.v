(* C03, the other inclusion at the level of field names: every field name of every service's object / interface /
   input type is a field name of the same-named type of the merged schema — except `id`, built-in names, and, on a
   root type, names under which some service declares a field of the shape of the Relay entry point
   (one argument id: ID!, type Node: listed finding C03-node-lost). Field *signatures* are not claimed (listed
   finding C03-field-signature). *)
From Coq Require Import List String Bool Arith.
From Pebbles Require Import Merge.Model Merge.TypeUrlProofs Merge.Proofs.
Import ListNotations.
Open Scope string_scope.
Open Scope list_scope.

Lemma field_named_app n a b : field_named n (a ++ b) = field_named n a || field_named n b.
Proof. unfold field_named. apply existsb_app. Qed.
Lemma field_named_In f fs : In f fs -> field_named (f_name f) fs = true.
Proof. intros H. unfold field_named. apply existsb_exists. exists f. split; [exact H|apply String.eqb_refl]. Qed.
Lemma field_named_ex n fs : field_named n fs = true -> exists f, In f fs /\ f_name f = n.
Proof. unfold field_named. intros H. apply existsb_exists in H as (f & Hf & E). exists f. split; [exact Hf|now apply String.eqb_eq]. Qed.

Lemma id_field_name f : is_id_field f = true -> f_name f = "id".
Proof. unfold is_id_field. intros H. apply andb_prop in H as [H _]. apply andb_prop in H as [H _]. now apply String.eqb_eq. Qed.

(* overlap_scan: the result grows; every scanned non-id field ends up in it; and when every new flag is true the
   scanned names were all present before *)
Lemma scan_names mf : forall result flags res fl, overlap_scan mf result flags = (res, fl) ->
  (forall n, field_named n result = true -> field_named n res = true) /\
  (forall f, In f mf -> is_id_field f = false -> field_named (f_name f) res = true) /\
  exists nf, fl = flags ++ nf /\
     (forallb (fun x => x) nf = true -> forall f, In f mf -> is_id_field f = false -> field_named (f_name f) result = true).
Proof.
  induction mf as [|f t IH]; intros result flags res fl H; cbn [overlap_scan] in H.
  - inversion H; subst. split; [auto|]. split; [intros f []|]. exists []. split; [now rewrite app_nil_r|intros _ f []].
  - destruct (is_id_field f) eqn:Eid.
    + destruct (IH _ _ _ _ H) as (A & B & nf & Efl & C). split; [exact A|]. split.
      * intros g [<-|Hg] Hid; [congruence|auto].
      * exists nf. split; [exact Efl|]. intros Hall g [<-|Hg] Hid; [congruence|auto].
    + destruct (IH _ _ _ _ H) as (A & B & nf & Efl & C). split; [|split].
      * intros n Hn. apply A. rewrite field_named_app, Hn. reflexivity.
      * intros g [<-|Hg] Hid; [|auto]. apply A. rewrite field_named_app. rewrite (field_named_In f [f] (or_introl eq_refl)). apply orb_true_r.
      * exists (field_named (f_name f) result :: nf). split; [rewrite Efl, <- app_assoc; reflexivity|].
        cbn [forallb]. intros Hall. apply andb_prop in Hall as [Hb Hall]. intros g [<-|Hg] Hid; [exact Hb|].
        specialize (C Hall g Hg Hid). rewrite field_named_app in C. apply orb_prop in C as [C|C]; [exact C|].
        unfold field_named in C. cbn in C. rewrite orb_false_r in C. apply String.eqb_eq in C. now rewrite <- C.
Qed.

Lemma filter_true {A} (l : list A) : filter (fun _ => true) l = l.
Proof. induction l as [|x t IH]; cbn; [reflexivity|now rewrite IH]. Qed.

(* mergeCustomObjectFields keeps every field name of both declarations (away from Query, `id` and built-ins) *)
Lemma mcf_names a b fs : mcf a b = inr fs -> d_name a <> "Query" ->
  forall n, n <> "id" -> is_builtin n = false ->
  field_named n (d_fields a) || field_named n (d_fields b) = true -> field_named n fs = true.
Proof.
  unfold mcf. intros H Hq n Hid Hb Hn.
  rewrite (proj2 (String.eqb_neq _ _) Hq) in H. cbn [andb negb] in H.
  rewrite filter_true in H.
  set (mf := filter (fun f => negb (is_builtin (f_name f))) (d_fields b)) in *.
  destruct (sig_clash mf (d_fields a)); [discriminate|].
  destruct (overlap_scan mf (d_fields a) []) as [res fl] eqn:Es.
  destruct (scan_names _ _ _ _ _ Es) as (A & B & nf & Efl & C). cbn [app] in Efl. subst nf.
  assert (Hb' : field_named n (d_fields b) = true -> exists g, In g mf /\ f_name g = n /\ is_id_field g = false).
  { intros Hnb. apply field_named_ex in Hnb as (g & Hg & En). exists g. split; [|split; [exact En|]].
    - apply filter_In. split; [exact Hg|]. now rewrite En, Hb.
    - destruct (is_id_field g) eqn:Ei; [|reflexivity]. apply id_field_name in Ei. congruence. }
  destruct (implements_node a && existsb (fun x => x) fl); [discriminate|].
  destruct (existsb (fun x => x) fl && negb (forallb (fun x => x) fl)); [discriminate|].
  destruct (forallb (fun x => x) fl) eqn:Eall; inversion H as [Hfs]; subst fs.
  - apply orb_prop in Hn as [Hn|Hn]; [exact Hn|]. destruct (Hb' Hn) as (g & Hg & En & Hi). rewrite <- En. now apply (C eq_refl).
  - apply orb_prop in Hn as [Hn|Hn]; [now apply A|]. destruct (Hb' Hn) as (g & Hg & En & Hi). rewrite <- En. now apply B.
Qed.

(* mergeRootObjects keeps (the name of) every field of the later input and of every accumulated field — since the fix
   also of one of the shape of the Relay entry point *)
Lemma root_names accf : forall fields fs, root_fields accf fields = Some fs ->
  (forall n, field_named n fields = true -> field_named n fs = true) /\
  (forall g, In g accf -> is_builtin (f_name g) = false -> field_named (f_name g) fs = true).
Proof.
  induction accf as [|f t IH]; intros fields fs H; cbn [root_fields] in H.
  - inversion H; subst. split; [auto|intros g []].
  - destruct (is_builtin (f_name f)) eqn:E.
    + destruct (IH _ _ H) as [A B]. split; [exact A|]. intros g [<-|Hg] Hb; [rewrite Hb in E; discriminate|auto].
    + destruct (node_there f fields) eqn:E2.
      * destruct (IH _ _ H) as [A B]. split; [exact A|]. intros g [<-|Hg] Hb; [|auto].
        apply A, node_there_named, E2.
      * destruct (field_named (f_name f) fields); [discriminate|]. destruct (IH _ _ H) as [A B]. split.
        -- intros n Hn. apply A. rewrite field_named_app, Hn. reflexivity.
        -- intros g [<-|Hg] Hb; [|auto]. apply A. rewrite field_named_app, (field_named_In f [f] (or_introl eq_refl)). apply orb_true_r.
Qed.

Definition fielded_kind (k : kind) : Prop := k = KObject \/ k = KInterface \/ k = KInput.

Lemma put_names va nvb d : merge_def va nvb = Put d -> fielded_kind (d_kind nvb) ->
  forall n, n <> "id" -> is_builtin n = false ->
  field_named n (d_fields nvb) || field_named n (d_fields va) = true -> field_named n (d_fields d) = true.
Proof.
  unfold merge_def. intros H Hk n Hid Hb Hn.
  destruct (d_name nvb =? "Node"); [discriminate|].
  destruct (negb (kind_eqb (d_kind nvb) (d_kind va))); [discriminate|].
  assert (G : (if negb (Bool.eqb (implements_node nvb) (implements_node va)) then Fail ENodeCollision
               else match (if is_root (d_name nvb) then merge_root nvb va else merge_custom nvb va) with inl e => Fail e | inr d0 => Put d0 end) = Put d).
  { destruct Hk as [K|[K|K]]; rewrite K in H; exact H. }
  clear H. destruct (negb (Bool.eqb (implements_node nvb) (implements_node va))); [discriminate|].
  destruct (is_root (d_name nvb)) eqn:R.
  - unfold merge_root in G. destruct (root_fields (d_fields va) (d_fields nvb)) as [fs|] eqn:E; [|discriminate].
    inversion G; subst d. cbn [d_fields]. destruct (root_names _ _ _ E) as [A B].
    apply orb_prop in Hn as [Hn|Hn]; [now apply A|].
    apply field_named_ex in Hn as (g & Hg & En). rewrite <- En. apply B; [exact Hg|now rewrite En].
  - unfold merge_custom in G. destruct (mcf nvb va) as [e|fs] eqn:M1; [discriminate|]. destruct (mcf va nvb); [discriminate|].
    inversion G; subst d. cbn [d_fields]. eapply mcf_names; eauto.
    intros Eq. rewrite Eq in R. discriminate.
Qed.

(* the invariant: names of every earlier service's types are still there *)
Definition SupF (all : list input) (inputs : list input) (acc : schema) : Prop :=
  forall u s d n, In (u, s) inputs -> In d s -> is_builtin (d_name d) = false -> d_name d <> "Node" -> fielded_kind (d_kind d) ->
    n <> "id" -> is_builtin n = false ->
    field_named n (d_fields d) = true ->
    exists D, find_def (d_name d) acc = Some D /\ field_named n (d_fields D) = true.

Lemma supf_first all u s : wf_schema s -> SupF all [(u, s)] s.
Proof.
  intros [Hnd _] u' s' d n [E|[]] Hd _ _ _ _ _ Hn. inversion E; subst. exists d. split; [now apply find_def_of_In|exact Hn].
Qed.

Lemma supf_step all inputs acc u s res :
  incl (inputs ++ [(u, s)]) all ->
  (forall u' s', In (u', s') inputs -> wf_schema s') -> wf_schema s ->
  Inv inputs acc -> SupF all inputs acc -> merge_types acc s = (res, []) -> SupF all (inputs ++ [(u, s)]) res.
Proof.
  intros Hincl Hwf [Hnd Hroot] [Ind Isub Isup] HS Hm.
  pose proof (merge_types_find acc s res Hnd Hm) as Hfind.
  intros u' s' d n Hi Hd Hb Hnode Hk Hid Hbn Hn. rewrite Hfind.
  apply in_app_or in Hi as [Hi|[E|[]]].
  - destruct (HS u' s' d n Hi Hd Hb Hnode Hk Hid Hbn Hn) as (D0 & HD0 & Hn0).
    destruct (Isup u' s' d Hi Hd Hb) as (D0' & HD0' & Hkind). rewrite HD0 in HD0'. inversion HD0'; subst D0'.
    destruct (touched (d_name d) s) as [nvb|] eqn:T; [|exists D0; auto].
    apply touched_some in T as (Hin & Hnm & Hnb). unfold entry. rewrite Hnm, HD0.
    destruct (merge_def D0 nvb) as [|D|e] eqn:Md.
    + exists D0. auto.
    + exists D. split; [reflexivity|].
      destruct (put_kind _ _ _ Md) as (K1 & _ & _).
      assert (Hk' : fielded_kind (d_kind nvb)) by (rewrite K1, <- (Hkind Hnode); exact Hk).
      apply (put_names D0 nvb D Md Hk' n Hid Hbn). rewrite Hn0. apply orb_true_r.
    + exfalso. eapply (merge_no_fail acc s res nvb D0 e); eauto. now rewrite Hnm.
  - inversion E; subst u' s'. rewrite (touched_of_In s d Hnd Hd Hb). unfold entry.
    destruct (find_def (d_name d) acc) as [va|] eqn:Fa; [|exists d; auto].
    destruct (merge_def va d) as [|D|e] eqn:Md.
    + (* Keep: only for Node and unions *)
      exfalso. unfold merge_def in Md. rewrite (proj2 (String.eqb_neq _ _) Hnode) in Md.
      destruct (negb (kind_eqb (d_kind d) (d_kind va))); [discriminate|].
      destruct Hk as [K|[K|K]]; rewrite K in Md;
        (destruct (negb (Bool.eqb (implements_node d) (implements_node va))); [discriminate|];
         destruct (if is_root (d_name d) then merge_root d va else merge_custom d va); discriminate).
    + exists D. split; [reflexivity|]. apply (put_names va d D Md Hk n Hid Hbn). rewrite Hn. reflexivity.
    + exfalso. eapply (merge_no_fail acc s res d va e); eauto.
Qed.

Lemma merge_loop_supf all rest : forall pre acc M tm tm',
  incl (pre ++ rest) all ->
  (forall u s, In (u, s) (pre ++ rest) -> wf_schema s) ->
  Inv pre acc -> SupF all pre acc -> merge_loop acc tm rest = MOk M tm' -> SupF all (pre ++ rest) M.
Proof.
  induction rest as [|[u s] rest IH]; intros pre acc M tm tm' Hincl Hwf HI HS H; cbn [merge_loop] in H.
  - inversion H; subst. now rewrite app_nil_r.
  - destruct (merge_types acc s) as [res es] eqn:Mt. destruct es; [|discriminate].
    replace (pre ++ (u, s) :: rest) with ((pre ++ [(u, s)]) ++ rest) in * by (now rewrite <- app_assoc).
    assert (Hwf1 : forall u' s', In (u', s') pre -> wf_schema s') by (intros u' s' Hin; apply (Hwf u' s'); apply in_or_app; left; apply in_or_app; now left).
    assert (Hwf2 : wf_schema s) by (apply (Hwf u s); apply in_or_app; left; apply in_or_app; right; now left).
    eapply IH; [exact Hincl|exact Hwf| | |exact H].
    + eapply inv_step; eauto.
    + eapply supf_step; eauto. intros x Hx. apply Hincl. apply in_or_app. now left.
Qed.

Theorem merged_has_every_field_name inputs M tm u s d n :
  (forall u s, In (u, s) inputs -> wf_schema s) -> merge inputs = MOk M tm ->
  In (u, s) inputs -> In d s -> is_builtin (d_name d) = false -> d_name d <> "Node" -> fielded_kind (d_kind d) ->
  field_named n (d_fields d) = true -> n <> "id" -> is_builtin n = false ->
  exists D, In D M /\ d_name D = d_name d /\ field_named n (d_fields D) = true.
Proof.
  destruct inputs as [|[u0 s0] rest]; cbn [merge]; [discriminate|]. intros Hwf H Hi Hd Hb Hnode Hk Hn Hid Hbn.
  assert (HS : SupF ((u0, s0) :: rest) ([(u0, s0)] ++ rest) M).
  { eapply (merge_loop_supf ((u0, s0) :: rest) rest [(u0, s0)] s0 M); eauto.
    - intros x Hx. exact Hx.
    - apply inv_first. apply (Hwf u0 s0). now left.
    - apply supf_first. apply (Hwf u0 s0). now left. }
  destruct (HS u s d n Hi Hd Hb Hnode Hk Hid Hbn Hn) as (D & HfD & HnD).
  apply find_def_some in HfD as [HD HDn]. exists D. auto.
Qed.
