(* Model of common.AsyncMapReduce (common/helpers.go) as a labelled transition system.
   No proofs in this file.

   goroutines            | here
   ----------------------+---------------------------------------------------------------
   one worker per item   | (item, wst, #map applications): WTodo -> WRun -> WRes p / WErr e -> WSent -> WDone
   the reducer           | rst: RInit -> RSel -> RGotRes p / RGotErr e -> RRes p / RErr e -> RAfter -> RDoneW -> RSel ... -> RGotDone -> RExit
   the caller            | cst: CStart -> CPre -> CWaited -> CSent -> CRet
   resChan / errChan     | unbuffered: a send and the matching receive are ONE step (s_recv_res / s_recv_err)
   doneChan              | unbuffered rendezvous caller -> reducer (s_senddone)
   sync.WaitGroup        | counter wg; wg.Wait() returns only when wg = 0 (s_wait)
   reduceFunc            | applied in s_reduce; [hist] records the sequence of reduced values, [inred] counts
                         |   reduce applications in progress (between the hook points amr.r.recvres and amr.r.reduced)
   Visible labels are the verif hook points of the Go code (common.VerifPoint); tau steps are wg.Done()
   and the doneChan rendezvous. *)
From Coq Require Import List Arith Bool.
Import ListNotations.

Section AMR.
Variables (T P A E : Type) (mapf : T -> P + E) (redf : A -> P -> A) (acc0 : A).

Inductive wst := WTodo | WRun | WRes (p : P) | WErr (e : E) | WSent | WDone.
Inductive rst := RInit | RSel | RGotRes (p : P) | RGotErr (e : E) | RRes (p : P) | RErr (e : E) | RAfter | RDoneW | RGotDone | RExit.
Inductive cst := CStart | CPre | CWaited | CSent | CRet.

Record worker := mkW { w_item : T; w_st : wst; w_maps : nat }.

Record st := mk {
  ws : list worker; red : rst; wg : nat; cal : cst;
  acc : A; errs : list E; hist : list P;
}.

Definition init (items : list T) : st :=
  mk (map (fun x => mkW x WTodo 0) items) RInit (length items) CStart acc0 [] [].

Definition mapped (x : T) : wst := match mapf x with inl p => WRes p | inr e => WErr e end.

Inductive label :=
| LWStart (x : T) | LWMapped (x : T) (iserr : bool) | LWExit (x : T)
| LSelect | LRecvRes (p : P) | LReduced | LRecvErr (e : E) | LErred | LRExit
| LPrewait | LWaited | LSentDone
| LTau.

Definition is_err (w : wst) : bool := match w with WErr _ => true | _ => false end.

Inductive step : st -> label -> st -> Prop :=
| s_wstart l1 x k l2 r g c a es h :
    step (mk (l1 ++ mkW x WTodo k :: l2) r g c a es h) (LWStart x) (mk (l1 ++ mkW x WRun k :: l2) r g c a es h)
| s_map l1 x k l2 r g c a es h :
    step (mk (l1 ++ mkW x WRun k :: l2) r g c a es h) (LWMapped x (is_err (mapped x)))
         (mk (l1 ++ mkW x (mapped x) (S k) :: l2) r g c a es h)
| s_rfirst w g c a es h :
    step (mk w RInit g c a es h) LSelect (mk w RSel g c a es h)
| s_recv_res l1 x p k l2 g c a es h :   (* the rendezvous itself; both sides log afterwards, in either order *)
    step (mk (l1 ++ mkW x (WRes p) k :: l2) RSel g c a es h) LTau (mk (l1 ++ mkW x WSent k :: l2) (RGotRes p) g c a es h)
| s_recv_err l1 x e k l2 g c a es h :
    step (mk (l1 ++ mkW x (WErr e) k :: l2) RSel g c a es h) LTau (mk (l1 ++ mkW x WSent k :: l2) (RGotErr e) g c a es h)
| s_log_res w p g c a es h :
    step (mk w (RGotRes p) g c a es h) (LRecvRes p) (mk w (RRes p) g c a es h)
| s_log_err w e g c a es h :
    step (mk w (RGotErr e) g c a es h) (LRecvErr e) (mk w (RErr e) g c a es h)
| s_wexit l1 x k l2 r g c a es h :
    step (mk (l1 ++ mkW x WSent k :: l2) r g c a es h) (LWExit x) (mk (l1 ++ mkW x WDone k :: l2) r g c a es h)
| s_reduce w p g c a es h :
    step (mk w (RRes p) g c a es h) LReduced (mk w RAfter g c (redf a p) es (h ++ [p]))
| s_err w e g c a es h :
    step (mk w (RErr e) g c a es h) LErred (mk w RAfter g c a (es ++ [e]) h)
| s_done w g c a es h :
    step (mk w RAfter (S g) c a es h) LTau (mk w RDoneW g c a es h)
| s_rsel w g c a es h :
    step (mk w RDoneW g c a es h) LSelect (mk w RSel g c a es h)
| s_pre w r g a es h :
    step (mk w r g CStart a es h) LPrewait (mk w r g CPre a es h)
| s_wait w r a es h :
    step (mk w r 0 CPre a es h) LWaited (mk w r 0 CWaited a es h)
| s_senddone w g a es h :
    step (mk w RSel g CWaited a es h) LTau (mk w RGotDone g CSent a es h)
| s_rexit w g c a es h :
    step (mk w RGotDone g c a es h) LRExit (mk w RExit g c a es h)
| s_ret w r g a es h :
    step (mk w r g CSent a es h) LSentDone (mk w r g CRet a es h).

Inductive reach (s0 : st) : st -> Prop :=
| r_refl : reach s0 s0
| r_step s l s' : reach s0 s -> step s l s' -> reach s0 s'.

(* number of reduceFunc applications in progress *)
Definition inred (s : st) : nat := match red s with RRes _ => 1 | _ => 0 end.

Definition final (s : st) : Prop :=
  Forall (fun w => w_st w = WDone) (ws s) /\ red s = RExit /\ cal s = CRet.

End AMR.

Arguments mkW {T P E}.
Arguments mk {T P A E}.
Arguments WTodo {P E}. Arguments WRun {P E}. Arguments WRes {P E} p. Arguments WErr {P E} e. Arguments WSent {P E}. Arguments WDone {P E}.
Arguments RInit {P E}. Arguments RSel {P E}. Arguments RRes {P E} p. Arguments RErr {P E} e. Arguments RGotRes {P E} p. Arguments RGotErr {P E} e. Arguments RAfter {P E}.
Arguments RDoneW {P E}. Arguments RGotDone {P E}. Arguments RExit {P E}.
Arguments w_item {T P E}. Arguments w_st {T P E}. Arguments w_maps {T P E}.
Arguments ws {T P A E}. Arguments red {T P A E}. Arguments wg {T P A E}. Arguments cal {T P A E}.
Arguments acc {T P A E}. Arguments errs {T P A E}. Arguments hist {T P A E}.
Arguments LWStart {T P E}. Arguments LWMapped {T P E}. Arguments LWExit {T P E}. Arguments LSelect {T P E}.
Arguments LRecvRes {T P E}. Arguments LReduced {T P E}. Arguments LRecvErr {T P E}. Arguments LErred {T P E}. Arguments LRExit {T P E}.
Arguments LPrewait {T P E}. Arguments LWaited {T P E}. Arguments LSentDone {T P E}. Arguments LTau {T P E}.
