(* Invariant, safety at return, progress and termination for the AsyncMapReduce LTS (C20). *)
From Coq Require Import List Arith Lia Permutation Bool.
From Pebbles Require Import Conc.AMR.
Import ListNotations.

Section Proofs.
Variables (T P A E : Type) (mapf : T -> P + E) (redf : A -> P -> A) (acc0 : A).

Notation st := (st T P A E).
Notation worker := (worker T P E).
Notation step := (step T P A E mapf redf).
Notation reach := (reach T P A E mapf redf).
Notation init := (init T P A E acc0).
Notation mapped := (mapped T P E mapf).

(* ---- accounting ---- *)
Definition unack (w : worker) : nat := match w_st w with WSent | WDone => 0 | _ => 1 end.
Definition nunack (l : list worker) : nat := fold_right (fun w n => unack w + n) 0 l.
Definition busy (r : rst P E) : nat := match r with RGotRes _ | RGotErr _ | RRes _ | RErr _ | RAfter => 1 | _ => 0 end.

Definition succ_of (x : T) : list P := match mapf x with inl p => [p] | inr _ => [] end.
Definition fail_of (x : T) : list E := match mapf x with inl _ => [] | inr e => [e] end.
Definition acked (w : worker) : bool := match w_st w with WSent | WDone => true | _ => false end.
Definition doneP (l : list worker) : list P := flat_map (fun w => if acked w then succ_of (w_item w) else []) l.
Definition doneE (l : list worker) : list E := flat_map (fun w => if acked w then fail_of (w_item w) else []) l.
Definition flightP (r : rst P E) : list P := match r with RRes p | RGotRes p => [p] | _ => [] end.
Definition flightE (r : rst P E) : list E := match r with RErr e | RGotErr e => [e] | _ => [] end.

Definition coherent (w : worker) : Prop :=
  match w_st w with WRes p => mapf (w_item w) = inl p | WErr e => mapf (w_item w) = inr e | _ => True end.
Definition maps_ok (w : worker) : Prop :=
  w_maps w = match w_st w with WTodo | WRun => 0 | _ => 1 end.
Definition past_wait (c : cst) : Prop := c = CWaited \/ c = CSent \/ c = CRet.
Definition handshaken (c : cst) : Prop := c = CSent \/ c = CRet.
Definition r_stopped (r : rst P E) : Prop := r = RGotDone \/ r = RExit.

Record Inv (items : list T) (s : st) : Prop := {
  i_items : map w_item (ws s) = items;
  i_coh : Forall coherent (ws s);
  i_maps : Forall maps_ok (ws s);
  i_wg : wg s = nunack (ws s) + busy (red s);
  i_cal : past_wait (cal s) -> wg s = 0;
  i_stop : r_stopped (red s) <-> handshaken (cal s);
  i_P : Permutation (hist s ++ flightP (red s)) (doneP (ws s));
  i_E : Permutation (errs s ++ flightE (red s)) (doneE (ws s));
  i_acc : acc s = fold_left redf (hist s) acc0
}.

Lemma nunack_app l1 l2 : nunack (l1 ++ l2) = nunack l1 + nunack l2.
Proof. unfold nunack. induction l1 as [|w l1 IH]; cbn [app fold_right]; [reflexivity|]. rewrite IH. lia. Qed.
Lemma nunack_mid l1 w l2 : nunack (l1 ++ w :: l2) = nunack l1 + (unack w + nunack l2).
Proof. rewrite nunack_app. reflexivity. Qed.
Lemma doneP_mid l1 w l2 : doneP (l1 ++ w :: l2) = doneP l1 ++ (if acked w then succ_of (w_item w) else []) ++ doneP l2.
Proof. unfold doneP. rewrite flat_map_app. reflexivity. Qed.
Lemma doneE_mid l1 w l2 : doneE (l1 ++ w :: l2) = doneE l1 ++ (if acked w then fail_of (w_item w) else []) ++ doneE l2.
Proof. unfold doneE. rewrite flat_map_app. reflexivity. Qed.

Lemma nunack_init items : nunack (map (fun x => mkW x WTodo 0) items) = length items.
Proof. unfold nunack. induction items as [|x l IH]; cbn [map fold_right length]; [reflexivity|]. rewrite IH. reflexivity. Qed.
Lemma doneP_init items : doneP (map (fun x => mkW x WTodo 0) items) = [].
Proof. unfold doneP. induction items as [|x l IH]; cbn; auto. Qed.
Lemma doneE_init items : doneE (map (fun x => mkW x WTodo 0) items) = [].
Proof. unfold doneE. induction items as [|x l IH]; cbn; auto. Qed.

Lemma inv_init items : Inv items (init items).
Proof.
  unfold AMR.init. constructor; cbn [ws red wg cal acc errs hist busy flightP flightE app].
  - rewrite map_map. cbn [w_item]. apply map_id.
  - apply Forall_forall. intros w Hw. apply in_map_iff in Hw as (x & <- & _). exact I.
  - apply Forall_forall. intros w Hw. apply in_map_iff in Hw as (x & <- & _). reflexivity.
  - rewrite nunack_init. lia.
  - intros [H|[H|H]]; discriminate.
  - split; intros [H|H]; discriminate.
  - rewrite doneP_init. constructor.
  - rewrite doneE_init. constructor.
  - reflexivity.
Qed.

Ltac simp := cbn [ws red wg cal acc errs hist busy flightP flightE unack acked w_st w_item w_maps] in *.

Ltac split_forall H :=
  let H1 := fresh "Ha" in let H2 := fresh "Hb" in let Hx := fresh "Hx" in
  apply Forall_app in H as [H1 H2]; apply Forall_cons_iff in H2 as [Hx H2].

Ltac stop_tac Hex :=
  split; [ intros [Hq|Hq]; try discriminate Hq; try (apply Hex; auto; fail)
         | intros Hq; try (apply Hex in Hq; destruct Hq as [Hq|Hq]; discriminate Hq) ].

Lemma inv_step items s l s' : Inv items s -> step s l s' -> Inv items s'.
Proof.
  intros HI Hs. destruct Hs; destruct HI as [Hi Hc Hm Hw Hcal Hex HP HE Ha]; simp.
  - (* wstart *)
    split_forall Hc. split_forall Hm.
    constructor; simp; auto.
    + rewrite map_app in *. exact Hi.
    + apply Forall_app; split; auto.
    + apply Forall_app; split; auto.
    + rewrite nunack_mid in *. exact Hw.
    + rewrite doneP_mid in *. exact HP.
    + rewrite doneE_mid in *. exact HE.
  - (* map *)
    split_forall Hc. split_forall Hm. unfold maps_ok in Hx0. simp.
    constructor; simp; auto.
    + rewrite map_app in *. exact Hi.
    + apply Forall_app; split; auto. constructor; auto. unfold coherent, AMR.mapped. simp. destruct (mapf x); reflexivity.
    + apply Forall_app; split; auto. constructor; auto. unfold maps_ok, AMR.mapped. simp. rewrite Hx0. destruct (mapf x); reflexivity.
    + rewrite nunack_mid in *. simp. unfold AMR.mapped. destruct (mapf x); exact Hw.
    + rewrite doneP_mid in *. simp. unfold AMR.mapped. destruct (mapf x); exact HP.
    + rewrite doneE_mid in *. simp. unfold AMR.mapped. destruct (mapf x); exact HE.
  - (* rfirst *)
    constructor; simp; auto.
    split; [ intros [Hq|Hq]; discriminate Hq | intros Hq; apply Hex in Hq; destruct Hq as [Hq|Hq]; discriminate Hq ].
  - (* recv res *)
    split_forall Hc. split_forall Hm. unfold coherent in Hx; simp. unfold maps_ok in Hx0; simp.
    constructor; simp; auto.
    + rewrite map_app in *. exact Hi.
    + apply Forall_app; split; auto; constructor; auto; try exact I.
    + apply Forall_app; split; auto.
    + rewrite nunack_mid in *. simp. lia.
    + split; [ intros [Hq|Hq]; discriminate Hq | intros Hq; apply Hex in Hq; destruct Hq as [Hq|Hq]; discriminate Hq ].
    + rewrite doneP_mid in *. simp. unfold succ_of. rewrite Hx. rewrite app_nil_r in HP. cbn [app] in *.
      etransitivity; [apply Permutation_app_comm|]. cbn [app]. apply Permutation_cons_app. exact HP.
    + rewrite doneE_mid in *. simp. unfold fail_of. rewrite Hx. exact HE.
  - (* recv err *)
    split_forall Hc. split_forall Hm. unfold coherent in Hx; simp. unfold maps_ok in Hx0; simp.
    constructor; simp; auto.
    + rewrite map_app in *. exact Hi.
    + apply Forall_app; split; auto; constructor; auto; try exact I.
    + apply Forall_app; split; auto.
    + rewrite nunack_mid in *. simp. lia.
    + split; [ intros [Hq|Hq]; discriminate Hq | intros Hq; apply Hex in Hq; destruct Hq as [Hq|Hq]; discriminate Hq ].
    + rewrite doneP_mid in *. simp. unfold succ_of. rewrite Hx. exact HP.
    + rewrite doneE_mid in *. simp. unfold fail_of. rewrite Hx. rewrite app_nil_r in HE. cbn [app] in *.
      etransitivity; [apply Permutation_app_comm|]. cbn [app]. apply Permutation_cons_app. exact HE.
  - (* log res *)
    constructor; simp; auto.
    split; [ intros [Hq|Hq]; discriminate Hq | intros Hq; apply Hex in Hq; destruct Hq as [Hq|Hq]; discriminate Hq ].
  - (* log err *)
    constructor; simp; auto.
    split; [ intros [Hq|Hq]; discriminate Hq | intros Hq; apply Hex in Hq; destruct Hq as [Hq|Hq]; discriminate Hq ].
  - (* wexit *)
    split_forall Hc. split_forall Hm. unfold maps_ok in Hx0; simp.
    constructor; simp; auto.
    + rewrite map_app in *. exact Hi.
    + apply Forall_app; split; auto; constructor; auto; try exact I.
    + apply Forall_app; split; auto.
    + rewrite nunack_mid in *. exact Hw.
    + rewrite doneP_mid in *. exact HP.
    + rewrite doneE_mid in *. exact HE.
  - (* reduce *)
    constructor; simp; auto.
    + split; [ intros [Hq|Hq]; discriminate Hq | intros Hq; apply Hex in Hq; destruct Hq as [Hq|Hq]; discriminate Hq ].
    + rewrite app_nil_r. exact HP.
    + rewrite fold_left_app. cbn. now rewrite Ha.
  - (* err *)
    constructor; simp; auto.
    + split; [ intros [Hq|Hq]; discriminate Hq | intros Hq; apply Hex in Hq; destruct Hq as [Hq|Hq]; discriminate Hq ].
    + rewrite app_nil_r. exact HE.
  - (* done *)
    constructor; simp; auto.
    + lia.
    + intro Hn. specialize (Hcal Hn). discriminate.
    + split; [ intros [Hq|Hq]; discriminate Hq | intros Hq; apply Hex in Hq; destruct Hq as [Hq|Hq]; discriminate Hq ].
  - (* rsel *)
    constructor; simp; auto.
    split; [ intros [Hq|Hq]; discriminate Hq | intros Hq; apply Hex in Hq; destruct Hq as [Hq|Hq]; discriminate Hq ].
  - (* pre *)
    constructor; simp; auto.
    + intros [Hq|[Hq|Hq]]; discriminate.
    + split; [intros Hq; apply Hex in Hq; destruct Hq; discriminate | intros [Hq|Hq]; discriminate].
  - (* wait *)
    constructor; simp; auto.
    split; [intros Hq; apply Hex in Hq; destruct Hq; discriminate | intros [Hq|Hq]; discriminate].
  - (* senddone *)
    constructor; simp; auto.
    + intros _. apply Hcal. left. reflexivity.
    + split; intros _; [left|left]; reflexivity.
  - (* rexit *)
    constructor; simp; auto.
    split; [intros _; apply Hex; left; reflexivity | intros _; right; reflexivity].
  - (* ret *)
    constructor; simp; auto.
    + intros _. apply Hcal. right; left; reflexivity.
    + split; [intros _; right; reflexivity | intros _; apply Hex; left; reflexivity].
Qed.

Theorem reach_inv items s : reach (init items) s -> Inv items s.
Proof. induction 1; [apply inv_init | eapply inv_step; eauto]. Qed.

Lemma nunack_0_all_acked l : nunack l = 0 -> Forall (fun w => acked w = true) l.
Proof.
  unfold nunack. induction l as [|w l IH]; cbn [fold_right]; intros H; constructor.
  - unfold unack, acked in *. destruct (w_st w); try reflexivity; lia.
  - apply IH. lia.
Qed.

Lemma doneP_all l : Forall (fun w => acked w = true) l -> doneP l = flat_map succ_of (map w_item l).
Proof. unfold doneP. induction 1 as [|w l Hw _ IH]; cbn [map flat_map]; auto. rewrite Hw, IH. reflexivity. Qed.
Lemma doneE_all l : Forall (fun w => acked w = true) l -> doneE l = flat_map fail_of (map w_item l).
Proof. unfold doneE. induction 1 as [|w l Hw _ IH]; cbn [map flat_map]; auto. rewrite Hw, IH. reflexivity. Qed.

(* What holds when the caller has returned. *)
Theorem amr_returns_correct items s :
  reach (init items) s -> cal s = CRet ->
  map w_item (ws s) = items /\
  Forall (fun w => w_maps w = 1 /\ (w_st w = WSent \/ w_st w = WDone)) (ws s) /\
  (red s = RGotDone \/ red s = RExit) /\
  Permutation (hist s) (flat_map succ_of items) /\
  acc s = fold_left redf (hist s) acc0 /\
  Permutation (errs s) (flat_map fail_of items).
Proof.
  intros Hr Hc. destruct (reach_inv _ _ Hr) as [Hi Hco Hm Hw Hcal Hex HP HE Ha].
  assert (Hx : r_stopped (red s)) by (apply Hex; right; exact Hc).
  assert (Hg : wg s = 0) by (apply Hcal; right; right; exact Hc).
  assert (Hb : busy (red s) = 0) by (destruct Hx as [-> | ->]; reflexivity).
  assert (Hn : nunack (ws s) = 0) by lia.
  pose proof (nunack_0_all_acked _ Hn) as Hall.
  assert (HfP : flightP (red s) = []) by (destruct Hx as [-> | ->]; reflexivity).
  assert (HfE : flightE (red s) = []) by (destruct Hx as [-> | ->]; reflexivity).
  rewrite HfP, app_nil_r, (doneP_all _ Hall), Hi in HP.
  rewrite HfE, app_nil_r, (doneE_all _ Hall), Hi in HE.
  repeat split; auto.
  apply Forall_forall. intros w Hin.
  pose proof (proj1 (Forall_forall _ _) Hall w Hin) as Hk.
  pose proof (proj1 (Forall_forall _ _) Hm w Hin) as Hmw.
  unfold acked in Hk. unfold maps_ok in Hmw. destruct (w_st w); try discriminate; auto.
Qed.

(* reduceFunc is never applied concurrently with itself: at most one application is in progress *)
Theorem reduce_serial s : inred T P A E s <= 1.
Proof. unfold inred. destruct (red s); lia. Qed.

(* ---- progress ---- *)
Lemma worker_cases (l : list worker) :
  Forall (fun w => w_st w = WDone) l \/
  exists l1 w l2, l = l1 ++ w :: l2 /\ w_st w <> WDone.
Proof.
  induction l as [|w l IH]; [left; constructor|].
  destruct (w_st w) eqn:Ew; try (right; exists [], w, l; split; [reflexivity|rewrite Ew; discriminate]).
  destruct IH as [IH|(l1 & w' & l2 & -> & Hne)].
  - left. constructor; auto.
  - right. exists (w :: l1), w', l2. split; auto.
Qed.

Theorem amr_progress items s :
  reach (init items) s -> ~ final T P A E s -> exists l s', step s l s'.
Proof.
  intros Hr Hnf. pose proof (reach_inv _ _ Hr) as HI. clear Hr.
  destruct s as [w r g c a es h]. destruct HI as [Hi Hco Hm Hw Hcal Hex HP HE Ha]. simp.
  unfold final in Hnf. simp.
  destruct r.
  - do 2 eexists. apply s_rfirst.
  - (* RSel *)
    destruct (worker_cases w) as [Hall|(l1 & [x stx k] & l2 & -> & Hne)].
    + assert (Hn : nunack w = 0).
      { clear -Hall. unfold nunack. induction Hall as [|y l Hy _ IH]; cbn [fold_right]; auto. unfold unack at 1. rewrite Hy. cbn. exact IH. }
      destruct c.
      * do 2 eexists. apply s_pre.
      * assert (Hg : g = 0) by (cbn [busy] in Hw; lia). rewrite Hg. do 2 eexists. apply s_wait.
      * do 2 eexists. apply s_senddone.
      * exfalso. assert (Hq : r_stopped RSel) by (apply Hex; left; reflexivity). destruct Hq; discriminate.
      * exfalso. assert (Hq : r_stopped RSel) by (apply Hex; right; reflexivity). destruct Hq; discriminate.
    + cbn [w_st] in Hne. destruct stx; try congruence.
      * do 2 eexists. apply s_wstart.
      * do 2 eexists. apply s_map.
      * do 2 eexists. apply s_recv_res.
      * do 2 eexists. apply s_recv_err.
      * do 2 eexists. apply s_wexit.
  - do 2 eexists. apply s_log_res.
  - do 2 eexists. apply s_log_err.
  - do 2 eexists. apply s_reduce.
  - do 2 eexists. apply s_err.
  - cbn [busy] in Hw. destruct g; [lia|]. do 2 eexists. apply s_done.
  - do 2 eexists. apply s_rsel.
  - do 2 eexists. apply s_rexit.
  - (* RExit *)
    assert (Hh : handshaken c) by (apply Hex; right; reflexivity).
    assert (Hg : g = 0) by (apply Hcal; destruct Hh as [-> | ->]; [right; left|right; right]; reflexivity).
    destruct (worker_cases w) as [Hall|(l1 & [x stx k] & l2 & -> & Hne)].
    + destruct Hh as [-> | ->].
      * do 2 eexists. apply s_ret.
      * exfalso. apply Hnf. auto.
    + cbn [w_st] in Hne. rewrite nunack_mid in Hw. simp. destruct stx; try congruence; simp; try lia.
      do 2 eexists. apply s_wexit.
Qed.

(* ---- termination ---- *)
Definition wmeasure (w : worker) : nat :=
  match w_st w with WTodo => 4 | WRun => 3 | WRes _ | WErr _ => 2 | WSent => 1 | WDone => 0 end.
Definition rmeasure (r : rst P E) : nat :=
  match r with RGotRes _ | RGotErr _ => 6 | RRes _ | RErr _ => 5 | RAfter => 4 | RDoneW => 3 | RInit => 3 | RSel => 2 | RGotDone => 1 | RExit => 0 end.
Definition cmeasure (c : cst) : nat := match c with CStart => 4 | CPre => 3 | CWaited => 2 | CSent => 1 | CRet => 0 end.
Definition wsum (l : list worker) : nat := fold_right (fun w n => wmeasure w + n) 0 l.
Definition measure (s : st) : nat := 5 * wsum (ws s) + rmeasure (red s) + cmeasure (cal s).

Lemma wsum_app l1 l2 : wsum (l1 ++ l2) = wsum l1 + wsum l2.
Proof. unfold wsum. induction l1 as [|w l1 IH]; cbn [app fold_right]; [reflexivity|]. rewrite IH. lia. Qed.

Theorem amr_measure s l s' : step s l s' -> measure s' < measure s.
Proof.
  destruct 1; unfold measure; cbn [ws red cal]; rewrite ?wsum_app; unfold wsum; cbn [fold_right];
    unfold wmeasure; cbn [w_st rmeasure cmeasure]; unfold AMR.mapped; try destruct (mapf x); lia.
Qed.

(* every execution from any state is finite *)
Theorem amr_terminates : well_founded (fun s' s : st => exists l, step s l s').
Proof.
  apply (well_founded_lt_compat _ measure). intros s' s [l H]. eapply amr_measure; eauto.
Qed.

End Proofs.
