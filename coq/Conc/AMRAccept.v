(* Executable trace acceptor for the AsyncMapReduce LTS and its soundness:
   every trace of hook events it accepts is a run of the LTS (so the invariants proved for
   reachable states hold for what was observed on the real code). *)
From Coq Require Import List Arith Bool Lia.
From Pebbles Require Import Conc.AMR.
Import ListNotations.

Section Accept.
Variables (T P A E : Type) (mapf : T -> P + E) (redf : A -> P -> A) (acc0 : A).
Variables (eqT : T -> T -> bool) (eqP : P -> P -> bool) (eqE : E -> E -> bool).

Notation st := (st T P A E).
Notation worker := (worker T P E).
Notation label := (label T P E).
Notation step := (step T P A E mapf redf).
Notation reach := (reach T P A E mapf redf).

Fixpoint split_at (f : worker -> bool) (l : list worker) : option (list worker * worker * list worker) :=
  match l with
  | [] => None
  | w :: t => if f w then Some ([], w, t)
              else match split_at f t with Some (a, x, b) => Some (w :: a, x, b) | None => None end
  end.

Definition is_todo (w : worker) := match w_st w with WTodo => true | _ => false end.
Definition is_run (w : worker) := match w_st w with WRun => true | _ => false end.
Definition is_sent (w : worker) := match w_st w with WSent => true | _ => false end.
Definition is_mapped (w : worker) := match w_st w with WRes _ | WErr _ => true | _ => false end.
Definition is_res (p : P) (w : worker) := match w_st w with WRes p' => eqP p' p | _ => false end.
Definition is_errv (e : E) (w : worker) := match w_st w with WErr e' => eqE e' e | _ => false end.

Definition set_ws (s : st) (l : list worker) : st := mk l (red s) (wg s) (cal s) (acc s) (errs s) (hist s).

Definition astep (s : st) (lab : label) : option st :=
  match lab with
  | LWStart x =>
      match split_at (fun w => eqT (w_item w) x && is_todo w) (ws s) with
      | Some (a, w, b) => Some (set_ws s (a ++ mkW (w_item w) WRun (w_maps w) :: b))
      | None => None end
  | LWMapped x iserr =>
      match split_at (fun w => eqT (w_item w) x && is_run w) (ws s) with
      | Some (a, w, b) =>
          if Bool.eqb iserr (is_err P E (mapped T P E mapf (w_item w)))
          then Some (set_ws s (a ++ mkW (w_item w) (mapped T P E mapf (w_item w)) (S (w_maps w)) :: b))
          else None
      | None => None end
  | LWExit x =>
      match split_at (fun w => eqT (w_item w) x && is_sent w) (ws s) with
      | Some (a, w, b) => Some (set_ws s (a ++ mkW (w_item w) WDone (w_maps w) :: b))
      | None =>
          (* the worker's send has completed but the reducer has not logged the receive yet *)
          match red s with
          | RSel =>
              match split_at (fun w => eqT (w_item w) x && is_mapped w) (ws s) with
              | Some (a, w, b) =>
                  match w_st w with
                  | WRes p => Some (mk (a ++ mkW (w_item w) WDone (w_maps w) :: b) (RGotRes p) (wg s) (cal s) (acc s) (errs s) (hist s))
                  | WErr e => Some (mk (a ++ mkW (w_item w) WDone (w_maps w) :: b) (RGotErr e) (wg s) (cal s) (acc s) (errs s) (hist s))
                  | _ => None end
              | None => None end
          | _ => None end
      end
  | LSelect =>
      match red s, wg s with
      | RInit, _ | RDoneW, _ => Some (mk (ws s) RSel (wg s) (cal s) (acc s) (errs s) (hist s))
      | RAfter, S g => Some (mk (ws s) RSel g (cal s) (acc s) (errs s) (hist s))   (* wg.Done() then loop *)
      | _, _ => None end
  | LRecvRes p =>
      match red s with
      | RGotRes p' => if eqP p' p then Some (mk (ws s) (RRes p') (wg s) (cal s) (acc s) (errs s) (hist s)) else None
      | RSel =>
          match split_at (is_res p) (ws s) with
          | Some (a, w, b) =>
              match w_st w with
              | WRes p' => Some (mk (a ++ mkW (w_item w) WSent (w_maps w) :: b) (RRes p') (wg s) (cal s) (acc s) (errs s) (hist s))
              | _ => None end
          | None => None end
      | _ => None end
  | LRecvErr e =>
      match red s with
      | RGotErr e' => if eqE e' e then Some (mk (ws s) (RErr e') (wg s) (cal s) (acc s) (errs s) (hist s)) else None
      | RSel =>
          match split_at (is_errv e) (ws s) with
          | Some (a, w, b) =>
              match w_st w with
              | WErr e' => Some (mk (a ++ mkW (w_item w) WSent (w_maps w) :: b) (RErr e') (wg s) (cal s) (acc s) (errs s) (hist s))
              | _ => None end
          | None => None end
      | _ => None end
  | LReduced =>
      match red s with
      | RRes p => Some (mk (ws s) RAfter (wg s) (cal s) (redf (acc s) p) (errs s) (hist s ++ [p]))
      | _ => None end
  | LErred =>
      match red s with
      | RErr e => Some (mk (ws s) RAfter (wg s) (cal s) (acc s) (errs s ++ [e]) (hist s))
      | _ => None end
  | LRExit =>
      match red s, cal s with
      | RGotDone, _ => Some (mk (ws s) RExit (wg s) (cal s) (acc s) (errs s) (hist s))
      | RSel, CWaited => Some (mk (ws s) RExit (wg s) CSent (acc s) (errs s) (hist s))  (* doneChan rendezvous first *)
      | _, _ => None end
  | LPrewait =>
      match cal s with CStart => Some (mk (ws s) (red s) (wg s) CPre (acc s) (errs s) (hist s)) | _ => None end
  | LWaited =>
      match cal s, wg s, red s with
      | CPre, 0, _ => Some (mk (ws s) (red s) 0 CWaited (acc s) (errs s) (hist s))
      | CPre, 1, RAfter => Some (mk (ws s) RDoneW 0 CWaited (acc s) (errs s) (hist s))  (* pending wg.Done() first *)
      | _, _, _ => None end
  | LSentDone =>
      match cal s, red s with
      | CSent, _ => Some (mk (ws s) (red s) (wg s) CRet (acc s) (errs s) (hist s))
      | CWaited, RSel => Some (mk (ws s) RGotDone (wg s) CRet (acc s) (errs s) (hist s))  (* rendezvous first *)
      | _, _ => None end
  | LTau => None
  end.

Definition accepts (s0 : st) (tr : list label) : option st :=
  fold_left (fun os l => match os with Some s => astep s l | None => None end) tr (Some s0).

(* ---- soundness ---- *)
Hypothesis eqT_ok : forall a b, eqT a b = true -> a = b.
Hypothesis eqP_ok : forall a b, eqP a b = true -> a = b.
Hypothesis eqE_ok : forall a b, eqE a b = true -> a = b.

Lemma split_at_ok f l a w b : split_at f l = Some (a, w, b) -> l = a ++ w :: b /\ f w = true.
Proof.
  revert a w b. induction l as [|y l IH]; intros a w b H; cbn in H; [discriminate|].
  destruct (f y) eqn:Fy.
  - inversion H; subst. auto.
  - destruct (split_at f l) as [[[a' w'] b']|]; [|discriminate].
    inversion H; subst. destruct (IH _ _ _ eq_refl) as [-> Hf]. auto.
Qed.

Lemma reach_trans s0 s l s' : reach s0 s -> step s l s' -> reach s0 s'.
Proof. intros. eapply r_step; eauto. Qed.

Ltac wsplit H :=
  let Hs := fresh "Hs" in let Hf := fresh "Hf" in
  apply split_at_ok in H as [Hs Hf]; cbn [ws] in Hs; subst.

Lemma astep_sound s0 s lab s' : reach s0 s -> astep s lab = Some s' -> reach s0 s'.
Proof.
  intros Hr Ha. destruct s as [w r g c a es h]. destruct lab; cbn [astep ws red wg cal acc errs hist set_ws] in Ha.
  - (* wstart *)
    destruct (split_at _ w) as [[[l1 wk] l2]|] eqn:Sp; [|discriminate]. inversion Ha; subst; clear Ha.
    wsplit Sp. apply andb_prop in Hf as [_ Hst]. destruct wk as [x0 stx k]. unfold is_todo in Hst. cbn [w_st w_item w_maps] in *.
    destruct stx; try discriminate. eapply r_step; [exact Hr|]. apply s_wstart.
  - (* mapped *)
    destruct (split_at _ w) as [[[l1 wk] l2]|] eqn:Sp; [|discriminate].
    destruct (Bool.eqb iserr _) eqn:Eb; [|discriminate]. inversion Ha; subst; clear Ha.
    wsplit Sp. apply andb_prop in Hf as [_ Hst]. destruct wk as [x0 stx k]. unfold is_run in Hst. cbn [w_st w_item w_maps] in *.
    destruct stx; try discriminate. apply Bool.eqb_prop in Eb. subst iserr.
    eapply r_step; [exact Hr|]. apply s_map.
  - (* wexit *)
    destruct (split_at _ w) as [[[l1 wk] l2]|] eqn:Sp.
    + inversion Ha; subst; clear Ha.
      wsplit Sp. apply andb_prop in Hf as [_ Hst]. destruct wk as [x0 stx k]. unfold is_sent in Hst. cbn [w_st w_item w_maps] in *.
      destruct stx; try discriminate. eapply r_step; [exact Hr|]. apply s_wexit.
    + destruct r; try discriminate.
      destruct (split_at (fun w0 => eqT (w_item w0) x && is_mapped w0) w) as [[[l1 wk] l2]|] eqn:Sp2; [|discriminate].
      destruct wk as [x0 stx k]. cbn [w_st w_item w_maps] in Ha. wsplit Sp2.
      destruct stx; try discriminate; inversion Ha; subst; clear Ha.
      * eapply r_step; [eapply r_step; [exact Hr|apply s_recv_res]|]. apply s_wexit.
      * eapply r_step; [eapply r_step; [exact Hr|apply s_recv_err]|]. apply s_wexit.
  - (* select *)
    destruct r; try discriminate.
    + inversion Ha; subst. eapply r_step; [exact Hr|]. apply s_rfirst.
    + destruct g as [|g]; [discriminate|]. inversion Ha; subst.
      eapply r_step; [eapply r_step; [exact Hr|apply s_done]|]. apply s_rsel.
    + inversion Ha; subst. eapply r_step; [exact Hr|]. apply s_rsel.
  - (* recvres *)
    destruct r; try discriminate.
    + destruct (split_at _ w) as [[[l1 wk] l2]|] eqn:Sp; [|discriminate].
      destruct wk as [x0 stx k]. cbn [w_st w_item w_maps] in Ha. destruct stx; try discriminate.
      inversion Ha; subst; clear Ha. wsplit Sp.
      eapply r_step; [eapply r_step; [exact Hr|apply s_recv_res]|]. apply s_log_res.
    + destruct (eqP p0 p) eqn:Ep; [|discriminate]. apply eqP_ok in Ep. subst p0. inversion Ha; subst.
      eapply r_step; [exact Hr|]. apply s_log_res.
  - (* reduced *)
    destruct r; try discriminate. inversion Ha; subst. eapply r_step; [exact Hr|]. apply s_reduce.
  - (* recverr *)
    destruct r; try discriminate.
    + destruct (split_at _ w) as [[[l1 wk] l2]|] eqn:Sp; [|discriminate].
      destruct wk as [x0 stx k]. cbn [w_st w_item w_maps] in Ha. destruct stx; try discriminate.
      inversion Ha; subst; clear Ha. wsplit Sp.
      eapply r_step; [eapply r_step; [exact Hr|apply s_recv_err]|]. apply s_log_err.
    + destruct (eqE e0 e) eqn:Ee; [|discriminate]. apply eqE_ok in Ee. subst e0. inversion Ha; subst.
      eapply r_step; [exact Hr|]. apply s_log_err.
  - (* erred *)
    destruct r; try discriminate. inversion Ha; subst. eapply r_step; [exact Hr|]. apply s_err.
  - (* rexit *)
    destruct r; try discriminate.
    + destruct c; try discriminate. inversion Ha; subst.
      eapply r_step; [eapply r_step; [exact Hr|apply s_senddone]|]. apply s_rexit.
    + inversion Ha; subst. eapply r_step; [exact Hr|]. apply s_rexit.
  - (* prewait *)
    destruct c; try discriminate. inversion Ha; subst. eapply r_step; [exact Hr|]. apply s_pre.
  - (* waited *)
    destruct c; try discriminate. destruct g as [|[|g]].
    + inversion Ha; subst. eapply r_step; [exact Hr|]. apply s_wait.
    + destruct r; try discriminate. inversion Ha; subst.
      eapply r_step; [eapply r_step; [exact Hr|apply s_done]|]. apply s_wait.
    + destruct r; discriminate.
  - (* sentdone *)
    destruct c; try discriminate.
    + destruct r; try discriminate. inversion Ha; subst.
      eapply r_step; [eapply r_step; [exact Hr|apply s_senddone]|]. apply s_ret.
    + inversion Ha; subst. eapply r_step; [exact Hr|]. apply s_ret.
  - discriminate.
Qed.

Theorem accepts_sound s0 tr s : accepts s0 tr = Some s -> reach s0 s.
Proof.
  unfold accepts. intros H.
  assert (G : forall tr os, (forall s1, os = Some s1 -> reach s0 s1) ->
            forall s2, fold_left (fun os l => match os with Some s => astep s l | None => None end) tr os = Some s2 -> reach s0 s2).
  { clear H. clear tr s. induction tr as [|l tr IH]; intros os Hos s2 Hf; cbn [fold_left] in Hf; [auto|].
    eapply IH; [|exact Hf]. intros s1 Hs1. destruct os as [sx|]; [|discriminate].
    eapply astep_sound; eauto. }
  eapply G; [|exact H]. intros s1 Hs1. inversion Hs1; subst. apply r_refl.
Qed.

End Accept.
