From Coq Require Import List Arith Bool Lia.
From Pebbles Require Import Cache.Model.
Import ListNotations.

Section Proofs.
Variables (Op Plan Key Resp : Type).
Variable key : Op -> Key.
Variable key_eqb : Key -> Key -> bool.
Variable plan_of : Op -> Plan.
Variable run : Plan -> Op -> Resp.
Hypothesis key_eqb_ok : forall a b, key_eqb a b = true <-> a = b.

Notation entry := (entry Plan Key).
Notation plan_cached := (plan_cached Op Plan Key key key_eqb plan_of).
Notation run_cached := (run_cached Op Plan Key Resp key key_eqb plan_of run).
Notation run_plain := (run_plain Op Plan Resp plan_of run).

(* every cached plan is the plain planner's plan of every operation that maps to its key *)
Definition sound (ops : Op -> Prop) (c : list entry) : Prop :=
  forall e, In e c -> forall op, ops op -> key op = e_key _ _ e -> e_plan _ _ e = plan_of op.

Lemma sound_clean ops now c : sound ops c -> sound ops (clean Plan Key now c).
Proof. intros H e Hin. apply H. unfold clean in Hin. apply filter_In in Hin. tauto. Qed.

Lemma sound_store ops e c : sound ops c ->
  (forall op, ops op -> key op = e_key _ _ e -> e_plan _ _ e = plan_of op) -> sound ops (store Plan Key key_eqb e c).
Proof.
  intros Hc He. induction c as [|x t IH]; cbn.
  - intros e' [<-|[]]. exact He.
  - destruct (key_eqb (e_key _ _ x) (e_key _ _ e)).
    + intros e' [<-|Hin]; [exact He|]. apply Hc. now right.
    + intros e' [<-|Hin]; [apply Hc; now left|]. apply IH; [|exact Hin]. intros e0 H0. apply Hc. now right.
Qed.

Lemma lookup_some k c e : lookup Plan Key key_eqb k c = Some e -> In e c /\ e_key _ _ e = k.
Proof. unfold lookup. intros H. apply find_some in H as [Hin E]. apply key_eqb_ok in E. auto. Qed.

(* the assumption under which the cache is transparent: within the history, equal keys mean equal plans *)
Definition key_determines_plan (ops : Op -> Prop) : Prop :=
  forall a b, ops a -> ops b -> key a = key b -> plan_of a = plan_of b.

Theorem plan_cached_returns_the_plain_plan ops ttl now op c :
  key_determines_plan ops -> ops op -> sound ops c ->
  let '(p, c', _) := plan_cached ttl now op c in p = plan_of op /\ sound ops c'.
Proof.
  intros Hk Hop Hs. unfold Model.plan_cached.
  pose proof (sound_clean ops now c Hs) as Hs1.
  destruct (lookup Plan Key key_eqb (key op) (clean Plan Key now c)) as [e|] eqn:L.
  - apply lookup_some in L as [Hin Ek]. split; [|exact Hs1]. apply (Hs1 e Hin op Hop). now rewrite Ek.
  - split; [reflexivity|]. apply sound_store; [exact Hs1|]. cbn. intros op' Hop' Ek. symmetry. apply Hk; auto.
Qed.

(* C14: for every history, every TTL (0 included) and every arrival times, the caching planner gives every request
   the response the plain planner gives it *)
Theorem cache_transparent ttl h : forall c (ops : Op -> Prop),
  key_determines_plan ops -> (forall ot, In ot h -> ops (fst ot)) -> sound ops c ->
  run_cached ttl h c = run_plain h.
Proof.
  induction h as [|[op t] rest IH]; intros c ops Hk Hin Hs; cbn [Model.run_cached Model.run_plain map fst]; [reflexivity|].
  pose proof (plan_cached_returns_the_plain_plan ops ttl t op c Hk (Hin (op, t) (or_introl eq_refl)) Hs) as H.
  destruct (plan_cached ttl t op c) as [[p c'] m]. destruct H as [-> Hs'].
  f_equal. apply (IH c' ops Hk); auto. intros ot Ho. apply Hin. now right.
Qed.

Corollary cache_transparent_from_empty ttl h (ops : Op -> Prop) :
  key_determines_plan ops -> (forall ot, In ot h -> ops (fst ot)) -> run_cached ttl h [] = run_plain h.
Proof. intros Hk Hin. apply (cache_transparent ttl h [] ops Hk Hin). intros e []. Qed.

(* two racing misses for the same operation store the same plan: storing it twice is storing it once *)
Theorem racing_misses_agree e c : 
  store Plan Key key_eqb e (store Plan Key key_eqb e c) = store Plan Key key_eqb e c.
Proof.
  induction c as [|x t IH]; cbn.
  - assert (key_eqb (e_key _ _ e) (e_key _ _ e) = true) as -> by now apply key_eqb_ok. reflexivity.
  - destruct (key_eqb (e_key _ _ x) (e_key _ _ e)) eqn:E; cbn.
    + assert (key_eqb (e_key _ _ e) (e_key _ _ e) = true) as -> by now apply key_eqb_ok. reflexivity.
    + rewrite E. now rewrite IH.
Qed.
End Proofs.

(* ---- the proviso is necessary ---- *)
Section Nec.
Variables (Op Plan Key Resp : Type) (key : Op -> Key) (key_eqb : Key -> Key -> bool) (plan_of : Op -> Plan) (run : Plan -> Op -> Resp).
Hypothesis key_eqb_ok : forall a b, key_eqb a b = true <-> a = b.

(* the proviso of cache_transparent is necessary: two operations with one key whose plans answer the second one
   differently are told apart by the two-request history a; b within the TTL *)
Theorem colliding_keys_change_an_answer : forall ttl t a b,
  key a = key b -> run (plan_of a) b <> run (plan_of b) b ->
  run_cached Op Plan Key Resp key key_eqb plan_of run ttl [(a, t); (b, t)] []
  <> run_plain Op Plan Resp plan_of run [(a, t); (b, t)].
Proof.
  intros ttl t a b Hk Hr.
  assert (Hkk : key_eqb (key a) (key b) = true) by (apply key_eqb_ok; exact Hk).
  assert (Hexp : (t + ttl <? t) = false) by (apply Nat.ltb_ge; lia).
  cbn [run_cached run_plain map fst]. unfold plan_cached at 1. cbn [clean filter lookup find store].
  unfold plan_cached. cbn [clean filter e_expiry]. rewrite Hexp. cbn [negb lookup find e_key]. rewrite Hkk.
  cbn [e_plan run_cached]. intros E. injection E as E. exact (Hr E).
Qed.
End Nec.
