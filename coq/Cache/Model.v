(* Model of planner/cached_planner.go (CachedPlanner.Plan, clean, hash) as a state machine over request histories (C14).
   No proofs in this file.
   Op: client operations; key: what hash() makes of an operation (after fix 36697ed: operation type, name and the
   formatted selection set); plan_of: the plain planner; run: executing an operation with a plan (the gateway's answer).
   Time is a natural number of ticks; every request carries its arrival time. *)
From Coq Require Import List Arith Bool.
Import ListNotations.

Section Cache.
Variables (Op Plan Key Resp : Type).
Variable key : Op -> Key.
Variable key_eqb : Key -> Key -> bool.
Variable plan_of : Op -> Plan.
Variable run : Plan -> Op -> Resp.

Record entry := mkEntry { e_key : Key; e_plan : Plan; e_expiry : nat }.

(* clean(): delete entries whose timer is Before(now) *)
Definition clean (now : nat) (c : list entry) : list entry := filter (fun e => negb (e_expiry e <? now)) c.

Definition lookup (k : Key) (c : list entry) : option entry := find (fun e => key_eqb (e_key e) k) c.

(* cp.cache[hk] = res; cp.cacheTimers[hk] = now + TTL : overwrite or insert *)
Fixpoint store (e : entry) (c : list entry) : list entry :=
  match c with
  | [] => [e]
  | x :: t => if key_eqb (e_key x) (e_key e) then e :: t else x :: store e t
  end.

(* CachedPlanner.Plan *)
Definition plan_cached (ttl now : nat) (op : Op) (c : list entry) : Plan * list entry * bool (* miss *) :=
  let c1 := clean now c in
  match lookup (key op) c1 with
  | Some e => (e_plan e, c1, false)
  | None => let p := plan_of op in (p, store (mkEntry (key op) p (now + ttl)) c1, true)
  end.

(* a history: operations with their arrival times *)
Fixpoint run_cached (ttl : nat) (h : list (Op * nat)) (c : list entry) : list Resp :=
  match h with
  | [] => []
  | (op, t) :: rest => let '(p, c', _) := plan_cached ttl t op c in run p op :: run_cached ttl rest c'
  end.

Fixpoint misses (ttl : nat) (h : list (Op * nat)) (c : list entry) : list bool :=
  match h with
  | [] => []
  | (op, t) :: rest => let '(_, c', m) := plan_cached ttl t op c in m :: misses ttl rest c'
  end.

Definition run_plain (h : list (Op * nat)) : list Resp := map (fun ot => run (plan_of (fst ot)) (fst ot)) h.

(* the pinned tree additionally let the subscription path write into the cached plan object (rs.Then = nil):
   a history event that is a subscription start replaces the cached plan by [strip plan] *)
Variable strip : Plan -> Plan.
Fixpoint run_cached_pinned (ttl : nat) (h : list (Op * nat * bool (* is subscription start *))) (c : list entry) : list Resp :=
  match h with
  | [] => []
  | (op, t, is_sub) :: rest =>
      let '(p, c', _) := plan_cached ttl t op c in
      if is_sub
      then run (strip p) op :: run_cached_pinned ttl rest (store (mkEntry (key op) (strip p) (match lookup (key op) c' with Some e => e_expiry e | None => t + ttl end)) c')
      else run p op :: run_cached_pinned ttl rest c'
  end.
End Cache.
