(* C16: on every schema with the merger's root types, whatever the specification answers to an introspection
   selection, the gateway's resolvers answer the same. *)
From Coq Require Import List String Bool Arith Lia.
From Pebbles Require Import Base.Json Intro.Schema Intro.Exec.
Import ListNotations.
Open Scope string_scope.

(* what the resolvers take for granted about the schema they describe: the root operation types are called Query /
   Mutation / Subscription (every schema the merger produces; Merge model), and a union has at least one member
   (every valid schema) *)
Definition root_named (s : sch16) (o : option string) (n : string) : Prop :=
  o = if has_type s n then Some n else None.
Definition canonical (s : sch16) : Prop :=
  s_query (base s) = "Query" /\ root_named s (s_mutation (base s)) "Mutation" /\ root_named s (s_subscription (base s)) "Subscription" /\
  (forall t, In t (s_types (base s)) -> td_kind t = KUnion -> td_members t <> []).

(* the two resolvers agree on one member, up to "null" being the same answer as "an object that does not exist" *)
Definition res_agree (s : sch16) (spec local : res) : Prop :=
  spec = local \/ (spec = RLeaf JNull /\ exists n, local = RNode n /\ alive s n = false).

Lemma find_type_in s n t : find_type s n = Some t -> In t (s_types (base s)).
Proof. unfold find_type. intros H. apply find_some in H. tauto. Qed.

Ltac split_ifs :=
  repeat match goal with
         | |- context [if ?b then _ else _] => let E := fresh "E" in destruct b eqn:E
         end.

Lemma field_agree s n sel : canonical s -> spec_field s n sel <> RInvalid -> res_agree s (spec_field s n sel) (local_field s n sel).
Proof.
  intros (Hq & Hm & Hs & Hu) Hv. destruct sel as [a nm incl tn sub]. unfold res_agree.
  destruct n as [| |t|f|v|e|d]; cbn [spec_field local_field] in *.
  - (* root *) destruct (nm =? "__schema") eqn:E1; destruct (nm =? "__type") eqn:E2; try (now left); try contradiction.
    apply String.eqb_eq in E1, E2. congruence.
  - (* __Schema *)
    destruct (nm =? "__typename"); [now left|]. destruct (nm =? "description"); [now left|]. destruct (nm =? "types"); [now left|].
    destruct (nm =? "queryType"); [left; now rewrite Hq|].
    destruct (nm =? "mutationType").
    { unfold root_named in Hm. rewrite Hm. unfold has_type. destruct (find_type s "Mutation") eqn:E; [now left|].
      right. split; [reflexivity|]. exists (named "Mutation"). split; [reflexivity|]. cbn. unfold has_type. now rewrite E. }
    destruct (nm =? "subscriptionType").
    { unfold root_named in Hs. rewrite Hs. unfold has_type. destruct (find_type s "Subscription") eqn:E; [now left|].
      right. split; [reflexivity|]. exists (named "Subscription"). split; [reflexivity|]. cbn. unfold has_type. now rewrite E. }
    destruct (nm =? "directives"); [now left|]. contradiction.
  - (* __Type *)
    destruct t as [tname|t'|t'].
    + destruct (find_type s tname) as [t|] eqn:Ef; [|now left].
      destruct (nm =? "__typename"); [now left|]. destruct (nm =? "kind"); [now left|]. destruct (nm =? "name"); [now left|].
      destruct (nm =? "description") eqn:Ed.
      { apply String.eqb_eq in Ed. subst nm. now left. }
      destruct (nm =? "specifiedByURL") eqn:Eu.
      { apply String.eqb_eq in Eu. subst nm. now left. }
      destruct (nm =? "fields"); [now left|].
      destruct (nm =? "interfaces"); [now left|].
      destruct (nm =? "possibleTypes").
      { left. destruct (td_kind t) eqn:Ek; try reflexivity.
        destruct (td_members t) eqn:Em; [|reflexivity]. exfalso. apply (Hu t (find_type_in _ _ _ Ef) Ek Em). }
      destruct (nm =? "enumValues"); [now left|]. destruct (nm =? "inputFields"); [now left|].
      destruct (nm =? "ofType"); [now left|]. contradiction.
    + destruct (nm =? "__typename"); [now left|]. destruct (nm =? "kind"); [now left|]. destruct (nm =? "ofType"); [now left|].
      destruct (existsb _ _); [now left|contradiction].
    + destruct (nm =? "__typename"); [now left|]. destruct (nm =? "kind"); [now left|]. destruct (nm =? "ofType"); [now left|].
      destruct (existsb _ _); [now left|contradiction].
  - split_ifs; try (now left); contradiction.
  - split_ifs; try (now left); contradiction.
  - split_ifs; try (now left); contradiction.
  - destruct (nm =? "__typename"); [now left|]. destruct (nm =? "name"); [now left|]. destruct (nm =? "description"); [now left|].
    destruct (nm =? "locations"); [now left|].
    destruct (nm =? "args") eqn:Ea.
    { apply String.eqb_eq in Ea. subst nm. now left. }
    destruct (nm =? "isRepeatable"); [now left|]. contradiction.
Qed.

Lemma all_some_map_agree {A B} (f g : A -> option B) l r :
  (forall x y, f x = Some y -> g x = Some y) -> all_some (map f l) = Some r -> all_some (map g l) = Some r.
Proof.
  intros H. revert r. induction l as [|x t IH]; intros r; cbn; [auto|].
  destruct (f x) as [y|] eqn:E; [|discriminate]. rewrite (H _ _ E).
  destruct (all_some (map f t)) as [r'|]; [|discriminate]. intros Hr. now rewrite (IH r' eq_refl).
Qed.

Lemma member_value_agree s (Hc : canonical s) f n sel v
  (IH : forall n0 sels j, exec (spec_field s) (alive s) true f n0 sels = Some j -> exec (local_field s) (alive s) false f n0 sels = Some j) :
  member_value (spec_field s) (exec (spec_field s) (alive s) true f) n sel = Some v ->
  member_value (local_field s) (exec (local_field s) (alive s) false f) n sel = Some v.
Proof.
  destruct sel as [a nm incl tn sub]. unfold member_value.
  pose proof (field_agree s n (ISel a nm incl tn sub) Hc) as Hag.
  destruct (spec_field s n (ISel a nm incl tn sub)) as [j0|c0|cs| |] eqn:Es; try discriminate.
  - destruct (Hag ltac:(discriminate)) as [<-|(Hj & c0 & -> & Hdead)]; [auto|].
    injection Hj as ->. intros H. destruct f; cbn [exec]; rewrite Hdead; cbn [negb]; exact H.
  - destruct (Hag ltac:(discriminate)) as [<-|(Hj & _)]; [|discriminate].
    destruct (exec (spec_field s) (alive s) true f c0 sub) as [jc|] eqn:Ec; [|discriminate].
    now rewrite (IH _ _ _ Ec).
  - destruct (Hag ltac:(discriminate)) as [<-|(Hj & _)]; [|discriminate].
    destruct (all_some (map (fun c0 => exec (spec_field s) (alive s) true f c0 sub) cs)) as [js|] eqn:Ecs; [|discriminate].
    now rewrite (all_some_map_agree _ (fun c0 => exec (local_field s) (alive s) false f c0 sub) _ _ (fun x y => IH x sub y) Ecs).
  - destruct (Hag ltac:(discriminate)) as [<-|(Hj & _)]; [auto|discriminate].
Qed.

Theorem local_answers_as_specified s : canonical s ->
  forall fuel n sels j, spec_exec s fuel n sels = Some j -> local_exec s fuel n sels = Some j.
Proof.
  intros Hc. unfold spec_exec, local_exec.
  induction fuel as [|f IH]; intros n sels j; cbn [exec]; destruct (negb (alive s n)); auto.
  generalize (@nil (string * json)) as acc. induction sels as [|sel rest IHs]; intros acc; [auto|].
  cbn [build]. destruct (assoc (sel_alias sel) acc) eqn:Ea; cbn [andb]; [discriminate|].
  destruct (member_value (spec_field s) (exec (spec_field s) (alive s) true f) n sel) as [v|] eqn:Ev; [|discriminate].
  rewrite (member_value_agree s Hc f n sel v IH Ev). apply IHs.
Qed.

(* __type(name:) and the entries of __schema.types are the same computation *)
Lemma type_by_name s f a n incl sub :
  local_exec s (S f) NRoot [ISel a "__type" incl n sub] =
  match local_exec s f (named n) sub with Some j => Some (JObj [(a, j)]) | None => None end.
Proof. unfold local_exec. cbn. destruct (exec _ _ _ f (named n) sub); reflexivity. Qed.

Lemma types_entries s f a incl tn sub :
  local_exec s (S f) NSchema [ISel a "types" incl tn sub] =
  match all_some (map (fun t => local_exec s f (named (td_name t)) sub) (s_types (base s))) with
  | Some js => Some (JObj [(a, JArr js)]) | None => None end.
Proof. unfold local_exec. cbn. rewrite map_map. destruct (all_some _); reflexivity. Qed.

(* the hypothesis on the root type names is needed: a schema whose query type is called RootQ *)
Definition s_renamed : sch16 :=
  mkS16 (mkSch "RootQ" None None [mkTD KObject "RootQ" "" [mkFD "x" "" [] (TNamed "Int") None] [] [] [] []; mkTD KScalar "Int" "" [] [] [] [] []] []) [] [] "".
Definition q_query_type : list isel := [ISel "__schema" "__schema" false "" [ISel "queryType" "queryType" false "" [ISel "name" "name" false "" []]]].
Example renamed_roots_are_misreported :
  spec_exec s_renamed 4 NRoot q_query_type = Some (JObj [("__schema", JObj [("queryType", JObj [("name", JStr "RootQ")])])]) /\
  local_exec s_renamed 4 NRoot q_query_type = Some (JObj [("__schema", JObj [("queryType", JNull)])]).
Proof. split; vm_compute; reflexivity. Qed.
