(* Introspection operations on a schema: a generic executor (selection sets, aliases, sub-selections, lists) and
   two field resolvers for it — [spec_field], the October-2021 specification's section 4 (what a client is entitled
   to), and [local_field], the gateway's resolvers in introspection/introspection.go (after fixes 03542e0, 7efa796,
   7cb6b4a, d15b843, 044bfd4, 71eb98d, 20e75c3, bf4a918). No proofs here.
   An absent description is "" on both sides (SDL cannot tell "" from absent; JSON null/"" are identified by the harness). *)
From Coq Require Import List String Bool Arith.
From Pebbles Require Import Base.Json Intro.Schema.
Import ListNotations.
Open Scope string_scope.

(* the type system plus what the C15 records do not carry *)
Record sch16 := mkS16 { base : sch; spec_urls : list (string * string); repeatables : list string; schema_desc : string }.

(* one field of a selection set, arguments already coerced (variables substituted):
   includeDeprecated (false when absent) and name (for __type) *)
Inductive isel := ISel (alias name : string) (incl : bool) (tname : string) (sub : list isel).

Inductive node := NRoot | NSchema | NType (t : tref) | NField (f : fdef) | NInput (v : ivalue) | NEnum (e : evalue) | NDirective (d : ddef).

Inductive res :=
| RLeaf (j : json)          (* a scalar (or null) *)
| RNode (n : node)          (* an object, completed with the sub-selection *)
| RNodes (l : list node)    (* a list of objects *)
| RAbsent                   (* the resolver does not set the key at all *)
| RInvalid.                 (* not a member of the introspection type: the operation fails validation *)

Definition find_type (s : sch16) (n : string) : option tdef := find (fun t => td_name t =? n) (s_types (base s)).
Definition has_type (s : sch16) (n : string) : bool := match find_type s n with Some _ => true | None => false end.

(* resolveType returns nil for a named type the schema does not have *)
Definition alive (s : sch16) (n : node) : bool :=
  match n with NType (TNamed nm) => has_type s nm | _ => true end.

Section Exec.
Variable F : node -> isel -> res.
Variable live : node -> bool.
Variable strict : bool.   (* the same response key twice needs field merging: not modelled, an error when strict *)

Fixpoint all_some {A} (l : list (option A)) : option (list A) :=
  match l with
  | [] => Some []
  | None :: _ => None
  | Some x :: t => match all_some t with Some r => Some (x :: r) | None => None end
  end.

(* the value of one selected member: None = the operation fails, Some None = the resolver leaves the key out *)
Definition member_value (rec : node -> list isel -> option json) (n : node) (sel : isel) : option (option json) :=
  match sel with ISel _ _ _ _ sub =>
    match F n sel with
    | RInvalid => None
    | RAbsent => Some None
    | RLeaf j => Some (Some j)
    | RNode c => match rec c sub with Some j => Some (Some j) | None => None end
    | RNodes cs => match all_some (map (fun c => rec c sub) cs) with Some js => Some (Some (JArr js)) | None => None end
    end
  end.

Definition sel_alias (sel : isel) : string := match sel with ISel a _ _ _ _ => a end.

Fixpoint build (value : isel -> option (option json)) (sels : list isel) (acc : list (string * json)) : option json :=
  match sels with
  | [] => Some (JObj acc)
  | sel :: rest =>
      if strict && (match assoc (sel_alias sel) acc with Some _ => true | None => false end) then None else
      match value sel with
      | None => None
      | Some v => build value rest (match v with Some j => assoc_set (sel_alias sel) j acc | None => acc end)
      end
  end.

Fixpoint exec (fuel : nat) (n : node) (sels : list isel) : option json :=
  if negb (live n) then Some JNull else
  match fuel with
  | 0 => None
  | S f => build (member_value (exec f) n) sels []
  end.
End Exec.

Definition jstr_opt (o : option string) : json := match o with Some s => JStr s | None => JNull end.
Definition is_some {A} (o : option A) : bool := match o with Some _ => true | None => false end.
Definition named (n : string) : node := NType (TNamed n).
Definition visible_fields (incl : bool) (l : list fdef) : list fdef := filter (fun f => incl || negb (is_some (fd_deprecated f))) l.
Definition visible_evalues (incl : bool) (l : list evalue) : list evalue := filter (fun e => incl || negb (is_some (ev_deprecated e))) l.

(* ------------------------------------------------------------------------------------------------------------ *)
(* The specification (section 4.5 "Schema Introspection"), members of __Schema, __Type, __Field, __InputValue,
   __EnumValue, __Directive; kind-specific members are null where they do not apply *)
Definition spec_field (s : sch16) (n : node) (sel : isel) : res :=
  match sel with ISel _ nm incl tn _ =>
  match n with
  | NRoot =>
      if nm =? "__schema" then RNode NSchema
      else if nm =? "__type" then RNode (named tn)
      else RInvalid
  | NSchema =>
      if nm =? "__typename" then RLeaf (JStr "__Schema")
      else if nm =? "description" then RLeaf (JStr (schema_desc s))
      else if nm =? "types" then RNodes (map (fun t => named (td_name t)) (s_types (base s)))
      else if nm =? "queryType" then RNode (named (s_query (base s)))
      else if nm =? "mutationType" then match s_mutation (base s) with Some m => RNode (named m) | None => RLeaf JNull end
      else if nm =? "subscriptionType" then match s_subscription (base s) with Some m => RNode (named m) | None => RLeaf JNull end
      else if nm =? "directives" then RNodes (map NDirective (s_directives (base s)))
      else RInvalid
  | NType (TNonNull t) =>
      if nm =? "__typename" then RLeaf (JStr "__Type")
      else if nm =? "kind" then RLeaf (JStr "NON_NULL")
      else if nm =? "ofType" then RNode (NType t)
      else if existsb (String.eqb nm) ["name"; "description"; "specifiedByURL"; "fields"; "interfaces"; "possibleTypes"; "enumValues"; "inputFields"] then RLeaf JNull
      else RInvalid
  | NType (TList t) =>
      if nm =? "__typename" then RLeaf (JStr "__Type")
      else if nm =? "kind" then RLeaf (JStr "LIST")
      else if nm =? "ofType" then RNode (NType t)
      else if existsb (String.eqb nm) ["name"; "description"; "specifiedByURL"; "fields"; "interfaces"; "possibleTypes"; "enumValues"; "inputFields"] then RLeaf JNull
      else RInvalid
  | NType (TNamed tname) =>
      match find_type s tname with
      | None => RLeaf JNull        (* unreachable: the executor answers null for the whole object *)
      | Some t =>
          if nm =? "__typename" then RLeaf (JStr "__Type")
          else if nm =? "kind" then RLeaf (JStr (kind_name (td_kind t)))
          else if nm =? "name" then RLeaf (JStr (td_name t))
          else if nm =? "description" then RLeaf (JStr (td_desc t))
          else if nm =? "specifiedByURL" then RLeaf (jstr_opt (assoc tname (spec_urls s)))
          else if nm =? "fields" then
            match td_kind t with KObject | KInterface => RNodes (map NField (visible_fields incl (td_fields t))) | _ => RLeaf JNull end
          else if nm =? "interfaces" then
            match td_kind t with KObject | KInterface => RNodes (map named (td_ifaces t)) | _ => RLeaf JNull end
          else if nm =? "possibleTypes" then
            match td_kind t with KUnion | KInterface => RNodes (map named (td_members t)) | _ => RLeaf JNull end
          else if nm =? "enumValues" then
            match td_kind t with KEnum => RNodes (map NEnum (visible_evalues incl (td_evalues t))) | _ => RLeaf JNull end
          else if nm =? "inputFields" then
            match td_kind t with KInput => RNodes (map NInput (td_inputs t)) | _ => RLeaf JNull end
          else if nm =? "ofType" then RLeaf JNull
          else RInvalid
      end
  | NField f =>
      if nm =? "__typename" then RLeaf (JStr "__Field")
      else if nm =? "name" then RLeaf (JStr (fd_name f))
      else if nm =? "description" then RLeaf (JStr (fd_desc f))
      else if nm =? "args" then RNodes (map NInput (fd_args f))
      else if nm =? "type" then RNode (NType (fd_type f))
      else if nm =? "isDeprecated" then RLeaf (JBool (is_some (fd_deprecated f)))
      else if nm =? "deprecationReason" then RLeaf (jstr_opt (fd_deprecated f))
      else RInvalid
  | NInput v =>
      if nm =? "__typename" then RLeaf (JStr "__InputValue")
      else if nm =? "name" then RLeaf (JStr (iv_name v))
      else if nm =? "description" then RLeaf (JStr (iv_desc v))
      else if nm =? "type" then RNode (NType (iv_type v))
      else if nm =? "defaultValue" then RLeaf (jstr_opt (iv_default v))
      else RInvalid
  | NEnum e =>
      if nm =? "__typename" then RLeaf (JStr "__EnumValue")
      else if nm =? "name" then RLeaf (JStr (ev_name e))
      else if nm =? "description" then RLeaf (JStr (ev_desc e))
      else if nm =? "isDeprecated" then RLeaf (JBool (is_some (ev_deprecated e)))
      else if nm =? "deprecationReason" then RLeaf (jstr_opt (ev_deprecated e))
      else RInvalid
  | NDirective d =>
      if nm =? "__typename" then RLeaf (JStr "__Directive")
      else if nm =? "name" then RLeaf (JStr (dd_name d))
      else if nm =? "description" then RLeaf (JStr (dd_desc d))
      else if nm =? "locations" then RLeaf (JArr (map JStr (dd_locs d)))
      else if nm =? "args" then RNodes (map NInput (dd_args d))
      else if nm =? "isRepeatable" then RLeaf (JBool (existsb (String.eqb (dd_name d)) (repeatables s)))
      else RInvalid
  end end.

Definition spec_exec (s : sch16) := exec (spec_field s) (alive s) true.

(* ------------------------------------------------------------------------------------------------------------ *)
(* introspection/introspection.go, resolver by resolver *)
Definition local_field (s : sch16) (n : node) (sel : isel) : res :=
  match sel with ISel _ nm incl tn _ =>
  match n with
  | NRoot =>                                             (* ResolveIntrospectionFields *)
      if nm =? "__type" then RNode (named tn)
      else if nm =? "__schema" then RNode NSchema
      else RAbsent
  | NSchema =>                                           (* resolveSchema *)
      if nm =? "__typename" then RLeaf (JStr "__Schema")
      else if nm =? "description" then RLeaf (JStr (schema_desc s))
      else if nm =? "types" then RNodes (map (fun t => named (td_name t)) (s_types (base s)))
      else if nm =? "queryType" then RNode (named "Query")             (* the root type names are fixed *)
      else if nm =? "mutationType" then RNode (named "Mutation")
      else if nm =? "subscriptionType" then RNode (named "Subscription")
      else if nm =? "directives" then RNodes (map NDirective (s_directives (base s)))
      else RAbsent
  | NType (TNonNull t) =>                                (* resolveType, typ.NonNull *)
      if nm =? "__typename" then RLeaf (JStr "__Type")
      else if nm =? "kind" then RLeaf (JStr "NON_NULL")
      else if nm =? "ofType" then RNode (NType t)
      else RLeaf JNull
  | NType (TList t) =>                                   (* resolveType, typ.Elem != nil *)
      if nm =? "__typename" then RLeaf (JStr "__Type")
      else if nm =? "kind" then RLeaf (JStr "LIST")
      else if nm =? "ofType" then RNode (NType t)
      else RLeaf JNull
  | NType (TNamed tname) =>                              (* resolveType, named *)
      match find_type s tname with
      | None => RLeaf JNull
      | Some t =>
          if nm =? "__typename" then RLeaf (JStr "__Type")
          else if nm =? "kind" then RLeaf (JStr (kind_name (td_kind t)))
          else if nm =? "name" then RLeaf (JStr (td_name t))
          else if nm =? "fields" then
            match td_kind t with KObject | KInterface => RNodes (map NField (visible_fields incl (td_fields t))) | _ => RLeaf JNull end
          else if nm =? "description" then RLeaf (JStr (td_desc t))
          else if nm =? "specifiedByURL" then RLeaf (jstr_opt (assoc tname (spec_urls s)))
          else if nm =? "interfaces" then
            match td_kind t with KObject | KInterface => RNodes (map named (td_ifaces t)) | _ => RLeaf JNull end
          else if nm =? "possibleTypes" then
            (* len(namedType.Types) > 0 (a union), else an interface's implementing objects, else nil *)
            match td_kind t with
            | KUnion => match td_members t with [] => RLeaf JNull | ms => RNodes (map named ms) end
            | KInterface => RNodes (map named (td_members t))
            | _ => RLeaf JNull end
          else if nm =? "enumValues" then
            match td_kind t with KEnum => RNodes (map NEnum (visible_evalues incl (td_evalues t))) | _ => RLeaf JNull end
          else if nm =? "inputFields" then
            match td_kind t with KInput => RNodes (map NInput (td_inputs t)) | _ => RLeaf JNull end
          else RLeaf JNull                                (* default: nil *)
      end
  | NField f =>                                          (* resolveField *)
      if nm =? "__typename" then RLeaf (JStr "__Field")
      else if nm =? "name" then RLeaf (JStr (fd_name f))
      else if nm =? "description" then RLeaf (JStr (fd_desc f))
      else if nm =? "args" then RNodes (map NInput (fd_args f))
      else if nm =? "type" then RNode (NType (fd_type f))
      else if nm =? "isDeprecated" then RLeaf (JBool (is_some (fd_deprecated f)))
      else if nm =? "deprecationReason" then RLeaf (jstr_opt (fd_deprecated f))
      else RAbsent
  | NInput v =>                                          (* resolveInputValue *)
      if nm =? "__typename" then RLeaf (JStr "__InputValue")
      else if nm =? "name" then RLeaf (JStr (iv_name v))
      else if nm =? "description" then RLeaf (JStr (iv_desc v))
      else if nm =? "type" then RNode (NType (iv_type v))
      else if nm =? "defaultValue" then RLeaf (jstr_opt (iv_default v))
      else RAbsent
  | NEnum e =>                                           (* resolveEnumValue *)
      if nm =? "__typename" then RLeaf (JStr "__EnumValue")
      else if nm =? "name" then RLeaf (JStr (ev_name e))
      else if nm =? "description" then RLeaf (JStr (ev_desc e))
      else if nm =? "isDeprecated" then RLeaf (JBool (is_some (ev_deprecated e)))
      else if nm =? "deprecationReason" then RLeaf (jstr_opt (ev_deprecated e))
      else RAbsent
  | NDirective d =>                                      (* resolveDirective *)
      if nm =? "__typename" then RLeaf (JStr "__Directive")
      else if nm =? "name" then RLeaf (JStr (dd_name d))
      else if nm =? "description" then RLeaf (JStr (dd_desc d))
      else if nm =? "locations" then RLeaf (JArr (map JStr (dd_locs d)))
      else if nm =? "isRepeatable" then RLeaf (JBool (existsb (String.eqb (dd_name d)) (repeatables s)))
      else if nm =? "args" then RNodes (map NInput (dd_args d))
      else RAbsent
  end end.

Definition local_exec (s : sch16) := exec (local_field s) (alive s) false.
