(* Type-system model shared by C15 (introspection/remote.go) and C16 (introspection/introspection.go):
   a GraphQL schema, and the typed form of an introspection answer (the Go structs of remote.go /
   the October-2021 specification's __Schema, __Type, __Field, __InputValue, __EnumValue, __Directive).
   encoding/json between the two sides is an oracle: both sides are modelled on the typed form. *)
From Coq Require Import List String Bool Arith.
Import ListNotations.
Open Scope string_scope.

Inductive tref := TNamed (n : string) | TList (t : tref) | TNonNull (t : tref).

Inductive kind := KObject | KInterface | KUnion | KEnum | KScalar | KInput.

Record ivalue := mkIV { iv_name : string; iv_desc : string; iv_type : tref; iv_default : option string }. (* default: GraphQL literal text *)
Record fdef := mkFD { fd_name : string; fd_desc : string; fd_args : list ivalue; fd_type : tref; fd_deprecated : option string }.
Record evalue := mkEV { ev_name : string; ev_desc : string; ev_deprecated : option string }.
Record tdef := mkTD {
  td_kind : kind; td_name : string; td_desc : string;
  td_fields : list fdef;            (* objects, interfaces *)
  td_inputs : list ivalue;          (* input objects *)
  td_ifaces : list string;          (* objects, interfaces *)
  td_members : list string;         (* unions: members; interfaces: implementers *)
  td_evalues : list evalue }.
Record ddef := mkDD { dd_name : string; dd_desc : string; dd_locs : list string; dd_args : list ivalue }.
Record sch := mkSch { s_query : string; s_mutation : option string; s_subscription : option string;
                      s_types : list tdef; s_directives : list ddef }.

(* ---- the typed introspection answer ---- *)
Inductive itref := ITRef (kind name : string) (of : option itref).
Record iinput := mkII { ii_name : string; ii_desc : string; ii_default : option string; ii_type : itref }.
Record ifield := mkIF { if_name : string; if_desc : string; if_args : list iinput; if_type : itref; if_deprecated : bool; if_reason : string }.
Record ienum := mkIE { ie_name : string; ie_desc : string; ie_deprecated : bool; ie_reason : string }.
Record itype := mkIT { it_kind : string; it_name : string; it_desc : string;
                       it_inputs : list iinput; it_ifaces : list itref; it_possible : list itref;
                       it_fields : list ifield; it_enums : list ienum }.
Record idirective := mkID { id_name : string; id_desc : string; id_locs : list string; id_args : list iinput }.
Record ischema := mkIS { is_query : string; is_mutation : option string; is_subscription : option string;
                         is_types : list itype; is_directives : list idirective }.

Definition kind_name (k : kind) : string :=
  match k with KObject => "OBJECT" | KInterface => "INTERFACE" | KUnion => "UNION" | KEnum => "ENUM" | KScalar => "SCALAR" | KInput => "INPUT_OBJECT" end.
