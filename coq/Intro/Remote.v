(* Model of introspection/remote.go: introspectRemoteSchema / parseType / parseTypeRef / parseArgList /
   parseInputField on the typed introspection answer (after fixes c6ff51a, 7789a11, 0b6d375, 1097590). No proofs here.
   The final formatSchema + gqlparser.LoadSchema round trip is an oracle (identity on accepted schemas). *)
From Coq Require Import List String Bool Arith.
From Pebbles Require Import Intro.Schema.
Import ListNotations.
Open Scope string_scope.

Inductive outcome (A : Type) := ROk (a : A) | RErr (why : string) | RPanic.
Arguments ROk {A}. Arguments RErr {A}. Arguments RPanic {A}.

(* parseTypeRef. The Go code reads response.OfType.Kind / .Name / .OfType behind nil checks (fix 7789a11); every
   dereference is explicit here: [deref] of a missing ofType is a Panic unless guarded. A cut-off reference becomes
   the unnamed type "" (rejected later by LoadSchema). *)
Fixpoint parse_tref (fuel : nat) (r : option itref) : outcome tref :=
  match fuel with
  | 0 => RErr "fuel"
  | S f =>
      match r with
      | None => ROk (TNamed "")                                         (* response == nil *)
      | Some (ITRef k n oft) =>
          if (k =? "NON_NULL") && (match oft with Some (ITRef k' _ _) => k' =? "LIST" | None => false end) then
            match oft with
            | Some (ITRef _ _ oft2) => match parse_tref f oft2 with ROk e => ROk (TNonNull (TList e)) | x => x end
            | None => RPanic                                              (* excluded by the guard response.OfType != nil *)
            end
          else if k =? "LIST" then
            match parse_tref f oft with ROk e => ROk (TList e) | x => x end
          else if k =? "NON_NULL" then
            match oft with
            | None => ROk (TNonNull (TNamed ""))                         (* guard added by fix 7789a11 *)
            | Some (ITRef _ n' _) => ROk (TNonNull (TNamed n'))
            end
          else ROk (TNamed n)
      end
  end.
Definition tref_fuel := 20.

(* parseArgList: name, description, type — the default value is NOT copied (listed finding C15-arg-default) *)
Definition parse_arg (i : iinput) : outcome ivalue :=
  match parse_tref tref_fuel (Some (ii_type i)) with
  | ROk t => ROk (mkIV (ii_name i) (ii_desc i) t None)
  | RErr w => RErr w | RPanic => RPanic end.

(* parseInputField: the default is treated as a raw JSON value although a spec-compliant responder sends a GraphQL
   literal as a string; the resulting ast.Value is modelled by the text the SDL formatter will print for it *)
Definition json_quote (s : string) : string := """" ++ s ++ """".    (* json.Marshal of a string without special characters *)
Definition parse_input_default (t : tref) (d : option string) : option string :=
  match d with
  | None => None
  | Some lit =>
      let base := (fix nm (t : tref) := match t with TNamed n => n | TList t' => nm t' | TNonNull t' => nm t' end) t in
      let is_list := (fix il (t : tref) := match t with TList _ => true | TNonNull t' => il t' | TNamed _ => false end) t in
      if is_list then None                                               (* the string is not a []interface{}: default dropped *)
      else if (base =? "Int") || (base =? "Float") || (base =? "Boolean") then Some (json_quote lit)   (* Raw keeps the JSON quotes *)
      else Some (json_quote lit)                                         (* StringValue: quotes stripped, then String() quotes again *)
  end.

Definition parse_input_field (i : iinput) : outcome ivalue :=
  match parse_tref tref_fuel (Some (ii_type i)) with
  | ROk t => ROk (mkIV (ii_name i) (ii_desc i) t (parse_input_default t (ii_default i)))
  | RErr w => RErr w | RPanic => RPanic end.

Fixpoint all_ok {A B} (f : A -> outcome B) (l : list A) : outcome (list B) :=
  match l with
  | [] => ROk []
  | x :: t => match f x with
              | ROk y => match all_ok f t with ROk ys => ROk (y :: ys) | RErr w => RErr w | RPanic => RPanic end
              | RErr w => RErr w | RPanic => RPanic end
  end.

(* parseDeprecation (fix 1097590): @deprecated(reason: ...) exactly when isDeprecated *)
Definition parse_deprecation (dep : bool) (reason : string) : option string := if dep then Some reason else None.

Definition parse_field (f : ifield) : outcome fdef :=
  match parse_tref tref_fuel (Some (if_type f)), all_ok parse_arg (if_args f) with
  | ROk t, ROk args => ROk (mkFD (if_name f) (if_desc f) args t (parse_deprecation (if_deprecated f) (if_reason f)))
  | RPanic, _ | _, RPanic => RPanic
  | RErr w, _ | _, RErr w => RErr w end.

Definition parse_kind (k : string) : option kind :=
  if k =? "OBJECT" then Some KObject else if k =? "SCALAR" then Some KScalar else if k =? "INTERFACE" then Some KInterface
  else if k =? "UNION" then Some KUnion else if k =? "INPUT_OBJECT" then Some KInput else if k =? "ENUM" then Some KEnum else None.

Definition builtin_type (n : string) : bool :=
  existsb (String.eqb n) ["ID"; "Int"; "Float"; "String"; "Boolean"; "__Schema"; "__Type"; "__InputValue"; "__TypeKind";
                          "__DirectiveLocation"; "__Field"; "__EnumValue"; "__Directive"].

Definition ref_name (r : itref) : string := match r with ITRef _ n _ => n end.

(* parseType + the second loop of introspectRemoteSchema for one type *)
Definition parse_type (known : string -> bool) (t : itype) : outcome tdef :=
  match parse_kind (it_kind t) with
  | None => RErr "unknown kind"
  | Some k =>
      match all_ok parse_field (it_fields t), all_ok parse_input_field (it_inputs t) with
      | ROk fs, ROk ins =>
          if existsb (fun r => ref_name r =? "") (it_possible t ++ it_ifaces t) then RErr "could not find type's name"
          else if negb (forallb (fun r => known (ref_name r)) (it_possible t ++ it_ifaces t)) then RErr "could not find type definition"
          else ROk (mkTD k (it_name t) (it_desc t) fs ins (map ref_name (it_ifaces t)) (map ref_name (it_possible t))
                         (match k with KEnum => map (fun e => mkEV (ie_name e) (ie_desc e) (parse_deprecation (ie_deprecated e) (ie_reason e))) (it_enums t) | _ => [] end))
      | RPanic, _ | _, RPanic => RPanic
      | RErr w, _ | _, RErr w => RErr w
      end
  end.

Definition builtin_directive (n : string) : bool := existsb (String.eqb n) ["skip"; "deprecated"; "include"; "specifiedBy"].

Definition parse_directive (d : idirective) : outcome ddef :=
  if id_name d =? "" then RErr "could not find directive's name"
  else match all_ok parse_arg (id_args d) with
       | ROk args => ROk (mkDD (id_name d) (id_desc d) (id_locs d) args)
       | RErr w => RErr w | RPanic => RPanic end.

(* findCutOffTypeRef (fix 0b6d375): an unnamed innermost type anywhere in the reconstructed schema *)
Fixpoint base_name (t : tref) : string := match t with TNamed n => n | TList t' => base_name t' | TNonNull t' => base_name t' end.
Definition cut_off (t : tref) : bool := base_name t =? "".
Definition cut_off_arg (a : ivalue) : bool := cut_off (iv_type a).
Definition cut_off_field (f : fdef) : bool := cut_off (fd_type f) || existsb cut_off_arg (fd_args f).
Definition cut_off_type (t : tdef) : bool := existsb cut_off_field (td_fields t) || existsb cut_off_arg (td_inputs t).
Definition cut_off_directive (d : ddef) : bool := existsb cut_off_arg (dd_args d).

Definition reconstruct (a : ischema) : outcome sch :=
  if is_query a =? "" then RErr "could not find the root query"
  else
    let types := filter (fun t => negb (builtin_type (it_name t))) (is_types a) in
    let known := fun n => existsb (fun t => it_name t =? n) types in
    match all_ok (parse_type known) types, all_ok parse_directive (filter (fun d => negb (builtin_directive (id_name d))) (is_directives a)) with
    | ROk ts, ROk ds =>
        if existsb cut_off_type ts || existsb cut_off_directive ds then RErr "nested deeper than introspection query asks for"
        else ROk (mkSch (is_query a) (is_mutation a) (is_subscription a) ts ds)
    | RPanic, _ | _, RPanic => RPanic
    | RErr w, _ | _, RErr w => RErr w
    end.
