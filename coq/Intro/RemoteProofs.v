(* C15: reconstruct (introspect S) = S on the domain inD15, never a panic, and the refutations outside it. *)
From Coq Require Import List String Bool Arith Lia.
From Pebbles Require Import Intro.Schema Intro.Spec Intro.Remote.
Import ListNotations.
Open Scope string_scope.

Section RoundTrip.
Variable kind_of : string -> string.
Hypothesis kind_of_named : forall n, (kind_of n =? "NON_NULL") = false /\ (kind_of n =? "LIST") = false.

Fixpoint depth (t : tref) : nat := match t with TNamed _ => 0 | TList t' => S (depth t') | TNonNull t' => S (depth t') end.
Fixpoint wf_tref (t : tref) : Prop :=
  match t with
  | TNamed _ => True
  | TList t' => wf_tref t'
  | TNonNull (TNonNull _) => False
  | TNonNull t' => wf_tref t'
  end.

(* one lemma for both regimes: within the levels the query asks for the reference comes back exactly; beyond them
   it comes back with an unnamed innermost type (which findCutOffTypeRef then reports) *)
Lemma parse_render_gen : forall d t, wf_tref t -> forall f, d + 1 < f ->
  exists t', parse_tref f (Some (render_tref kind_of d t)) = ROk t' /\
             ((depth t <= d /\ t' = t) \/ (d < depth t /\ cut_off t' = true)).
Proof.
  induction d as [d IH] using lt_wf_ind. intros t Hwf f Hf.
  destruct f as [|f]; [lia|]. destruct t as [n|t'|t']; cbn [render_tref parse_tref].
  - destruct (kind_of_named n) as [H1 H2]. rewrite H1, H2. cbn. eexists; split; [reflexivity|]. left. cbn. split; [lia|reflexivity].
  - cbn [depth]. destruct d as [|d'].
    + cbn. destruct f as [|f]; [lia|]. cbn. eexists; split; [reflexivity|]. right. split; [lia|reflexivity].
    + cbn. destruct (IH d' ltac:(lia) t' Hwf f ltac:(lia)) as (t2 & E & [[Hd ->]|[Hd Hc]]); rewrite E.
      * eexists; split; [reflexivity|]. left. split; [lia|reflexivity].
      * eexists; split; [reflexivity|]. right. split; [lia|exact Hc].
  - cbn [depth]. destruct d as [|d'].
    + cbn. eexists; split; [reflexivity|]. right. split; [lia|reflexivity].
    + destruct t' as [n|t''|t'']; cbn [render_tref].
      * destruct (kind_of_named n) as [H1 H2]. cbn. rewrite H2. cbn. eexists; split; [reflexivity|]. left. cbn. split; [lia|reflexivity].
      * cbn [depth]. destruct d' as [|d''].
        -- cbn. destruct f as [|f]; [lia|]. cbn. eexists; split; [reflexivity|]. right. split; [lia|reflexivity].
        -- cbn. destruct f as [|f']; [lia|].
           destruct (IH d'' ltac:(lia) t'' Hwf (S f') ltac:(lia)) as (t2 & E & [[Hd ->]|[Hd Hc]]); rewrite E.
           ++ eexists; split; [reflexivity|]. left. split; [lia|reflexivity].
           ++ eexists; split; [reflexivity|]. right. split; [lia|exact Hc].
      * destruct Hwf.
Qed.

Lemma parse_render_tref : forall d t, depth t <= d -> wf_tref t ->
  forall f, d + 1 < f -> parse_tref f (Some (render_tref kind_of d t)) = ROk t.
Proof.
  intros d t Hd Hwf f Hf. destruct (parse_render_gen d t Hwf f Hf) as (t' & E & [[_ ->]|[Hlt _]]); [exact E|lia].
Qed.

Definition wf_ref (t : tref) : Prop := wf_tref t /\ base_name t <> "".
Definition wf_type_ref (t : tref) : Prop := wf_ref t /\ depth t <= ofType_levels.

Lemma parse_render t : wf_type_ref t -> parse_tref tref_fuel (Some (render_tref kind_of ofType_levels t)) = ROk t.
Proof. intros [[Hw _] Hd]. apply parse_render_tref; auto. unfold tref_fuel, ofType_levels in *. lia. Qed.

Definition too_deep (t : tref) : bool := Nat.ltb ofType_levels (depth t).
Definition deep_arg (v : ivalue) : bool := too_deep (iv_type v).
Definition deep_field (f : fdef) : bool := too_deep (fd_type f) || existsb deep_arg (fd_args f).
Definition deep_type (t : tdef) : bool := existsb deep_field (td_fields t) || existsb deep_arg (td_inputs t).
Definition deep_directive (d : ddef) : bool := existsb deep_arg (dd_args d).
Definition deep_schema (s : sch) : bool := existsb deep_type (s_types s) || existsb deep_directive (s_directives s).

(* "exact when shallow, visibly cut off when deep" *)
Definition exact_or_cut {A} (deep bad : A -> bool) (x y : A) : Prop :=
  (deep x = false /\ y = x) \/ (deep x = true /\ bad y = true).

Lemma parse_render_any t : wf_ref t ->
  exists t', parse_tref tref_fuel (Some (render_tref kind_of ofType_levels t)) = ROk t' /\ exact_or_cut too_deep cut_off t t'.
Proof.
  intros [Hw _]. destruct (parse_render_gen ofType_levels t Hw tref_fuel ltac:(unfold tref_fuel, ofType_levels; lia)) as (t' & E & [[Hd Heq]|[Hd Hc]]);
    exists t'; (split; [exact E|]); [left|right]; (split; [|assumption]); unfold too_deep.
  - apply Nat.ltb_ge. exact Hd.
  - apply Nat.ltb_lt. exact Hd.
Qed.

Opaque tref_fuel ofType_levels.
Arguments parse_tref : simpl never.
Arguments render_tref : simpl never.

Lemma all_ok_map {A B} (f : A -> outcome B) (g : B -> A) (l : list B) :
  (forall x, In x l -> f (g x) = ROk x) -> all_ok f (map g l) = ROk l.
Proof.
  induction l as [|x t IH]; intros H; cbn; [reflexivity|].
  rewrite (H x (or_introl eq_refl)), IH; [reflexivity|]. intros y Hy. apply H. now right.
Qed.

Lemma all_ok_rel {A B} (f : A -> outcome B) (g : B -> A) (deep bad : B -> bool) (l : list B) :
  (forall x, In x l -> exists y, f (g x) = ROk y /\ exact_or_cut deep bad x y) ->
  exists l', all_ok f (map g l) = ROk l' /\ exact_or_cut (existsb deep) (existsb bad) l l'.
Proof.
  unfold exact_or_cut. induction l as [|x t IH]; intros H; cbn.
  - exists []. split; [reflexivity|now left].
  - destruct (H x (or_introl eq_refl)) as (y & Ey & Hy). rewrite Ey.
    destruct IH as (l' & El & Hl); [intros z Hz; apply H; now right|]. rewrite El.
    exists (y :: l'). split; [reflexivity|]. cbn.
    destruct Hy as [[Hd ->]|[Hd Hb]]; rewrite Hd; cbn [orb]; [|right; now rewrite Hb].
    destruct Hl as [[Hd' ->]|[Hd' Hb]]; [left; now split|right; split; [exact Hd'|now rewrite Hb, orb_true_r]].
Qed.

Lemma existsb_false {A} (p : A -> bool) l : Forall (fun x => p x = false) l -> existsb p l = false.
Proof. induction 1 as [|x t Hx _ IH]; cbn; [reflexivity|]. now rewrite Hx, IH. Qed.

(* ---- the domain, parameterised by what is demanded of a type reference ---- *)
Section Domain.
Variable P : tref -> Prop.
Definition ok_arg (v : ivalue) : Prop := P (iv_type v) /\ iv_default v = None.
Definition ok_field (f : fdef) : Prop := P (fd_type f) /\ Forall ok_arg (fd_args f).
Definition ok_type (known : string -> bool) (t : tdef) : Prop :=
  Forall ok_field (td_fields t) /\ Forall ok_arg (td_inputs t) /\
  Forall (fun n => n <> "" /\ known n = true) (td_members t ++ td_ifaces t) /\
  (match td_kind t with KEnum => True | _ => td_evalues t = [] end) /\
  builtin_type (td_name t) = false.
Definition ok_directive (d : ddef) : Prop := dd_name d <> "" /\ builtin_directive (dd_name d) = false /\ Forall ok_arg (dd_args d).
Definition inD (s : sch) : Prop :=
  s_query s <> "" /\
  Forall (ok_type (fun n => existsb (fun t => td_name t =? n) (s_types s))) (s_types s) /\
  Forall ok_directive (s_directives s).
End Domain.

(* C15's domain: no argument / input-field default values; wrappers at most as deep as the query asks for *)
Definition inD15 := inD wf_type_ref.
(* the same without the depth bound *)
Definition inD15_any_depth := inD wf_ref.

Lemma inD_weaken (P Q : tref -> Prop) s : (forall t, P t -> Q t) -> inD P s -> inD Q s.
Proof.
  intros PQ (Hq & Ht & Hd). split; [exact Hq|].
  assert (Ha : forall v, ok_arg P v -> ok_arg Q v) by (intros v [H1 H2]; split; auto).
  assert (HA : forall l, Forall (ok_arg P) l -> Forall (ok_arg Q) l) by (intros l; apply Forall_impl; exact Ha).
  split.
  - eapply Forall_impl; [|exact Ht]. intros t (H1 & H2 & H3). repeat split; try tauto; auto.
    eapply Forall_impl; [|exact H1]. intros f [Hf1 Hf2]. split; auto.
  - eapply Forall_impl; [|exact Hd]. intros d (H1 & H2 & H3). repeat split; auto.
Qed.

(* ---- nothing in a schema of the domain looks cut off ---- *)
Lemma no_cut_arg v : ok_arg wf_ref v -> cut_off_arg v = false.
Proof. intros [[_ Hn] _]. unfold cut_off_arg, cut_off. now apply String.eqb_neq. Qed.
Lemma no_cut_args l : Forall (ok_arg wf_ref) l -> existsb cut_off_arg l = false.
Proof. intros H. apply existsb_false. eapply Forall_impl; [|exact H]. exact no_cut_arg. Qed.
Lemma no_cut_field f : ok_field wf_ref f -> cut_off_field f = false.
Proof. intros [[_ Hn] Ha]. unfold cut_off_field, cut_off. rewrite (proj2 (String.eqb_neq _ _) Hn). now rewrite no_cut_args. Qed.
Lemma no_cut_type known t : ok_type wf_ref known t -> cut_off_type t = false.
Proof.
  intros (Hf & Hi & _). unfold cut_off_type. rewrite (no_cut_args _ Hi), orb_false_r.
  apply existsb_false. eapply Forall_impl; [|exact Hf]. exact no_cut_field.
Qed.
Lemma no_cut_directive d : ok_directive wf_ref d -> cut_off_directive d = false.
Proof. intros (_ & _ & Ha). unfold cut_off_directive. now apply no_cut_args. Qed.
Lemma no_cut s : inD wf_ref s -> existsb cut_off_type (s_types s) || existsb cut_off_directive (s_directives s) = false.
Proof.
  intros (_ & Ht & Hd). rewrite (existsb_false cut_off_type), (existsb_false cut_off_directive); [reflexivity| |].
  - eapply Forall_impl; [|exact Hd]. exact no_cut_directive.
  - eapply Forall_impl; [|exact Ht]. intros t. apply no_cut_type.
Qed.

(* ---- nothing in a schema of the bounded domain is too deep ---- *)
Lemma not_deep_arg v : ok_arg wf_type_ref v -> deep_arg v = false.
Proof. intros [[_ Hd] _]. unfold deep_arg, too_deep. now apply Nat.ltb_ge. Qed.
Lemma not_deep_args l : Forall (ok_arg wf_type_ref) l -> existsb deep_arg l = false.
Proof. intros H. apply existsb_false. eapply Forall_impl; [|exact H]. exact not_deep_arg. Qed.
Lemma not_deep_field f : ok_field wf_type_ref f -> deep_field f = false.
Proof. intros [[_ Hd] Ha]. unfold deep_field, too_deep. rewrite (proj2 (Nat.ltb_ge _ _) Hd). now rewrite not_deep_args. Qed.
Lemma not_deep s : inD wf_type_ref s -> deep_schema s = false.
Proof.
  intros (_ & Ht & Hd). unfold deep_schema. rewrite (existsb_false deep_type), (existsb_false deep_directive); [reflexivity| |].
  - eapply Forall_impl; [|exact Hd]. intros d (_ & _ & Ha). unfold deep_directive. now apply not_deep_args.
  - eapply Forall_impl; [|exact Ht]. intros t (Hf & Hi & _). unfold deep_type. rewrite (not_deep_args _ Hi), orb_false_r.
    apply existsb_false. eapply Forall_impl; [|exact Hf]. exact not_deep_field.
Qed.

(* ---- each level: exact, or visibly cut off ---- *)
Lemma rt_arg v : ok_arg wf_ref v -> exists v', parse_arg (render_input kind_of v) = ROk v' /\ exact_or_cut deep_arg cut_off_arg v v'.
Proof.
  intros [Hw Hd]. unfold parse_arg, render_input. cbn [ii_type ii_name ii_desc ii_default].
  destruct (parse_render_any _ Hw) as (t' & E & Ht). rewrite E. clear E. eexists; split; [reflexivity|].
  unfold exact_or_cut, deep_arg, cut_off_arg in *. cbn [iv_type].
  destruct Ht as [[Hdp ->]|[Hdp Hc]]; [left|right; now split]. split; [exact Hdp|].
  destruct v as [n d t df]; simpl in Hd; subst df; reflexivity.
Qed.

Lemma rt_input v : ok_arg wf_ref v -> exists v', parse_input_field (render_input kind_of v) = ROk v' /\ exact_or_cut deep_arg cut_off_arg v v'.
Proof.
  intros [Hw Hd]. unfold parse_input_field, render_input. cbn [ii_type ii_name ii_desc ii_default].
  destruct (parse_render_any _ Hw) as (t' & E & Ht). rewrite E. clear E. rewrite Hd. cbn [parse_input_default]. eexists; split; [reflexivity|].
  unfold exact_or_cut, deep_arg, cut_off_arg in *. cbn [iv_type].
  destruct Ht as [[Hdp ->]|[Hdp Hc]]; [left|right; now split]. split; [exact Hdp|].
  destruct v as [n d t df]; simpl in Hd; subst df; reflexivity.
Qed.

Lemma deprecation_round_trip (o : option string) :
  parse_deprecation (match o with Some _ => true | None => false end) (match o with Some r => r | None => "" end) = o.
Proof. now destruct o. Qed.

Lemma rt_field f : ok_field wf_ref f -> exists f', parse_field (render_field kind_of f) = ROk f' /\ exact_or_cut deep_field cut_off_field f f'.
Proof.
  intros (Hw & Hargs). unfold parse_field, render_field. cbn [if_type if_args if_name if_desc if_deprecated if_reason].
  destruct (parse_render_any _ Hw) as (t' & E & Ht). rewrite E. clear E.
  destruct (all_ok_rel parse_arg (render_input kind_of) deep_arg cut_off_arg (fd_args f)) as (args' & Ea & Ha).
  { intros x Hx. apply rt_arg. rewrite Forall_forall in Hargs. auto. }
  rewrite Ea, deprecation_round_trip. eexists; split; [reflexivity|].
  unfold exact_or_cut, deep_field, cut_off_field in *; cbn [fd_type fd_args].
  destruct Ht as [[Hdt ->]|[Hdt Hc]]; rewrite Hdt; [|right; now rewrite Hc].
  destruct Ha as [[Hda ->]|[Hda Hc]]; rewrite Hda; [left; split; [reflexivity|now destruct f]|right; now rewrite Hc, !orb_true_r].
Qed.

Lemma parse_kind_name k : parse_kind (kind_name k) = Some k.
Proof. destruct k; reflexivity. Qed.

Lemma map_ref_name l : map ref_name (map (named_ref kind_of) l) = l.
Proof. induction l as [|x t IH]; cbn; [reflexivity|]. now rewrite IH. Qed.

Lemma enum_round_trip l :
  map (fun e => mkEV (ie_name e) (ie_desc e) (parse_deprecation (ie_deprecated e) (ie_reason e))) (map render_enum l) = l.
Proof. induction l as [|e t IH]; cbn; [reflexivity|]. rewrite IH. destruct e as [n d [r|]]; reflexivity. Qed.

Lemma rt_type known t : ok_type wf_ref known t ->
  exists t', parse_type known (render_type kind_of t) = ROk t' /\ exact_or_cut deep_type cut_off_type t t'.
Proof.
  intros (Hf & Hi & Hn & He & _). unfold parse_type, render_type. cbn [it_kind it_name it_desc it_inputs it_ifaces it_possible it_fields it_enums]. rewrite parse_kind_name.
  destruct (all_ok_rel parse_field (render_field kind_of) deep_field cut_off_field (td_fields t)) as (fs' & Ef & Hfs).
  { intros x Hx. apply rt_field. rewrite Forall_forall in Hf. auto. }
  destruct (all_ok_rel parse_input_field (render_input kind_of) deep_arg cut_off_arg (td_inputs t)) as (is' & Ei & His).
  { intros x Hx. apply rt_input. rewrite Forall_forall in Hi. auto. }
  rewrite Ef, Ei. rewrite <- map_app.
  assert (E1 : existsb (fun r => ref_name r =? "") (map (named_ref kind_of) (td_members t ++ td_ifaces t)) = false).
  { clear -Hn. induction Hn as [|n l [Hne _] _ IH]; cbn; [reflexivity|]. rewrite IH, orb_false_r. now apply String.eqb_neq. }
  assert (E2 : forallb (fun r => known (ref_name r)) (map (named_ref kind_of) (td_members t ++ td_ifaces t)) = true).
  { clear -Hn. induction Hn as [|n l [_ Hk] _ IH]; cbn; [reflexivity|]. now rewrite Hk, IH. }
  rewrite E1, E2. cbn [negb]. rewrite !map_ref_name. eexists; split; [reflexivity|].
  unfold exact_or_cut, deep_type, cut_off_type in *; cbn [td_fields td_inputs].
  destruct Hfs as [[Hdf ->]|[Hdf Hc]]; rewrite Hdf; [|right; now rewrite Hc].
  destruct His as [[Hdi ->]|[Hdi Hc]]; rewrite Hdi; [left; split; [reflexivity|]|right; now rewrite Hc, !orb_true_r].
  destruct t as [k nm ds fs ins ifs ms evs]; cbn in *. f_equal.
  destruct k; try (now subst). apply enum_round_trip.
Qed.

Lemma rt_directive d : ok_directive wf_ref d ->
  exists d', parse_directive (render_directive kind_of d) = ROk d' /\ exact_or_cut deep_directive cut_off_directive d d'.
Proof.
  intros (Hn & _ & Ha). unfold parse_directive, render_directive. cbn [id_name id_desc id_locs id_args].
  rewrite (proj2 (String.eqb_neq _ _) Hn).
  destruct (all_ok_rel parse_arg (render_input kind_of) deep_arg cut_off_arg (dd_args d)) as (args' & Ea & Has).
  { intros x Hx. apply rt_arg. rewrite Forall_forall in Ha. auto. }
  rewrite Ea. eexists; split; [reflexivity|]. unfold exact_or_cut, deep_directive, cut_off_directive in *; cbn [dd_args].
  destruct Has as [[Hd ->]|[Hd Hc]]; [left; split; [exact Hd|now destruct d]|right; now split].
Qed.

Lemma filter_all {A} (p : A -> bool) l : (forall x, In x l -> p x = true) -> filter p l = l.
Proof. induction l as [|x t IH]; intros H; cbn; [reflexivity|]. rewrite (H x (or_introl eq_refl)), IH; auto. intros y Hy. apply H. now right. Qed.

Lemma forallb_ext' {A} (f g : A -> bool) l : (forall x, f x = g x) -> forallb f l = forallb g l.
Proof. intros H. induction l as [|x t IH]; cbn; [reflexivity|]. now rewrite H, IH. Qed.

Lemma known_names (l : list tdef) n :
  existsb (fun t => it_name t =? n) (map (render_type kind_of) l) = existsb (fun t => td_name t =? n) l.
Proof. induction l as [|x t IH]; [reflexivity|]. simpl map. simpl existsb. rewrite IH. reflexivity. Qed.

Definition cut_off_error : string := "nested deeper than introspection query asks for".

(* Whatever the nesting depth: the reconstruction is the schema itself when no reference is nested deeper than the query
   asks for, and the "nested deeper" start-up error when one is — never another schema *)
Theorem reconstruct_exact_or_error s : inD15_any_depth s ->
  reconstruct (introspect kind_of s) = if deep_schema s then RErr cut_off_error else ROk s.
Proof.
  intros HD. pose proof HD as HD'. destruct HD as (Hq & Ht & Hd).
  unfold reconstruct, introspect. cbn [is_query is_mutation is_subscription is_types is_directives].
  rewrite (proj2 (String.eqb_neq _ _) Hq).
  assert (Ef : filter (fun t => negb (builtin_type (it_name t))) (map (render_type kind_of) (s_types s)) = map (render_type kind_of) (s_types s)).
  { apply filter_all. intros x Hx. apply in_map_iff in Hx as (t & <- & Hin).
    change (it_name (render_type kind_of t)) with (td_name t).
    rewrite Forall_forall in Ht. destruct (Ht t Hin) as (_ & _ & _ & _ & Hb). now rewrite Hb. }
  rewrite Ef.
  assert (Ed : filter (fun d => negb (builtin_directive (id_name d))) (map (render_directive kind_of) (s_directives s)) = map (render_directive kind_of) (s_directives s)).
  { apply filter_all. intros x Hx. apply in_map_iff in Hx as (d & <- & Hin).
    change (id_name (render_directive kind_of d)) with (dd_name d).
    rewrite Forall_forall in Hd. destruct (Hd d Hin) as (_ & Hb & _). now rewrite Hb. }
  rewrite Ed.
  pose proof (known_names (s_types s)) as Ek.
  destruct (all_ok_rel (parse_type (fun n => existsb (fun t => it_name t =? n) (map (render_type kind_of) (s_types s)))) (render_type kind_of) deep_type cut_off_type (s_types s)) as (ts' & Ets & Hts).
  { intros t Hin. rewrite Forall_forall in Ht. specialize (Ht t Hin).
    destruct (rt_type _ t Ht) as (t' & E & Hrel). exists t'. split; [|exact Hrel]. rewrite <- E. unfold parse_type.
    destruct (parse_kind (it_kind (render_type kind_of t))); [|reflexivity].
    destruct (all_ok parse_field _); try reflexivity. destruct (all_ok parse_input_field _); try reflexivity.
    destruct (existsb _ _); [reflexivity|].
    assert (Eq : forallb (fun r => existsb (fun t0 => it_name t0 =? ref_name r) (map (render_type kind_of) (s_types s))) (it_possible (render_type kind_of t) ++ it_ifaces (render_type kind_of t))
               = forallb (fun r => existsb (fun t0 => td_name t0 =? ref_name r) (s_types s)) (it_possible (render_type kind_of t) ++ it_ifaces (render_type kind_of t))).
    { apply forallb_ext'. intros r. apply Ek. }
    now rewrite Eq. }
  rewrite Ets.
  destruct (all_ok_rel parse_directive (render_directive kind_of) deep_directive cut_off_directive (s_directives s)) as (ds' & Eds & Hds).
  { intros d Hin. apply rt_directive. rewrite Forall_forall in Hd. auto. }
  rewrite Eds. unfold deep_schema, exact_or_cut in *.
  destruct Hts as [[Hdt ->]|[Hdt Hc]]; rewrite Hdt; [|rewrite Hc; reflexivity].
  destruct Hds as [[Hdd ->]|[Hdd Hc]]; rewrite Hdd; [|rewrite Hc, orb_true_r; reflexivity].
  cbn [orb]. rewrite (no_cut s HD'). now destruct s.
Qed.

(* C15 on its domain: the schema reconstructed from a spec-compliant introspection answer IS the schema *)
Theorem reconstruct_introspect s : inD15 s -> reconstruct (introspect kind_of s) = ROk s.
Proof.
  intros HD. rewrite reconstruct_exact_or_error.
  - now rewrite (not_deep s HD).
  - eapply inD_weaken; [|exact HD]. intros t [H _]. exact H.
Qed.
End RoundTrip.

(* ---- no start-up panic, whatever the answer (after fix 7789a11) ---- *)
Lemma parse_tref_no_panic f : forall r, parse_tref f r <> RPanic.
Proof.
  induction f as [|f IH]; intros r; cbn; [discriminate|].
  destruct r as [[k n oft]|]; [|discriminate].
  destruct ((k =? "NON_NULL") && match oft with Some (ITRef k' _ _) => k' =? "LIST" | None => false end) eqn:E.
  - destruct oft as [[k' n' oft2]|]; [|now rewrite andb_false_r in E].
    specialize (IH oft2). destruct (parse_tref f oft2); [discriminate|discriminate|contradiction].
  - destruct (k =? "LIST").
    + specialize (IH oft). destruct (parse_tref f oft); [discriminate|discriminate|contradiction].
    + destruct (k =? "NON_NULL"); [destruct oft as [[? ? ?]|]; discriminate|discriminate].
Qed.

Lemma all_ok_no_panic {A B} (f : A -> outcome B) l : (forall x, f x <> RPanic) -> all_ok f l <> RPanic.
Proof.
  intros H. induction l as [|x t IH]; cbn; [discriminate|].
  specialize (H x). destruct (f x); [|discriminate|contradiction].
  destruct (all_ok f t); [discriminate|discriminate|contradiction].
Qed.

Lemma parse_arg_no_panic i : parse_arg i <> RPanic.
Proof. unfold parse_arg. pose proof (parse_tref_no_panic tref_fuel (Some (ii_type i))). destruct (parse_tref _ _); [discriminate|discriminate|contradiction]. Qed.
Lemma parse_input_no_panic i : parse_input_field i <> RPanic.
Proof. unfold parse_input_field. pose proof (parse_tref_no_panic tref_fuel (Some (ii_type i))). destruct (parse_tref _ _); [discriminate|discriminate|contradiction]. Qed.
Lemma parse_field_no_panic f : parse_field f <> RPanic.
Proof.
  unfold parse_field. pose proof (parse_tref_no_panic tref_fuel (Some (if_type f))) as H1.
  pose proof (all_ok_no_panic parse_arg (if_args f) parse_arg_no_panic) as H2.
  destruct (parse_tref _ _); destruct (all_ok parse_arg _); try discriminate; contradiction.
Qed.

Theorem reconstruct_never_panics a : reconstruct a <> RPanic.
Proof.
  unfold reconstruct. destruct (is_query a =? ""); [discriminate|].
  set (types := filter _ (is_types a)). set (known := fun n => existsb _ types).
  assert (H1 : all_ok (parse_type known) types <> RPanic).
  { apply all_ok_no_panic. intros t. unfold parse_type. destruct (parse_kind (it_kind t)); [|discriminate].
    pose proof (all_ok_no_panic parse_field (it_fields t) parse_field_no_panic) as Hf.
    pose proof (all_ok_no_panic parse_input_field (it_inputs t) parse_input_no_panic) as Hi.
    destruct (all_ok parse_field _); destruct (all_ok parse_input_field _); try discriminate; try contradiction.
    destruct (existsb _ _); [discriminate|]. destruct (negb _); discriminate. }
  assert (H2 : all_ok parse_directive (filter (fun d => negb (builtin_directive (id_name d))) (is_directives a)) <> RPanic).
  { apply all_ok_no_panic. intros d. unfold parse_directive. destruct (id_name d =? ""); [discriminate|].
    pose proof (all_ok_no_panic parse_arg (id_args d) parse_arg_no_panic). destruct (all_ok parse_arg _); [discriminate|discriminate|contradiction]. }
  destruct (all_ok (parse_type known) types); destruct (all_ok parse_directive _); try discriminate; try contradiction.
  destruct (existsb _ _ || existsb _ _); discriminate.
Qed.
