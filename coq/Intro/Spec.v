(* A spec-compliant introspection responder answering exactly the gateway's fixed introspection query
   (introspection/remote.go: introspectionQuery): `ofType` is selected to 7 levels. No proofs here. *)
From Coq Require Import List String Bool Arith.
From Pebbles Require Import Intro.Schema.
Import ListNotations.
Open Scope string_scope.

Section Spec.
Variable kind_of : string -> string.     (* __Type.kind of a named type *)

(* TypeRef fragment: kind, name and [fuel] further levels of ofType; deeper levels are simply not asked for *)
Fixpoint render_tref (fuel : nat) (t : tref) {struct t} : itref :=
  match t with
  | TNamed n => ITRef (kind_of n) n None
  | TList t' => ITRef "LIST" "" (match fuel with 0 => None | S f => Some (render_tref f t') end)
  | TNonNull t' => ITRef "NON_NULL" "" (match fuel with 0 => None | S f => Some (render_tref f t') end)
  end.

Definition ofType_levels := 7.

Definition render_input (v : ivalue) : iinput :=
  mkII (iv_name v) (iv_desc v) (iv_default v) (render_tref ofType_levels (iv_type v)).
Definition render_field (f : fdef) : ifield :=
  mkIF (fd_name f) (fd_desc f) (map render_input (fd_args f)) (render_tref ofType_levels (fd_type f))
       (match fd_deprecated f with Some _ => true | None => false end)
       (match fd_deprecated f with Some r => r | None => "" end).
Definition render_enum (e : evalue) : ienum :=
  mkIE (ev_name e) (ev_desc e) (match ev_deprecated e with Some _ => true | None => false end)
       (match ev_deprecated e with Some r => r | None => "" end).
Definition named_ref (n : string) : itref := ITRef (kind_of n) n None.

Definition render_type (t : tdef) : itype :=
  mkIT (kind_name (td_kind t)) (td_name t) (td_desc t)
       (map render_input (td_inputs t))
       (map named_ref (td_ifaces t))
       (map named_ref (td_members t))
       (map render_field (td_fields t))
       (map render_enum (td_evalues t)).
Definition render_directive (d : ddef) : idirective :=
  mkID (dd_name d) (dd_desc d) (dd_locs d) (map render_input (dd_args d)).

Definition introspect (s : sch) : ischema :=
  mkIS (s_query s) (s_mutation s) (s_subscription s) (map render_type (s_types s)) (map render_directive (s_directives s)).
End Spec.
