(* C16 ∘ C15: the answer the gateway's resolvers give to the standard introspection query (the one another pebbles
   gateway sends, introspection/remote.go), decoded the way remote.go decodes it, IS the specification-shaped typed
   answer [introspect] of the schema — so [reconstruct] rebuilds the schema from it. *)
From Coq Require Import List String Bool Arith Lia.
From Pebbles Require Import Base.Json Intro.Schema Intro.Spec Intro.Remote Intro.RemoteProofs Intro.Exec.
Import ListNotations.
Open Scope string_scope.
Open Scope list_scope.

(* ---- the standard query, fragments expanded ---- *)
Definition leaf (n : string) : isel := ISel n n false "" [].
Definition sub (n : string) (s : list isel) : isel := ISel n n false "" s.
Definition sub_all (n : string) (s : list isel) : isel := ISel n n true "" s.     (* (includeDeprecated: true) *)
Fixpoint typeref_sel (d : nat) : list isel :=
  match d with 0 => [leaf "kind"; leaf "name"] | S d' => [leaf "kind"; leaf "name"; sub "ofType" (typeref_sel d')] end.
Definition input_sel : list isel := [leaf "name"; leaf "description"; sub "type" (typeref_sel ofType_levels); leaf "defaultValue"].
Definition field_sel : list isel :=
  [leaf "name"; leaf "description"; sub "args" input_sel; sub "type" (typeref_sel ofType_levels); leaf "isDeprecated"; leaf "deprecationReason"].
Definition enum_sel : list isel := [leaf "name"; leaf "description"; leaf "isDeprecated"; leaf "deprecationReason"].
Definition fulltype_sel : list isel :=
  [leaf "kind"; leaf "name"; leaf "description"; sub_all "fields" field_sel; sub "inputFields" input_sel;
   sub "interfaces" (typeref_sel ofType_levels); sub_all "enumValues" enum_sel; sub "possibleTypes" (typeref_sel ofType_levels)].
Definition directive_sel : list isel := [leaf "name"; leaf "description"; leaf "locations"; sub "args" input_sel].
Definition schema_sel : list isel :=
  [sub "queryType" [leaf "name"]; sub "mutationType" [leaf "name"]; sub "subscriptionType" [leaf "name"];
   sub "types" fulltype_sel; sub "directives" directive_sel].
Definition std_query : list isel := [sub "__schema" schema_sel].

(* ---- decoding the JSON answer into the typed answer (encoding/json into the Introspection* structs:
   a missing or null member is the zero value, a null pointer stays nil) ---- *)
Definition jget (k : string) (j : json) : option json := match j with JObj l => assoc k l | _ => None end.
Definition jstr (o : option json) : string := match o with Some (JStr s) => s | _ => "" end.
Definition jbool (o : option json) : bool := match o with Some (JBool b) => b | _ => false end.
Definition jlist (o : option json) : list json := match o with Some (JArr l) => l | _ => [] end.
Definition jstr_o (o : option json) : option string := match o with Some (JStr s) => Some s | _ => None end.
Definition jstrs (o : option json) : list string := map (fun j => match j with JStr s => s | _ => "" end) (jlist o).

Fixpoint dec_tref (fuel : nat) (j : json) : itref :=
  match fuel with
  | 0 => ITRef "" "" None
  | S f => ITRef (jstr (jget "kind" j)) (jstr (jget "name" j))
                 (match jget "ofType" j with Some (JObj l) => Some (dec_tref f (JObj l)) | _ => None end)
  end.
Definition dec_fuel := 12.
Definition dec_input (j : json) : iinput :=
  mkII (jstr (jget "name" j)) (jstr (jget "description" j)) (jstr_o (jget "defaultValue" j))
       (match jget "type" j with Some t => dec_tref dec_fuel t | None => ITRef "" "" None end).
Definition dec_field (j : json) : ifield :=
  mkIF (jstr (jget "name" j)) (jstr (jget "description" j)) (map dec_input (jlist (jget "args" j)))
       (match jget "type" j with Some t => dec_tref dec_fuel t | None => ITRef "" "" None end)
       (jbool (jget "isDeprecated" j)) (jstr (jget "deprecationReason" j)).
Definition dec_enum (j : json) : ienum :=
  mkIE (jstr (jget "name" j)) (jstr (jget "description" j)) (jbool (jget "isDeprecated" j)) (jstr (jget "deprecationReason" j)).
Definition dec_type (j : json) : itype :=
  mkIT (jstr (jget "kind" j)) (jstr (jget "name" j)) (jstr (jget "description" j))
       (map dec_input (jlist (jget "inputFields" j)))
       (map (dec_tref dec_fuel) (jlist (jget "interfaces" j)))
       (map (dec_tref dec_fuel) (jlist (jget "possibleTypes" j)))
       (map dec_field (jlist (jget "fields" j)))
       (map dec_enum (jlist (jget "enumValues" j))).
Definition dec_directive (j : json) : idirective :=
  mkID (jstr (jget "name" j)) (jstr (jget "description" j)) (jstrs (jget "locations" j)) (map dec_input (jlist (jget "args" j))).
Definition dec_root (o : option json) : option string :=
  match o with Some (JObj l) => Some (jstr (assoc "name" l)) | _ => None end.
Definition dec_schema (data : json) : option ischema :=
  match jget "__schema" data with
  | Some s => Some (mkIS (match dec_root (jget "queryType" s) with Some n => n | None => "" end)
                         (dec_root (jget "mutationType" s)) (dec_root (jget "subscriptionType" s))
                         (map dec_type (jlist (jget "types" s))) (map dec_directive (jlist (jget "directives" s))))
  | None => None
  end.

Section Rebuild.
Variable s : sch16.

Definition kind_of (n : string) : string :=
  match find_type s n with Some t => kind_name (td_kind t) | None => "" end.

Lemma find_type_name n t : find_type s n = Some t -> td_name t = n.
Proof. unfold find_type. intros H. apply find_some in H as [_ H]. now apply String.eqb_eq. Qed.

Fixpoint refs_exist (t : tref) : Prop :=
  match t with TNamed n => has_type s n = true | TList t' => refs_exist t' | TNonNull t' => refs_exist t' end.

Lemma exec_tref : forall d t f, d + 1 < f -> refs_exist t ->
  exists l, local_exec s f (NType t) (typeref_sel d) = Some (JObj l) /\
            forall g, d < g -> dec_tref g (JObj l) = render_tref kind_of d t.
Proof.
  induction d as [|d IH]; intros t f Hf Hr.
  - destruct f as [|f]; [lia|]. destruct t as [n|t'|t']; unfold local_exec; cbn [typeref_sel exec alive refs_exist] in *.
    + rewrite Hr. cbn [negb]. unfold has_type in Hr. destruct (find_type s n) as [t0|] eqn:Ef; [|discriminate].
      cbn. rewrite Ef. cbn. eexists. split; [reflexivity|]. intros g Hg. destruct g; [lia|]. cbn.
      unfold kind_of. rewrite Ef, (find_type_name _ _ Ef). reflexivity.
    + cbn. eexists. split; [reflexivity|]. intros g Hg. destruct g; [lia|]. reflexivity.
    + cbn. eexists. split; [reflexivity|]. intros g Hg. destruct g; [lia|]. reflexivity.
  - destruct f as [|f]; [lia|]. destruct t as [n|t'|t']; unfold local_exec; cbn [typeref_sel exec alive refs_exist] in *.
    + rewrite Hr. cbn [negb]. unfold has_type in Hr. destruct (find_type s n) as [t0|] eqn:Ef; [|discriminate].
      cbn. rewrite Ef. cbn. eexists. split; [reflexivity|]. intros g Hg. destruct g; [lia|]. cbn.
      unfold kind_of. rewrite Ef, (find_type_name _ _ Ef). reflexivity.
    + destruct (IH t' f ltac:(lia) Hr) as (l' & E & Hd). unfold local_exec in E. cbn. rewrite E. cbn.
      eexists. split; [reflexivity|]. intros g Hg. destruct g; [lia|]. cbn. rewrite (Hd g ltac:(lia)). reflexivity.
    + destruct (IH t' f ltac:(lia) Hr) as (l' & E & Hd). unfold local_exec in E. cbn. rewrite E. cbn.
      eexists. split; [reflexivity|]. intros g Hg. destruct g; [lia|]. cbn. rewrite (Hd g ltac:(lia)). reflexivity.
Qed.

Lemma all_some_dec {A B} (g : A -> option json) (dec : json -> B) (r : A -> B) (l : list A) :
  (forall x, In x l -> exists lj, g x = Some (JObj lj) /\ dec (JObj lj) = r x) ->
  exists js, all_some (map g l) = Some js /\ map dec js = map r l.
Proof.
  induction l as [|x t IH]; intros H; cbn.
  - exists []. split; reflexivity.
  - destruct (H x (or_introl eq_refl)) as (lj & E & Hd). rewrite E.
    destruct IH as (js & Ej & Hm); [intros y Hy; apply H; now right|]. rewrite Ej.
    exists (JObj lj :: js). split; [reflexivity|]. cbn. now rewrite Hd, Hm.
Qed.

Lemma dec_tref_more d t l : (forall g, d < g -> dec_tref g (JObj l) = render_tref kind_of d t) ->
  dec_tref dec_fuel (JObj l) = render_tref kind_of d t -> True.
Proof. trivial. Qed.

Definition big_enough (f : nat) : Prop := ofType_levels + 4 < f.
Lemma levels_lt_dec : ofType_levels < dec_fuel.
Proof. Transparent ofType_levels. unfold ofType_levels, dec_fuel. lia. Opaque ofType_levels. Qed.
Opaque dec_fuel.

Lemma exec_input v f : ofType_levels + 2 < f -> refs_exist (iv_type v) ->
  exists l, local_exec s f (NInput v) input_sel = Some (JObj l) /\ dec_input (JObj l) = render_input kind_of v.
Proof.
  intros Hf Hr. destruct f as [|f]; [lia|].
  destruct (exec_tref ofType_levels (iv_type v) f ltac:(lia) Hr) as (lt & Et & Hdt). unfold local_exec in *.
  cbn [input_sel exec alive negb]. cbn. rewrite Et. cbn.
  eexists. split; [reflexivity|]. unfold dec_input, render_input. cbn.
  rewrite (Hdt dec_fuel levels_lt_dec). destruct v as [n d t [df|]]; reflexivity.
Qed.

Definition arg_ok (v : ivalue) : Prop := refs_exist (iv_type v).
Definition field_ok (f : fdef) : Prop := refs_exist (fd_type f) /\ Forall arg_ok (fd_args f).

Lemma exec_inputs vs f : ofType_levels + 2 < f -> Forall arg_ok vs ->
  exists js, all_some (map (fun c => local_exec s f c input_sel) (map NInput vs)) = Some js /\
             map dec_input js = map (render_input kind_of) vs.
Proof.
  intros Hf Hv. rewrite map_map.
  apply (all_some_dec (fun v => local_exec s f (NInput v) input_sel) dec_input (render_input kind_of)).
  intros v Hin. rewrite Forall_forall in Hv. now apply exec_input; [|apply Hv].
Qed.

Lemma exec_field fd f : ofType_levels + 3 < f -> field_ok fd ->
  exists l, local_exec s f (NField fd) field_sel = Some (JObj l) /\ dec_field (JObj l) = render_field kind_of fd.
Proof.
  intros Hf [Hr Ha]. destruct f as [|f]; [lia|].
  destruct (exec_tref ofType_levels (fd_type fd) f ltac:(lia) Hr) as (lt & Et & Hdt).
  destruct (exec_inputs (fd_args fd) f ltac:(lia) Ha) as (js & Ej & Hj). unfold local_exec in *.
  cbn [field_sel exec alive negb]. cbn. rewrite Ej. cbn. rewrite Et. cbn.
  eexists. split; [reflexivity|]. unfold dec_field, render_field. cbn.
  rewrite (Hdt dec_fuel levels_lt_dec), Hj. destruct fd as [n d a t [r|]]; reflexivity.
Qed.

Lemma exec_enum e f : 0 < f ->
  exists l, local_exec s f (NEnum e) enum_sel = Some (JObj l) /\ dec_enum (JObj l) = render_enum e.
Proof.
  intros Hf. destruct f as [|f]; [lia|]. unfold local_exec. cbn. eexists. split; [reflexivity|].
  destruct e as [n d [r|]]; reflexivity.
Qed.

Lemma exec_named_ref n f : ofType_levels + 1 < f -> has_type s n = true ->
  exists l, local_exec s f (named n) (typeref_sel ofType_levels) = Some (JObj l) /\ dec_tref dec_fuel (JObj l) = named_ref kind_of n.
Proof.
  intros Hf Hn. destruct (exec_tref ofType_levels (TNamed n) f Hf Hn) as (l & E & Hd). exists l. split; [exact E|].
  rewrite (Hd dec_fuel levels_lt_dec). Transparent ofType_levels. reflexivity. Opaque ofType_levels.
Qed.

(* kind-specific members are empty where the kind has none, every referenced type exists, type names are unique *)
Definition td_ok (t : tdef) : Prop :=
  find_type s (td_name t) = Some t /\
  Forall field_ok (td_fields t) /\ Forall arg_ok (td_inputs t) /\
  Forall (fun n => has_type s n = true) (td_ifaces t) /\ Forall (fun n => has_type s n = true) (td_members t) /\
  match td_kind t with
  | KObject => td_inputs t = [] /\ td_members t = [] /\ td_evalues t = []
  | KInterface => td_inputs t = [] /\ td_evalues t = []
  | KUnion => td_fields t = [] /\ td_inputs t = [] /\ td_ifaces t = [] /\ td_evalues t = [] /\ td_members t <> []
  | KEnum => td_fields t = [] /\ td_inputs t = [] /\ td_ifaces t = [] /\ td_members t = []
  | KScalar => td_fields t = [] /\ td_inputs t = [] /\ td_ifaces t = [] /\ td_members t = [] /\ td_evalues t = []
  | KInput => td_fields t = [] /\ td_ifaces t = [] /\ td_members t = [] /\ td_evalues t = []
  end.

Lemma visible_all_fields l : visible_fields true l = l.
Proof. unfold visible_fields. induction l as [|x t IH]; cbn; [reflexivity|]. f_equal. exact IH. Qed.
Lemma visible_all_evalues l : visible_evalues true l = l.
Proof. unfold visible_evalues. induction l as [|x t IH]; cbn; [reflexivity|]. f_equal. exact IH. Qed.

Lemma exec_fields fs f : ofType_levels + 3 < f -> Forall field_ok fs ->
  exists js, all_some (map (fun c => local_exec s f c field_sel) (map NField fs)) = Some js /\ map dec_field js = map (render_field kind_of) fs.
Proof.
  intros Hf Hv. rewrite map_map. apply (all_some_dec (fun v => local_exec s f (NField v) field_sel) dec_field (render_field kind_of)).
  intros v Hin. rewrite Forall_forall in Hv. now apply exec_field; [|apply Hv].
Qed.
Lemma exec_enums es f : 0 < f ->
  exists js, all_some (map (fun c => local_exec s f c enum_sel) (map NEnum es)) = Some js /\ map dec_enum js = map render_enum es.
Proof.
  intros Hf. rewrite map_map. apply (all_some_dec (fun v => local_exec s f (NEnum v) enum_sel) dec_enum render_enum).
  intros v _. now apply exec_enum.
Qed.
Lemma exec_named_refs ns f : ofType_levels + 1 < f -> Forall (fun n => has_type s n = true) ns ->
  exists js, all_some (map (fun c => local_exec s f c (typeref_sel ofType_levels)) (map named ns)) = Some js /\
             map (dec_tref dec_fuel) js = map (named_ref kind_of) ns.
Proof.
  intros Hf Hv. rewrite map_map. apply (all_some_dec (fun n => local_exec s f (named n) (typeref_sel ofType_levels)) (dec_tref dec_fuel) (named_ref kind_of)).
  intros n Hin. rewrite Forall_forall in Hv. now apply exec_named_ref; [|apply Hv].
Qed.

Lemma exec_type t f : ofType_levels + 4 < f -> td_ok t ->
  exists l, local_exec s f (named (td_name t)) fulltype_sel = Some (JObj l) /\ dec_type (JObj l) = render_type kind_of t.
Proof.
  intros Hf (Hfind & Hfs & Hins & Hifs & Hms & Hk). destruct f as [|f]; [lia|].
  destruct (exec_fields (td_fields t) f ltac:(lia) Hfs) as (jf & Ef & Hjf).
  destruct (exec_inputs (td_inputs t) f ltac:(lia) Hins) as (ji & Ei & Hji).
  destruct (exec_named_refs (td_ifaces t) f ltac:(lia) Hifs) as (jif & Eif & Hjif).
  destruct (exec_named_refs (td_members t) f ltac:(lia) Hms) as (jm & Em & Hjm).
  destruct (exec_enums (td_evalues t) f ltac:(lia)) as (je & Ee & Hje).
  unfold local_exec in *. cbn [fulltype_sel exec alive named]. unfold has_type. rewrite Hfind. cbn [negb].
  cbn. rewrite Hfind.
  destruct t as [k nm ds fs ins ifs ms evs]. cbn [td_kind td_name td_desc td_fields td_inputs td_ifaces td_members td_evalues] in *.
  destruct k; cbn; rewrite ?visible_all_fields, ?visible_all_evalues.
  - (* object *) destruct Hk as (-> & -> & ->). rewrite Ef. cbn. rewrite Eif. cbn.
    eexists. split; [reflexivity|]. unfold dec_type, render_type. cbn. now rewrite Hjf, Hjif.
  - (* interface *) destruct Hk as (-> & ->). rewrite Ef. cbn. rewrite Eif. cbn. rewrite Em. cbn.
    eexists. split; [reflexivity|]. unfold dec_type, render_type. cbn. now rewrite Hjf, Hjif, Hjm.
  - (* union *) destruct Hk as (-> & -> & -> & -> & Hne). destruct ms as [|m0 ms']; [contradiction|].
    cbn [map] in Em. cbn [map]. rewrite Em. cbn.
    eexists. split; [reflexivity|]. unfold dec_type, render_type. cbn. cbn [map] in Hjm. now rewrite Hjm.
  - (* enum *) destruct Hk as (-> & -> & -> & ->). rewrite Ee. cbn.
    eexists. split; [reflexivity|]. unfold dec_type, render_type. cbn. now rewrite Hje.
  - (* scalar *) destruct Hk as (-> & -> & -> & -> & ->).
    eexists. split; [reflexivity|]. reflexivity.
  - (* input *) destruct Hk as (-> & -> & -> & ->). rewrite Ei. cbn.
    eexists. split; [reflexivity|]. unfold dec_type, render_type. cbn. now rewrite Hji.
Qed.

Definition dir_ok (d : ddef) : Prop := Forall arg_ok (dd_args d).

Lemma jstrs_locs l : jstrs (Some (JArr (map JStr l))) = l.
Proof. unfold jstrs, jlist. rewrite map_map. induction l as [|x t IH]; cbn; [reflexivity|]. now rewrite IH. Qed.

Lemma exec_directive d f : ofType_levels + 3 < f -> dir_ok d ->
  exists l, local_exec s f (NDirective d) directive_sel = Some (JObj l) /\ dec_directive (JObj l) = render_directive kind_of d.
Proof.
  intros Hf Ha. destruct f as [|f]; [lia|].
  destruct (exec_inputs (dd_args d) f ltac:(lia) Ha) as (js & Ej & Hj). unfold local_exec in *.
  cbn [directive_sel exec alive negb]. cbn. rewrite Ej. cbn.
  eexists. split; [reflexivity|]. unfold dec_directive, render_directive. cbn [jget assoc String.eqb Ascii.eqb Bool.eqb].
  rewrite jstrs_locs. cbn [jstr jlist]. rewrite Hj. now destruct d.
Qed.

Definition schema_ok : Prop :=
  s_query (base s) = "Query" /\ has_type s "Query" = true /\
  s_mutation (base s) = (if has_type s "Mutation" then Some "Mutation" else None) /\
  s_subscription (base s) = (if has_type s "Subscription" then Some "Subscription" else None) /\
  Forall td_ok (s_types (base s)) /\ Forall dir_ok (s_directives (base s)).

Lemma exec_root_name n f : 0 < f ->
  local_exec s f (named n) [leaf "name"] = if has_type s n then Some (JObj [("name", JStr n)]) else Some JNull.
Proof.
  intros Hf. destruct f as [|f]; [lia|]. unfold local_exec. cbn [exec alive named]. unfold has_type.
  destruct (find_type s n) as [t|] eqn:E; cbn [negb]; [|reflexivity]. cbn. rewrite E. cbn. now rewrite (find_type_name _ _ E).
Qed.

Lemma exec_schema f : ofType_levels + 5 < f -> schema_ok ->
  exists l, local_exec s f NSchema schema_sel = Some (JObj l) /\
            dec_schema (JObj [("__schema", JObj l)]) = Some (introspect kind_of (base s)).
Proof.
  intros Hf (Hq & Hhq & Hm & Hs & Ht & Hd). destruct f as [|f]; [lia|].
  assert (Ety : exists js, all_some (map (fun c => local_exec s f c fulltype_sel) (map (fun t => named (td_name t)) (s_types (base s)))) = Some js /\
                           map dec_type js = map (render_type kind_of) (s_types (base s))).
  { rewrite map_map. apply (all_some_dec (fun t => local_exec s f (named (td_name t)) fulltype_sel) dec_type (render_type kind_of)).
    intros t Hin. rewrite Forall_forall in Ht. apply exec_type; [lia|now apply Ht]. }
  destruct Ety as (jt & Ejt & Hjt).
  assert (Edi : exists js, all_some (map (fun c => local_exec s f c directive_sel) (map NDirective (s_directives (base s)))) = Some js /\
                           map dec_directive js = map (render_directive kind_of) (s_directives (base s))).
  { rewrite map_map. apply (all_some_dec (fun d => local_exec s f (NDirective d) directive_sel) dec_directive (render_directive kind_of)).
    intros d Hin. rewrite Forall_forall in Hd. apply exec_directive; [lia|now apply Hd]. }
  destruct Edi as (jd & Ejd & Hjd).
  pose proof (exec_root_name "Query" f ltac:(lia)) as Eq. rewrite Hhq in Eq.
  pose proof (exec_root_name "Mutation" f ltac:(lia)) as Em.
  pose proof (exec_root_name "Subscription" f ltac:(lia)) as Es.
  unfold local_exec in *. cbn [exec alive negb]. cbn.
  rewrite Eq. cbn. rewrite Em.
  destruct (has_type s "Mutation"); cbn; rewrite Es; destruct (has_type s "Subscription"); cbn; rewrite Ejt; cbn; rewrite Ejd; cbn;
    (eexists; split; [reflexivity|]); unfold dec_schema, introspect; cbn; rewrite Hjt, Hjd, Hq, Hm, Hs; reflexivity.
Qed.

(* the gateway's answer to the standard introspection query, decoded, is the typed answer of C15's specification *)
Theorem standard_query_answer f : ofType_levels + 6 < f -> schema_ok ->
  exists j, local_exec s f NRoot std_query = Some j /\ dec_schema j = Some (introspect kind_of (base s)).
Proof.
  intros Hf Hok. destruct f as [|f]; [lia|].
  destruct (exec_schema f ltac:(lia) Hok) as (l & E & Hd). unfold local_exec in *.
  cbn [exec alive negb]. cbn. rewrite E. cbn. eexists. split; [reflexivity|exact Hd].
Qed.

Lemma kind_of_is_a_kind n : (kind_of n =? "NON_NULL") = false /\ (kind_of n =? "LIST") = false.
Proof. unfold kind_of. destruct (find_type s n) as [t|]; [destruct (td_kind t)|]; split; reflexivity. Qed.
End Rebuild.

(* reconstruction ignores the built-in types and directives of the answer *)
Definition strip (S : sch) : sch :=
  mkSch (s_query S) (s_mutation S) (s_subscription S)
        (filter (fun t => negb (builtin_type (td_name t))) (s_types S))
        (filter (fun d => negb (builtin_directive (dd_name d))) (s_directives S)).

Lemma filter_map_comm {A B} (p : B -> bool) (g : A -> B) l : filter p (map g l) = map g (filter (fun x => p (g x)) l).
Proof. induction l as [|x t IH]; cbn; [reflexivity|]. destruct (p (g x)); cbn; now rewrite IH. Qed.
Lemma filter_idem {A} (p : A -> bool) l : filter p (filter p l) = filter p l.
Proof. induction l as [|x t IH]; cbn; [reflexivity|]. destruct (p x) eqn:E; cbn; [rewrite E|]; now rewrite IH. Qed.

Lemma reconstruct_strip k S : reconstruct (introspect k S) = reconstruct (introspect k (strip S)).
Proof.
  unfold reconstruct, introspect, strip. cbn [is_query is_mutation is_subscription is_types is_directives s_query s_mutation s_subscription s_types s_directives].
  rewrite !(filter_map_comm (fun t => negb (builtin_type (it_name t))) (render_type k)).
  rewrite !(filter_map_comm (fun d => negb (builtin_directive (id_name d))) (render_directive k)).
  cbn [it_name render_type id_name render_directive].
  now rewrite !filter_idem.
Qed.

(* C16 + C15: from the gateway's answer to the standard introspection query another gateway rebuilds exactly the
   schema (its user-defined part), for every schema of C15's domain that the resolvers describe *)
Theorem another_gateway_rebuilds_the_schema (s : sch16) f : ofType_levels + 6 < f -> schema_ok s -> inD15 (strip (base s)) ->
  exists j a, local_exec s f NRoot std_query = Some j /\ dec_schema j = Some a /\ reconstruct a = ROk (strip (base s)).
Proof.
  intros Hf Hok HD. destruct (standard_query_answer s f Hf Hok) as (j & E & Hdec).
  exists j, (introspect (kind_of s) (base s)). split; [exact E|]. split; [exact Hdec|].
  rewrite reconstruct_strip. apply reconstruct_introspect; [apply kind_of_is_a_kind|exact HD].
Qed.

(* non-vacuity: a schema with every kind satisfies the hypotheses, and the conclusion computes *)
Definition s_demo16 : sch16 :=
  mkS16 (mkSch "Query" (Some "Mutation") None
    [mkTD KUnion "Being" "" [] [] [] ["Human"] [];
     mkTD KScalar "Boolean" "" [] [] [] [] [];
     mkTD KEnum "Color" "" [] [] [] [] [mkEV "RED" "" None; mkEV "GREEN" "g" (Some "No longer supported")];
     mkTD KScalar "Date" "" [] [] [] [] [];
     mkTD KInput "Filter" "" [] [mkIV "q" "" (TNamed "String") None; mkIV "tags" "" (TList (TNonNull (TNamed "String"))) None] [] [] [];
     mkTD KObject "Human" "h" [mkFD "id" "" [] (TNonNull (TNamed "ID")) None;
                               mkFD "friends" "d" [mkIV "first" "" (TNamed "Int") None] (TNonNull (TList (TNonNull (TNamed "Human")))) (Some "use pals")] [] ["Node"] [] [];
     mkTD KScalar "ID" "" [] [] [] [] []; mkTD KScalar "Int" "" [] [] [] [] [];
     mkTD KObject "Mutation" "" [mkFD "paint" "" [mkIV "c" "" (TNonNull (TNamed "Color")) None] (TNamed "Color") None] [] [] [] [];
     mkTD KInterface "Node" "" [mkFD "id" "" [] (TNonNull (TNamed "ID")) None] [] [] ["Human"] [];
     mkTD KObject "Query" "" [mkFD "me" "" [] (TNamed "Human") None; mkFD "search" "" [mkIV "filter" "" (TNamed "Filter") None] (TList (TNamed "Being")) None] [] [] [] [];
     mkTD KScalar "String" "" [] [] [] [] []]
    [mkDD "skip" "" ["FIELD"] [mkIV "if" "" (TNonNull (TNamed "Boolean")) None];
     mkDD "tag" "a tag" ["FIELD_DEFINITION"; "OBJECT"] [mkIV "name" "" (TNonNull (TNamed "String")) None]]) [] [] "".

Example demo16_rebuilt :
  match local_exec s_demo16 16 NRoot std_query with
  | Some j => match dec_schema j with Some a => reconstruct a | None => RErr "not decoded" end
  | None => RErr "no answer" end = ROk (strip (base s_demo16)).
Proof. vm_compute. reflexivity. Qed.

Transparent ofType_levels.
Example demo16_in_domain : schema_ok s_demo16 /\ inD15 (strip (base s_demo16)).
Proof.
  split.
  - unfold schema_ok. repeat split; try reflexivity.
    + repeat (constructor; [unfold td_ok; cbn; repeat split; try reflexivity; repeat constructor; try discriminate|]). constructor.
    + repeat (constructor; [unfold dir_ok; cbn; repeat constructor|]). constructor.
  - unfold inD15, inD. split; [discriminate|]. split.
    + cbn. repeat (constructor; [unfold ok_type, ok_field, ok_arg, wf_type_ref, wf_ref; cbn; repeat split; try reflexivity; try discriminate; repeat constructor; try discriminate; try (cbn; unfold ofType_levels; lia)|]). constructor.
    + cbn. repeat (constructor; [unfold ok_directive, ok_arg, wf_type_ref, wf_ref; cbn; repeat split; try reflexivity; try discriminate; repeat constructor; try discriminate; try (cbn; unfold ofType_levels; lia)|]). constructor.
Qed.
