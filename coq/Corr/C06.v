(* Correspondence for C06: the plan's root steps of the real planner vs Plan.Root.route_root, and the keyword of
   every step vs Plan.Root.step_keyword. *)
From Coq Require Import List String Bool Arith.
From Pebbles Require Import Plan.Root.
Import ListNotations.
Open Scope string_scope.
Open Scope list_scope.

Record c6case := mkCase {
  cOp : optype;
  cUrls : list string;                          (* GetURLs, any order *)
  cFields : list (string * string);             (* selected root fields: (response key, owner) *)
  cObsRoot : list (string * list string);       (* observed root steps: url, response keys *)
  cObsSteps : list (list string * optype)       (* every step of the plan: insertion point, keyword of its QueryString *)
}.

Definition op_eqb (a b : optype) := match a, b with OQuery, OQuery | OMutation, OMutation | OSubscription, OSubscription => true | _, _ => false end.
Fixpoint strs_eqb (a b : list string) : bool :=
  match a, b with [], [] => true | x :: a', y :: b' => (x =? y) && strs_eqb a' b' | _, _ => false end.

Definition agrees (c : c6case) : bool :=
  let model := map (fun g => (fst g, map fst (snd g))) (route_root snd (cUrls c) (cFields c)) in
  Nat.eqb (List.length model) (List.length (cObsRoot c)) &&
  forallb (fun o => existsb (fun g => (fst g =? fst o) && strs_eqb (snd g) (snd o)) model) (cObsRoot c) &&
  forallb (fun s => op_eqb (step_keyword (fst s) (cOp c)) (snd s)) (cObsSteps c).

Fixpoint mism_from (i : nat) (l : list c6case) : list nat :=
  match l with [] => [] | c :: t => (if agrees c then [] else [i]) ++ mism_from (S i) t end.
Definition mismatches := mism_from 0.
