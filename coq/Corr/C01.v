(* Correspondence for C01: the scrub model on real pre-scrub results (shared with C13) and the point-data model on
   points rendered for the ids of the generated worlds. *)
From Coq Require Import List String Bool Arith.
From Pebbles Require Import Base.Json Base.Str Exec.Scrub Exec.PointData Exec.Points Corr.C07 Corr.C13.
Import ListNotations.
Open Scope string_scope.
Open Scope list_scope.

Inductive c1case :=
| CScrub (c : c13case)
| CPoint (point : string) (obs : option (string * option nat * string))
| CFind (target : list string) (ss : list fsel) (result : list (string * json)) (branch : list string)
        (obs : option (list (list string))).      (* executor.FindInsertionPoints; None = it returned an error *)

Fixpoint strs_eqb (a b : list string) : bool :=
  match a, b with [], [] => true | x :: a', y :: b' => (x =? y) && strs_eqb a' b' | _, _ => false end.
Fixpoint paths_eqb (a b : list (list string)) : bool :=
  match a, b with [], [] => true | x :: a', y :: b' => strs_eqb x y && paths_eqb a' b' | _, _ => false end.

Definition agrees (c : c1case) : bool :=
  match c with
  | CScrub s => Corr.C13.agrees s
  | CPoint point obs =>
      match extract point, obs with
      | Some p, Some (f, i, id) => (pd_field p =? f) && (match pd_index p, i with Some a, Some b => Nat.eqb a b | None, None => true | _, _ => false end) && (pd_id p =? id)
      | None, None => true
      | _, _ => false
      end
  | CFind target ss result branch obs =>
      match find_points target ss result branch, obs with
      | POk l, Some o => paths_eqb l o
      | PErr, None => true
      | _, _ => false
      end
  end.

Fixpoint mism_from (i : nat) (l : list c1case) : list nat :=
  match l with [] => [] | c :: t => (if agrees c then [] else [i]) ++ mism_from (S i) t end.
Definition mismatches := mism_from 0.
