(* Correspondence for C19: Net.Files.forward vs what MultiOpQueryer actually puts on the wire. *)
From Coq Require Import List String Bool Arith.
From Pebbles Require Import Base.Json Net.Files Corr.C07.
Import ListNotations.
Open Scope string_scope.
Open Scope list_scope.

Record c19case := mkCase {
  cVars : list (string * json);                       (* variables as handed to the queryer, uploads as JFile k *)
  cFiles : file_store;                                (* file contents *)
  cObsVars : list (string * json);                    (* `operations`.variables received downstream *)
  cObsParts : list (nat * list (list seg) * list nat) (* per received file part: file id, map positions, bytes *)
}.

Definition seg_eqb (a b : seg) : bool :=
  match a, b with Key x, Key y => x =? y | Idx x, Idx y => Nat.eqb x y | _, _ => false end.
Fixpoint list_eqb {A} (e : A -> A -> bool) (a b : list A) : bool :=
  match a, b with [], [] => true | x :: a', y :: b' => e x y && list_eqb e a' b' | _, _ => false end.
Definition subset {A} (e : A -> A -> bool) (a b : list A) : bool := forallb (fun x => existsb (e x) b) a.
Definition set_eqb {A} (e : A -> A -> bool) (a b : list A) : bool :=
  Nat.eqb (List.length a) (List.length b) && subset e a b && subset e b a.

Definition part_eqb (a b : nat * list (list seg) * list nat) : bool :=
  Nat.eqb (fst (fst a)) (fst (fst b)) && set_eqb (list_eqb seg_eqb) (snd (fst a)) (snd (fst b)) && list_eqb Nat.eqb (snd a) (snd b).

Definition agrees (c : c19case) : bool :=
  let '(vars', parts) := forward (cVars c) (cFiles c) in
  json_eqb (JObj vars') (JObj (cObsVars c)) && set_eqb part_eqb parts (cObsParts c).

Fixpoint mism_from (i : nat) (l : list c19case) : list nat :=
  match l with [] => [] | c :: t => (if agrees c then [] else [i]) ++ mism_from (S i) t end.
Definition mismatches := mism_from 0.
