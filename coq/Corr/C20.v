(* Correspondence for C20: traces of verif hook events recorded from the real AsyncMapReduce must be
   accepted by the LTS acceptor and end in a final state whose accumulator / errors are what Go returned. *)
From Coq Require Import List Arith Bool.
From Pebbles Require Import Conc.AMR Conc.AMRAccept.
Import ListNotations.

Definition lab := label nat nat nat.

Record c20case := mkCase {
  cN : nat;                 (* items are 0 .. N-1 *)
  cErr : list nat;          (* items on which mapFunc returns an error *)
  cTrace : list lab;
  cAcc : list nat;          (* returned accumulator: reduceFunc appends *)
  cErrs : list nat          (* returned errors *)
}.

Definition mem (x : nat) (l : list nat) := existsb (Nat.eqb x) l.
Definition mapf (errset : list nat) (x : nat) : nat + nat := if mem x errset then inr x else inl x.
Definition redf (a : list nat) (p : nat) := a ++ [p].

Fixpoint eq_list (a b : list nat) :=
  match a, b with [], [] => true | x :: a', y :: b' => (x =? y) && eq_list a' b' | _, _ => false end.

Definition all_done (s : st nat nat (list nat) nat) :=
  forallb (fun w => match w_st w with WDone => w_maps w =? 1 | _ => false end) (ws s).

Definition agrees (c : c20case) : bool :=
  match accepts nat nat (list nat) nat (mapf (cErr c)) redf Nat.eqb Nat.eqb Nat.eqb
          (init nat nat (list nat) nat [] (seq 0 (cN c))) (cTrace c) with
  | Some s =>
      match cal s, red s with
      | CRet, RExit => all_done s && eq_list (acc s) (cAcc c) && eq_list (errs s) (cErrs c)
      | _, _ => false
      end
  | None => false
  end.

Fixpoint mism_from (i : nat) (l : list c20case) : list nat :=
  match l with [] => [] | c :: t => (if agrees c then [] else [i]) ++ mism_from (S i) t end.
Definition mismatches := mism_from 0.
