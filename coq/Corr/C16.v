(* Correspondence for C16: Intro.Exec.local_exec on (merged schema, flattened selection) vs the data member of the
   gateway's HTTP answer. Lists of objects are compared as multisets (the resolver sorts types / directives /
   possible types by name only when the name is selected, otherwise Go's map order shows). *)
From Coq Require Import List String Bool Arith.
From Pebbles Require Import Base.Json Intro.Schema Intro.Exec.
Import ListNotations.
Open Scope string_scope.
Open Scope list_scope.

Fixpoint remove_first (f : json -> bool) (l : list json) : option (list json) :=
  match l with
  | [] => None
  | h :: t => if f h then Some t else match remove_first f t with Some r => Some (h :: r) | None => None end
  end.

Fixpoint jeq (a b : json) {struct a} : bool :=
  match a, b with
  | JNull, JNull => true
  | JBool x, JBool y => Bool.eqb x y
  | JNum x, JNum y => x =? y
  | JStr x, JStr y => x =? y
  | JFile x, JFile y => Nat.eqb x y
  | JArr x, JArr y =>
      (fix go (x : list json) (y : list json) : bool :=
         match x with
         | [] => match y with [] => true | _ => false end
         | p :: x' => match remove_first (jeq p) y with Some y' => go x' y' | None => false end
         end) x y
  | JObj x, JObj y =>
      Nat.eqb (List.length x) (List.length y) &&
      (fix go (x : list (string * json)) : bool :=
         match x with
         | [] => true
         | (k, v) :: x' => match assoc k y with Some w => jeq v w | None => false end && go x'
         end) x
  | _, _ => false
  end.

Record c16op := mkOp { oFuel : nat; oSel : list isel; oObs : json }.
Record c16case := mkCase { cSchema : sch16; cOps : list c16op }.

Definition op_agrees (s : sch16) (o : c16op) : bool :=
  match local_exec s (oFuel o) NRoot (oSel o) with
  | Some j => jeq j (oObs o)
  | None => false
  end.

Definition case_agrees (c : c16case) : bool := forallb (op_agrees (cSchema c)) (cOps c).
Fixpoint mism_from (i : nat) (l : list c16case) : list nat :=
  match l with [] => [] | c :: t => (if case_agrees c then [] else [i]) ++ mism_from (S i) t end.
Definition mismatches := mism_from 0.
