(* Correspondence for C08: results (by digest id) as the batch reducer of Gateway.queryHandler received them
   (verif hook amr.r.recvres of the outermost AsyncMapReduce), placed by the model, vs the response array. *)
From Coq Require Import List Arith Bool.
From Pebbles Require Import Base.Json Net.BatchResp.
Import ListNotations.

Record c8case := mkCase { cN : nat; cArrivals : list (nat * nat); cResponse : list nat }.

Definition onat_eqb (a : option nat) (b : nat) := match a with Some x => x =? b | None => false end.
Fixpoint all2 (a : list (option nat)) (b : list nat) : bool :=
  match a, b with [], [] => true | x :: a', y :: b' => onat_eqb x y && all2 a' b' | _, _ => false end.

Definition agrees (c : c8case) : bool := all2 (place_results (cN c) (cArrivals c)) (cResponse c).

Fixpoint mism_from (i : nat) (l : list c8case) : list nat :=
  match l with [] => [] | c :: t => (if agrees c then [] else [i]) ++ mism_from (S i) t end.
Definition mismatches := mism_from 0.
