(* Correspondence for C11: the model of Net/Batch.v is evaluated on the inputs the real
   MultiOpQueryer.Query was run on; observed result and observed HTTP calls must coincide. *)
From Coq Require Import List Arith Bool.
From Pebbles Require Import Base.ListX Net.Batch.
Import ListNotations.

Record c11case := mkCase {
  cN : nat; cM : nat;
  cPi : list nat;            (* completion order of the chunk goroutines as observed at the reducer *)
  cFiles : list nat;         (* request ids that carry an upload *)
  cFail : list nat;          (* a call carrying one of these ids fails *)
  cObsResult : option (list (option nat));   (* None = error returned *)
  cObsCalls : list (list nat);               (* observed HTTP calls, sorted *)
  cCompareCalls : bool       (* calls are compared only in failure-free runs (a failing call aborts its chunk early) *)
}.

Definition mem (x : nat) (l : list nat) := existsb (Nat.eqb x) l.

Definition model_result (c : c11case) :=
  query (fun x => x) (fun x => mem x (cFiles c)) (fun call => existsb (fun x => mem x (cFail c)) call)
        (cM c) (seq 0 (cN c)) (cPi c).

Fixpoint list_leb (a b : list nat) : bool :=
  match a, b with
  | [], _ => true
  | _ :: _, [] => false
  | x :: a', y :: b' => if x <? y then true else if y <? x then false else list_leb a' b'
  end.
Fixpoint insert_sorted (x : list nat) (l : list (list nat)) :=
  match l with [] => [x] | y :: t => if list_leb x y then x :: l else y :: insert_sorted x t end.
Definition sort_calls (l : list (list nat)) := fold_right insert_sorted [] l.

Definition model_calls (c : c11case) := sort_calls (all_calls (fun x => mem x (cFiles c)) (cM c) (seq 0 (cN c))).

Definition eq_onat (a b : option nat) := match a, b with Some x, Some y => x =? y | None, None => true | _, _ => false end.
Fixpoint eq_list {A} (e : A -> A -> bool) (a b : list A) :=
  match a, b with [], [] => true | x :: a', y :: b' => e x y && eq_list e a' b' | _, _ => false end.
Definition eq_res (a b : option (list (option nat))) :=
  match a, b with Some x, Some y => eq_list eq_onat x y | None, None => true | _, _ => false end.

Definition agrees (c : c11case) : bool :=
  eq_res (model_result c) (cObsResult c) &&
  (negb (cCompareCalls c) || eq_list (eq_list Nat.eqb) (model_calls c) (cObsCalls c)).

Fixpoint mism_from (i : nat) (l : list c11case) : list nat :=
  match l with [] => [] | c :: t => (if agrees c then [] else [i]) ++ mism_from (S i) t end.
Definition mismatches := mism_from 0.
