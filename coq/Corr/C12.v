(* Correspondence for C12/C06: Exec.Dedup vs DepthExecutor.executeRequests / Execute (through the verif export file). *)
From Coq Require Import List String Bool Arith.
From Pebbles Require Import Exec.Dedup.
Import ListNotations.
Open Scope string_scope.
Open Scope list_scope.

Record c12case := mkCase {
  cReqs : list ereq;                 (* the execution requests of one service at one level *)
  cObsBatch : nat;                   (* how many requests the queryer received *)
  cObsServed : list nat;             (* per original index: the batch position its response came from *)
  cUrls : list string;               (* a level's requests by service, in collection order *)
  cObsCalls : list (string * nat)    (* observed: calls per service *)
}.

Fixpoint nats_eqb (a b : list nat) : bool :=
  match a, b with [], [] => true | x :: a', y :: b' => Nat.eqb x y && nats_eqb a' b' | _, _ => false end.

Definition agrees (c : c12case) : bool :=
  let '(m, sent) := build (cReqs c) 0 [] [] in
  Nat.eqb (List.length sent) (cObsBatch c) &&
  nats_eqb (map (fun j => match served_from m j with Some t => t | None => 9999 end) (seq 0 (List.length (cReqs c)))) (cObsServed c) &&
  let calls := calls_at_level (fun u => u) (cUrls c) in
  Nat.eqb (List.length calls) (List.length (cObsCalls c)) &&
  forallb (fun oc => existsb (String.eqb (fst oc)) calls && Nat.eqb (snd oc) 1) (cObsCalls c).

Fixpoint mism_from (i : nat) (l : list c12case) : list nat :=
  match l with [] => [] | c :: t => (if agrees c then [] else [i]) ++ mism_from (S i) t end.
Definition mismatches := mism_from 0.
