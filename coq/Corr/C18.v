(* Correspondence for C17 / C18: the hook-point trace of every subscription entry observed in a real run must be the
   observable part of a run of Sub.LTS (acceptance by subset construction over the finite state space), must end in
   a terminal state when the connection was ended, and the frames the client got for it must be as many as the
   trace's o_l_written steps. Handler level: the spawn / close actions the harness saw must be Sub.Conn.session's. *)
From Coq Require Import List String Bool Arith.
From Pebbles Require Import Sub.LTS Sub.LTSProofs Sub.Conn.
Import ListNotations.
Open Scope list_scope.

Scheme Equality for label.

Definition is_tau (a : label) : bool :=
  match a with t_send_ev | t_send_nil | t_send_close | t_c_late | t_u1_wake | t_u1_close | t_u2_connclose | t_nil_abort | t_l_close | t_u2_msg | t_u2_endmsg | e_drop => true | _ => false end.

Fixpoint add_states (cands seen : list st) : list st * list st :=
  match cands with
  | [] => ([], seen)
  | x :: t => if existsb (st_eqb x) seen then add_states t seen
              else let '(n, s') := add_states t (x :: seen) in (x :: n, s')
  end.
Fixpoint tau_closure (fuel : nat) (frontier seen : list st) : list st :=
  match fuel with
  | 0 => seen
  | S f => let succ := flat_map (fun s => map snd (filter (fun p => is_tau (fst p)) (step s))) frontier in
           let '(new, seen') := add_states succ seen in
           match new with [] => seen' | _ => tau_closure f new seen' end
  end.
Definition closure (ss : list st) : list st := tau_closure 40 ss ss.

Fixpoint accept (cur : list st) (obs : list label) : option (list st) :=
  match obs with
  | [] => Some cur
  | a :: t => let next := flat_map (fun s => map snd (filter (fun p => label_beq (fst p) a) (step s))) cur in
              match next with [] => None | _ => accept (closure (fst (add_states next []))) t end
  end.

Record trace := mkT { tObs : list label; tEnded : bool; tFrames : option nat }.

Definition trace_ok (t : trace) : bool :=
  match accept (closure [init]) (tObs t) with
  | None => false
  | Some final =>
      (negb (tEnded t) || existsb terminal final) &&
      match tFrames t with None => true | Some n => Nat.eqb n (count_occ label_eq_dec (tObs t) o_l_written) end
  end.

(* handler level *)
Definition action_eqb (a b : action) : bool :=
  match a, b with
  | AAck, AAck | AEnd, AEnd => true
  | ASpawn e i r, ASpawn e' i' r' => Nat.eqb e e' && String.eqb i i' && Nat.eqb r r'
  | AClose e, AClose e' => Nat.eqb e e'
  | _, _ => false end.
Fixpoint actions_eqb (a b : list action) : bool :=
  match a, b with [], [] => true | x :: a', y :: b' => action_eqb x y && actions_eqb a' b' | _, _ => false end.
(* closes happen in goroutines of their own: compare the spawns in order and the closes as a set *)
Definition spawns (l : list action) := filter (fun a => match a with ASpawn _ _ _ => true | _ => false end) l.
Fixpoint closes (l : list action) : list nat := match l with [] => [] | AClose e :: t => e :: closes t | _ :: t => closes t end.
Definition same_set (a b : list nat) := forallb (fun x => existsb (Nat.eqb x) b) a && forallb (fun x => existsb (Nat.eqb x) a) b && Nat.eqb (List.length a) (List.length b).

Record c18case := mkCase { cMsgs : list cmsg; cActions : list action; cTraces : list trace }.
Definition case_ok (c : c18case) : bool :=
  actions_eqb (spawns (session (cMsgs c))) (spawns (cActions c)) &&
  same_set (closes (session (cMsgs c))) (closes (cActions c)) &&
  forallb trace_ok (cTraces c).

Fixpoint mism_from (i : nat) (l : list c18case) : list nat :=
  match l with [] => [] | c :: t => (if case_ok c then [] else [i]) ++ mism_from (S i) t end.
Definition mismatches := mism_from 0.
