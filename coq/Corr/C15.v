(* Correspondence for C15: reconstruct (introspect S) vs introspection.ParallelRemoteSchemaIntrospector on a
   spec-shaped answer for S (both printed from gqlparser's ast.Schema by the harness). Default values are compared
   by presence only (the reload through SDL re-parses their text). *)
From Coq Require Import List String Bool Arith.
From Pebbles Require Import Intro.Schema Intro.Spec Intro.Remote.
Import ListNotations.
Open Scope string_scope.
Open Scope list_scope.

Inductive obs15 := OErr | OOk (s : sch).
Record c15case := mkCase { cOrig : sch; cObs : obs15 }.

Fixpoint tref_eqb (a b : tref) : bool :=
  match a, b with
  | TNamed x, TNamed y => x =? y
  | TList x, TList y => tref_eqb x y
  | TNonNull x, TNonNull y => tref_eqb x y
  | _, _ => false end.
Fixpoint list_eqb {A} (e : A -> A -> bool) (a b : list A) : bool :=
  match a, b with [], [] => true | x :: a', y :: b' => e x y && list_eqb e a' b' | _, _ => false end.
Definition present {A} (o : option A) : bool := match o with Some _ => true | None => false end.
Definition opt_str_eqb (a b : option string) := match a, b with Some x, Some y => x =? y | None, None => true | _, _ => false end.
Definition iv_eqb (a b : ivalue) := (iv_name a =? iv_name b) && (iv_desc a =? iv_desc b) && tref_eqb (iv_type a) (iv_type b) && Bool.eqb (present (iv_default a)) (present (iv_default b)).
Definition fd_eqb (a b : fdef) := (fd_name a =? fd_name b) && (fd_desc a =? fd_desc b) && list_eqb iv_eqb (fd_args a) (fd_args b) && tref_eqb (fd_type a) (fd_type b) && opt_str_eqb (fd_deprecated a) (fd_deprecated b).
Definition ev_eqb (a b : evalue) := (ev_name a =? ev_name b) && (ev_desc a =? ev_desc b) && opt_str_eqb (ev_deprecated a) (ev_deprecated b).
Definition kind_eqb (a b : kind) := kind_name a =? kind_name b.
Definition td_eqb (a b : tdef) :=
  kind_eqb (td_kind a) (td_kind b) && (td_name a =? td_name b) && (td_desc a =? td_desc b) && list_eqb fd_eqb (td_fields a) (td_fields b) &&
  list_eqb iv_eqb (td_inputs a) (td_inputs b) && list_eqb String.eqb (td_ifaces a) (td_ifaces b) &&
  (match td_kind a with KUnion => list_eqb String.eqb (td_members a) (td_members b) | _ => true end) &&
  list_eqb ev_eqb (td_evalues a) (td_evalues b).
Definition dd_eqb (a b : ddef) := (dd_name a =? dd_name b) && (dd_desc a =? dd_desc b) && list_eqb String.eqb (dd_locs a) (dd_locs b) && list_eqb iv_eqb (dd_args a) (dd_args b).
Definition sch_eqb (a b : sch) :=
  (s_query a =? s_query b) && opt_str_eqb (s_mutation a) (s_mutation b) && opt_str_eqb (s_subscription a) (s_subscription b) &&
  list_eqb td_eqb (s_types a) (s_types b) && list_eqb dd_eqb (s_directives a) (s_directives b).

Definition agrees (c : c15case) : bool :=
  match reconstruct (introspect (fun _ => "NAMED") (cOrig c)), cObs c with
  | ROk m, OOk o => sch_eqb m o
  | RErr _, OErr => true
  | _, _ => false
  end.

Fixpoint mism_from (i : nat) (l : list c15case) : list nat :=
  match l with [] => [] | c :: t => (if agrees c then [] else [i]) ++ mism_from (S i) t end.
Definition mismatches := mism_from 0.
