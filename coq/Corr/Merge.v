(* Correspondence for the merger family (C03, C04, C05): Merge.Model.merge vs merger.ExtendMergerFunc /
   SanitizeNodeMergerFunc on the same service schemas. *)
From Coq Require Import List String Bool Arith.
From Pebbles Require Import Merge.Model Merge.Proofs.
Import ListNotations.
Open Scope string_scope.
Open Scope list_scope.

Inductive obs :=
| OOk (types : schema) (tm : list (string * bool * list (string * string)))
| OErr (e : merr)
| OReload      (* mergeTypes accepted, gqlparser.LoadSchema of the formatted result rejected it *)
| OOther.      (* panic or an error class the model does not know *)

(* what the real PlanningContext.GetURL said for (type, field, asked from) *)
Inductive oroute := ORUrl (u : string) | ORNoType | ORNoField | OROther.
Definition route_agrees (m : route) (o : oroute) : bool :=
  match m, o with
  | RUrl u, ORUrl u' => u =? u'
  | RNoType, ORNoType | RNoField, ORNoField => true
  | _, _ => false
  end.

Record mcase := mkCase { mHide : bool; mInputs : list input; mObs : obs;
                         mRoutes : list (string * string * string * oroute) }.

Fixpoint list_eqb {A} (e : A -> A -> bool) (a b : list A) : bool :=
  match a, b with [], [] => true | x :: a', y :: b' => e x y && list_eqb e a' b' | _, _ => false end.
Definition opt_eqb {A} (e : A -> A -> bool) (a b : option A) : bool :=
  match a, b with Some x, Some y => e x y | None, None => true | _, _ => false end.
Definition arg_eqb (a b : arg) := (a_name a =? a_name b) && (a_type a =? a_type b) && opt_eqb String.eqb (a_default a) (a_default b).
Definition field_eqb (a b : field) := (f_name a =? f_name b) && list_eqb arg_eqb (f_args a) (f_args b) && (f_type a =? f_type b).
Definition def_eqb (a b : def) :=
  kind_eqb (d_kind a) (d_kind b) && (d_name a =? d_name b) && (d_desc a =? d_desc b) &&
  list_eqb String.eqb (d_ifaces a) (d_ifaces b) && list_eqb field_eqb (d_fields a) (d_fields b) &&
  list_eqb String.eqb (d_evalues a) (d_evalues b) && list_eqb String.eqb (d_utypes a) (d_utypes b).

Definition schema_eq (m o : schema) : bool :=
  Nat.eqb (List.length m) (List.length o) &&
  forallb (fun d => match find_def (d_name d) m with Some d' => def_eqb d' d | None => false end) o.

Definition merr_eqb (a b : merr) : bool :=
  match a, b with
  | ENameCollision, ENameCollision | EUnionCollision, EUnionCollision | ENodeCollision, ENodeCollision
  | ERootOverlap, ERootOverlap | EOverlapNode, EOverlapNode | EOverlapPartial, EOverlapPartial | ESignature, ESignature => true
  | _, _ => false end.

Definition tm_eq (m : tmap) (o : list (string * bool * list (string * string))) : bool :=
  Nat.eqb (List.length m) (List.length o) &&
  forallb (fun e => match e with (ty, flag, fs) =>
     match lookup ty m with
     | Some p => Bool.eqb (tp_node p) flag && Nat.eqb (List.length (tp_fields p)) (List.length fs) &&
                 forallb (fun fu => match lookup (fst fu) (tp_fields p) with Some u => u =? snd fu | None => false end) fs
     | None => false end end) o.

Definition model_of (c : mcase) := if mHide c then merge_sanitized (mInputs c) else merge (mInputs c).

(* the theorems' well-formedness premise holds for what the harness fed the real merger *)
Definition inputs_wf (c : mcase) : bool := forallb (fun i => Merge.Proofs.wf_schemab (snd i)) (mInputs c).

Definition agrees (c : mcase) : bool :=
  inputs_wf c &&
  match mObs c, model_of c with
  | OOk types tm, MOk mt mtm =>
      schema_eq mt types && tm_eq mtm tm &&
      forallb (fun r => match r with (ty, fld, fb, o) => route_agrees (get_url mtm ty fld fb) o end) (mRoutes c)
  | OErr e, MErr es => existsb (merr_eqb e) es
  | OReload, MOk _ _ => true
  | _, _ => false
  end.

Fixpoint mism_from (i : nat) (l : list mcase) : list nat :=
  match l with [] => [] | c :: t => (if agrees c then [] else [i]) ++ mism_from (S i) t end.
Definition mismatches := mism_from 0.
