(* Correspondence for C07/C19 (decoding side): Net.Decode vs requests.Parse. *)
From Coq Require Import NArith List String Bool Arith.
From Pebbles Require Import Base.Json Net.Decode.
Import ListNotations.
Open Scope string_scope.
Open Scope list_scope.

Inductive obs7 := O422 | O200 (batch : bool) (rs : list request) | OPanic.

Record c7case := mkCase {
  cMultipart : bool;
  cBody : list N;                                   (* JSON body, or the `operations` form value *)
  cJson : option json;                                (* encoding/json's view of it *)
  cMap : option (list (string * list string));        (* the `map` form value, entries sorted by key *)
  cPresent : list string;                             (* file parts present *)
  cObs : obs7
}.

Fixpoint json_eqb (a b : json) {struct a} : bool :=
  match a, b with
  | JNull, JNull => true
  | JBool x, JBool y => Bool.eqb x y
  | JNum x, JNum y => x =? y
  | JStr x, JStr y => x =? y
  | JFile x, JFile y => Nat.eqb x y
  | JArr x, JArr y =>
      (fix go (x y : list json) : bool :=
         match x, y with [], [] => true | p :: x', q :: y' => json_eqb p q && go x' y' | _, _ => false end) x y
  | JObj x, JObj y =>
      (* same members in any order (Go maps are unordered); keys unique on both sides *)
      Nat.eqb (List.length x) (List.length y) &&
      (fix go (x : list (string * json)) : bool :=
         match x with
         | [] => true
         | (k, v) :: x' => match assoc k y with Some w => json_eqb v w | None => false end && go x'
         end) x
  | _, _ => false
  end.

Definition opt_eqb {A} (e : A -> A -> bool) (a b : option A) : bool :=
  match a, b with Some x, Some y => e x y | None, None => true | _, _ => false end.

Definition req_eqb (a b : request) : bool :=
  (rq_query a =? rq_query b) &&
  opt_eqb (fun x y => json_eqb (JObj x) (JObj y)) (rq_vars a) (rq_vars b) &&
  opt_eqb String.eqb (rq_opname a) (rq_opname b).

Fixpoint reqs_eqb (a b : list request) : bool :=
  match a, b with [], [] => true | x :: a', y :: b' => req_eqb x y && reqs_eqb a' b' | _, _ => false end.

Definition model (c : c7case) : presult :=
  if cMultipart c then parse_multipart (cBody c) (cJson c) (cMap c) (fun k => existsb (String.eqb k) (cPresent c))
  else parse_request (cBody c) (cJson c).

Definition agrees (c : c7case) : bool :=
  match cObs c, model c with
  | O422, PErr => true
  | O200 b rs, POk b' rs' => Bool.eqb b b' && reqs_eqb rs' rs
  | _, _ => false
  end.

Fixpoint mism_from (i : nat) (l : list c7case) : list nat :=
  match l with [] => [] | c :: t => (if agrees c then [] else [i]) ++ mism_from (S i) t end.
Definition mismatches := mism_from 0.
