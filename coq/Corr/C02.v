(* Correspondence for C02: Plan.Vars.variables_list / forwarded vs planner.getVariablesList (verif export) and the
   variables that actually accompanied the step's sub-request. *)
From Coq Require Import List String Bool Arith.
From Pebbles Require Import Base.Json Plan.Vars Plan.Header Corr.C07.
Import ListNotations.
Open Scope string_scope.
Open Scope list_scope.

Record c2case := mkCase {
  cSels : list sel;                          (* the step's selection set *)
  cObsList : list string;                    (* getVariablesList(step.SelectionSet) *)
  cClientVars : list (string * json);        (* the client's variables *)
  cObsForwarded : option (list (string * json)); (* variables of one logged sub-request of this step, `id` removed *)
  cTypes : Header.types;                     (* the merged schema's types the annotated values refer to *)
  cTSels : list tsel;                        (* the same selection set with the validator's annotations *)
  cObsHeader : list (string * string)        (* variable definitions of the step's QueryString: name, printed type *)
}.

Fixpoint strs_eqb (a b : list string) : bool :=
  match a, b with [], [] => true | x :: a', y :: b' => (x =? y) && strs_eqb a' b' | _, _ => false end.

Fixpoint dedup (l : list string) (seen : list string) : list string :=
  match l with [] => [] | x :: t => if existsb (String.eqb x) seen then dedup t seen else x :: dedup t (x :: seen) end.

(* the header the formatter wrote = the model's header map, on a selection set that meets the validator's invariants *)
Definition header_agrees (c : c2case) : bool :=
  wt (cTypes c) (cTSels c) &&
  forallb (fun nt => match header_declares (cTypes c) (cTSels c) (fst nt) with Some t => t =? snd nt | None => false end) (cObsHeader c) &&
  forallb (fun nt => existsb (fun o => fst o =? fst nt) (cObsHeader c)) (walk (cTypes c) (cTSels c)).

Definition agrees (c : c2case) : bool :=
  header_agrees c &&
  strs_eqb (variables_list (cSels c)) (cObsList c) &&
  match cObsForwarded c with
  | None => true
  | Some obs =>
      let model := forwarded (cClientVars c) (dedup (variables_list (cSels c)) []) in
      json_eqb (JObj (filter (fun kv => negb (fst kv =? "id")) model)) (JObj obs)
  end.

Fixpoint mism_from (i : nat) (l : list c2case) : list nat :=
  match l with [] => [] | c :: t => (if agrees c then [] else [i]) ++ mism_from (S i) t end.
Definition mismatches := mism_from 0.
