(* Correspondence for C02: Plan.Vars.variables_list / forwarded vs planner.getVariablesList (verif export) and the
   variables that actually accompanied the step's sub-request. *)
From Coq Require Import List String Bool Arith.
From Pebbles Require Import Base.Json Plan.Vars Plan.Header Merge.Model Plan.Steps Plan.StepsProofs Plan.StepsCount Plan.Sanitize Corr.C07.
Import ListNotations.
Open Scope string_scope.
Open Scope list_scope.

Record c2case := mkCase {
  cSels : list sel;                          (* the step's selection set *)
  cObsList : list string;                    (* getVariablesList(step.SelectionSet) *)
  cClientVars : list (string * json);        (* the client's variables *)
  cObsForwarded : option (list (string * json)); (* variables of one logged sub-request of this step, `id` removed *)
  cTypes : Header.types;                     (* the merged schema's types the annotated values refer to *)
  cTSels : list tsel;                        (* the same selection set with the validator's annotations *)
  cObsHeader : list (string * string)        (* variable definitions of the step's QueryString: name, printed type *)
}.

Fixpoint strs_eqb (a b : list string) : bool :=
  match a, b with [], [] => true | x :: a', y :: b' => (x =? y) && strs_eqb a' b' | _, _ => false end.

Fixpoint dedup (l : list string) (seen : list string) : list string :=
  match l with [] => [] | x :: t => if existsb (String.eqb x) seen then dedup t seen else x :: dedup t (x :: seen) end.

(* the header the formatter wrote = the model's header map, on a selection set that meets the validator's invariants *)
Definition header_agrees (c : c2case) : bool :=
  wt (cTypes c) (cTSels c) &&
  forallb (fun nt => match header_declares (cTypes c) (cTSels c) (fst nt) with Some t => t =? snd nt | None => false end) (cObsHeader c) &&
  forallb (fun nt => existsb (fun o => fst o =? fst nt) (cObsHeader c)) (walk (cTypes c) (cTSels c)).

Definition agrees (c : c2case) : bool :=
  header_agrees c &&
  strs_eqb (variables_list (cSels c)) (cObsList c) &&
  match cObsForwarded c with
  | None => true
  | Some obs =>
      let model := forwarded (cClientVars c) (dedup (variables_list (cSels c)) []) in
      json_eqb (JObj (filter (fun kv => negb (fst kv =? "id")) model)) (JObj obs)
  end.

(* ---- the whole plan: Plan.Steps.plan_root on the sanitized selection set vs the steps the real planner made ---- *)
Record plancase := mkPlan {
  pTm : tmap; pPs : pschema; pUrls : list string; pParent : string;
  pInput : list psel;                        (* planner.VerifSanitize(operation.SelectionSet) *)
  pObs : option (list Steps.step)            (* SequentialPlanner.Plan(...).RootSteps, None = the planner reported an error *)
}.

Fixpoint psel_eqb (a b : psel) {struct a} : bool :=
  match a, b with
  | PField al n t sub, PField al' n' t' sub' =>
      (al =? al') && (n =? n') && (t =? t') &&
      (fix all (l l' : list psel) := match l, l' with
                                     | [], [] => true
                                     | x :: r, y :: r' => psel_eqb x y && all r r'
                                     | _, _ => false end) sub sub'
  | PInline c sub, PInline c' sub' | PNode c sub, PNode c' sub' =>
      (c =? c') &&
      (fix all (l l' : list psel) := match l, l' with
                                     | [], [] => true
                                     | x :: r, y :: r' => psel_eqb x y && all r r'
                                     | _, _ => false end) sub sub'
  | _, _ => false
  end.
Fixpoint psels_eqb (a b : list psel) : bool :=
  match a, b with [], [] => true | x :: r, y :: r' => psel_eqb x y && psels_eqb r r' | _, _ => false end.

(* steps are compared as unordered collections (the order of root steps is that of a map iteration) *)
Fixpoint step_eqb (a b : Steps.step) {struct a} : bool :=
  match a, b with
  | mkStep u p i s t, mkStep u' p' i' s' t' =>
      (u =? u') && (p =? p') && Steps.strs_eqb i i' && psels_eqb s s' && Nat.eqb (List.length t) (List.length t') &&
      (fix all (l : list Steps.step) := match l with [] => true | x :: r => existsb (step_eqb x) t' && all r end) t
  end.
Definition steps_match (m o : list Steps.step) : bool :=
  Nat.eqb (List.length m) (List.length o) && forallb (fun x => existsb (step_eqb x) o) m &&
  forallb (fun y => existsb (fun x => step_eqb x y) m) o.

(* the hypotheses of Plan.StepsProofs.plan_steps_owned, evaluated on the real table, schema facts and sanitized selection *)
Definition route_eqb (a b : route) : bool :=
  match a, b with RUrl u, RUrl v => u =? v | RNoType, RNoType | RNoField, RNoField => true | _, _ => false end.
Definition in_domain (c : plancase) : bool :=
  forallb (fun e => forallb (fun fu => negb (snd fu =? internal_service) && negb (fst fu =? "id")) (tp_fields (snd e))) (pTm c) &&
  forallb (fun i => match tm_is_node (pTm c) i with None => true | Some _ => false end) (ps_interfaces (pPs c)) &&
  forallb (fun e => forallb (fun d => negb (is_root d)) (snd e)) (ps_possible (pPs c)) &&
  is_root (pParent c) && negb (mem (pParent c) (ps_interfaces (pPs c))) &&
  forallb (frag_ok (pTm c)) (pInput c).
(* ... and its conclusion, evaluated on the steps the real planner made *)
Definition owned_selsb (tm : tmap) (loc parent : string) (ss : list psel) : bool :=
  forallb (fun pn => route_eqb (get_url tm (fst pn) (snd pn) loc) (RUrl loc)) (sites_of tm loc parent ss).
Fixpoint owned_stepb (tm : tmap) (s : Steps.step) {struct s} : bool :=
  match s with
  | mkStep u p _ ss th =>
      owned_selsb tm u p ss && (fix all (l : list Steps.step) := match l with [] => true | x :: r => owned_stepb tm x && all r end) th
  end.

Definition plan_agrees (c : plancase) : bool :=
  match plan_root 64 (pTm c) (pPs c) (pUrls c) (pParent c) (pInput c), pObs c with
  | Ok m, Some o =>
      steps_match m o &&
      (if in_domain c then forallb (fun st => (s_url st =? internal_service) || owned_stepb (pTm c) st) o else true) &&
      (* nothing lost, nothing twice: the steps of the real plan hold as many field selections as the sanitized
         operation (no interface-typed parent on the way) *)
      (if in_domain c && forallb (conc (pPs c)) (pInput c) then Nat.eqb (scnt_l o) (cnt_l (pInput c)) else true)
  | Err, None => true
  | OutOfModel, _ => true
  | _, _ => false
  end.

(* ---- the sanitizer: Plan.Sanitize.sanitize on the client's selection set vs planner.VerifSanitize ---- *)
Record sancase := mkSan {
  sTm : tmap; sSc : sschema;
  sInput : list ssel;                         (* operation.SelectionSet as parsed and validated *)
  sObsSel : list ssel;                        (* what sanitizeSelectionSet returned ... *)
  sObsScrub : list (string * string * string) (* ... and the helper fields it registered for removal: joined path, type, field *)
}.
Fixpoint ssel_eqb (a b : ssel) {struct a} : bool :=
  match a, b with
  | SanField al n t d sub, SanField al' n' t' d' sub' =>
      (al =? al') && (n =? n') && (t =? t') && Nat.eqb d d' &&
      (fix all (l l' : list ssel) := match l, l' with
                                     | [], [] => true
                                     | x :: r, y :: r' => ssel_eqb x y && all r r'
                                     | _, _ => false end) sub sub'
  | SanFrag c o d sub, SanFrag c' o' d' sub' =>
      (c =? c') && (o =? o') && Nat.eqb d d' &&
      (fix all (l l' : list ssel) := match l, l' with
                                     | [], [] => true
                                     | x :: r, y :: r' => ssel_eqb x y && all r r'
                                     | _, _ => false end) sub sub'
  | _, _ => false
  end.
Fixpoint ssels_eqb (a b : list ssel) : bool :=
  match a, b with [], [] => true | x :: r, y :: r' => ssel_eqb x y && ssels_eqb r r' | _, _ => false end.
(* sibling fragments that repeat an earlier sibling word for word select nothing new; the code produces them where the
   model does not (and the other way round) when a field object shared between the per-type copies of a fragment is
   merged with itself (pointer sharing, which a pure model cannot reproduce): both sides are compared without them *)
Fixpoint norm_sel (s : ssel) {struct s} : ssel :=
  match s with
  | SanField a n t d sub =>
      SanField a n t d ((fix go (l : list ssel) (acc : list ssel) :=
                           match l with
                           | [] => acc
                           | x :: r => let y := norm_sel x in
                                       go r (match y with
                                             | SanFrag _ _ _ _ => if existsb (ssel_eqb y) acc then acc else acc ++ [y]
                                             | _ => acc ++ [y]
                                             end)
                           end) sub [])
  | SanFrag c o d sub =>
      SanFrag c o d ((fix go (l : list ssel) (acc : list ssel) :=
                        match l with
                        | [] => acc
                        | x :: r => let y := norm_sel x in
                                    go r (match y with
                                          | SanFrag _ _ _ _ => if existsb (ssel_eqb y) acc then acc else acc ++ [y]
                                          | _ => acc ++ [y]
                                          end)
                        end) sub [])
  end.
Definition norm_sels (l : list ssel) : list ssel :=
  match norm_sel (SanField "" "" "" 0 l) with SanField _ _ _ _ sub => sub | _ => [] end.

Definition keyed_eqb (a b : string * string * string) : bool :=
  (fst (fst a) =? fst (fst b)) && (snd (fst a) =? snd (fst b)) && (snd a =? snd b).
Definition scrub_eq (m : scrub) (o : list (string * string * string)) : bool :=
  let mk := map (fun e => (path_key (fst (fst e)), snd (fst e), snd e)) m in
  forallb (fun e => existsb (keyed_eqb e) o) mk && forallb (fun e => existsb (keyed_eqb e) mk) o.
Definition san_agrees (c : sancase) : bool :=
  let '(res, scr) := sanitize_op (sTm c) (sSc c) (sInput c) in
  ssels_eqb (norm_sels res) (norm_sels (sObsSel c)) && scrub_eq scr (sObsScrub c).

Inductive c2 := CStep (c : c2case) | CPlan (p : plancase) | CSan (s : sancase).
Definition agrees2 (c : c2) : bool := match c with CStep s => agrees s | CPlan p => plan_agrees p | CSan s => san_agrees s end.

Fixpoint mism_from (i : nat) (l : list c2) : list nat :=
  match l with [] => [] | c :: t => (if agrees2 c then [] else [i]) ++ mism_from (S i) t end.
Definition mismatches := mism_from 0.
