(* Correspondence for C13 / C01: Exec.Scrub.clean_all (sorted iteration order) vs the real ScrubFields.Clean on the
   real pre-scrub result of the executor, together with the planner invariant that makes the order irrelevant. *)
From Coq Require Import List String Bool Arith.
From Pebbles Require Import Base.Json Exec.Scrub Corr.C07.
Import ListNotations.
Open Scope string_scope.
Open Scope list_scope.

Record c13case := mkCase {
  cSF : scrubfields;                       (* the plan's ScrubFields, paths and typenames sorted *)
  cBefore : list (string * json);          (* executor result before Clean *)
  cAfter : list (string * json)            (* after the real Clean *)
}.

Definition has_typenameb (o : list (string * json)) : bool :=
  match assoc "__typename" o with Some (JStr _) => true | _ => false end.

Fixpoint typed_elemb (P : list (string * json) -> bool) (x : json) {struct x} : bool :=
  match x with
  | JObj m => P m
  | JArr l => forallb (typed_elemb P) l
  | _ => true
  end.
Fixpoint typed_atb (path : list string) (o : list (string * json)) : bool :=
  match path with
  | [] => has_typenameb o
  | p :: rest =>
      match assoc p o with
      | Some (JObj m) => typed_atb rest m
      | Some (JArr l) => forallb (typed_elemb (typed_atb rest)) l      (* lists of lists included *)
      | _ => true
      end
  end.

(* the planner invariant on this result *)
Definition invariant_holds (c : c13case) : bool :=
  forallb (fun e => Nat.leb (List.length (snd e)) 1 || typed_atb (fst e) (cBefore c)) (cSF c).

Definition agrees (c : c13case) : bool :=
  invariant_holds c && json_eqb (JObj (clean_all (cSF c) (cBefore c))) (JObj (cAfter c)).

Fixpoint mism_from (i : nat) (l : list c13case) : list nat :=
  match l with [] => [] | c :: t => (if agrees c then [] else [i]) ++ mism_from (S i) t end.
Definition mismatches := mism_from 0.
