(* Correspondence for C14: which requests of a history miss the cache (observed through a counting planner installed
   behind the real CachedPlanner) vs Cache.Model.misses. Keys are numbered by the harness (equal numbers = equal
   hash() inputs); time is in ticks that strictly increase from request to request. *)
From Coq Require Import List Arith Bool.
From Pebbles Require Import Cache.Model.
Import ListNotations.

Record c14case := mkCase { cTTL : nat; cHistory : list (nat * nat); cObsMiss : list bool }.

Fixpoint bools_eqb (a b : list bool) : bool :=
  match a, b with [], [] => true | x :: a', y :: b' => Bool.eqb x y && bools_eqb a' b' | _, _ => false end.

Definition agrees (c : c14case) : bool :=
  bools_eqb (misses nat nat nat (fun k => k) Nat.eqb (fun k => k) (cTTL c) (cHistory c) []) (cObsMiss c).

Fixpoint mism_from (i : nat) (l : list c14case) : list nat :=
  match l with [] => [] | c :: t => (if agrees c then [] else [i]) ++ mism_from (S i) t end.
Definition mismatches := mism_from 0.
