(* Correspondence for C10: the ErrorList MultiOpQueryer returns for a scripted answer, as JSON, vs
   map reencode_error (flat_map resp_errors (decoded answer)). *)
From Coq Require Import List String Bool Arith.
From Pebbles Require Import Base.Json Net.Decode Net.Faults Net.Errors Corr.C07.
Import ListNotations.
Open Scope string_scope.
Open Scope list_scope.

Record c10case := mkCase { cN : nat; cAnswer : list json; cObsErrors : list json }.

Fixpoint jsons_eqb (a b : list json) : bool :=
  match a, b with [], [] => true | x :: a', y :: b' => json_eqb x y && jsons_eqb a' b' | _, _ => false end.

Definition nodata_reencoded (j : json) : bool :=
  (* the synthetic "neither data nor errors" error carries the service URL in its message; compare its shape only *)
  match j with JObj ms => match assoc "extensions" ms with Some (JObj [("code", JStr "UNDEFINED_ERROR")]) => true | _ => false end | _ => false end.

Fixpoint errs_eqb (model obs : list json) : bool :=
  match model, obs with
  | [], [] => true
  | m :: model', o :: obs' => (json_eqb (reencode_error m) o || (json_eqb m nodata_error && nodata_reencoded o)) && errs_eqb model' obs'
  | _, _ => false
  end.

Definition agrees (c : c10case) : bool :=
  match query_batch (cN c) (ABody (Some (JArr (cAnswer c)))) with
  | QErr (EServiceErrors es) => errs_eqb es (cObsErrors c)
  | QOk _ => match cObsErrors c with [] => true | _ => false end
  | _ => false
  end.

Fixpoint mism_from (i : nat) (l : list c10case) : list nat :=
  match l with [] => [] | c :: t => (if agrees c then [] else [i]) ++ mism_from (S i) t end.
Definition mismatches := mism_from 0.
