(* Correspondence for C09: Net.Faults.query_batch vs MultiOpQueryer.Query on scripted downstream answers. *)
From Coq Require Import List String Bool Arith.
From Pebbles Require Import Base.Json Net.Decode Net.Faults Corr.C07.
Import ListNotations.
Open Scope string_scope.
Open Scope list_scope.

Inductive obs9 := OErr (service_errors : option nat) | OOk (datas : list (list (string * json))) | OCrash.

Record c9case := mkCase { cN : nat; cAnswer : answer; cObs : obs9 }.

Fixpoint datas_eqb (a b : list (list (string * json))) : bool :=
  match a, b with [], [] => true | x :: a', y :: b' => json_eqb (JObj x) (JObj y) && datas_eqb a' b' | _, _ => false end.

Definition agrees (c : c9case) : bool :=
  match cObs c, query_batch (cN c) (cAnswer c) with
  | OErr (Some k), QErr (EServiceErrors es) => Nat.eqb k (List.length es)
  | OErr None, QErr (EServiceErrors _) => false
  | OErr None, QErr _ => true
  | OOk ds, QOk ds' => datas_eqb ds' ds
  | _, _ => false
  end.

Fixpoint mism_from (i : nat) (l : list c9case) : list nat :=
  match l with [] => [] | c :: t => (if agrees c then [] else [i]) ++ mism_from (S i) t end.
Definition mismatches := mism_from 0.
