package gen

import (
	"fmt"
	"math/rand"
	"strings"
)

// RichOptions selects which type-system features a generated SDL document uses. The first group is the domain on
// which C15's round-trip theorem is stated; the second group are the features the pinned code loses (listed findings).
type RichOptions struct {
	MaxWrap       int  // deepest list/non-null nest (the gateway's query asks for 7 ofType levels)
	IfaceOfIface  bool // interfaces implementing interfaces
	Directives    bool // directive definitions with arguments
	RenamedRoots  bool // schema { query: RootQ ... }
	Descriptions  bool
	ArgDefaults   bool
	InputDefaults bool
	Deprecations  bool
	Newer         bool // @specifiedBy on custom scalars, repeatable directives (October 2021)
	OddNames      bool // field names with underscores at odd places: _service, _entities, _, f__1, _f1, f1__
	DirectiveUses bool // applications of custom directives in the SDL (not transported by introspection at all)
}

type richGen struct {
	rng    *rand.Rand
	opt    RichOptions
	outTys []string // types usable in output position
	inTys  []string // types usable in input position
	b      strings.Builder
}

func (g *richGen) desc(indent string) {
	if !g.opt.Descriptions || g.rng.Intn(3) != 0 {
		return
	}
	words := []string{"the thing", "a \\\"quoted\\\" note", "résumé ✓", "line", "with # hash", "x"}
	fmt.Fprintf(&g.b, "%s\"%s\"\n", indent, words[g.rng.Intn(len(words))])
}

func (g *richGen) wrapT(base string) string {
	depth := 0
	if g.opt.MaxWrap > 0 {
		switch g.rng.Intn(4) {
		case 0:
			depth = 0
		case 1, 2:
			depth = g.rng.Intn(3)
		default:
			depth = g.rng.Intn(g.opt.MaxWrap + 1)
		}
	}
	// depth counts wrappers; never two NON_NULLs in a row
	t := base
	lastNN := false
	for i := 0; i < depth; i++ {
		if !lastNN && g.rng.Intn(2) == 0 {
			t += "!"
			lastNN = true
		} else {
			t = "[" + t + "]"
			lastNN = false
		}
	}
	return t
}

func literalFor(rng *rand.Rand, t string, enums map[string][]string) string {
	if strings.HasSuffix(t, "!") {
		t = t[:len(t)-1]
	}
	if strings.HasPrefix(t, "[") {
		inner := t[1 : len(t)-1]
		n := rng.Intn(3)
		items := make([]string, n)
		for i := range items {
			items[i] = literalFor(rng, inner, enums)
		}
		return "[" + strings.Join(items, ", ") + "]"
	}
	switch t {
	case "Int":
		return fmt.Sprint(rng.Intn(100))
	case "Float":
		return fmt.Sprintf("%d.5", rng.Intn(10))
	case "Boolean":
		return []string{"true", "false"}[rng.Intn(2)]
	case "String", "ID":
		return []string{`"abc"`, `"a b"`, `""`, `"q\"uote"`}[rng.Intn(4)]
	}
	if vs, ok := enums[t]; ok {
		return vs[rng.Intn(len(vs))]
	}
	return "null"
}

// RichSchema generates one valid SDL document exercising the type system.
func RichSchema(rng *rand.Rand, opt RichOptions) string {
	g := &richGen{rng: rng, opt: opt}
	scalars := []string{"Int", "Float", "String", "Boolean", "ID"}
	nCustom := rng.Intn(3)
	var custom []string
	for i := 0; i < nCustom; i++ {
		custom = append(custom, fmt.Sprintf("Scalar%d", i))
	}
	enums := map[string][]string{}
	var enumNames []string
	for i := 0; i < 1+rng.Intn(2); i++ {
		n := fmt.Sprintf("Enum%d", i)
		enumNames = append(enumNames, n)
		for j := 0; j < 1+rng.Intn(4); j++ {
			enums[n] = append(enums[n], fmt.Sprintf("V%d_%d", i, j))
		}
	}
	var inputNames []string
	for i := 0; i < rng.Intn(3); i++ {
		inputNames = append(inputNames, fmt.Sprintf("Input%d", i))
	}
	var ifaceNames, objNames, unionNames []string
	for i := 0; i < rng.Intn(3); i++ {
		ifaceNames = append(ifaceNames, fmt.Sprintf("Iface%d", i))
	}
	for i := 0; i < 1+rng.Intn(4); i++ {
		objNames = append(objNames, fmt.Sprintf("Obj%d", i))
	}
	for i := 0; i < rng.Intn(2); i++ {
		unionNames = append(unionNames, fmt.Sprintf("Union%d", i))
	}
	g.inTys = append(append(append(append([]string{}, scalars...), custom...), enumNames...), inputNames...)
	g.outTys = append(append(append(append(append(append([]string{}, scalars...), custom...), enumNames...), ifaceNames...), objNames...), unionNames...)

	var dirNames []string
	if opt.Directives {
		for i := 0; i < 1+rng.Intn(2); i++ {
			dirNames = append(dirNames, fmt.Sprintf("dir%d", i))
		}
	}
	dirUse := func(loc string) string { return "" }
	dirLocs := map[string][]string{}
	if opt.DirectiveUses {
		dirUse = func(loc string) string {
			for _, d := range dirNames {
				for _, l := range dirLocs[d] {
					if l == loc && rng.Intn(3) == 0 {
						return " @" + d
					}
				}
			}
			return ""
		}
	}

	args := func() string {
		n := rng.Intn(3)
		if n == 0 {
			return ""
		}
		items := make([]string, n)
		for i := range items {
			t := g.wrapT(g.inTys[rng.Intn(len(g.inTys))])
			items[i] = fmt.Sprintf("a%d: %s", i, t)
			if opt.ArgDefaults && rng.Intn(2) == 0 {
				items[i] += " = " + literalFor(rng, t, enums)
			}
		}
		return "(" + strings.Join(items, ", ") + ")"
	}
	dep := func() string {
		if !opt.Deprecations || rng.Intn(3) != 0 {
			return ""
		}
		switch rng.Intn(5) {
		case 0, 1:
			return " @deprecated"
		case 2:
			// an empty reason is a reason: not the directive's default "No longer supported"
			return ` @deprecated(reason: "")`
		}
		return ` @deprecated(reason: "use something else")`
	}
	type fieldSig struct{ name, args, typ string }
	ifaceFields := map[string][]fieldSig{}
	ifaceParents := map[string][]string{}
	field := func(i int) fieldSig {
		name := fmt.Sprintf("f%d", i)
		if opt.OddNames && rng.Intn(5) == 0 {
			// legal names next to the reserved "__" prefix, among them the federation entry points
			fixed := []string{"_service", "_entities", "_"}
			switch k := rng.Intn(5); {
			case k < 2 && i < len(fixed):
				name = fixed[i]
			case k == 2:
				name = fmt.Sprintf("f__%d", i)
			case k == 3:
				name = fmt.Sprintf("_f%d", i)
			default:
				name = fmt.Sprintf("f%d__", i)
			}
		}
		return fieldSig{name, args(), g.wrapT(g.outTys[rng.Intn(len(g.outTys))])}
	}
	writeFields := func(fs []fieldSig) {
		for _, f := range fs {
			g.desc("  ")
			fmt.Fprintf(&g.b, "  %s%s: %s%s%s\n", f.name, f.args, f.typ, dep(), dirUse("FIELD_DEFINITION"))
		}
	}

	if opt.Directives {
		allLocs := []string{"FIELD_DEFINITION", "OBJECT", "FIELD", "QUERY", "ENUM_VALUE", "ARGUMENT_DEFINITION", "INPUT_FIELD_DEFINITION", "INTERFACE", "UNION", "SCALAR", "FRAGMENT_SPREAD"}
		for _, d := range dirNames {
			g.desc("")
			n := 1 + rng.Intn(3)
			perm := rng.Perm(len(allLocs))[:n]
			for _, p := range perm {
				dirLocs[d] = append(dirLocs[d], allLocs[p])
			}
			// directive arguments: every one optional so that applications without arguments are valid
			var as []string
			for i := 0; i < rng.Intn(3); i++ {
				t := strings.TrimSuffix(g.wrapT(g.inTys[rng.Intn(len(g.inTys))]), "!")
				a := fmt.Sprintf("d%d: %s", i, t)
				if opt.ArgDefaults && rng.Intn(2) == 0 {
					a += " = " + literalFor(rng, t, enums)
				}
				as = append(as, a)
			}
			al := ""
			if len(as) > 0 {
				al = "(" + strings.Join(as, ", ") + ")"
			}
			rep := ""
			if opt.Newer && rng.Intn(2) == 0 {
				rep = " repeatable"
			}
			fmt.Fprintf(&g.b, "directive @%s%s%s on %s\n", d, al, rep, strings.Join(dirLocs[d], " | "))
		}
	}
	for _, s := range custom {
		g.desc("")
		spec := ""
		if opt.Newer && rng.Intn(2) == 0 {
			spec = ` @specifiedBy(url: "https://example.com/` + s + `")`
		}
		fmt.Fprintf(&g.b, "scalar %s%s%s\n", s, spec, dirUse("SCALAR"))
	}
	for _, e := range enumNames {
		g.desc("")
		fmt.Fprintf(&g.b, "enum %s {\n", e)
		for _, v := range enums[e] {
			g.desc("  ")
			fmt.Fprintf(&g.b, "  %s%s%s\n", v, dep(), dirUse("ENUM_VALUE"))
		}
		g.b.WriteString("}\n")
	}
	for i, in := range inputNames {
		g.desc("")
		fmt.Fprintf(&g.b, "input %s {\n", in)
		for j := 0; j < 1+rng.Intn(3); j++ {
			// only earlier inputs and leaf types: no required cycles
			pool := append(append(append([]string{}, scalars...), custom...), enumNames...)
			pool = append(pool, inputNames[:i]...)
			t := g.wrapT(pool[rng.Intn(len(pool))])
			g.desc("  ")
			fmt.Fprintf(&g.b, "  i%d: %s", j, t)
			if opt.InputDefaults && rng.Intn(2) == 0 {
				fmt.Fprintf(&g.b, " = %s", literalFor(rng, t, enums))
			}
			fmt.Fprintf(&g.b, "%s\n", dirUse("INPUT_FIELD_DEFINITION"))
		}
		g.b.WriteString("}\n")
	}
	for i, n := range ifaceNames {
		var fs []fieldSig
		var parents []string
		if opt.IfaceOfIface && i > 0 && rng.Intn(2) == 0 {
			p := ifaceNames[rng.Intn(i)]
			parents = append(append([]string{}, ifaceParents[p]...), p)
			seen := map[string]bool{}
			for _, q := range parents {
				for _, f := range ifaceFields[q] {
					if !seen[f.name] {
						seen[f.name] = true
						fs = append(fs, f)
					}
				}
			}
		}
		for j := 0; j < 1+rng.Intn(2); j++ {
			f := field(j)
			f.name = fmt.Sprintf("%s_f%d", strings.ToLower(n), j)
			fs = append(fs, f)
		}
		ifaceFields[n] = fs
		ifaceParents[n] = parents
		g.desc("")
		impl := ""
		if len(parents) > 0 {
			impl = " implements " + strings.Join(parents, " & ")
		}
		fmt.Fprintf(&g.b, "interface %s%s%s {\n", n, impl, dirUse("INTERFACE"))
		writeFields(fs)
		g.b.WriteString("}\n")
	}
	implementers := map[string]bool{}
	for _, n := range objNames {
		var fs []fieldSig
		var impls []string
		seen := map[string]bool{}
		for _, in := range ifaceNames {
			if rng.Intn(2) == 0 {
				for _, p := range append(append([]string{}, ifaceParents[in]...), in) {
					dup := false
					for _, q := range impls {
						dup = dup || q == p
					}
					if !dup {
						impls = append(impls, p)
					}
					for _, f := range ifaceFields[p] {
						if !seen[f.name] {
							seen[f.name] = true
							fs = append(fs, f)
						}
					}
				}
			}
		}
		for j := 0; j < 1+rng.Intn(3); j++ {
			fs = append(fs, field(j))
		}
		g.desc("")
		impl := ""
		if len(impls) > 0 {
			impl = " implements " + strings.Join(impls, " & ")
			implementers[n] = true
		}
		fmt.Fprintf(&g.b, "type %s%s%s {\n", n, impl, dirUse("OBJECT"))
		writeFields(fs)
		g.b.WriteString("}\n")
	}
	for _, u := range unionNames {
		n := 1 + rng.Intn(len(objNames))
		perm := rng.Perm(len(objNames))[:n]
		var ms []string
		for _, p := range perm {
			ms = append(ms, objNames[p])
		}
		g.desc("")
		fmt.Fprintf(&g.b, "union %s%s = %s\n", u, dirUse("UNION"), strings.Join(ms, " | "))
	}
	qn, mn, sn := "Query", "Mutation", "Subscription"
	hasM, hasS := rng.Intn(2) == 0, rng.Intn(3) == 0
	if opt.RenamedRoots && rng.Intn(2) == 0 {
		qn, mn, sn = "RootQ", "RootM", "RootS"
		// also schemas in which only some of the roots carry a non-default name
		switch rng.Intn(4) {
		case 0:
			qn = "Query"
		case 1:
			mn = "Mutation"
		case 2:
			qn, sn = "Query", "Subscription"
		}
	}
	root := func(n string) {
		g.desc("")
		fmt.Fprintf(&g.b, "type %s {\n", n)
		var fs []fieldSig
		for j := 0; j < 1+rng.Intn(3); j++ {
			fs = append(fs, field(j))
		}
		writeFields(fs)
		g.b.WriteString("}\n")
	}
	root(qn)
	if hasM {
		root(mn)
	}
	if hasS {
		root(sn)
	}
	if qn != "Query" || (hasM && mn != "Mutation") || (hasS && sn != "Subscription") {
		g.b.WriteString("schema {\n  query: " + qn + "\n")
		if hasM {
			g.b.WriteString("  mutation: " + mn + "\n")
		}
		if hasS {
			g.b.WriteString("  subscription: " + sn + "\n")
		}
		g.b.WriteString("}\n")
	}
	return g.b.String()
}
