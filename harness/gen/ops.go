package gen

import (
	"fmt"
	"math/rand"
	"sort"
	"strings"

	"github.com/vektah/gqlparser/v2/ast"
)

// OpOptions steer the operation generator. The zero value of the "risky" switches keeps operations inside
// the domain on which the gateway is expected to be right; each switch opens one of the shapes DESIGN §C01 lists.
type OpOptions struct {
	MaxDepth             int
	Aliases              bool
	InlineFrags          bool
	NamedFrags           bool
	Typename             bool
	Variables            bool
	Mutation             bool
	ForceMutation        bool
	ForceSubscription    bool // one root field of the Subscription type
	VarNamedID           bool // a client variable literally called `id`, holding the id of an entity
	VarDefaults          bool // client-declared default values relied upon
	DirectiveVars        bool // @skip/@include(if: $v)
	Directives           bool // @skip/@include with literal values
	DupKeys              bool // the same response key twice in one selection set
	AliasID              bool // aliases named "id" / id under another alias
	NodeRoot             bool // node(id:) as a client root field
	RootTypename         bool
	FragReuse            bool // one named fragment spread at two places
	Wild                 bool // fragments on the type itself / on its interfaces / nested in each other (model correspondences only)
	NullVars             bool // client variables explicitly set to null at nullable argument positions
	TwinRoots            bool // one root field selected twice under two aliases with different selections below
	UnevenIDs            bool // every member of an abstract type is selected, but `id` only in some of the fragments
	UnionPartial         bool // union selections that leave a member type without a selected id (findings C01-b/c)
	HelperDirectives     bool // @skip/@include on a client-selected id/__typename (finding C01-l)
	HelperNextToFragment bool // client selects id/__typename at a level that also uses fragments (finding C01-k)
	IDs                  []string
	IDsByType            map[string][]string
}

type GenOp struct {
	Query         string                 `json:"query"`
	Variables     map[string]interface{} `json:"variables,omitempty"`
	OperationName string                 `json:"operationName,omitempty"`
	Kind          string                 `json:"kind"`
	Features      []string               `json:"features"`
	Of            string                 `json:"variant_of,omitempty"` // the text this operation is a near-copy of
}

type opGen struct {
	rng    *rand.Rand
	schema *ast.Schema
	opt    OpOptions
	vars   []string // declarations
	vals   map[string]interface{}
	frags  []string
	nfrag  int
	nalias int
	feat   map[string]bool
	fragOf map[string]string // type -> reusable fragment name
}

func isComposite(d *ast.Definition) bool {
	return d != nil && (d.Kind == ast.Object || d.Kind == ast.Interface || d.Kind == ast.Union)
}

func (g *opGen) argString(f *ast.FieldDefinition) string {
	if len(f.Arguments) == 0 {
		return ""
	}
	var parts []string
	for _, a := range f.Arguments {
		required := a.Type.NonNull && a.DefaultValue == nil
		if !required && g.rng.Intn(3) == 0 {
			continue
		}
		var lit string
		var val interface{}
		switch a.Type.Name() {
		case "Int":
			n := g.rng.Intn(5)
			lit, val = fmt.Sprint(n), n
		case "String":
			s := fmt.Sprintf("x%d", g.rng.Intn(9))
			lit, val = strLit(s), s
		case "ID":
			id := "nope"
			if len(g.opt.IDs) > 0 {
				id = g.opt.IDs[g.rng.Intn(len(g.opt.IDs))]
			}
			lit, val = fmt.Sprintf("%q", id), id
		case "Boolean":
			b := g.rng.Intn(2) == 0
			lit, val = fmt.Sprint(b), b
		default:
			if td := g.schema.Types[a.Type.Name()]; td != nil && td.Kind == ast.Scalar && a.Type.Elem == nil {
				// a custom scalar takes any literal; the schema has no types for the positions inside
				lit, _ := g.freeValue(2)
				parts = append(parts, a.Name+": "+lit)
				g.feat["custom_scalar_argument"] = true
				continue
			}
			if td := g.schema.Types[a.Type.Name()]; td != nil && td.Kind == ast.InputObject {
				if g.opt.Variables && g.rng.Intn(5) == 0 {
					// the whole argument as one variable
					name := fmt.Sprintf("v%d", len(g.vars))
					_, val := g.inputValue(a.Type, 2, false)
					g.vars = append(g.vars, "$"+name+": "+a.Type.String())
					g.vals[name] = val
					g.feat["variables"] = true
					g.feat["input_object_variable"] = true
					parts = append(parts, a.Name+": $"+name)
				} else {
					lit, _ := g.inputValue(a.Type, 2, g.opt.Variables)
					parts = append(parts, a.Name+": "+lit)
				}
				g.feat["input_object_argument"] = true
			}
			continue
		}
		if g.opt.Variables && g.opt.NullVars && !a.Type.NonNull && g.rng.Intn(5) == 0 {
			// a client variable explicitly set to null: still a value the sub-request must carry
			name := fmt.Sprintf("v%d", len(g.vars))
			g.vars = append(g.vars, "$"+name+": "+a.Type.String())
			g.vals[name] = nil
			g.feat["variables"] = true
			g.feat["null_variable"] = true
			parts = append(parts, a.Name+": $"+name)
			continue
		}
		if g.opt.Variables && g.rng.Intn(2) == 0 {
			name := fmt.Sprintf("v%d", len(g.vars))
			if _, isStr := val.(string); isStr && g.opt.VarNamedID && len(g.opt.IDs) > 0 && !g.feat["var_named_id"] && g.rng.Intn(2) == 0 {
				name = "id"
				val = g.opt.IDs[g.rng.Intn(len(g.opt.IDs))]
				lit = fmt.Sprintf("%q", val)
				g.feat["var_named_id"] = true
			}
			decl := "$" + name + ": " + a.Type.String()
			if g.opt.VarDefaults && g.rng.Intn(2) == 0 {
				decl += " = " + lit
				g.feat["var_default"] = true
				// value omitted: the default must be used
			} else {
				g.vals[name] = val
			}
			g.vars = append(g.vars, decl)
			g.feat["variables"] = true
			parts = append(parts, a.Name+": $"+name)
		} else {
			parts = append(parts, a.Name+": "+lit)
		}
	}
	if len(parts) == 0 {
		return ""
	}
	g.feat["arguments"] = true
	return "(" + strings.Join(parts, ", ") + ")"
}

// strLit renders a string literal; one value in nine is written as a block string (same value, other token kind).
// Decided by the value, not by a draw, so the random stream of every generator stays as it was.
func strLit(s string) string {
	if s == "x8" {
		return `"""` + s + `"""`
	}
	return fmt.Sprintf("%q", s)
}

// inputValue renders a value of input type t as a literal (with variables at some leaves, at some lists and at
// some nested objects when vars is set) together with the same value as JSON.
func (g *opGen) inputValue(t *ast.Type, depth int, vars bool) (string, interface{}) {
	asVar := func(val interface{}, decl string) string {
		name := fmt.Sprintf("v%d", len(g.vars))
		g.vars = append(g.vars, "$"+name+": "+decl)
		g.vals[name] = val
		g.feat["variables"] = true
		g.feat["variable_inside_input_value"] = true
		return "$" + name
	}
	if t.Elem != nil {
		n := g.rng.Intn(3)
		if depth <= 0 && g.schema.Types[t.Name()] != nil && g.schema.Types[t.Name()].Kind == ast.InputObject {
			n = 0
		}
		var lits []string
		vals := []interface{}{}
		for i := 0; i < n; i++ {
			l, v := g.inputValue(t.Elem, depth, vars)
			lits = append(lits, l)
			vals = append(vals, v)
		}
		if vars && n > 0 {
			g.feat["variable_inside_list_literal"] = true
		}
		return "[" + strings.Join(lits, ", ") + "]", vals
	}
	td := g.schema.Types[t.NamedType]
	if td != nil && td.Kind == ast.InputObject {
		var lits []string
		val := map[string]interface{}{}
		fs := append(ast.FieldList{}, td.Fields...)
		g.rng.Shuffle(len(fs), func(i, j int) { fs[i], fs[j] = fs[j], fs[i] })
		want := 1 + g.rng.Intn(2)
		for _, f := range fs {
			if len(lits) >= want {
				break
			}
			ftd := g.schema.Types[f.Type.Name()]
			if ftd != nil && ftd.Kind == ast.InputObject && depth <= 0 {
				continue
			}
			var l string
			var v interface{}
			if vars && g.rng.Intn(6) == 0 {
				// the whole field value (list, object or scalar) as a variable
				_, v = g.inputValue(f.Type, depth-1, false)
				l = asVar(v, f.Type.String())
			} else {
				l, v = g.inputValue(f.Type, depth-1, vars)
			}
			lits = append(lits, f.Name+": "+l)
			val[f.Name] = v
		}
		return "{" + strings.Join(lits, ", ") + "}", val
	}
	var lit string
	var val interface{}
	switch t.NamedType {
	case "Int":
		n := g.rng.Intn(5)
		lit, val = fmt.Sprint(n), n
	case "Boolean":
		b := g.rng.Intn(2) == 0
		lit, val = fmt.Sprint(b), b
	default:
		x := fmt.Sprintf("x%d", g.rng.Intn(9))
		lit, val = strLit(x), x
	}
	if vars && g.rng.Intn(2) == 0 {
		decl := t.String()
		if !t.NonNull && g.rng.Intn(3) == 0 {
			decl += "!" // a stricter client declaration is acceptable at a nullable position
		}
		return asVar(val, decl), val
	}
	return lit, val
}

// freeValue renders an arbitrary literal (scalars, lists, objects) for a custom scalar, with client variables at
// some of its leaves.
func (g *opGen) freeValue(depth int) (string, interface{}) {
	switch k := g.rng.Intn(6); {
	case k == 0 && depth > 0:
		n := 1 + g.rng.Intn(2)
		var lits []string
		vals := []interface{}{}
		for i := 0; i < n; i++ {
			l, v := g.freeValue(depth - 1)
			lits = append(lits, l)
			vals = append(vals, v)
		}
		return "[" + strings.Join(lits, ", ") + "]", vals
	case k <= 2 && depth > 0:
		n := 1 + g.rng.Intn(2)
		var lits []string
		val := map[string]interface{}{}
		for i := 0; i < n; i++ {
			l, v := g.freeValue(depth - 1)
			key := fmt.Sprintf("k%d", i)
			lits = append(lits, key+": "+l)
			val[key] = v
		}
		return "{" + strings.Join(lits, ", ") + "}", val
	}
	var lit, decl string
	var val interface{}
	if g.rng.Intn(2) == 0 {
		n := g.rng.Intn(5)
		lit, val, decl = fmt.Sprint(n), n, "Int"
	} else {
		x := fmt.Sprintf("x%d", g.rng.Intn(9))
		lit, val, decl = strLit(x), x, "String"
	}
	if g.opt.Variables && g.rng.Intn(2) == 0 {
		name := fmt.Sprintf("v%d", len(g.vars))
		g.vars = append(g.vars, "$"+name+": "+decl)
		g.vals[name] = val
		g.feat["variables"] = true
		g.feat["variable_inside_custom_scalar"] = true
		return "$" + name, val
	}
	return lit, val
}

func (g *opGen) directive() string {
	if g.opt.DirectiveVars && g.rng.Intn(6) == 0 {
		name := fmt.Sprintf("v%d", len(g.vars))
		b := g.rng.Intn(2) == 0
		g.vars = append(g.vars, "$"+name+": Boolean!")
		g.vals[name] = b
		g.feat["directive_var"] = true
		return []string{" @skip(if: $" + name + ")", " @include(if: $" + name + ")"}[g.rng.Intn(2)]
	}
	if g.opt.Directives && g.rng.Intn(8) == 0 {
		g.feat["directive"] = true
		return []string{" @skip(if: false)", " @include(if: true)", " @skip(if: true)", " @include(if: false)"}[g.rng.Intn(4)]
	}
	return ""
}

// selFor: a selection set for type d. Under the Wild option the plain selection is sometimes wrapped into fragments
// that say nothing new about the type — on the type itself, on an interface it implements, on the abstract type
// itself, nested in each other — and fragments on interfaces are added next to the members of an abstract type.
func (g *opGen) selFor(d *ast.Definition, depth int) string {
	inner := g.selForPlain(d, depth)
	if !g.opt.Wild || g.rng.Intn(3) != 0 {
		return inner
	}
	g.feat["wild_fragments"] = true
	var ifaces []string
	if d.Kind == ast.Object {
		ifaces = append(ifaces, d.Interfaces...)
	}
	k := g.rng.Intn(5)
	if (d.Kind == ast.Union || d.Kind == ast.Interface) && g.rng.Intn(2) == 0 {
		k = 4
	}
	switch {
	case k == 0:
		return "... on " + d.Name + " { " + inner + " }"
	case k == 1 && len(ifaces) > 0:
		// only fields of the interface may stand directly in a fragment on it: keep the selection on the type itself inside
		return "... on " + ifaces[g.rng.Intn(len(ifaces))] + " { ... on " + d.Name + " { " + inner + " } }"
	case k == 2 && len(ifaces) > 0:
		return inner + " ... on " + ifaces[g.rng.Intn(len(ifaces))] + " { id }"
	case k == 3:
		return "... on " + d.Name + " { ... on " + d.Name + " { " + inner + " } }"
	default:
		if d.Kind == ast.Union || d.Kind == ast.Interface {
			// a fragment on another abstract type that shares possible types with this one (all of them, or some)
			var others []string
			for _, t := range g.schema.Types {
				if t.Kind != ast.Interface || t.Name == d.Name || t.Fields.ForName("id") == nil {
					continue
				}
				for _, p := range g.schema.GetPossibleTypes(d) {
					if g.schema.Types[p.Name] != nil && containsStr(p.Interfaces, t.Name) {
						others = append(others, t.Name)
						break
					}
				}
			}
			sort.Strings(others)
			if len(others) > 0 {
				return inner + " ... on " + others[g.rng.Intn(len(others))] + " { id }"
			}
		}
		return "__typename ... on " + d.Name + " { " + inner + " }"
	}
}

func (g *opGen) selForPlain(d *ast.Definition, depth int) string {
	if d.Kind == ast.Union || (d.Kind == ast.Interface && g.rng.Intn(2) == 0) {
		var parts []string
		if g.opt.Typename && g.rng.Intn(2) == 0 {
			parts = append(parts, "__typename")
		}
		// (the interface's own fields next to fragments that may select them again would be the listed shape
		// C01-duplicate-response-key; the other half of the interface selections takes the fields alone)
		for _, m := range g.schema.GetPossibleTypes(d) {
			if g.opt.UnionPartial && g.rng.Intn(5) == 0 {
				g.feat["union_partial"] = true
				continue
			}
			inner := g.selFor(m, depth)
			if !g.opt.UnionPartial && m.Fields.ForName("id") != nil && !hasPlainID(inner) {
				if g.opt.UnevenIDs && g.rng.Intn(2) == 0 {
					g.feat["uneven_ids"] = true
				} else {
					inner = "id " + inner
				}
			}
			parts = append(parts, "... on "+m.Name+" { "+inner+" }")
			g.feat["abstract"] = true
		}
		if len(parts) == 0 {
			parts = append(parts, "__typename")
		}
		return strings.Join(parts, " ")
	}
	parts := g.fieldsFor(d, depth, 1+g.rng.Intn(4))
	if g.opt.Typename && g.rng.Intn(6) == 0 {
		parts = append(parts, "__typename")
		g.feat["typename"] = true
	}
	stripHelpers := func() {
		if g.opt.HelperNextToFragment {
			g.feat["helper_next_to_fragment"] = true
			return
		}
		var kept []string
		for _, p := range parts {
			if p == "id" || p == "__typename" || strings.HasPrefix(p, "id @") || strings.HasPrefix(p, "__typename @") {
				continue
			}
			kept = append(kept, p)
		}
		parts = kept
	}
	wantInline := len(parts) > 1 && g.opt.InlineFrags && g.rng.Intn(5) == 0
	wantNamed := !wantInline && len(parts) > 1 && g.opt.NamedFrags && g.rng.Intn(5) == 0
	if wantInline || wantNamed {
		saved := parts
		stripHelpers()
		if len(parts) < 2 {
			parts, wantInline, wantNamed = saved, false, false
		}
	}
	if len(parts) > 1 && wantInline {
		k := 1 + g.rng.Intn(len(parts)-1)
		inner := strings.Join(parts[k:], " ")
		parts = append(parts[:k:k], "... on "+d.Name+" { "+inner+" }")
		g.feat["inline_fragment"] = true
	} else if len(parts) > 1 && wantNamed {
		k := 1 + g.rng.Intn(len(parts)-1)
		g.nfrag++
		name := fmt.Sprintf("F%d", g.nfrag)
		g.frags = append(g.frags, "fragment "+name+" on "+d.Name+" { "+strings.Join(parts[k:], " ")+" }")
		parts = append(parts[:k:k], "..."+name)
		g.feat["named_fragment"] = true
		if g.opt.FragReuse {
			g.fragOf[d.Name] = name
		}
	} else if g.opt.FragReuse && g.fragOf[d.Name] != "" && g.rng.Intn(2) == 0 {
		saved := parts
		stripHelpers()
		if len(parts) == 0 {
			parts = saved
		}
		parts = append(parts, "..."+g.fragOf[d.Name])
		g.feat["fragment_reuse"] = true
	}
	return strings.Join(parts, " ")
}

func (g *opGen) fieldsFor(d *ast.Definition, depth int, want int) []string {
	var cands []*ast.FieldDefinition
	for _, f := range d.Fields {
		if strings.HasPrefix(f.Name, "__") {
			continue
		}
		if (d.Name == "Query") && f.Name == "node" {
			continue
		}
		td := g.schema.Types[f.Type.Name()]
		if depth <= 0 && isComposite(td) {
			continue
		}
		cands = append(cands, f)
	}
	if len(cands) == 0 {
		return []string{"__typename"}
	}
	g.rng.Shuffle(len(cands), func(i, j int) { cands[i], cands[j] = cands[j], cands[i] })
	if want > len(cands) {
		want = len(cands)
	}
	chosen := cands[:want]
	if g.opt.DupKeys && g.rng.Intn(6) == 0 {
		chosen = append(chosen, chosen[0])
		g.feat["dup_key"] = true
	}
	used := map[string]bool{}
	var parts []string
	for _, f := range chosen {
		td := g.schema.Types[f.Type.Name()]
		s := f.Name
		key := f.Name
		if g.opt.Aliases && g.rng.Intn(5) == 0 && f.Name != "id" {
			g.nalias++
			key = fmt.Sprintf("al%d", g.nalias)
			s = key + ": " + f.Name
			g.feat["alias"] = true
		}
		if g.opt.Aliases && isRootDef(g.schema, d) && !g.opt.NodeRoot && !used["node"] && g.rng.Intn(7) == 0 {
			// a root field answering under the response key `node` is not the Relay lookup
			key = "node"
			s = "node: " + f.Name
			g.feat["root_alias_node"] = true
		}
		if g.opt.AliasID && g.rng.Intn(8) == 0 {
			if f.Name == "id" {
				key = "ident"
				s = "ident: id"
			} else if !used["id"] && d.Fields.ForName("id") == nil {
				key = "id"
				s = "id: " + f.Name
			}
			g.feat["alias_id"] = true
		}
		if used[key] && !g.opt.DupKeys {
			continue
		}
		used[key] = true
		args := g.argString(f)
		if used[key+args] && g.opt.DupKeys {
			// same key must mean the same field/args
		}
		if f.Name == "id" || f.Name == "__typename" {
			if g.opt.HelperDirectives {
				s += args + g.directive()
			}
		} else {
			s += args + g.directive()
		}
		if isComposite(td) {
			s += " { " + g.selFor(td, depth-1) + " }"
		}
		parts = append(parts, s)
	}
	return parts
}

func containsStr(l []string, x string) bool {
	for _, y := range l {
		if y == x {
			return true
		}
	}
	return false
}

func isRootDef(s *ast.Schema, d *ast.Definition) bool {
	return d != nil && (d == s.Query || d == s.Mutation || d == s.Subscription)
}

// Operation generates one valid-looking operation against the merged schema.
func Operation(rng *rand.Rand, schema *ast.Schema, opt OpOptions) GenOp {
	g := &opGen{rng: rng, schema: schema, opt: opt, vals: map[string]interface{}{}, feat: map[string]bool{}, fragOf: map[string]string{}}
	kind := "query"
	root := schema.Query
	if schema.Mutation != nil && (opt.ForceMutation || (opt.Mutation && rng.Intn(4) == 0)) {
		kind, root = "mutation", schema.Mutation
	}
	if schema.Subscription != nil && opt.ForceSubscription {
		kind, root = "subscription", schema.Subscription
	}
	depth := 1 + rng.Intn(opt.MaxDepth)
	var body string
	if kind == "query" && opt.NodeRoot && len(opt.IDs) > 0 && rng.Intn(3) == 0 {
		id := opt.IDs[rng.Intn(len(opt.IDs))]
		var tn string
		for t, ids := range opt.IDsByType {
			for _, x := range ids {
				if x == id {
					tn = t
				}
			}
		}
		if td := schema.Types[tn]; td != nil {
			body = fmt.Sprintf("node(id: %q) { ... on %s { %s } }", id, tn, g.selFor(td, depth-1))
			g.feat["node_root"] = true
		}
	}
	if body == "" && kind == "query" && opt.TwinRoots {
		// the same entities at two places of the result, each place with its own selection (one of them
		// asks for `id`s the other one only gets as helpers)
		var cands []*ast.FieldDefinition
		for _, f := range root.Fields {
			td := schema.Types[f.Type.Name()]
			if strings.HasPrefix(f.Name, "__") || f.Name == "node" || !isComposite(td) || depth < 2 {
				continue
			}
			req := false
			for _, a := range f.Arguments {
				req = req || (a.Type.NonNull && a.DefaultValue == nil)
			}
			if !req {
				cands = append(cands, f)
			}
		}
		if len(cands) > 0 {
			f := cands[rng.Intn(len(cands))]
			td := schema.Types[f.Type.Name()]
			a := g.selFor(td, depth-1)
			var b string
			if rng.Intn(2) == 0 || strings.Contains(a, "...F") {
				// (a named fragment spread at both places would be the listed shape C01-fragment-spread-twice)
				b = g.selFor(td, depth-1)
			} else {
				// the same selection without the explicit `id`s: where a further step needs one it comes back
				// as a helper, and the sub-requests of the two places are the same text
				b = dropPlainIDs(a)
				g.feat["twin_roots_same_but_ids"] = true
			}
			body = fmt.Sprintf("ta: %s { %s } tb: %s { %s }", f.Name, a, f.Name, b)
			g.feat["twin_roots"] = true
		}
	}
	if body == "" {
		nroot := 1 + rng.Intn(3)
		if kind == "subscription" {
			nroot = 1
		}
		parts := g.fieldsFor(root, depth, nroot)
		if opt.RootTypename && rng.Intn(6) == 0 {
			parts = append(parts, "__typename")
			g.feat["root_typename"] = true
		}
		body = strings.Join(parts, " ")
	}
	name := ""
	if rng.Intn(3) == 0 {
		name = fmt.Sprintf("Op%d", rng.Intn(100))
	}
	head := kind
	if name != "" {
		head += " " + name
	}
	if len(g.vars) > 0 {
		head += "(" + strings.Join(g.vars, ", ") + ")"
	}
	q := head + " { " + body + " }"
	if len(g.frags) > 0 {
		q += " " + strings.Join(g.frags, " ")
	}
	var feats []string
	for f := range g.feat {
		feats = append(feats, f)
	}
	sort.Strings(feats)
	op := GenOp{Query: q, OperationName: name, Kind: kind, Features: feats}
	if len(g.vals) > 0 {
		op.Variables = g.vals
	}
	return op
}

// dropPlainIDs removes the un-aliased, undirected `id` selections that are not the only selection of their set.
func dropPlainIDs(sel string) string {
	toks := strings.Fields(sel)
	var out []string
	// inFrag[k]: the k-th open brace belongs to an inline fragment (`... on T {`): an id there stays, a member of
	// an abstract type without a selected id is the listed shape C01-union-member-without-fields
	var inFrag []bool
	for i, t := range toks {
		if t == "{" {
			inFrag = append(inFrag, i >= 2 && toks[i-2] == "on")
		}
		if t == "}" && len(inFrag) > 0 {
			inFrag = inFrag[:len(inFrag)-1]
		}
		if t == "id" && !(len(inFrag) > 0 && inFrag[len(inFrag)-1]) {
			prev, next := "", ""
			if i > 0 {
				prev = toks[i-1]
			}
			if i+1 < len(toks) {
				next = toks[i+1]
			}
			alone := (prev == "{" || prev == "") && (next == "}" || next == "")
			if !strings.HasSuffix(prev, ":") && !strings.HasPrefix(next, "@") && !alone {
				continue
			}
		}
		out = append(out, t)
	}
	return strings.Join(out, " ")
}

// hasPlainID reports whether the top level of a rendered selection selects `id` un-aliased and without directives.
func hasPlainID(sel string) bool {
	depth := 0
	toks := strings.Fields(sel)
	for i, t := range toks {
		if depth == 0 && t == "id" {
			if i+1 < len(toks) && strings.HasPrefix(toks[i+1], "@") {
				continue
			}
			if i > 0 && strings.HasSuffix(toks[i-1], ":") {
				continue
			}
			return true
		}
		depth += strings.Count(t, "{") - strings.Count(t, "}")
	}
	return false
}

// MultiNodeRootOperation: two aliased node(id:) roots on the same Node type, the first selecting all of its scalar
// fields (possibly spread over several services), the second only `id`.
func MultiNodeRootOperation(rng *rand.Rand, schema *ast.Schema, opt OpOptions) (GenOp, bool) {
	var types []string
	for t, ids := range opt.IDsByType {
		if len(ids) > 0 && schema.Types[t] != nil {
			types = append(types, t)
		}
	}
	sort.Strings(types)
	if len(types) == 0 {
		return GenOp{}, false
	}
	t := types[rng.Intn(len(types))]
	ids := opt.IDsByType[t]
	var fields []string
	for _, f := range schema.Types[t].Fields {
		td := schema.Types[f.Type.Name()]
		if f.Name == "id" || strings.HasPrefix(f.Name, "__") || isComposite(td) || len(f.Arguments) > 0 {
			continue
		}
		fields = append(fields, f.Name)
	}
	if len(fields) < 2 {
		return GenOp{}, false
	}
	a, b := ids[rng.Intn(len(ids))], ids[rng.Intn(len(ids))]
	q := fmt.Sprintf("{ a: node(id: %q) { ... on %s { %s } } b: node(id: %q) { ... on %s { id } } }", a, t, strings.Join(fields, " "), b, t)
	return GenOp{Query: q, Kind: "query", Features: []string{"multi_node_root"}}, true
}

// SharedAbstractOperation selects one root field twice (two aliases, hence the same entities at two places of
// the result) and below it a field of an abstract type whose members are all selected, `id` only in the first
// member's fragment and __typename nowhere: the places share de-duplicated child requests, and the helper
// fields to remove differ from member to member.
func SharedAbstractOperation(rng *rand.Rand, schema *ast.Schema, opt OpOptions) (GenOp, bool) {
	if schema.Query == nil {
		return GenOp{}, false
	}
	type cand struct {
		root string
		path []string
		abs  *ast.Definition
	}
	var cands []cand
	var under func(root string, path []string, td *ast.Definition, depth int)
	under = func(root string, path []string, td *ast.Definition, depth int) {
		for _, f := range td.Fields {
			ft := schema.Types[f.Type.Name()]
			if ft == nil || strings.HasPrefix(f.Name, "__") || len(f.Arguments) > 0 {
				continue
			}
			p := append(append([]string{}, path...), f.Name)
			if (ft.Kind == ast.Union || ft.Kind == ast.Interface) && ft.Name != "Node" {
				cands = append(cands, cand{root, p, ft})
			} else if ft.Kind == ast.Object && depth > 0 {
				under(root, p, ft, depth-1)
			}
		}
	}
	for _, rf := range schema.Query.Fields {
		td := schema.Types[rf.Type.Name()]
		if strings.HasPrefix(rf.Name, "__") || rf.Name == "node" || td == nil || td.Kind != ast.Object || len(rf.Arguments) > 0 {
			continue
		}
		under(rf.Name, nil, td, 1)
	}
	if len(cands) == 0 {
		return GenOp{}, false
	}
	c := cands[rng.Intn(len(cands))]
	members := schema.GetPossibleTypes(c.abs)
	sort.Slice(members, func(i, j int) bool { return members[i].Name < members[j].Name })
	if len(members) < 2 {
		return GenOp{}, false
	}
	first := rng.Intn(len(members))
	var frs []string
	for i, m := range members {
		var fs []string
		for _, f := range m.Fields {
			td := schema.Types[f.Type.Name()]
			if f.Name == "id" || strings.HasPrefix(f.Name, "__") || isComposite(td) || len(f.Arguments) > 0 {
				continue
			}
			fs = append(fs, f.Name)
		}
		rng.Shuffle(len(fs), func(a, b int) { fs[a], fs[b] = fs[b], fs[a] })
		if len(fs) > 2 {
			fs = fs[:2]
		}
		if i == first && m.Fields.ForName("id") != nil {
			fs = append([]string{"id"}, fs...)
		}
		if len(fs) == 0 {
			return GenOp{}, false
		}
		frs = append(frs, "... on "+m.Name+" { "+strings.Join(fs, " ")+" }")
	}
	sel := strings.Join(frs, " ")
	for i := len(c.path) - 1; i >= 0; i-- {
		sel = c.path[i] + " { " + sel + " }"
	}
	q := fmt.Sprintf("{ a: %s { %s } b: %s { %s } }", c.root, sel, c.root, sel)
	return GenOp{Query: q, Kind: "query", Features: []string{"shared_abstract"}}, true
}
