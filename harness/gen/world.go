package gen

import (
	"fmt"
	"math/rand"
	"sort"
	"strings"

	"verif/harness/fake"
)

// World = a mergeable set of service schemas plus the data they (coherently) hold.
type World struct {
	Services []*Service
	Store    *fake.Store
	NodeType []string
	Unions   map[string][]string // union name -> member node types
	// SubEvents: subscription root field -> the values its successive events carry
	SubEvents map[string][]fake.Val
	SubOwner  map[string]string // subscription root field -> service URL
}

type WorldOptions struct {
	MaxServices   int
	Unions        bool
	ValueTypes    bool
	Interfaces    bool
	IDAlphabet    string // extra characters that may appear inside ids ("" = plain)
	NullsInList   bool
	Mutations     bool
	ListMax       int // upper bound for generated list lengths (default 3)
	EntitiesMax   int // upper bound for entities per Node type (default 4)
	Subscriptions bool
	InputArgs     bool // string fields with an argument filter: [FilterIn!] (input object with lists and a recursive field)
	UnionBias     bool // a third of the Node-type fields are of the union type
}

func DefaultWorldOptions() WorldOptions {
	return WorldOptions{MaxServices: 3, Unions: true, ValueTypes: true, Mutations: true}
}

type fieldKind int

const (
	fkStr fieldKind = iota
	fkInt
	fkRef
	fkRefs
	fkVal
	fkVals
	fkUnion
	fkUnions
	fkEnum
)

func NewWorld(rng *rand.Rand, opt WorldOptions) *World {
	n := 1 + rng.Intn(opt.MaxServices)
	w := &World{Store: fake.NewStore(), Unions: map[string][]string{}, SubEvents: map[string][]fake.Val{}, SubOwner: map[string]string{}}
	for i := 0; i < n; i++ {
		w.Services = append(w.Services, &Service{URL: fmt.Sprintf("http://svc%d", i)})
	}
	addNode := func(s *Service) {
		if s.Def("Node") == nil {
			s.Defs = append(s.Defs, &Def{Kind: "INTERFACE", Name: "Node", Fields: []Field{{Name: "id", Type: "ID!"}}})
		}
	}
	ensureNodeType := func(s *Service, name string) *Def {
		addNode(s)
		if d := s.Def(name); d != nil {
			return d
		}
		d := &Def{Kind: "OBJECT", Name: name, Ifaces: []string{"Node"}, Fields: []Field{{Name: "id", Type: "ID!"}}}
		s.Defs = append(s.Defs, d)
		return d
	}
	k := 1 + rng.Intn(4)
	for i := 0; i < k; i++ {
		w.NodeType = append(w.NodeType, fmt.Sprintf("N%d", i))
	}
	// value types: identical copies wherever used
	type vspec struct {
		name   string
		fields []Field
		kinds  []fieldKind
		refTo  []string
	}
	var vts []vspec
	if opt.ValueTypes {
		for i := 0; i < rng.Intn(3); i++ {
			v := vspec{name: fmt.Sprintf("V%d", i)}
			for j := 0; j < 1+rng.Intn(3); j++ {
				if rng.Intn(2) == 0 {
					v.fields = append(v.fields, Field{Name: fmt.Sprintf("v%d_s%d", i, j), Type: "String"})
					v.kinds = append(v.kinds, fkStr)
				} else {
					v.fields = append(v.fields, Field{Name: fmt.Sprintf("v%d_i%d", i, j), Type: "Int"})
					v.kinds = append(v.kinds, fkInt)
				}
				v.refTo = append(v.refTo, "")
			}
			vts = append(vts, v)
		}
	}
	ensureVal := func(s *Service, v vspec) {
		if s.Def(v.name) == nil {
			s.Defs = append(s.Defs, &Def{Kind: "OBJECT", Name: v.name, Fields: append([]Field(nil), v.fields...)})
		}
	}
	if opt.Unions && k >= 2 && (rng.Intn(2) == 0 || opt.UnionBias) {
		w.Unions["U"] = []string{w.NodeType[0], w.NodeType[1]}
	}
	ensureUnion := func(s *Service, u string) {
		for _, m := range w.Unions[u] {
			ensureNodeType(s, m)
		}
		if s.Def(u) == nil {
			s.Defs = append(s.Defs, &Def{Kind: "UNION", Name: u, UTypes: append([]string(nil), w.Unions[u]...)})
		}
	}
	ensureEnum := func(s *Service) {
		if s.Def("Color") == nil {
			s.Defs = append(s.Defs, &Def{Kind: "ENUM", Name: "Color", EValues: []string{"RED", "GREEN", "BLUE"}})
		}
	}
	type nfield struct {
		name  string
		kind  fieldKind
		to    string // target type for refs / vals / unions
		owner int
		arg   bool
	}
	nodeFields := map[string][]nfield{}
	pickKind := func() fieldKind {
		if opt.UnionBias && len(w.Unions) > 0 && rng.Intn(3) == 0 {
			return []fieldKind{fkUnion, fkUnions}[rng.Intn(2)]
		}
		r := rng.Intn(20)
		switch {
		case r < 5:
			return fkStr
		case r < 8:
			return fkInt
		case r < 11:
			return fkRef
		case r < 14:
			return fkRefs
		case r < 15 && len(vts) > 0:
			return fkVal
		case r < 16 && len(vts) > 0:
			return fkVals
		case r < 17 && len(w.Unions) > 0:
			return fkUnion
		case r < 18 && len(w.Unions) > 0:
			return fkUnions
		case r < 19:
			return fkEnum
		}
		return fkStr
	}
	typeOf := func(kind fieldKind, to string) string {
		switch kind {
		case fkStr:
			return "String"
		case fkInt:
			return "Int"
		case fkRef, fkVal, fkUnion:
			return to
		case fkRefs, fkVals, fkUnions:
			return []string{"[" + to + "!]!", "[" + to + "!]", "[" + to + "]"}[rng.Intn(2)]
		case fkEnum:
			return "Color"
		}
		return "String"
	}
	declare := func(s *Service, kind fieldKind, to string) {
		switch kind {
		case fkRef, fkRefs:
			ensureNodeType(s, to)
		case fkVal, fkVals:
			for _, v := range vts {
				if v.name == to {
					ensureVal(s, v)
				}
			}
		case fkUnion, fkUnions:
			ensureUnion(s, to)
		case fkEnum:
			ensureEnum(s)
		}
	}
	target := func(kind fieldKind) string {
		switch kind {
		case fkRef, fkRefs:
			return w.NodeType[rng.Intn(k)]
		case fkVal, fkVals:
			return vts[rng.Intn(len(vts))].name
		case fkUnion, fkUnions:
			return "U"
		}
		return ""
	}
	ensureFilter := func(s *Service) {
		if s.Def("FilterIn") == nil {
			s.Defs = append(s.Defs, &Def{Kind: "INPUT_OBJECT", Name: "FilterIn", Fields: []Field{
				{Name: "q", Type: "String"}, {Name: "limit", Type: "Int"}, {Name: "tags", Type: "[String!]"},
				{Name: "grid", Type: "[[Int]]"}, {Name: "and", Type: "[FilterIn!]"}, {Name: "not", Type: "FilterIn"}}})
		}
	}
	for ti, tn := range w.NodeType {
		nf := 1 + rng.Intn(4)
		for j := 0; j < nf; j++ {
			kind := pickKind()
			f := nfield{name: fmt.Sprintf("n%d_f%d", ti, j), kind: kind, to: target(kind), owner: rng.Intn(n)}
			f.arg = (kind == fkStr || kind == fkInt) && rng.Intn(4) == 0
			s := w.Services[f.owner]
			d := ensureNodeType(s, tn)
			declare(s, kind, f.to)
			fd := Field{Name: f.name, Type: typeOf(kind, f.to)}
			if f.arg {
				fd.Args = []Arg{{Name: "a", Type: "Int"}}
			}
			if opt.InputArgs && kind == fkStr && rng.Intn(2) == 0 {
				fd.Args = append(fd.Args, Arg{Name: "filter", Type: "[FilterIn!]"})
				ensureFilter(s)
			}
			if opt.InputArgs && kind == fkStr && rng.Intn(3) == 0 {
				fd.Args = append(fd.Args, Arg{Name: "data", Type: "JSON"})
				s.ensure("SCALAR", "JSON")
			}
			d.Fields = append(d.Fields, fd)
			nodeFields[tn] = append(nodeFields[tn], f)
		}
	}
	// an interface I0 { id, i0_c } implemented by the first two Node types; one service (its home) declares it, the
	// common field on both implementers and every field of that type — the implementers' other fields live where
	// they live, so a selection on the interface is spread over services
	ifaceMembers := map[string][]string{}
	ifaceHome := -1
	if opt.Interfaces && k >= 2 {
		ifaceHome = rng.Intn(n)
		hs := w.Services[ifaceHome]
		addNode(hs)
		hs.Defs = append(hs.Defs, &Def{Kind: "INTERFACE", Name: "I0", Fields: []Field{{Name: "id", Type: "ID!"}, {Name: "i0_c", Type: "String"}}})
		for _, m := range w.NodeType[:2] {
			d := ensureNodeType(hs, m)
			d.Ifaces = append(d.Ifaces, "I0")
			d.Fields = append(d.Fields, Field{Name: "i0_c", Type: "String"})
			nodeFields[m] = append(nodeFields[m], nfield{name: "i0_c", kind: fkStr, owner: ifaceHome})
		}
		ifaceMembers["I0"] = append([]string{}, w.NodeType[:2]...)
		// a second interface that only the second implementer has: an abstract type overlapping I0 in part
		hs.Defs = append(hs.Defs, &Def{Kind: "INTERFACE", Name: "I1", Fields: []Field{{Name: "id", Type: "ID!"}}})
		if d1 := hs.Def(w.NodeType[1]); d1 != nil {
			d1.Ifaces = append(d1.Ifaces, "I1")
		}
		// another service declares the interface too, with a field of its own which it provides for the second
		// implementer; the home service provides that field for the first one as a plain field: the owner of an
		// interface field then differs from implementation to implementation
		if n >= 2 && rng.Intn(2) == 0 {
			away := (ifaceHome + 1) % n
			as := w.Services[away]
			addNode(as)
			as.Defs = append(as.Defs, &Def{Kind: "INTERFACE", Name: "I0", Fields: []Field{{Name: "id", Type: "ID!"}, {Name: "i0_d", Type: "String"}}})
			d1 := ensureNodeType(as, w.NodeType[1])
			d1.Ifaces = append(d1.Ifaces, "I0")
			d1.Fields = append(d1.Fields, Field{Name: "i0_d", Type: "String"})
			nodeFields[w.NodeType[1]] = append(nodeFields[w.NodeType[1]], nfield{name: "i0_d", kind: fkStr, owner: away})
			d0 := ensureNodeType(hs, w.NodeType[0])
			d0.Fields = append(d0.Fields, Field{Name: "i0_d", Type: "String"})
			nodeFields[w.NodeType[0]] = append(nodeFields[w.NodeType[0]], nfield{name: "i0_d", kind: fkStr, owner: ifaceHome})
		}
		// a Node type of the home service points at it
		tn := w.NodeType[rng.Intn(k)]
		kind := []fieldKind{fkUnion, fkUnions}[rng.Intn(2)]
		d := ensureNodeType(hs, tn)
		fd := Field{Name: strings.ToLower(tn) + "_i", Type: typeOf(kind, "I0")}
		d.Fields = append(d.Fields, fd)
		nodeFields[tn] = append(nodeFields[tn], nfield{name: fd.Name, kind: kind, to: "I0", owner: ifaceHome})
	}
	// entities
	for ti, tn := range w.NodeType {
		em := opt.EntitiesMax
		if em <= 0 {
			em = 4
		}
		cnt := 1 + rng.Intn(em)
		for e := 0; e < cnt; e++ {
			id := fmt.Sprintf("%s_%c", tn, 'a'+e)
			if e >= 26 {
				id = fmt.Sprintf("%s_%d", tn, e)
			}
			if opt.IDAlphabet != "" && rng.Intn(3) == 0 {
				id += string(opt.IDAlphabet[rng.Intn(len(opt.IDAlphabet))]) + fmt.Sprint(ti)
			}
			w.Store.Entities[id] = &fake.Obj{Type: tn, Fields: map[string]fake.Val{"id": fake.Str(id)}}
		}
	}
	randEntity := func(t string) fake.Val {
		ids := w.Store.IDsOfType(t)
		if len(ids) == 0 {
			return fake.Null()
		}
		return fake.Ref(ids[rng.Intn(len(ids))])
	}
	mkVal := func(vn string, salt string) fake.Val {
		for _, v := range vts {
			if v.name == vn {
				o := &fake.Obj{Type: vn, Fields: map[string]fake.Val{}}
				for i, f := range v.fields {
					if v.kinds[i] == fkStr {
						o.Fields[f.Name] = fake.Str(f.Name + "@" + salt)
					} else {
						o.Fields[f.Name] = fake.Int(rng.Intn(100))
					}
				}
				return fake.Val{Kind: fake.VObj, Obj: o}
			}
		}
		return fake.Null()
	}
	rootLevel := false
	mkValue := func(kind fieldKind, to string, salt string) fake.Val {
		mkList := func(item func() fake.Val) fake.Val {
			lm := opt.ListMax
			if !rootLevel {
				lm = 3 // only root lists get long: nested long lists multiply
			}
			if lm <= 0 {
				lm = 3
			}
			l := rng.Intn(lm + 1)
			if lm > 10 && rng.Intn(2) != 0 {
				l = rng.Intn(4)
			}
			vs := make([]fake.Val, 0, l)
			for i := 0; i < l; i++ {
				v := item()
				if v.Kind == fake.VNull && !opt.NullsInList {
					continue
				}
				vs = append(vs, v)
			}
			return fake.Val{Kind: fake.VList, List: vs}
		}
		switch kind {
		case fkStr:
			return fake.Str("s:" + salt)
		case fkInt:
			return fake.Int(rng.Intn(1000))
		case fkRef:
			if rng.Intn(5) == 0 {
				return fake.Null()
			}
			return randEntity(to)
		case fkRefs:
			return mkList(func() fake.Val { return randEntity(to) })
		case fkVal:
			if rng.Intn(6) == 0 {
				return fake.Null()
			}
			return mkVal(to, salt)
		case fkVals:
			i := 0
			return mkList(func() fake.Val { i++; return mkVal(to, fmt.Sprintf("%s#%d", salt, i)) })
		case fkUnion:
			if rng.Intn(6) == 0 {
				return fake.Null()
			}
			ms := w.Unions[to]
			if ms == nil {
				ms = ifaceMembers[to]
			}
			return randEntity(ms[rng.Intn(len(ms))])
		case fkUnions:
			ms := w.Unions[to]
			if ms == nil {
				ms = ifaceMembers[to]
			}
			return mkList(func() fake.Val { return randEntity(ms[rng.Intn(len(ms))]) })
		case fkEnum:
			return fake.Val{Kind: fake.VEnum, S: []string{"RED", "GREEN", "BLUE"}[rng.Intn(3)]}
		}
		return fake.Null()
	}
	for _, id := range w.Store.IDs() {
		ent := w.Store.Entities[id]
		for _, f := range nodeFields[ent.Type] {
			ent.Fields[f.name] = mkValue(f.kind, f.to, id+"."+f.name)
		}
	}
	// roots
	rootLevel = true
	for si, s := range w.Services {
		q := s.ensure("OBJECT", "Query")
		nq := 1 + rng.Intn(3)
		for j := 0; j < nq; j++ {
			kind := []fieldKind{fkRef, fkRefs, fkRefs, fkStr, fkVal, fkUnions, fkRef, fkUnion}[rng.Intn(8)]
			if (kind == fkVal) && len(vts) == 0 {
				kind = fkRefs
			}
			if (kind == fkUnion || kind == fkUnions) && len(w.Unions) == 0 {
				kind = fkRefs
			}
			to := target(kind)
			declare(s, kind, to)
			fd := Field{Name: fmt.Sprintf("q%d_%d", si, j), Type: typeOf(kind, to)}
			if kind == fkStr && rng.Intn(2) == 0 {
				fd.Args = []Arg{{Name: "a", Type: "Int"}}
			}
			if kind == fkRefs && rng.Intn(3) == 0 {
				fd.Args = []Arg{{Name: "n", Type: "Int", Default: "2"}}
			}
			if opt.InputArgs && kind == fkStr && rng.Intn(2) == 0 {
				fd.Args = append(fd.Args, Arg{Name: "filter", Type: "[FilterIn!]"})
				ensureFilter(s)
			}
			if opt.InputArgs && kind == fkStr && rng.Intn(3) == 0 {
				fd.Args = append(fd.Args, Arg{Name: "data", Type: "JSON"})
				s.ensure("SCALAR", "JSON")
			}
			q.Fields = append(q.Fields, fd)
			w.Store.Roots["Query"][fd.Name] = mkValue(kind, to, fd.Name)
		}
		if si == ifaceHome {
			for j, kind := range []fieldKind{fkUnions, fkUnion} {
				fd := Field{Name: fmt.Sprintf("qi_%d", j), Type: typeOf(kind, "I0")}
				q.Fields = append(q.Fields, fd)
				w.Store.Roots["Query"][fd.Name] = mkValue(kind, "I0", fd.Name)
			}
		}
		if s.Def("Node") != nil {
			q.Fields = append(q.Fields, Field{Name: "node", Args: []Arg{{Name: "id", Type: "ID!"}}, Type: "Node"})
		}
		if opt.Mutations && rng.Intn(2) == 0 {
			m := s.ensure("OBJECT", "Mutation")
			for j := 0; j < 1+rng.Intn(2); j++ {
				kind := []fieldKind{fkRef, fkStr, fkRefs}[rng.Intn(3)]
				to := target(kind)
				declare(s, kind, to)
				fd := Field{Name: fmt.Sprintf("m%d_%d", si, j), Type: typeOf(kind, to), Args: []Arg{{Name: "v", Type: "String"}}}
				m.Fields = append(m.Fields, fd)
				w.Store.Roots["Mutation"][fd.Name] = mkValue(kind, to, fd.Name)
			}
		}
		if opt.Subscriptions && (si == 0 || rng.Intn(2) == 0) {
			sub := s.ensure("OBJECT", "Subscription")
			for j := 0; j < 1+rng.Intn(2); j++ {
				kind := []fieldKind{fkRef, fkRef, fkRefs, fkStr, fkUnion, fkRef}[rng.Intn(6)]
				if kind == fkUnion && len(w.Unions) == 0 {
					kind = fkRef
				}
				to := target(kind)
				declare(s, kind, to)
				fd := Field{Name: fmt.Sprintf("s%d_%d", si, j), Type: typeOf(kind, to)}
				if rng.Intn(2) == 0 {
					fd.Args = []Arg{{Name: "v", Type: "String"}}
				}
				sub.Fields = append(sub.Fields, fd)
				for k := 0; k < 6; k++ {
					w.SubEvents[fd.Name] = append(w.SubEvents[fd.Name], mkValue(kind, to, fmt.Sprintf("%s#%d", fd.Name, k)))
				}
				w.Store.Roots["Subscription"][fd.Name] = w.SubEvents[fd.Name][0]
				w.SubOwner[fd.Name] = s.URL
			}
		}
	}
	// every service needs a non-empty Query; sort defs for stable SDL
	for _, s := range w.Services {
		sort.SliceStable(s.Defs, func(i, j int) bool { return s.Defs[i].Name < s.Defs[j].Name })
	}
	return w
}
