// Package gen: seeded generators. schema.go builds sets of service schemas that the merger accepts
// (Node types split across services, shared value types that are identical or disjoint, enums, unions,
// interfaces, inputs, unique root fields) and conflict-introducing edits of such sets.
package gen

import (
	"fmt"
	"math/rand"
	"regexp"
	"sort"
	"strings"
)

type Arg struct {
	Name, Type string
	Default    string // "" = none
}
type Field struct {
	Name string
	Args []Arg
	Type string
}
type Def struct {
	Kind    string // OBJECT INTERFACE UNION ENUM SCALAR INPUT_OBJECT
	Name    string
	Desc    string
	Ifaces  []string
	Fields  []Field
	EValues []string
	UTypes  []string
}
type Service struct {
	URL  string
	Defs []*Def
}

func (s *Service) Def(name string) *Def {
	for _, d := range s.Defs {
		if d.Name == name {
			return d
		}
	}
	return nil
}

func (s *Service) ensure(kind, name string) *Def {
	if d := s.Def(name); d != nil {
		return d
	}
	d := &Def{Kind: kind, Name: name}
	s.Defs = append(s.Defs, d)
	return d
}

func (d *Def) Field(name string) *Field {
	for i := range d.Fields {
		if d.Fields[i].Name == name {
			return &d.Fields[i]
		}
	}
	return nil
}

func (s *Service) Clone() *Service {
	c := &Service{URL: s.URL}
	for _, d := range s.Defs {
		nd := *d
		nd.Ifaces = append([]string(nil), d.Ifaces...)
		nd.EValues = append([]string(nil), d.EValues...)
		nd.UTypes = append([]string(nil), d.UTypes...)
		nd.Fields = nil
		for _, f := range d.Fields {
			nf := f
			nf.Args = append([]Arg(nil), f.Args...)
			nd.Fields = append(nd.Fields, nf)
		}
		c.Defs = append(c.Defs, &nd)
	}
	return c
}

func CloneSet(ss []*Service) []*Service {
	out := make([]*Service, len(ss))
	for i, s := range ss {
		out[i] = s.Clone()
	}
	return out
}

// SDL renders one service schema.
func (s *Service) SDL() string {
	var b strings.Builder
	defs := append([]*Def(nil), s.Defs...)
	sort.SliceStable(defs, func(i, j int) bool { return defs[i].Name < defs[j].Name })
	for _, d := range defs {
		if d.Desc != "" {
			fmt.Fprintf(&b, "%q\n", d.Desc)
		}
		impl := ""
		if len(d.Ifaces) > 0 {
			impl = " implements " + strings.Join(d.Ifaces, " & ")
		}
		switch d.Kind {
		case "SCALAR":
			fmt.Fprintf(&b, "scalar %s\n", d.Name)
		case "ENUM":
			fmt.Fprintf(&b, "enum %s { %s }\n", d.Name, strings.Join(d.EValues, " "))
		case "UNION":
			fmt.Fprintf(&b, "union %s = %s\n", d.Name, strings.Join(d.UTypes, " | "))
		default:
			kw := map[string]string{"OBJECT": "type", "INTERFACE": "interface", "INPUT_OBJECT": "input"}[d.Kind]
			fmt.Fprintf(&b, "%s %s%s {\n", kw, d.Name, impl)
			for _, f := range d.Fields {
				args := ""
				if len(f.Args) > 0 {
					var as []string
					for _, a := range f.Args {
						x := a.Name + ": " + a.Type
						if a.Default != "" {
							x += " = " + a.Default
						}
						as = append(as, x)
					}
					args = "(" + strings.Join(as, ", ") + ")"
				}
				fmt.Fprintf(&b, "  %s%s: %s\n", f.Name, args, f.Type)
			}
			b.WriteString("}\n")
		}
	}
	return b.String()
}

// Options steer the generator.
type Options struct {
	MaxServices int
	Rich        bool // enums, unions, interfaces, inputs, arguments
}

var scalars = []string{"String", "Int", "Boolean", "String!", "Int!", "[String]", "[Int!]!"}

func wrap(rng *rand.Rand, t string) string {
	switch rng.Intn(6) {
	case 0:
		return t + "!"
	case 1:
		return "[" + t + "]"
	case 2:
		return "[" + t + "!]!"
	case 3:
		return "[" + t + "]!"
	default:
		return t
	}
}

// Mergeable builds a set of 1..MaxServices service schemas that ExtendMergerFunc accepts.
func Mergeable(rng *rand.Rand, opt Options) []*Service {
	n := 1 + rng.Intn(opt.MaxServices)
	ss := make([]*Service, n)
	for i := range ss {
		ss[i] = &Service{URL: fmt.Sprintf("http://svc%d", i)}
	}
	addNode := func(s *Service) {
		if s.Def("Node") == nil {
			s.Defs = append(s.Defs, &Def{Kind: "INTERFACE", Name: "Node", Fields: []Field{{Name: "id", Type: "ID!"}}})
		}
	}
	ensureNodeType := func(s *Service, name string) *Def {
		addNode(s)
		if d := s.Def(name); d != nil {
			return d
		}
		d := &Def{Kind: "OBJECT", Name: name, Ifaces: []string{"Node"}, Fields: []Field{{Name: "id", Type: "ID!"}}}
		s.Defs = append(s.Defs, d)
		return d
	}
	// Node types, fields owned by exactly one service each
	nNode := 1 + rng.Intn(4)
	nodeNames := make([]string, nNode)
	for i := range nodeNames {
		nodeNames[i] = fmt.Sprintf("N%d", i)
	}
	// shared value types
	nVal := rng.Intn(3)
	type valSpec struct {
		name      string
		identical bool
		services  []int
	}
	var vals []valSpec
	for i := 0; i < nVal; i++ {
		v := valSpec{name: fmt.Sprintf("V%d", i), identical: rng.Intn(3) != 0}
		for si := 0; si < n; si++ {
			if rng.Intn(2) == 0 {
				v.services = append(v.services, si)
			}
		}
		if len(v.services) == 0 {
			v.services = []int{rng.Intn(n)}
		}
		// a type extended with disjoint fields needs at least two services to be interesting
		if !v.identical && len(v.services) == 1 && n > 1 {
			other := (v.services[0] + 1 + rng.Intn(n-1)) % n
			v.services = append(v.services, other)
			sort.Ints(v.services)
		}
		vals = append(vals, v)
	}
	// value type definitions
	for _, v := range vals {
		if v.identical {
			nf := 1 + rng.Intn(3)
			var fs []Field
			for k := 0; k < nf; k++ {
				fs = append(fs, Field{Name: fmt.Sprintf("%s_f%d", strings.ToLower(v.name), k), Type: scalars[rng.Intn(len(scalars))]})
			}
			// one of the declaring services may let its copy implement an interface the others do not know
			withIface := -1
			if opt.Rich && len(v.services) > 1 && rng.Intn(3) == 0 {
				withIface = v.services[rng.Intn(len(v.services))]
				fs = append(fs, Field{Name: "label", Type: "String"})
			}
			for _, si := range v.services {
				d := ss[si].ensure("OBJECT", v.name)
				d.Fields = append([]Field(nil), fs...)
				if si == withIface {
					nd := ss[si].ensure("INTERFACE", "Named")
					nd.Fields = []Field{{Name: "label", Type: "String"}}
					d.Ifaces = append(d.Ifaces, "Named")
				}
			}
		} else {
			for _, si := range v.services {
				d := ss[si].ensure("OBJECT", v.name)
				nf := 1 + rng.Intn(2)
				for k := 0; k < nf; k++ {
					d.Fields = append(d.Fields, Field{Name: fmt.Sprintf("%s_s%d_f%d", strings.ToLower(v.name), si, k), Type: scalars[rng.Intn(len(scalars))]})
				}
			}
		}
	}
	var enumName string
	if opt.Rich && rng.Intn(2) == 0 {
		enumName = "Color"
		base := []string{"RED", "GREEN"}
		for si := 0; si < n; si++ {
			if rng.Intn(2) == 0 {
				d := ss[si].ensure("ENUM", enumName)
				d.EValues = append([]string(nil), base...)
				if rng.Intn(3) == 0 {
					d.EValues = append(d.EValues, fmt.Sprintf("X%d", si))
				}
			}
		}
	}
	// node type fields
	for ti, tn := range nodeNames {
		nf := 1 + rng.Intn(4)
		for k := 0; k < nf; k++ {
			owner := rng.Intn(n)
			d := ensureNodeType(ss[owner], tn)
			f := Field{Name: fmt.Sprintf("n%d_f%d", ti, k)}
			switch rng.Intn(6) {
			case 0, 1:
				// reference to another node type
				ref := nodeNames[rng.Intn(nNode)]
				ensureNodeType(ss[owner], ref)
				f.Type = wrap(rng, ref)
			case 2:
				// a value type this service declares
				var cands []string
				for _, v := range vals {
					if ss[owner].Def(v.name) != nil {
						cands = append(cands, v.name)
					}
				}
				if len(cands) > 0 {
					f.Type = wrap(rng, cands[rng.Intn(len(cands))])
				} else {
					f.Type = scalars[rng.Intn(len(scalars))]
				}
			case 3:
				if enumName != "" && ss[owner].Def(enumName) != nil {
					f.Type = enumName
				} else {
					f.Type = "Int"
				}
			default:
				f.Type = scalars[rng.Intn(len(scalars))]
			}
			if opt.Rich && rng.Intn(4) == 0 {
				a := Arg{Name: "a", Type: "Int"}
				if rng.Intn(2) == 0 {
					a.Default = "3"
				}
				f.Args = append(f.Args, a)
			}
			d.Fields = append(d.Fields, f)
		}
	}
	if opt.Rich && rng.Intn(2) == 0 && nNode >= 2 {
		// a union of two node types, same members wherever declared
		for si := 0; si < n; si++ {
			if ss[si].Def(nodeNames[0]) != nil && ss[si].Def(nodeNames[1]) != nil && rng.Intn(2) == 0 {
				d := ss[si].ensure("UNION", "U")
				d.UTypes = []string{nodeNames[0], nodeNames[1]}
			}
		}
	}
	if opt.Rich && rng.Intn(2) == 0 {
		// an interface declared identically by the services that use it, implemented by one value type each
		for si := 0; si < n; si++ {
			if rng.Intn(2) == 0 {
				d := ss[si].ensure("INTERFACE", "Named")
				d.Fields = []Field{{Name: "label", Type: "String"}}
				impl := ss[si].ensure("OBJECT", fmt.Sprintf("Impl%d", si))
				impl.Ifaces = []string{"Named"}
				impl.Fields = []Field{{Name: "label", Type: "String"}, {Name: fmt.Sprintf("extra%d", si), Type: "Int"}}
			}
		}
	}
	if opt.Rich && rng.Intn(2) == 0 {
		for si := 0; si < n; si++ {
			if rng.Intn(2) == 0 {
				d := ss[si].ensure("INPUT_OBJECT", "Filter")
				d.Fields = []Field{{Name: "q", Type: "String"}, {Name: "limit", Type: "Int = 10"}, {Name: "tags", Type: "[String!] = [\"a\", \"b\"]"}}
			}
		}
	}
	if opt.Rich && rng.Intn(3) == 0 {
		for si := 0; si < n; si++ {
			if rng.Intn(2) == 0 {
				ss[si].ensure("SCALAR", "Date")
			}
		}
	}
	if opt.Rich && rng.Intn(2) == 0 {
		// Relay connection edges: an object field literally called `node` that is NOT the Relay entry point,
		// either on a per-service edge type or directly on a Node type
		for si := 0; si < n; si++ {
			for _, tn := range nodeNames {
				if ss[si].Def(tn) == nil || rng.Intn(3) != 0 {
					continue
				}
				e := ss[si].ensure("OBJECT", fmt.Sprintf("%sEdge%d", tn, si))
				e.Fields = []Field{{Name: "cursor", Type: "String"}, {Name: "node", Type: tn}}
				if rng.Intn(2) == 0 {
					d := ss[si].Def(tn)
					if d.Field("node") == nil {
						taken := false
						for sj := range ss {
							if dj := ss[sj].Def(tn); dj != nil && dj.Field("node") != nil {
								taken = true
							}
						}
						if !taken {
							d.Fields = append(d.Fields, Field{Name: "node", Type: tn})
						}
					}
				}
			}
		}
	}
	if opt.Rich {
		// descriptions on some shared types (equal, different, or only on one side)
		for si := 0; si < n; si++ {
			for _, d := range ss[si].Defs {
				if d.Name == "Node" || d.Kind == "SCALAR" {
					continue
				}
				switch rng.Intn(6) {
				case 0:
					d.Desc = "about " + d.Name
				case 1:
					d.Desc = fmt.Sprintf("%s as seen by service %d", d.Name, si)
				}
			}
		}
	}
	// a Node type that has no field but `id` anywhere (a marker, a session): one or two services declare it
	if rng.Intn(4) == 0 {
		for k := 0; k < 1+rng.Intn(2); k++ {
			s := ss[rng.Intn(n)]
			if s.Def("Bare") == nil {
				if s.Def("Node") == nil {
					s.Defs = append(s.Defs, &Def{Kind: "INTERFACE", Name: "Node", Fields: []Field{{Name: "id", Type: "ID!"}}})
				}
				s.Defs = append(s.Defs, &Def{Kind: "OBJECT", Name: "Bare", Ifaces: []string{"Node"}, Fields: []Field{{Name: "id", Type: "ID!"}}})
			}
		}
	}
	// roots: unique field names per service
	for si, s := range ss {
		q := s.ensure("OBJECT", "Query")
		var known []string
		for _, d := range s.Defs {
			if d.Kind == "OBJECT" && d.Name != "Query" && d.Name != "Mutation" {
				known = append(known, d.Name)
			}
		}
		sort.Strings(known)
		nq := 1 + rng.Intn(3)
		for k := 0; k < nq; k++ {
			f := Field{Name: fmt.Sprintf("q%d_%d", si, k), Type: "String"}
			if len(known) > 0 && rng.Intn(4) != 0 {
				f.Type = wrap(rng, known[rng.Intn(len(known))])
			}
			if opt.Rich && rng.Intn(3) == 0 {
				if s.Def("Filter") != nil {
					f.Args = append(f.Args, Arg{Name: "filter", Type: "Filter"})
				} else {
					f.Args = append(f.Args, Arg{Name: "n", Type: "Int", Default: "1"})
				}
			}
			q.Fields = append(q.Fields, f)
		}
		if s.Def("Node") != nil && rng.Intn(3) != 0 {
			q.Fields = append(q.Fields, Field{Name: "node", Args: []Arg{{Name: "id", Type: "ID!"}}, Type: "Node"})
		}
		if rng.Intn(3) == 0 {
			m := s.ensure("OBJECT", "Mutation")
			f := Field{Name: fmt.Sprintf("m%d_0", si), Type: "String", Args: []Arg{{Name: "v", Type: "String"}}}
			if len(known) > 0 && rng.Intn(2) == 0 {
				f.Type = known[rng.Intn(len(known))]
			}
			m.Fields = append(m.Fields, f)
		}
	}
	if rng.Intn(3) == 0 {
		Dunder(rand.New(rand.NewSource(rng.Int63())), ss)
	}
	return ss
}

var identRe = regexp.MustCompile(`[A-Za-z_][A-Za-z0-9_]*`)
var digitRe = regexp.MustCompile(`[0-9]`)

// Dunder renames, consistently over the whole set, some fields and types to legal names with a double
// underscore inside (n0__f1, V__1): only a leading "__" is reserved for introspection.
func Dunder(rng *rand.Rand, ss []*Service) {
	keep := map[string]bool{"Query": true, "Mutation": true, "Subscription": true, "Node": true, "id": true, "node": true,
		"String": true, "Int": true, "Boolean": true, "ID": true, "Float": true}
	ren := map[string]string{}
	decide := func(name string, one int) {
		if keep[name] || strings.HasPrefix(name, "__") {
			return
		}
		if _, seen := ren[name]; seen {
			return
		}
		ren[name] = name
		if rng.Intn(one) != 0 {
			return
		}
		if i := strings.Index(name, "_"); i > 0 {
			ren[name] = name[:i] + "_" + name[i:]
		} else if loc := digitRe.FindStringIndex(name); loc != nil && loc[0] > 0 {
			ren[name] = name[:loc[0]] + "__" + name[loc[0]:]
		} else {
			ren[name] = name + "__x"
		}
	}
	var types, fields []string
	for _, s := range ss {
		for _, d := range s.Defs {
			types = append(types, d.Name)
			if d.Kind == "ENUM" {
				continue
			}
			for _, f := range d.Fields {
				fields = append(fields, f.Name)
			}
		}
	}
	for _, t := range types {
		decide(t, 4)
	}
	tren := ren
	ren = map[string]string{}
	for _, f := range fields {
		decide(f, 3)
	}
	renameSet(ss, tren, ren)
}

func renameSet(ss []*Service, tren, fren map[string]string) {
	ty := func(t string) string {
		return identRe.ReplaceAllStringFunc(t, func(n string) string {
			if r, ok := tren[n]; ok {
				return r
			}
			return n
		})
	}
	for _, s := range ss {
		for _, d := range s.Defs {
			d.Name = ty(d.Name)
			for i := range d.Ifaces {
				d.Ifaces[i] = ty(d.Ifaces[i])
			}
			for i := range d.UTypes {
				d.UTypes[i] = ty(d.UTypes[i])
			}
			for i := range d.Fields {
				if r, ok := fren[d.Fields[i].Name]; ok {
					d.Fields[i].Name = r
				}
				d.Fields[i].Type = ty(d.Fields[i].Type)
				for j := range d.Fields[i].Args {
					d.Fields[i].Args[j].Type = ty(d.Fields[i].Args[j].Type)
				}
			}
		}
	}
}

// ConflictKinds lists the conflict-introducing edits of C05.
var ConflictKinds = []string{"dup_root_field", "kind_clash", "node_mismatch", "node_field_overlap", "partial_overlap", "field_signature", "union_members"}

// WrapperConflictKinds: field-signature conflicts that differ in list shape only (applied with their own random
// stream by the driver, so the cases of ConflictKinds stay as they were).
var WrapperConflictKinds = []string{"field_list_wrapper", "field_inner_nullability", "arg_list_wrapper"}

// Conflict applies one conflict-introducing edit to a copy of a mergeable set; ok=false when the set offers no site for it.
func Conflict(rng *rand.Rand, base []*Service, kind string) (out []*Service, ok bool) {
	ss := CloneSet(base)
	if len(ss) < 2 {
		ss = append(ss, &Service{URL: fmt.Sprintf("http://svc%d", len(ss)), Defs: []*Def{{Kind: "OBJECT", Name: "Query", Fields: []Field{{Name: "qx_0", Type: "String"}}}}})
	}
	i := rng.Intn(len(ss))
	j := rng.Intn(len(ss) - 1)
	if j >= i {
		j++
	}
	a, b := ss[i], ss[j]
	addNode := func(s *Service) {
		if s.Def("Node") == nil {
			s.Defs = append(s.Defs, &Def{Kind: "INTERFACE", Name: "Node", Fields: []Field{{Name: "id", Type: "ID!"}}})
		}
	}
	switch kind {
	case "dup_root_field":
		qa := a.Def("Query")
		f := qa.Fields[0]
		if f.Name == "node" {
			return nil, false
		}
		nf := Field{Name: f.Name, Type: "String"}
		b.ensure("OBJECT", "Query").Fields = append(b.Def("Query").Fields, nf)
	case "kind_clash":
		// any two different kinds under one name, in either order of the service list
		kinds := []string{"OBJECT", "ENUM", "SCALAR", "INPUT_OBJECT", "INTERFACE"}
		ka := rng.Intn(len(kinds))
		kb := rng.Intn(len(kinds) - 1)
		if kb >= ka {
			kb++
		}
		mk := func(s *Service, k string) {
			d := s.ensure(k, "Clash")
			switch k {
			case "ENUM":
				d.EValues = []string{"A", "B"}
			case "SCALAR":
			default:
				d.Fields = []Field{{Name: "x", Type: "Int"}}
			}
		}
		mk(a, kinds[ka])
		mk(b, kinds[kb])
	case "node_mismatch":
		addNode(a)
		da := a.ensure("OBJECT", "Mis")
		da.Ifaces = []string{"Node"}
		da.Fields = []Field{{Name: "id", Type: "ID!"}, {Name: "p", Type: "Int"}}
		b.ensure("OBJECT", "Mis").Fields = []Field{{Name: "id", Type: "ID!"}, {Name: "r", Type: "Int"}}
	case "node_field_overlap":
		addNode(a)
		addNode(b)
		da := a.ensure("OBJECT", "Ov")
		da.Ifaces = []string{"Node"}
		da.Fields = []Field{{Name: "id", Type: "ID!"}, {Name: "shared", Type: "Int"}, {Name: "onlyA", Type: "Int"}}
		db := b.ensure("OBJECT", "Ov")
		db.Ifaces = []string{"Node"}
		db.Fields = []Field{{Name: "id", Type: "ID!"}, {Name: "shared", Type: "Int"}}
		switch rng.Intn(4) {
		case 0:
			db.Fields = append(db.Fields, Field{Name: "onlyB", Type: "Int"})
		case 1:
			// identical non-id field sets in both services
			da.Fields = []Field{{Name: "id", Type: "ID!"}, {Name: "shared", Type: "Int"}}
		case 2:
			// B is the superset
			da.Fields = []Field{{Name: "id", Type: "ID!"}, {Name: "shared", Type: "Int"}}
			db.Fields = append(db.Fields, Field{Name: "onlyB", Type: "Int"})
		}
	case "partial_overlap":
		kindK := []string{"OBJECT", "INPUT_OBJECT"}[rng.Intn(2)]
		da := a.ensure(kindK, "Part")
		da.Fields = []Field{{Name: "x", Type: "Int"}, {Name: "y", Type: "Int"}}
		db := b.ensure(kindK, "Part")
		db.Fields = []Field{{Name: "x", Type: "Int"}, {Name: "z", Type: "Int"}}
	case "field_signature":
		da := a.ensure("OBJECT", "Sig")
		da.Fields = []Field{{Name: "x", Type: "Int"}}
		db := b.ensure("OBJECT", "Sig")
		if rng.Intn(2) == 0 {
			db.Fields = []Field{{Name: "x", Type: "String"}}
		} else {
			db.Fields = []Field{{Name: "x", Type: "Int", Args: []Arg{{Name: "k", Type: "Int"}}}}
		}
	case "field_list_wrapper", "field_inner_nullability", "arg_list_wrapper":
		// the same innermost type and outer nullability; only the list shape differs
		da := a.ensure("OBJECT", "Sig")
		db := b.ensure("OBJECT", "Sig")
		switch kind {
		case "field_list_wrapper":
			da.Fields, db.Fields = []Field{{Name: "x", Type: "Int"}}, []Field{{Name: "x", Type: "[Int]"}}
		case "field_inner_nullability":
			da.Fields, db.Fields = []Field{{Name: "x", Type: "[Int!]"}}, []Field{{Name: "x", Type: "[Int]"}}
		default:
			da.Fields = []Field{{Name: "x", Type: "Int", Args: []Arg{{Name: "k", Type: "[Int!]"}}}}
			db.Fields = []Field{{Name: "x", Type: "Int", Args: []Arg{{Name: "k", Type: "Int"}}}}
		}
	case "union_members":
		for _, s := range []*Service{a, b} {
			s.ensure("OBJECT", "M1").Fields = []Field{{Name: "m1", Type: "Int"}}
			s.ensure("OBJECT", "M2").Fields = []Field{{Name: "m2", Type: "Int"}}
			s.ensure("OBJECT", "M3").Fields = []Field{{Name: "m3", Type: "Int"}}
		}
		a.ensure("UNION", "UU").UTypes = []string{"M1", "M2"}
		b.ensure("UNION", "UU").UTypes = []string{"M1", "M3"}
	default:
		return nil, false
	}
	if rng.Intn(3) == 0 {
		// the same conflict between names that carry a double underscore inside
		renameSet(ss, map[string]string{"Clash": "Cl__ash", "Mis": "Mi__s", "Ov": "O__v", "Part": "Pa__rt", "Sig": "Si__g", "UU": "U__U", "M3": "M__3"},
			map[string]string{"shared": "sha__red", "x": "x__1", "p": "p__0", "r": "r__0"})
	}
	return ss, true
}
