package coqprint

import (
	"strings"

	"github.com/vektah/gqlparser/v2/ast"
)

// Value renders an ast.Value as Plan.Vars.value.
func Value(v *ast.Value) string {
	if v == nil {
		return "(VLit \"\")"
	}
	switch v.Kind {
	case ast.Variable:
		return "(VVar " + CoqStr(v.Raw) + ")"
	case ast.ListValue:
		items := make([]string, len(v.Children))
		for i, c := range v.Children {
			items[i] = Value(c.Value)
		}
		return "(VList [" + strings.Join(items, "; ") + "])"
	case ast.ObjectValue:
		items := make([]string, len(v.Children))
		for i, c := range v.Children {
			items[i] = "(" + CoqStr(c.Name) + ", " + Value(c.Value) + ")"
		}
		return "(VObj [" + strings.Join(items, "; ") + "])"
	}
	return "(VLit " + CoqStr(v.Raw) + ")"
}

func args(al ast.ArgumentList) string {
	items := make([]string, len(al))
	for i, a := range al {
		items[i] = "(" + CoqStr(a.Name) + ", " + Value(a.Value) + ")"
	}
	return "[" + strings.Join(items, "; ") + "]"
}

func dirs(dl ast.DirectiveList) string {
	items := make([]string, len(dl))
	for i, d := range dl {
		items[i] = "(" + CoqStr(d.Name) + ", " + args(d.Arguments) + ")"
	}
	return "[" + strings.Join(items, "; ") + "]"
}

// SelectionSet renders an ast.SelectionSet as a list of Plan.Vars.sel (fragment spreads must have been inlined).
func SelectionSet(ss ast.SelectionSet) string {
	var items []string
	for _, s := range ss {
		switch s := s.(type) {
		case *ast.Field:
			alias := s.Alias
			if alias == "" {
				alias = s.Name
			}
			items = append(items, "SField "+CoqStr(alias)+" "+CoqStr(s.Name)+" "+args(s.Arguments)+" "+dirs(s.Directives)+" "+SelectionSet(s.SelectionSet))
		case *ast.InlineFragment:
			items = append(items, "SInline "+CoqStr(s.TypeCondition)+" "+dirs(s.Directives)+" "+SelectionSet(s.SelectionSet))
		case *ast.FragmentSpread:
			if s.Definition != nil {
				items = append(items, "SInline "+CoqStr(s.Definition.TypeCondition)+" "+dirs(s.Directives)+" "+SelectionSet(s.Definition.SelectionSet))
			}
		}
	}
	return "[" + strings.Join(items, "; ") + "]"
}
