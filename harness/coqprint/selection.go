package coqprint

import (
	"sort"
	"strings"

	"github.com/vektah/gqlparser/v2/ast"
)

// Value renders an ast.Value as Plan.Vars.value.
func Value(v *ast.Value) string {
	if v == nil {
		return "(VLit \"\")"
	}
	switch v.Kind {
	case ast.Variable:
		return "(VVar " + CoqStr(v.Raw) + ")"
	case ast.ListValue:
		items := make([]string, len(v.Children))
		for i, c := range v.Children {
			items[i] = Value(c.Value)
		}
		return "(VList [" + strings.Join(items, "; ") + "])"
	case ast.ObjectValue:
		items := make([]string, len(v.Children))
		for i, c := range v.Children {
			items[i] = "(" + CoqStr(c.Name) + ", " + Value(c.Value) + ")"
		}
		return "(VObj [" + strings.Join(items, "; ") + "])"
	}
	return "(VLit " + CoqStr(v.Raw) + ")"
}

func args(al ast.ArgumentList) string {
	items := make([]string, len(al))
	for i, a := range al {
		items[i] = "(" + CoqStr(a.Name) + ", " + Value(a.Value) + ")"
	}
	return "[" + strings.Join(items, "; ") + "]"
}

func dirs(dl ast.DirectiveList) string {
	items := make([]string, len(dl))
	for i, d := range dl {
		items[i] = "(" + CoqStr(d.Name) + ", " + args(d.Arguments) + ")"
	}
	return "[" + strings.Join(items, "; ") + "]"
}

// SelectionSet renders an ast.SelectionSet as a list of Plan.Vars.sel (fragment spreads must have been inlined).
func SelectionSet(ss ast.SelectionSet) string {
	var items []string
	for _, s := range ss {
		switch s := s.(type) {
		case *ast.Field:
			alias := s.Alias
			if alias == "" {
				alias = s.Name
			}
			items = append(items, "SField "+CoqStr(alias)+" "+CoqStr(s.Name)+" "+args(s.Arguments)+" "+dirs(s.Directives)+" "+SelectionSet(s.SelectionSet))
		case *ast.InlineFragment:
			items = append(items, "SInline "+CoqStr(s.TypeCondition)+" "+dirs(s.Directives)+" "+SelectionSet(s.SelectionSet))
		case *ast.FragmentSpread:
			if s.Definition != nil {
				items = append(items, "SInline "+CoqStr(s.Definition.TypeCondition)+" "+dirs(s.Directives)+" "+SelectionSet(s.Definition.SelectionSet))
			}
		}
	}
	return "[" + strings.Join(items, "; ") + "]"
}

// ---- Plan.Header: the same selection set with the validator's annotations ----

// TValue renders an ast.Value as Plan.Header.tvalue; names collects the type names the annotations mention.
func TValue(v *ast.Value, names map[string]bool) string {
	if v == nil {
		return "TLeaf"
	}
	if len(v.Children) > 0 {
		def := "None"
		if v.Definition != nil {
			def = "(Some " + CoqStr(v.Definition.Name) + ")"
			names[v.Definition.Name] = true
		}
		items := make([]string, len(v.Children))
		for i, c := range v.Children {
			items[i] = "(" + CoqStr(c.Name) + ", " + TValue(c.Value, names) + ")"
		}
		return "(TKids " + def + " [" + strings.Join(items, "; ") + "])"
	}
	if v.Kind == ast.Variable {
		exp, decl := "None", "None"
		if v.ExpectedType != nil {
			exp = "(Some " + CoqStr(v.ExpectedType.String()) + ")"
		}
		if v.VariableDefinition != nil && v.VariableDefinition.Type != nil {
			decl = "(Some " + CoqStr(v.VariableDefinition.Type.String()) + ")"
		}
		return "(TVar " + CoqStr(v.Raw) + " " + exp + " " + decl + ")"
	}
	return "TLeaf"
}

// tDirs renders applied directives as a list of Plan.Header.dirapp.
func tDirs(dl ast.DirectiveList, names map[string]bool) string {
	ds := make([]string, len(dl))
	for i, d := range dl {
		ddef := "None"
		if d.Definition != nil {
			ads := make([]string, len(d.Definition.Arguments))
			for j, ad := range d.Definition.Arguments {
				ads[j] = "(" + CoqStr(ad.Name) + ", (" + CoqStr(ad.Type.String()) + ", " + CoqStr(ad.Type.Name()) + "))"
			}
			ddef = "(Some [" + strings.Join(ads, "; ") + "])"
		}
		das := make([]string, len(d.Arguments))
		for j, a := range d.Arguments {
			das[j] = "(" + CoqStr(a.Name) + ", " + TValue(a.Value, names) + ")"
		}
		ds[i] = "(" + ddef + ", [" + strings.Join(das, "; ") + "])"
	}
	return "[" + strings.Join(ds, "; ") + "]"
}

// TSelectionSet renders an ast.SelectionSet as a list of Plan.Header.tsel.
func TSelectionSet(ss ast.SelectionSet, names map[string]bool) string {
	var items []string
	for _, s := range ss {
		switch s := s.(type) {
		case *ast.Field:
			fdef := "None"
			if s.Definition != nil && s.Definition.Arguments != nil {
				ads := make([]string, len(s.Definition.Arguments))
				for i, ad := range s.Definition.Arguments {
					ads[i] = "(" + CoqStr(ad.Name) + ", (" + CoqStr(ad.Type.String()) + ", " + CoqStr(ad.Type.Name()) + "))"
					names[ad.Type.Name()] = true
				}
				fdef = "(Some [" + strings.Join(ads, "; ") + "])"
			}
			as := make([]string, len(s.Arguments))
			for i, a := range s.Arguments {
				as[i] = "(" + CoqStr(a.Name) + ", " + TValue(a.Value, names) + ")"
			}
			items = append(items, "TField "+fdef+" ["+strings.Join(as, "; ")+"] "+tDirs(s.Directives, names)+" "+TSelectionSet(s.SelectionSet, names))
		case *ast.InlineFragment:
			items = append(items, "TInline "+tDirs(s.Directives, names)+" "+TSelectionSet(s.SelectionSet, names))
		}
	}
	return "[" + strings.Join(items, "; ") + "]"
}

// HeaderTypes renders the named types (with the types their fields mention, transitively) as Plan.Header.types.
func HeaderTypes(schema *ast.Schema, names map[string]bool) string {
	var order []string
	seen := map[string]bool{}
	var add func(n string)
	add = func(n string) {
		d := schema.Types[n]
		if d == nil || seen[n] {
			return
		}
		seen[n] = true
		order = append(order, n)
		if d.Kind == ast.InputObject {
			for _, f := range d.Fields {
				add(f.Type.Name())
			}
		}
	}
	var ns []string
	for n := range names {
		ns = append(ns, n)
	}
	sort.Strings(ns)
	for _, n := range ns {
		add(n)
	}
	items := make([]string, len(order))
	for i, n := range order {
		d := schema.Types[n]
		var fs []string
		if d.Kind == ast.InputObject {
			for _, f := range d.Fields {
				fs = append(fs, "("+CoqStr(f.Name)+", "+CoqStr(f.Type.String())+")")
			}
		}
		items[i] = "(" + CoqStr(n) + ", [" + strings.Join(fs, "; ") + "])"
	}
	return "[" + strings.Join(items, "; ") + "]"
}
