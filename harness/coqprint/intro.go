package coqprint

import (
	"fmt"
	"sort"
	"strings"

	"github.com/vektah/gqlparser/v2/ast"
)

var builtinDirectives = map[string]bool{"skip": true, "include": true, "deprecated": true, "specifiedBy": true}

func tref(t *ast.Type) string {
	if t == nil {
		return "(TNamed \"\")"
	}
	if t.NonNull {
		inner := *t
		inner.NonNull = false
		return "(TNonNull " + tref(&inner) + ")"
	}
	if t.Elem != nil {
		return "(TList " + tref(t.Elem) + ")"
	}
	return "(TNamed " + CoqStr(t.NamedType) + ")"
}

func optStr(v *ast.Value) string {
	if v == nil {
		return "None"
	}
	return "(Some " + CoqStr(v.String()) + ")"
}

func depOpt(dl ast.DirectiveList) string {
	if d := dl.ForName("deprecated"); d != nil {
		reason := "No longer supported"
		if a := d.Arguments.ForName("reason"); a != nil {
			reason = a.Value.Raw
		}
		return "(Some " + CoqStr(reason) + ")"
	}
	return "None"
}

func ivalues(al ast.ArgumentDefinitionList) string {
	items := make([]string, len(al))
	for i, a := range al {
		items[i] = fmt.Sprintf("mkIV %s %s %s %s", CoqStr(a.Name), CoqStr(a.Description), tref(a.Type), optStr(a.DefaultValue))
	}
	return "[" + strings.Join(items, "; ") + "]"
}

// IntroSchema renders a schema as Intro.Schema.sch (types and directives sorted by name, builtins left out).
func IntroSchema(s *ast.Schema) string {
	var names []string
	for n := range s.Types {
		if strings.HasPrefix(n, "__") || stdScalars[n] {
			continue
		}
		names = append(names, n)
	}
	sort.Strings(names)
	var tds []string
	for _, n := range names {
		d := s.Types[n]
		var fields, inputs, evs, ifs, members []string
		switch d.Kind {
		case ast.Object, ast.Interface:
			for _, f := range d.Fields {
				if strings.HasPrefix(f.Name, "__") {
					continue
				}
				fields = append(fields, fmt.Sprintf("mkFD %s %s %s %s %s", CoqStr(f.Name), CoqStr(f.Description), ivalues(f.Arguments), tref(f.Type), depOpt(f.Directives)))
			}
		case ast.InputObject:
			for _, f := range d.Fields {
				inputs = append(inputs, fmt.Sprintf("mkIV %s %s %s %s", CoqStr(f.Name), CoqStr(f.Description), tref(f.Type), optStr(f.DefaultValue)))
			}
		}
		for _, e := range d.EnumValues {
			evs = append(evs, fmt.Sprintf("mkEV %s %s %s", CoqStr(e.Name), CoqStr(e.Description), depOpt(e.Directives)))
		}
		for _, i := range d.Interfaces {
			ifs = append(ifs, CoqStr(i))
		}
		switch d.Kind {
		case ast.Union:
			for _, m := range d.Types {
				members = append(members, CoqStr(m))
			}
		case ast.Interface:
			for _, p := range s.GetPossibleTypes(d) {
				if p.Kind == ast.Object {
					members = append(members, CoqStr(p.Name))
				}
			}
		}
		tds = append(tds, fmt.Sprintf("mkTD %s %s %s [%s] [%s] [%s] [%s] [%s]", kindOf(d.Kind), CoqStr(d.Name), CoqStr(d.Description),
			strings.Join(fields, "; "), strings.Join(inputs, "; "), strings.Join(ifs, "; "), strings.Join(members, "; "), strings.Join(evs, "; ")))
	}
	var dnames []string
	for n := range s.Directives {
		if !builtinDirectives[n] {
			dnames = append(dnames, n)
		}
	}
	sort.Strings(dnames)
	var dds []string
	for _, n := range dnames {
		d := s.Directives[n]
		locs := make([]string, len(d.Locations))
		for i, l := range d.Locations {
			locs[i] = CoqStr(string(l))
		}
		dds = append(dds, fmt.Sprintf("mkDD %s %s [%s] %s", CoqStr(d.Name), CoqStr(d.Description), strings.Join(locs, "; "), ivalues(d.Arguments)))
	}
	rootName := func(d *ast.Definition) string {
		if d == nil {
			return "None"
		}
		return "(Some " + CoqStr(d.Name) + ")"
	}
	q := `""`
	if s.Query != nil {
		q = CoqStr(s.Query.Name)
	}
	return fmt.Sprintf("(mkSch %s %s %s\n      [%s]\n      [%s])", q, rootName(s.Mutation), rootName(s.Subscription), strings.Join(tds, ";\n       "), strings.Join(dds, "; "))
}
