package coqprint

import (
	"fmt"
	"sort"
	"strings"

	"github.com/vektah/gqlparser/v2/ast"
)

var builtinDirectives = map[string]bool{"skip": true, "include": true, "deprecated": true, "specifiedBy": true}

func tref(t *ast.Type) string {
	if t == nil {
		return "(TNamed \"\")"
	}
	if t.NonNull {
		inner := *t
		inner.NonNull = false
		return "(TNonNull " + tref(&inner) + ")"
	}
	if t.Elem != nil {
		return "(TList " + tref(t.Elem) + ")"
	}
	return "(TNamed " + CoqStr(t.NamedType) + ")"
}

func optStr(v *ast.Value) string {
	if v == nil {
		return "None"
	}
	return "(Some " + CoqStr(v.String()) + ")"
}

func depOpt(dl ast.DirectiveList) string {
	if d := dl.ForName("deprecated"); d != nil {
		reason := "No longer supported"
		if a := d.Arguments.ForName("reason"); a != nil {
			reason = a.Value.Raw
		}
		return "(Some " + CoqStr(reason) + ")"
	}
	return "None"
}

func ivalues(al ast.ArgumentDefinitionList) string {
	items := make([]string, len(al))
	for i, a := range al {
		items[i] = fmt.Sprintf("mkIV %s %s %s %s", CoqStr(a.Name), CoqStr(a.Description), tref(a.Type), optStr(a.DefaultValue))
	}
	return "[" + strings.Join(items, "; ") + "]"
}

// IntroSchema renders a schema as Intro.Schema.sch (types and directives sorted by name, builtins left out).
func IntroSchema(s *ast.Schema) string { return introSchema(s, false) }

// introSchema with all=true keeps the built-in scalars, the introspection types and the built-in directives
func introSchema(s *ast.Schema, all bool) string {
	var names []string
	for n := range s.Types {
		if !all && (strings.HasPrefix(n, "__") || stdScalars[n]) {
			continue
		}
		names = append(names, n)
	}
	sort.Strings(names)
	var tds []string
	for _, n := range names {
		d := s.Types[n]
		var fields, inputs, evs, ifs, members []string
		switch d.Kind {
		case ast.Object, ast.Interface:
			for _, f := range d.Fields {
				if strings.HasPrefix(f.Name, "__") {
					continue
				}
				fields = append(fields, fmt.Sprintf("mkFD %s %s %s %s %s", CoqStr(f.Name), CoqStr(f.Description), ivalues(f.Arguments), tref(f.Type), depOpt(f.Directives)))
			}
		case ast.InputObject:
			for _, f := range d.Fields {
				inputs = append(inputs, fmt.Sprintf("mkIV %s %s %s %s", CoqStr(f.Name), CoqStr(f.Description), tref(f.Type), optStr(f.DefaultValue)))
			}
		}
		for _, e := range d.EnumValues {
			evs = append(evs, fmt.Sprintf("mkEV %s %s %s", CoqStr(e.Name), CoqStr(e.Description), depOpt(e.Directives)))
		}
		for _, i := range d.Interfaces {
			ifs = append(ifs, CoqStr(i))
		}
		switch d.Kind {
		case ast.Union:
			for _, m := range d.Types {
				members = append(members, CoqStr(m))
			}
		case ast.Interface:
			for _, p := range s.GetPossibleTypes(d) {
				if p.Kind == ast.Object {
					members = append(members, CoqStr(p.Name))
				}
			}
		}
		tds = append(tds, fmt.Sprintf("mkTD %s %s %s [%s] [%s] [%s] [%s] [%s]", kindOf(d.Kind), CoqStr(d.Name), CoqStr(d.Description),
			strings.Join(fields, "; "), strings.Join(inputs, "; "), strings.Join(ifs, "; "), strings.Join(members, "; "), strings.Join(evs, "; ")))
	}
	var dnames []string
	for n := range s.Directives {
		if all || !builtinDirectives[n] {
			dnames = append(dnames, n)
		}
	}
	sort.Strings(dnames)
	var dds []string
	for _, n := range dnames {
		d := s.Directives[n]
		locs := make([]string, len(d.Locations))
		for i, l := range d.Locations {
			locs[i] = CoqStr(string(l))
		}
		dds = append(dds, fmt.Sprintf("mkDD %s %s [%s] %s", CoqStr(d.Name), CoqStr(d.Description), strings.Join(locs, "; "), ivalues(d.Arguments)))
	}
	rootName := func(d *ast.Definition) string {
		if d == nil {
			return "None"
		}
		return "(Some " + CoqStr(d.Name) + ")"
	}
	q := `""`
	if s.Query != nil {
		q = CoqStr(s.Query.Name)
	}
	return fmt.Sprintf("(mkSch %s %s %s\n      [%s]\n      [%s])", q, rootName(s.Mutation), rootName(s.Subscription), strings.Join(tds, ";\n       "), strings.Join(dds, "; "))
}

// Schema16 renders a schema as Intro.Exec.sch16: every type and directive, @specifiedBy urls, repeatable directives,
// the schema description.
func Schema16(s *ast.Schema) string {
	var urls, reps []string
	var names []string
	for n := range s.Types {
		names = append(names, n)
	}
	sort.Strings(names)
	for _, n := range names {
		if d := s.Types[n].Directives.ForName("specifiedBy"); d != nil {
			if u := d.Arguments.ForName("url"); u != nil {
				urls = append(urls, "("+CoqStr(n)+", "+CoqStr(u.Value.Raw)+")")
			}
		}
	}
	var dnames []string
	for n := range s.Directives {
		dnames = append(dnames, n)
	}
	sort.Strings(dnames)
	for _, n := range dnames {
		if s.Directives[n].IsRepeatable {
			reps = append(reps, CoqStr(n))
		}
	}
	return fmt.Sprintf("(mkS16 %s [%s] [%s] %s)", introSchema(s, true), strings.Join(urls, "; "), strings.Join(reps, "; "), CoqStr(s.Description))
}

// IntroSelection flattens the selection set of an introspection operation (fragments expanded in place, arguments
// coerced with the variables) into a list of Intro.Exec.isel. ok=false when a response key occurs twice in one
// selection set (field merging is outside the model). depth is the nesting depth of the selection.
func IntroSelection(doc *ast.QueryDocument, ss ast.SelectionSet, vars map[string]interface{}) (term string, depth int, ok bool) {
	var fields []*ast.Field
	var collect func(ss ast.SelectionSet)
	collect = func(ss ast.SelectionSet) {
		for _, sel := range ss {
			switch v := sel.(type) {
			case *ast.Field:
				fields = append(fields, v)
			case *ast.InlineFragment:
				collect(v.SelectionSet)
			case *ast.FragmentSpread:
				if fd := doc.Fragments.ForName(v.Name); fd != nil {
					collect(fd.SelectionSet)
				}
			}
		}
	}
	collect(ss)
	seen := map[string]bool{}
	ok = true
	var items []string
	for _, f := range fields {
		key := f.Alias
		if key == "" {
			key = f.Name
		}
		if seen[key] {
			ok = false
		}
		seen[key] = true
		incl, tname := false, ""
		if a := f.Arguments.ForName("includeDeprecated"); a != nil {
			if v, err := a.Value.Value(vars); err == nil {
				incl, _ = v.(bool)
			}
		}
		if a := f.Arguments.ForName("name"); a != nil {
			if v, err := a.Value.Value(vars); err == nil {
				tname, _ = v.(string)
			}
		}
		sub, d, subok := IntroSelection(doc, f.SelectionSet, vars)
		ok = ok && subok
		if d+1 > depth {
			depth = d + 1
		}
		b := "false"
		if incl {
			b = "true"
		}
		items = append(items, fmt.Sprintf("ISel %s %s %s %s %s", CoqStr(key), CoqStr(f.Name), b, CoqStr(tname), sub))
	}
	return "[" + strings.Join(items, "; ") + "]", depth, ok
}
