package coqprint

import (
	"encoding/json"
	"fmt"
	"io"
	"sort"
	"strings"

	"github.com/buildbuildio/pebbles/requests"

	"verif/harness/hx"
)

// JSON renders a decoded JSON value (json.Number for numbers; *requests.Upload inside variable trees) as a
// Base.Json.json term. fileIndex maps an upload to its JFile index.
func JSON(v interface{}, fileIndex func(*requests.Upload) int) string {
	switch x := v.(type) {
	case nil:
		return "JNull"
	case bool:
		if x {
			return "(JBool true)"
		}
		return "(JBool false)"
	case json.Number:
		// the same text Go prints for the float64 the code under test decodes the number into
		if f, err := x.Float64(); err == nil {
			return "(JNum " + hx.CoqString(fmt.Sprint(f)) + ")"
		}
		return "(JNum " + hx.CoqString(x.String()) + ")"
	case float64:
		return "(JNum " + hx.CoqString(fmt.Sprint(x)) + ")"
	case int:
		return "(JNum " + hx.CoqString(fmt.Sprint(x)) + ")"
	case string:
		return "(JStr " + CoqStr(x) + ")"
	case []interface{}:
		items := make([]string, len(x))
		for i, e := range x {
			items[i] = JSON(e, fileIndex)
		}
		return "(JArr [" + strings.Join(items, "; ") + "])"
	case map[string]interface{}:
		keys := make([]string, 0, len(x))
		for k := range x {
			keys = append(keys, k)
		}
		sort.Strings(keys)
		items := make([]string, len(keys))
		for i, k := range keys {
			items[i] = "(" + CoqStr(k) + ", " + JSON(x[k], fileIndex) + ")"
		}
		return "(JObj [" + strings.Join(items, "; ") + "])"
	case *requests.Upload:
		k := -1
		if fileIndex != nil {
			k = fileIndex(x)
		}
		return fmt.Sprintf("(JFile %d)", k)
	}
	return "(JStr " + CoqStr(fmt.Sprintf("?%T", v)) + ")"
}

// CoqStr prints a Coq string literal; bytes outside printable ASCII are replaced by '?' (the models never look at them).
func CoqStr(s string) string {
	var b strings.Builder
	b.WriteByte('"')
	for i := 0; i < len(s); i++ {
		c := s[i]
		switch {
		case c == '"':
			b.WriteString("\"\"")
		case c < 32 || c > 126:
			b.WriteByte('?')
		default:
			b.WriteByte(c)
		}
	}
	b.WriteByte('"')
	return b.String()
}

// OrderedJSON parses a JSON text keeping object member order and duplicates (as encoding/json sees them).
type OrderedMember struct {
	Key string
	Val interface{}
}
type OrderedObj []OrderedMember

func ParseOrdered(data []byte) (interface{}, bool) {
	dec := json.NewDecoder(strings.NewReader(string(data)))
	dec.UseNumber()
	v, err := parseValue(dec)
	if err != nil {
		return nil, false
	}
	if dec.More() {
		return nil, false
	}
	// anything but the end of the input after the value (also a stray closing bracket) makes the body invalid
	if _, err := dec.Token(); err != io.EOF {
		return nil, false
	}
	return v, true
}

func parseValue(dec *json.Decoder) (interface{}, error) {
	t, err := dec.Token()
	if err != nil {
		return nil, err
	}
	switch d := t.(type) {
	case json.Delim:
		switch d {
		case '{':
			var o OrderedObj
			for dec.More() {
				kt, err := dec.Token()
				if err != nil {
					return nil, err
				}
				k, _ := kt.(string)
				v, err := parseValue(dec)
				if err != nil {
					return nil, err
				}
				o = append(o, OrderedMember{k, v})
			}
			if _, err := dec.Token(); err != nil {
				return nil, err
			}
			if o == nil {
				o = OrderedObj{}
			}
			return o, nil
		case '[':
			a := []interface{}{}
			for dec.More() {
				v, err := parseValue(dec)
				if err != nil {
					return nil, err
				}
				a = append(a, v)
			}
			if _, err := dec.Token(); err != nil {
				return nil, err
			}
			return a, nil
		}
		return nil, fmt.Errorf("unexpected delimiter")
	default:
		return t, nil
	}
}

// OrderedToCoq renders the ordered tree (member order preserved: the Request decoder is order sensitive for duplicates).
func OrderedToCoq(v interface{}) string {
	switch x := v.(type) {
	case OrderedObj:
		items := make([]string, len(x))
		for i, m := range x {
			items[i] = "(" + CoqStr(m.Key) + ", " + OrderedToCoq(m.Val) + ")"
		}
		return "(JObj [" + strings.Join(items, "; ") + "])"
	case []interface{}:
		items := make([]string, len(x))
		for i, e := range x {
			items[i] = OrderedToCoq(e)
		}
		return "(JArr [" + strings.Join(items, "; ") + "])"
	default:
		return JSON(v, nil)
	}
}
