// Package coqprint renders Go values as Gallina terms for the models under /verif/coq.
package coqprint

import (
	"fmt"
	"sort"
	"strings"

	"github.com/vektah/gqlparser/v2/ast"

	"verif/harness/hx"
)

var stdScalars = map[string]bool{"Int": true, "Float": true, "String": true, "Boolean": true, "ID": true}

func kindOf(k ast.DefinitionKind) string {
	switch k {
	case ast.Object:
		return "KObject"
	case ast.Interface:
		return "KInterface"
	case ast.Union:
		return "KUnion"
	case ast.Enum:
		return "KEnum"
	case ast.Scalar:
		return "KScalar"
	case ast.InputObject:
		return "KInput"
	}
	return "KScalar"
}

// CanonDef is the projection of a type definition that the Merge model speaks about.
type CanonDef struct {
	Kind    string     `json:"kind"`
	Name    string     `json:"name"`
	Desc    string     `json:"desc,omitempty"`
	Ifaces  []string   `json:"ifaces,omitempty"`
	Fields  []CanonFld `json:"fields,omitempty"`
	EValues []string   `json:"evalues,omitempty"`
	UTypes  []string   `json:"utypes,omitempty"`
}
type CanonFld struct {
	Name string     `json:"name"`
	Args [][]string `json:"args,omitempty"` // name, type, default ("" none)
	Type string     `json:"type"`
}

func CanonSchema(s *ast.Schema) []CanonDef {
	var names []string
	for n := range s.Types {
		if strings.HasPrefix(n, "__") || stdScalars[n] {
			continue
		}
		names = append(names, n)
	}
	sort.Strings(names)
	var out []CanonDef
	for _, n := range names {
		d := s.Types[n]
		c := CanonDef{Kind: kindOf(d.Kind), Name: d.Name, Desc: d.Description, Ifaces: append([]string(nil), d.Interfaces...), UTypes: append([]string(nil), d.Types...)}
		for _, ev := range d.EnumValues {
			c.EValues = append(c.EValues, ev.Name)
		}
		for _, f := range d.Fields {
			if strings.HasPrefix(f.Name, "__") {
				continue
			}
			cf := CanonFld{Name: f.Name, Type: f.Type.String()}
			if d.Kind == ast.InputObject && f.DefaultValue != nil {
				// the default of an input field is part of what a service declares for it (types are SDL text)
				cf.Type += " = " + f.DefaultValue.String()
			}
			for _, a := range f.Arguments {
				def := ""
				if a.DefaultValue != nil {
					def = a.DefaultValue.String()
				}
				cf.Args = append(cf.Args, []string{a.Name, a.Type.String(), def})
			}
			c.Fields = append(c.Fields, cf)
		}
		out = append(out, c)
	}
	return out
}

func CoqDef(c CanonDef) string {
	fs := make([]string, len(c.Fields))
	for i, f := range c.Fields {
		as := make([]string, len(f.Args))
		for j, a := range f.Args {
			d := "None"
			if a[2] != "" {
				d = "(Some " + hx.CoqString(a[2]) + ")"
			}
			as[j] = fmt.Sprintf("mkArg %s %s %s", hx.CoqString(a[0]), hx.CoqString(a[1]), d)
		}
		fs[i] = fmt.Sprintf("mkField %s %s %s", hx.CoqString(f.Name), hx.CoqList(as), hx.CoqString(f.Type))
	}
	return fmt.Sprintf("mkDef %s %s %s %s %s %s %s", c.Kind, hx.CoqString(c.Name), hx.CoqString(c.Desc), hx.CoqStrList(c.Ifaces),
		hx.CoqList(fs), hx.CoqStrList(c.EValues), hx.CoqStrList(c.UTypes))
}

func CoqSchema(cs []CanonDef) string {
	ds := make([]string, len(cs))
	for i, c := range cs {
		ds[i] = CoqDef(c)
	}
	return "[" + strings.Join(ds, ";\n      ") + "]"
}
