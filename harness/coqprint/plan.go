package coqprint

import (
	"sort"
	"strings"

	"github.com/buildbuildio/pebbles/merger"
	"github.com/buildbuildio/pebbles/planner"
	"github.com/vektah/gqlparser/v2/ast"
)

// PSels renders a selection set as a list of Plan.Steps.psel: the Alias as it stands ("" on fields the gateway
// adds), the field name, the named type of its definition ("" when there is none), the sub-selections.
func PSels(ss ast.SelectionSet) string {
	items := make([]string, 0, len(ss))
	for _, s := range ss {
		switch s := s.(type) {
		case *ast.Field:
			ty := ""
			if s.Definition != nil && s.Definition.Type != nil {
				ty = s.Definition.Type.Name()
			}
			// the gateway's own node(id: $id) { ... on T { ... } } (convertSelectionSetToNodeQuery): no alias,
			// a definition without a type, one inline fragment
			if s.Name == "node" && s.Alias == "" && ty == "" && len(s.SelectionSet) == 1 {
				if fr, ok := s.SelectionSet[0].(*ast.InlineFragment); ok {
					items = append(items, "PNode "+CoqStr(fr.TypeCondition)+" "+PSels(fr.SelectionSet))
					continue
				}
			}
			items = append(items, "PField "+CoqStr(s.Alias)+" "+CoqStr(s.Name)+" "+CoqStr(ty)+" "+PSels(s.SelectionSet))
		case *ast.InlineFragment:
			items = append(items, "PInline "+CoqStr(s.TypeCondition)+" "+PSels(s.SelectionSet))
		case *ast.FragmentSpread:
			items = append(items, "PInline \"<fragment spread>\" []")
		}
	}
	return "[" + strings.Join(items, "; ") + "]"
}

func strList(l []string) string {
	q := make([]string, len(l))
	for i, x := range l {
		q[i] = CoqStr(x)
	}
	return "[" + strings.Join(q, "; ") + "]"
}

// PSteps renders plan steps as a list of Plan.Steps.step.
func PSteps(steps []*planner.QueryPlanStep) string {
	items := make([]string, len(steps))
	for i, s := range steps {
		items[i] = "mkStep " + CoqStr(s.URL) + " " + CoqStr(s.ParentType) + " " + strList(s.InsertionPoint) + " " + PSels(s.SelectionSet) + " " + PSteps(s.Then)
	}
	return "[" + strings.Join(items, ";\n      ") + "]"
}

// TMap renders the routing table as Merge.Model.tmap (types and fields in name order).
func TMap(tm merger.TypeURLMap) string {
	var tns []string
	for t := range tm {
		tns = append(tns, t)
	}
	sort.Strings(tns)
	items := make([]string, len(tns))
	for i, t := range tns {
		p := tm[t]
		var fns []string
		for f := range p.Fields {
			fns = append(fns, f)
		}
		sort.Strings(fns)
		fs := make([]string, len(fns))
		for j, f := range fns {
			fs[j] = "(" + CoqStr(f) + ", " + CoqStr(p.Fields[f]) + ")"
		}
		b := "false"
		if p.IsImplementsNode {
			b = "true"
		}
		items[i] = "(" + CoqStr(t) + ", mkTP " + b + " [" + strings.Join(fs, "; ") + "])"
	}
	return "[" + strings.Join(items, "; ") + "]"
}

// PSchema renders what the planner reads from the merged schema as Plan.Steps.pschema.
func PSchema(s *ast.Schema) string {
	var names []string
	for n := range s.Types {
		if !strings.HasPrefix(n, "__") {
			names = append(names, n)
		}
	}
	sort.Strings(names)
	var ifaces, poss, fields []string
	for _, n := range names {
		d := s.Types[n]
		if d.Kind == ast.Interface {
			ifaces = append(ifaces, n)
		}
		if d.Kind == ast.Interface || d.Kind == ast.Union {
			var ps []string
			for _, p := range s.PossibleTypes[n] {
				ps = append(ps, p.Name)
			}
			poss = append(poss, "("+CoqStr(n)+", "+strList(ps)+")")
		}
		if d.Kind == ast.Object || d.Kind == ast.Interface {
			var fs []string
			for _, f := range d.Fields {
				fs = append(fs, f.Name)
			}
			fields = append(fields, "("+CoqStr(n)+", "+strList(fs)+")")
		}
	}
	return "(mkPS " + strList(names) + " " + strList(ifaces) + " [" + strings.Join(poss, "; ") + "] [" + strings.Join(fields, "; ") + "])"
}

// ---- Plan.Sanitize ----

// SSels renders a selection set as a list of Plan.Sanitize.ssel. Fragment spreads are rendered as the inline
// fragment sanitizeSelectionSet turns them into. ok=false when a fragment definition is spread more than once
// (the sanitizer edits the shared definition in place: outside the pure model).
func SSels(ss ast.SelectionSet, spreads map[string]int) string {
	items := make([]string, 0, len(ss))
	for _, s := range ss {
		switch s := s.(type) {
		case *ast.Field:
			ty := ""
			if s.Definition != nil && s.Definition.Type != nil {
				ty = s.Definition.Type.Name()
			}
			items = append(items, "SanField "+CoqStr(s.Alias)+" "+CoqStr(s.Name)+" "+CoqStr(ty)+" "+itoa(len(s.Directives))+" "+SSels(s.SelectionSet, spreads))
		case *ast.InlineFragment:
			od := ""
			if s.ObjectDefinition != nil {
				od = s.ObjectDefinition.Name
			}
			items = append(items, "SanFrag "+CoqStr(s.TypeCondition)+" "+CoqStr(od)+" "+itoa(len(s.Directives))+" "+SSels(s.SelectionSet, spreads))
		case *ast.FragmentSpread:
			od := ""
			if s.ObjectDefinition != nil {
				od = s.ObjectDefinition.Name
			}
			if s.Definition != nil {
				if spreads != nil {
					spreads[s.Name]++
				}
				items = append(items, "SanFrag "+CoqStr(s.Definition.TypeCondition)+" "+CoqStr(od)+" "+itoa(len(s.Directives))+" "+SSels(s.Definition.SelectionSet, spreads))
			}
		}
	}
	return "[" + strings.Join(items, "; ") + "]"
}

func itoa(n int) string {
	b := []byte{}
	if n == 0 {
		return "0"
	}
	for n > 0 {
		b = append([]byte{byte('0' + n%10)}, b...)
		n /= 10
	}
	return string(b)
}

// SSchema renders the schema facts the sanitizer reads as Plan.Sanitize.sschema.
func SSchema(s *ast.Schema) string {
	var names []string
	for n := range s.Types {
		names = append(names, n)
	}
	sort.Strings(names)
	var kinds, poss, hasID []string
	for _, n := range names {
		d := s.Types[n]
		switch d.Kind {
		case ast.Interface:
			kinds = append(kinds, "("+CoqStr(n)+", KIface)")
		case ast.Union:
			kinds = append(kinds, "("+CoqStr(n)+", KUnion)")
		default:
			continue
		}
		var ps []string
		for _, p := range s.PossibleTypes[n] {
			ps = append(ps, p.Name)
		}
		poss = append(poss, "("+CoqStr(n)+", "+strList(ps)+")")
		if d.Fields.ForName("id") != nil {
			hasID = append(hasID, n)
		}
	}
	return "(mkSS [" + strings.Join(kinds, "; ") + "] [" + strings.Join(poss, "; ") + "] " + strList(hasID) + ")"
}

// Scrub renders ScrubFields as Plan.Sanitize.scrub (sorted).
func Scrub(sf planner.ScrubFields) string {
	var items []string
	for path, m := range sf {
		for t, fs := range m {
			for _, f := range fs {
				items = append(items, "("+CoqStr(path)+", "+CoqStr(t)+", "+CoqStr(f)+")")
			}
		}
	}
	sort.Strings(items)
	return "[" + strings.Join(items, "; ") + "]"
}
