module verif/harness

go 1.18

require (
	github.com/buildbuildio/pebbles v0.0.0
	github.com/gobwas/ws v1.1.0
	github.com/vektah/gqlparser/v2 v2.5.1
)

require (
	github.com/agnivade/levenshtein v1.1.1 // indirect
	github.com/gobwas/httphead v0.1.0 // indirect
	github.com/gobwas/pool v0.2.1 // indirect
	github.com/samber/lo v1.37.0 // indirect
	golang.org/x/exp v0.0.0-20220303212507-bbda1eaf7a17 // indirect
)

replace github.com/buildbuildio/pebbles => /repo
