package main

import (
	"bytes"
	"fmt"
	"net/http"
	"net/http/httptest"
	"encoding/json"
	"os"

	pebbles "github.com/buildbuildio/pebbles"
	"github.com/buildbuildio/pebbles/merger"
	"github.com/vektah/gqlparser/v2"
	"github.com/vektah/gqlparser/v2/ast"
)

type mi struct{ res []*ast.Schema }

func (m *mi) IntrospectRemoteSchemas(urls ...string) ([]*ast.Schema, error) { return m.res, nil }

func main() {
	sdl := "type Query { a: Int @deprecated b(x: Int = 3): T }\n type T { id: ID! }"
	s, _ := gqlparser.LoadSchema(&ast.Source{Input: sdl})
	gw, err := pebbles.NewGateway([]string{"http://a"}, pebbles.WithRemoteSchemaIntrospector(&mi{[]*ast.Schema{s}}), pebbles.WithMerger(merger.ExtendMergerFunc(nil)))
	if err != nil {
		panic(err)
	}
	for _, q := range os.Args[1:] {
		b, _ := json.Marshal(map[string]interface{}{"query": q})
		req := httptest.NewRequest(http.MethodPost, "http://gw/graphql", bytes.NewReader(b))
		req.Header.Set("Content-Type", "application/json")
		rec := httptest.NewRecorder()
		gw.Handler(rec, req)
		fmt.Println(q, "\n  =>", rec.Body.String())
	}
}
