package main

import (
	"bytes"
	"encoding/json"
	"fmt"
	"io"
	"math/rand"
	"mime"
	"mime/multipart"
	"net/http"
	"net/http/httptest"
	"sort"
	"strconv"
	"strings"
	"sync"

	pebbles "github.com/buildbuildio/pebbles"
	"github.com/buildbuildio/pebbles/planner"
	"github.com/buildbuildio/pebbles/queryer"
	"github.com/buildbuildio/pebbles/requests"

	"verif/harness/coqprint"
	"verif/harness/hx"
)

func init() { drivers["C19"] = driveC19 }

// ---- a variable tree with uploads, as plain data (for replay) ----
type vtree struct {
	Kind string            `json:"k"` // null str num file obj arr
	S    string            `json:"s,omitempty"`
	File int               `json:"f,omitempty"`
	Obj  map[string]*vtree `json:"o,omitempty"`
	Arr  []*vtree          `json:"a,omitempty"`
}

type c19Case struct {
	Vars  map[string]*vtree `json:"variables"`
	Files [][]int           `json:"files"` // content bytes per file id
	E2E   bool              `json:"end_to_end"`
	Batch int               `json:"batch_size"`
}

func genTree(rng *rand.Rand, depth, nfiles int) *vtree {
	r := rng.Intn(10)
	switch {
	case r < 3 && nfiles > 0:
		return &vtree{Kind: "file", File: rng.Intn(nfiles)}
	case r < 5 && depth > 0:
		o := &vtree{Kind: "obj", Obj: map[string]*vtree{}}
		for i := 0; i < 1+rng.Intn(3); i++ {
			o.Obj[[]string{"a", "b", "file", "0", "x1", "files"}[rng.Intn(6)]] = genTree(rng, depth-1, nfiles)
		}
		return o
	case r < 7 && depth > 0:
		a := &vtree{Kind: "arr"}
		for i := 0; i < rng.Intn(4); i++ {
			a.Arr = append(a.Arr, genTree(rng, depth-1, nfiles))
		}
		return a
	case r < 8:
		return &vtree{Kind: "null"}
	case r < 9:
		return &vtree{Kind: "str", S: "s" + strconv.Itoa(rng.Intn(9))}
	}
	return &vtree{Kind: "num", S: strconv.Itoa(rng.Intn(100))}
}

type nopCloser struct{ io.Reader }

func (nopCloser) Close() error { return nil }

func (t *vtree) toGo(uploads []*requests.Upload) interface{} {
	switch t.Kind {
	case "null":
		return nil
	case "str":
		return t.S
	case "num":
		n, _ := strconv.Atoi(t.S)
		return float64(n)
	case "file":
		return uploads[t.File]
	case "obj":
		m := map[string]interface{}{}
		for k, v := range t.Obj {
			m[k] = v.toGo(uploads)
		}
		return m
	case "arr":
		a := []interface{}{}
		for _, v := range t.Arr {
			a = append(a, v.toGo(uploads))
		}
		return a
	}
	return nil
}

func (t *vtree) toCoq() string {
	switch t.Kind {
	case "null":
		return "JNull"
	case "str":
		return "(JStr " + coqprint.CoqStr(t.S) + ")"
	case "num":
		return "(JNum " + coqprint.CoqStr(t.S) + ")"
	case "file":
		return fmt.Sprintf("(JFile %d)", t.File)
	case "obj":
		keys := make([]string, 0, len(t.Obj))
		for k := range t.Obj {
			keys = append(keys, k)
		}
		sort.Strings(keys)
		items := make([]string, len(keys))
		for i, k := range keys {
			items[i] = "(" + coqprint.CoqStr(k) + ", " + t.Obj[k].toCoq() + ")"
		}
		return "(JObj [" + strings.Join(items, "; ") + "])"
	case "arr":
		items := make([]string, len(t.Arr))
		for i, v := range t.Arr {
			items[i] = v.toCoq()
		}
		return "(JArr [" + strings.Join(items, "; ") + "])"
	}
	return "JNull"
}

// resolve a dotted map position against the original tree into segments
func resolveSegs(vars map[string]*vtree, path string) (string, bool) {
	parts := strings.Split(path, ".")
	if len(parts) < 2 || parts[0] != "variables" {
		return "", false
	}
	cur := &vtree{Kind: "obj", Obj: vars}
	var segs []string
	for _, p := range parts[1:] {
		switch cur.Kind {
		case "obj":
			nx, ok := cur.Obj[p]
			if !ok {
				return "", false
			}
			segs = append(segs, "Key "+coqprint.CoqStr(p))
			cur = nx
		case "arr":
			i, err := strconv.Atoi(p)
			if err != nil || i < 0 || i >= len(cur.Arr) {
				return "", false
			}
			segs = append(segs, fmt.Sprintf("Idx %d", i))
			cur = cur.Arr[i]
		default:
			return "", false
		}
	}
	return "[" + strings.Join(segs, "; ") + "]", cur.Kind == "file"
}

type capturedMultipart struct {
	Operations map[string]interface{}
	Map        map[string][]string
	Parts      map[string][2]string // key -> filename, content
}

type captureRT struct {
	mu       sync.Mutex
	captured []*capturedMultipart
	jsonReqs [][]byte
	respond  func(isMultipart bool, ops []byte) []byte
}

func (c *captureRT) RoundTrip(r *http.Request) (*http.Response, error) {
	body, _ := io.ReadAll(r.Body)
	mt, params, _ := mime.ParseMediaType(r.Header.Get("Content-Type"))
	mk := func(b []byte) *http.Response {
		return &http.Response{StatusCode: 200, Body: io.NopCloser(bytes.NewReader(b)), Header: http.Header{}}
	}
	if mt == "multipart/form-data" {
		mr := multipart.NewReader(bytes.NewReader(body), params["boundary"])
		form, err := mr.ReadForm(1 << 22)
		if err != nil {
			return nil, err
		}
		cm := &capturedMultipart{Parts: map[string][2]string{}}
		dec := json.NewDecoder(strings.NewReader(form.Value["operations"][0]))
		dec.UseNumber()
		dec.Decode(&cm.Operations)
		if len(form.Value["map"]) > 0 {
			json.Unmarshal([]byte(form.Value["map"][0]), &cm.Map)
		}
		for k, fhs := range form.File {
			f, _ := fhs[0].Open()
			b, _ := io.ReadAll(f)
			cm.Parts[k] = [2]string{fhs[0].Filename, string(b)}
		}
		c.mu.Lock()
		c.captured = append(c.captured, cm)
		c.mu.Unlock()
		if c.respond != nil {
			return mk(c.respond(true, []byte(form.Value["operations"][0]))), nil
		}
		return mk([]byte(`{"data":{"ok":true}}`)), nil
	}
	c.mu.Lock()
	c.jsonReqs = append(c.jsonReqs, body)
	c.mu.Unlock()
	if c.respond != nil {
		return mk(c.respond(false, body)), nil
	}
	var rs []json.RawMessage
	json.Unmarshal(body, &rs)
	out := make([]map[string]interface{}, len(rs))
	for i := range out {
		out[i] = map[string]interface{}{"data": map[string]interface{}{"ok": true}}
	}
	b, _ := json.Marshal(out)
	return mk(b), nil
}

var c19Names = []string{"upload-0.bin", "report \"final\" v2.pdf", "a b;c=d.txt", "back\\slash.bin"}

func fileName(k int) string { return c19Names[k%len(c19Names)] }

func runC19Component(c c19Case) (coq string, what string) {
	uploads := make([]*requests.Upload, len(c.Files))
	contents := make([]string, len(c.Files))
	for k, bs := range c.Files {
		b := make([]byte, len(bs))
		for i, x := range bs {
			b[i] = byte(x)
		}
		contents[k] = string(b)
		uploads[k] = &requests.Upload{File: nopCloser{bytes.NewReader(b)}, FileName: fileName(k)}
	}
	vars := map[string]interface{}{}
	for k, v := range c.Vars {
		vars[k] = v.toGo(uploads)
	}
	rt := &captureRT{}
	q := queryer.NewMultiOpQueryer("http://svc.invalid/graphql", 10).WithHTTPClient(&http.Client{Transport: rt})
	_, err := q.Query([]*requests.Request{{Query: "mutation { ok }", Variables: vars}})
	if err != nil {
		return "", "MultiOpQueryer.Query failed on a well-formed upload request: " + err.Error()
	}
	// observed
	var obsVars string = "[]"
	var parts []string
	usesFile := false
	var walk func(t *vtree)
	walk = func(t *vtree) {
		if t.Kind == "file" {
			usesFile = true
		}
		for _, v := range t.Obj {
			walk(v)
		}
		for _, v := range t.Arr {
			walk(v)
		}
	}
	for _, v := range c.Vars {
		walk(v)
	}
	if !usesFile {
		if len(rt.captured) != 0 {
			return "", "a request without uploads was sent as multipart"
		}
		// plain JSON request: variables unchanged
		var rs []map[string]interface{}
		dec := json.NewDecoder(bytes.NewReader(rt.jsonReqs[0]))
		dec.UseNumber()
		dec.Decode(&rs)
		if vm, ok := rs[0]["variables"].(map[string]interface{}); ok {
			obsVars = strings.TrimSuffix(strings.TrimPrefix(coqprint.JSON(vm, nil), "(JObj "), ")")
		}
	} else {
		if len(rt.captured) != 1 {
			return "", fmt.Sprintf("expected one multipart request, saw %d", len(rt.captured))
		}
		cm := rt.captured[0]
		if vm, ok := cm.Operations["variables"].(map[string]interface{}); ok {
			obsVars = strings.TrimSuffix(strings.TrimPrefix(coqprint.JSON(vm, nil), "(JObj "), ")")
		}
		// the property, directly: each original upload position is named by the map and refers to a part with the same name and bytes
		pathToPart := map[string]string{}
		for key, ps := range cm.Map {
			for _, p := range ps {
				pathToPart[p] = key
			}
		}
		var check func(t *vtree, path string)
		check = func(t *vtree, path string) {
			switch t.Kind {
			case "file":
				key, ok := pathToPart[path]
				if !ok {
					what = fmt.Sprintf("upload at %s is not named by the forwarded map %v", path, cm.Map)
					return
				}
				part, ok := cm.Parts[key]
				if !ok {
					what = fmt.Sprintf("map names part %q for %s but no such part was sent", key, path)
					return
				}
				if part[0] != fileName(t.File) || part[1] != contents[t.File] {
					what = fmt.Sprintf("upload at %s arrived as name=%q bytes=%v, sent name=%q bytes=%v", path, part[0], []byte(part[1]), fileName(t.File), []byte(contents[t.File]))
				}
			case "obj":
				for k, v := range t.Obj {
					check(v, path+"."+k)
				}
			case "arr":
				for i, v := range t.Arr {
					check(v, path+"."+strconv.Itoa(i))
				}
			}
		}
		for k, v := range c.Vars {
			check(v, "variables."+k)
		}
		for key, ps := range cm.Map {
			part := cm.Parts[key]
			fid := 9999
			for k := range c.Files {
				if fileName(k) == part[0] {
					fid = k
				}
			}
			var segss []string
			for _, p := range ps {
				s, isFile := resolveSegs(c.Vars, p)
				if !isFile && what == "" {
					what = fmt.Sprintf("forwarded map position %q does not point at an upload of the client's variables", p)
				}
				segss = append(segss, s)
			}
			bs := make([]int, len(part[1]))
			for i := 0; i < len(part[1]); i++ {
				bs[i] = int(part[1][i])
			}
			parts = append(parts, fmt.Sprintf("(%d, [%s], %s)", fid, strings.Join(segss, "; "), hx.CoqNatList(bs)))
		}
		sort.Strings(parts)
	}
	keys := make([]string, 0, len(c.Vars))
	for k := range c.Vars {
		keys = append(keys, k)
	}
	sort.Strings(keys)
	vitems := make([]string, len(keys))
	for i, k := range keys {
		vitems[i] = "(" + coqprint.CoqStr(k) + ", " + c.Vars[k].toCoq() + ")"
	}
	fitems := make([]string, len(c.Files))
	for k, bs := range c.Files {
		fitems[k] = fmt.Sprintf("(%d, %s)", k, hx.CoqNatList(bs))
	}
	coq = fmt.Sprintf("mkCase [%s] [%s] %s [%s]", strings.Join(vitems, "; "), strings.Join(fitems, "; "), obsVars, strings.Join(parts, "; "))
	return coq, what
}

// ---- end to end: client multipart -> gateway -> owning service gets the file, the other service none ----
const c19SvcA = `scalar Upload
interface Node { id: ID! }
type Doc implements Node { id: ID! title: String }
type Query { docs: [Doc!]! node(id: ID!): Node }
type Mutation { store(file: Upload!, files: [Upload], note: String): Doc }
`
const c19SvcB = `interface Node { id: ID! }
type Doc implements Node { id: ID! size: Int }
type Query { sizes: [Doc!]! node(id: ID!): Node }
`

func runC19E2E(c c19Case, rng *rand.Rand) string {
	schemas, err := loadSchemas([]string{c19SvcA, c19SvcB})
	if err != nil {
		return "harness: " + err.Error()
	}
	rts := map[string]*captureRT{}
	for _, u := range []string{"http://a", "http://b"} {
		u := u
		rts[u] = &captureRT{respond: func(isMultipart bool, ops []byte) []byte {
			if u == "http://a" {
				one := `{"data":{"store":{"id":"Doc_1","title":"t"}}}`
				if isMultipart {
					return []byte(one)
				}
				var rs []json.RawMessage
				json.Unmarshal(ops, &rs)
				parts := make([]string, len(rs))
				for i := range parts {
					parts[i] = one
				}
				return []byte("[" + strings.Join(parts, ",") + "]")
			}
			var rs []json.RawMessage
			json.Unmarshal(ops, &rs)
			parts := make([]string, len(rs))
			for i := range parts {
				parts[i] = `{"data":{"node":{"size":42}}}`
			}
			return []byte("[" + strings.Join(parts, ",") + "]")
		}}
	}
	gw, err := pebbles.NewGateway([]string{"http://a", "http://b"},
		pebbles.WithRemoteSchemaIntrospector(&mockIntrospector{res: schemas}),
		pebbles.WithQueryerFactory(func(ctx *planner.PlanningContext, url string) queryer.Queryer {
			return queryer.NewMultiOpQueryer(url, 10).WithHTTPClient(&http.Client{Transport: rts[url]})
		}))
	if err != nil {
		return "harness: " + err.Error()
	}
	content := make([]byte, len(c.Files[0]))
	for i, x := range c.Files[0] {
		content[i] = byte(x)
	}
	twoPaths := len(c.Files) > 1
	op := `mutation($f: Upload!, $fs: [Upload], $n: String) { store(file: $f, files: $fs, note: $n) { id title size } }`
	one := fmt.Sprintf(`{"query": %q, "variables": {"f": null, "fs": [null, null], "n": "hello"}}`, op)
	var buf bytes.Buffer
	w := multipart.NewWriter(&buf)
	mp := map[string][]string{"0": {"variables.f"}}
	if twoPaths {
		mp["0"] = append(mp["0"], "variables.fs.1")
	}
	if c.Batch > 0 {
		w.WriteField("operations", "["+one+"]")
		for k, ps := range mp {
			for i := range ps {
				mp[k][i] = "0." + ps[i]
			}
		}
	} else {
		w.WriteField("operations", one)
	}
	mb, _ := json.Marshal(mp)
	w.WriteField("map", string(mb))
	fw, _ := w.CreateFormFile("0", "cli\"ent na;me.bin")
	fw.Write(content)
	w.Close()
	req := httptest.NewRequest(http.MethodPost, "http://gw/graphql", &buf)
	req.Header.Set("Content-Type", w.FormDataContentType())
	rec := httptest.NewRecorder()
	gw.Handler(rec, req)
	if rec.Code != 200 {
		return fmt.Sprintf("well-formed multipart request answered with status %d: %s", rec.Code, shortStr(rec.Body.String(), 200))
	}
	var resp interface{}
	json.Unmarshal(rec.Body.Bytes(), &resp)
	if arr, ok := resp.([]interface{}); ok && len(arr) == 1 {
		resp = arr[0]
	}
	m, _ := resp.(map[string]interface{})
	if m == nil || m["errors"] != nil {
		return "upload mutation answered with errors: " + shortStr(rec.Body.String(), 300)
	}
	want := `{"store":{"id":"Doc_1","size":42,"title":"t"}}`
	if got := normJSON(m["data"]); got != want {
		return "upload mutation data: got " + got + " want " + want
	}
	a, b := rts["http://a"], rts["http://b"]
	if len(b.captured) != 0 {
		return "the service that does not use the file variable received a multipart request"
	}
	for _, jr := range b.jsonReqs {
		if strings.Contains(string(jr), "\"f\"") || strings.Contains(string(jr), "\"fs\"") {
			return "the service that does not use the file variable received it: " + shortStr(string(jr), 200)
		}
	}
	if len(a.captured) != 1 {
		return fmt.Sprintf("the owning service received %d multipart requests, expected 1", len(a.captured))
	}
	cm := a.captured[0]
	pathToPart := map[string]string{}
	for key, ps := range cm.Map {
		for _, p := range ps {
			pathToPart[p] = key
		}
	}
	wantPaths := []string{"variables.f"}
	if twoPaths {
		wantPaths = append(wantPaths, "variables.fs.1")
	}
	for _, p := range wantPaths {
		key, ok := pathToPart[p]
		if !ok {
			return fmt.Sprintf("owning service: map %v does not name %s", cm.Map, p)
		}
		part := cm.Parts[key]
		if part[0] != "cli\"ent na;me.bin" || part[1] != string(content) {
			return fmt.Sprintf("owning service: %s refers to name=%q bytes=%v, client sent name=%q bytes=%v", p, part[0], []byte(part[1]), "cli\"ent na;me.bin", content)
		}
	}
	vm, _ := cm.Operations["variables"].(map[string]interface{})
	if vm == nil || vm["f"] != nil || fmt.Sprint(vm["n"]) != "hello" {
		return fmt.Sprintf("owning service: forwarded variables %v", vm)
	}
	return ""
}

func driveC19(seed int64, tier, out, replay string) {
	rng := hx.NewRand(seed)
	obs := hx.NewObs("C19", seed, tier)
	n := 400
	if tier == "thorough" {
		n = 5000
	}
	var cases []c19Case
	if replay != "" {
		cases = loadReplayCases[c19Case](replay)
	} else {
		for i := 0; i < n; i++ {
			nf := 1 + rng.Intn(4)
			c := c19Case{Vars: map[string]*vtree{}}
			for k := 0; k < nf; k++ {
				l := rng.Intn(6)
				bs := make([]int, l)
				for j := range bs {
					bs[j] = rng.Intn(10)
				}
				c.Files = append(c.Files, bs)
			}
			if i%8 == 7 {
				c.E2E = true
				c.Batch = rng.Intn(2)
				if len(c.Files[0]) == 0 {
					c.Files[0] = []int{7, 7}
				}
				cases = append(cases, c)
				continue
			}
			for j := 0; j < 1+rng.Intn(4); j++ {
				c.Vars[[]string{"f", "g", "input", "list", "n"}[rng.Intn(5)]] = genTree(rng, 3, nf)
			}
			cases = append(cases, c)
		}
	}
	var coq []string
	distinct := map[string]bool{}
	for i, c := range cases {
		hx.Current(out, i, c)
		if c.E2E {
			if what := runC19E2E(c, rng); what != "" {
				obs.Fail(i, what, c)
			}
			obs.Count("end_to_end")
			coq = append(coq, "mkCase [] [] [] []")
			obs.CaseInputs = append(obs.CaseInputs, c)
			continue
		}
		line, what := runC19Component(c)
		if what != "" {
			obs.Fail(i, what, c)
		}
		if line == "" {
			line = "mkCase [] [] [] []"
		}
		coq = append(coq, line)
		obs.CaseInputs = append(obs.CaseInputs, c)
		if strings.Contains(line, "JFile") {
			distinct[line] = true
			obs.Count("with_uploads")
			if strings.Count(line, "Key") > 0 && strings.Contains(line, "]; [") {
				obs.Count("upload_at_several_paths_or_files")
			}
		} else {
			obs.Count("no_upload")
		}
		if i%57 == 3 && len(obs.Samples) < 5 {
			obs.Samples = append(obs.Samples, map[string]interface{}{"case": c, "coq": shortStr(line, 400)})
		}
	}
	obs.Evaluations = len(cases)
	obs.DistinctNontrivial = len(distinct)
	obs.Rule = "random variable trees (objects/lists to depth 3, 1-4 uploads, the same upload at several paths, keys that look like indexes) handed to the real MultiOpQueryer behind a capturing RoundTripper (re-parsing the multipart body); every 8th case is end-to-end: client multipart -> Gateway.Handler -> two services over real MultiOpQueryers; non-trivial = at least one upload, distinct by (tree, contents)"
	hx.WriteCases(out, "From Pebbles Require Import Base.Json Net.Files Corr.C19.\nFrom Coq Require Import List String. Import ListNotations.\nOpen Scope string_scope.\n", "c19case", coq, "mismatches")
	obs.Write(out)
}
