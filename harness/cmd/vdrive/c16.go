package main

import (
	"bytes"
	"encoding/json"
	"fmt"
	"math/rand"
	"net/http"
	"net/http/httptest"
	"sort"
	"strings"

	pebbles "github.com/buildbuildio/pebbles"
	"github.com/buildbuildio/pebbles/introspection"
	"github.com/buildbuildio/pebbles/merger"
	"github.com/buildbuildio/pebbles/planner"
	"github.com/buildbuildio/pebbles/queryer"
	"github.com/buildbuildio/pebbles/requests"
	"github.com/vektah/gqlparser/v2"
	"github.com/vektah/gqlparser/v2/ast"

	"verif/harness/coqprint"
	"verif/harness/fake"
	"verif/harness/gen"
	"verif/harness/hx"
)

func init() { drivers["C16"] = driveC16 }

type c16Case struct {
	SDLs   []string `json:"service_sdls"`
	Source string   `json:"schema_source"`
	Ops    []c16Op  `json:"operations"`
}

type c16Op struct {
	Query     string                 `json:"query"`
	Variables map[string]interface{} `json:"variables,omitempty"`
	OpName    string                 `json:"operationName,omitempty"`
	Kind      string                 `json:"kind"`
}

// ---- a gateway over SDL documents ----
type miniGW struct {
	GW     *pebbles.Gateway
	Merged *ast.Schema
}

func newMiniGW(sdls []string) (*miniGW, error) {
	urls := make([]string, len(sdls))
	for i := range sdls {
		urls[i] = fmt.Sprintf("http://svc%d", i)
	}
	refIn, err := loadSchemas(sdls)
	if err != nil {
		return nil, err
	}
	var mis []*merger.MergeInput
	for i, s := range refIn {
		mis = append(mis, &merger.MergeInput{Schema: s, URL: urls[i]})
	}
	mr, err := merger.ExtendMergerFunc(nil).Merge(mis)
	if err != nil {
		return nil, fmt.Errorf("merge: %v", err)
	}
	gwIn, _ := loadSchemas(sdls)
	gw, err := pebbles.NewGateway(urls,
		pebbles.WithRemoteSchemaIntrospector(&mockIntrospector{res: gwIn}),
		pebbles.WithMerger(merger.ExtendMergerFunc(nil)),
		pebbles.WithQueryerFactory(func(ctx *planner.PlanningContext, url string) queryer.Queryer { return nopQueryer{url} }))
	if err != nil {
		return nil, fmt.Errorf("gateway: %v", err)
	}
	return &miniGW{GW: gw, Merged: mr.Schema}, nil
}

func (m *miniGW) post(op c16Op) (map[string]interface{}, string) {
	body := map[string]interface{}{"query": op.Query}
	if op.Variables != nil {
		body["variables"] = op.Variables
	}
	if op.OpName != "" {
		body["operationName"] = op.OpName
	}
	b, _ := json.Marshal(body)
	req := httptest.NewRequest(http.MethodPost, "http://gw/graphql", bytes.NewReader(b))
	req.Header.Set("Content-Type", "application/json")
	rec := httptest.NewRecorder()
	panicked := ""
	func() {
		defer func() {
			if p := recover(); p != nil {
				panicked = fmt.Sprint(p)
			}
		}()
		m.GW.Handler(rec, req)
	}()
	if panicked != "" {
		return nil, "handler panicked: " + panicked
	}
	var resp map[string]interface{}
	if err := json.Unmarshal(rec.Body.Bytes(), &resp); err != nil {
		return nil, "response is not JSON: " + rec.Body.String()
	}
	return resp, ""
}

// gwQueryer lets a second gateway's introspector talk to the first gateway over its HTTP handler
type gwQueryer struct{ m *miniGW }

func (q gwQueryer) URL() string { return "http://gw" }
func (q gwQueryer) Subscribe(*requests.Request, <-chan struct{}, chan *requests.Response) error {
	return nil
}
func (q gwQueryer) Query(reqs []*requests.Request) ([]map[string]interface{}, error) {
	var out []map[string]interface{}
	for _, r := range reqs {
		op := c16Op{Query: r.Query, Variables: r.Variables}
		if r.OperationName != nil {
			op.OpName = *r.OperationName
		}
		resp, bad := q.m.post(op)
		if bad != "" {
			return nil, fmt.Errorf("%s", bad)
		}
		if e, ok := resp["errors"]; ok && e != nil {
			return nil, fmt.Errorf("errors: %v", e)
		}
		data, _ := resp["data"].(map[string]interface{})
		out = append(out, data)
	}
	return out, nil
}

// ---- the introspection meta-schema, for generating operations ----
type metaField struct {
	Name   string
	Result string // "" = leaf, else the meta type of the object(s)
	Arg    string // "includeDeprecated" | "name" | ""
	Newer  bool   // added after June-2018 (isRepeatable, specifiedByURL, __Schema.description)
}

var metaSchema = map[string][]metaField{
	"__Schema": {{"types", "__Type", "", false}, {"queryType", "__Type", "", false}, {"mutationType", "__Type", "", false},
		{"subscriptionType", "__Type", "", false}, {"directives", "__Directive", "", false}, {"description", "", "", true}},
	"__Type": {{"kind", "", "", false}, {"name", "", "", false}, {"description", "", "", false}, {"fields", "__Field", "includeDeprecated", false},
		{"interfaces", "__Type", "", false}, {"possibleTypes", "__Type", "", false}, {"enumValues", "__EnumValue", "includeDeprecated", false},
		{"inputFields", "__InputValue", "", false}, {"ofType", "__Type", "", false}, {"specifiedByURL", "", "", true}},
	"__Field": {{"name", "", "", false}, {"description", "", "", false}, {"args", "__InputValue", "", false}, {"type", "__Type", "", false},
		{"isDeprecated", "", "", false}, {"deprecationReason", "", "", false}},
	"__InputValue": {{"name", "", "", false}, {"description", "", "", false}, {"type", "__Type", "", false}, {"defaultValue", "", "", false}},
	"__EnumValue":  {{"name", "", "", false}, {"description", "", "", false}, {"isDeprecated", "", "", false}, {"deprecationReason", "", "", false}},
	"__Directive": {{"name", "", "", false}, {"description", "", "", false}, {"locations", "", "", false}, {"args", "__InputValue", "", false},
		{"isRepeatable", "", "", true}},
}

type c16Opts struct {
	NoVars    bool
	Typename  bool // __typename inside introspection objects
	Newer     bool
	DupKeys   bool // the same response key selected twice (to be merged)
	Fragments bool
}

type introGen struct {
	rng    *rand.Rand
	opt    c16Opts
	names  []string // type names to ask __type for
	vars   []string
	vals   map[string]interface{}
	frags  []string
	nalias int
}

func (g *introGen) sel(mt string, depth int) string {
	fields := metaSchema[mt]
	var parts []string
	add := func(f metaField) {
		if f.Newer && !g.opt.Newer {
			return
		}
		if f.Result != "" && depth <= 0 {
			return
		}
		s := f.Name
		if g.rng.Intn(6) == 0 {
			g.nalias++
			s = fmt.Sprintf("a%d: %s", g.nalias, f.Name)
		}
		if f.Arg == "includeDeprecated" {
			k := g.rng.Intn(4)
			if g.opt.NoVars && k == 2 {
				k = 0
			}
			switch k {
			case 0:
				s += "(includeDeprecated: true)"
			case 1:
				s += "(includeDeprecated: false)"
			case 2:
				v := fmt.Sprintf("d%d", len(g.vars))
				b := g.rng.Intn(2) == 0
				g.vars = append(g.vars, "$"+v+": Boolean")
				g.vals[v] = b
				s += "(includeDeprecated: $" + v + ")"
			}
		}
		if f.Result != "" {
			s += " " + g.selBlock(f.Result, depth-1)
		}
		parts = append(parts, s)
	}
	for _, f := range fields {
		if g.rng.Intn(2) == 0 {
			add(f)
		}
	}
	if g.opt.DupKeys && g.rng.Intn(4) == 0 {
		add(fields[g.rng.Intn(len(fields))])
		add(fields[g.rng.Intn(len(fields))])
	}
	if g.opt.Typename && g.rng.Intn(4) == 0 {
		parts = append(parts, "__typename")
	}
	if len(parts) == 0 {
		add(fields[1%len(fields)]) // a leaf (name / queryType is not a leaf for __Schema: fall through below)
	}
	if len(parts) == 0 {
		parts = append(parts, "name")
		if mt == "__Schema" {
			parts = []string{"queryType { name }"}
		}
	}
	return strings.Join(parts, " ")
}

func (g *introGen) selBlock(mt string, depth int) string {
	body := g.sel(mt, depth)
	if g.opt.Fragments {
		switch g.rng.Intn(5) {
		case 0:
			name := fmt.Sprintf("F%d", len(g.frags))
			g.frags = append(g.frags, "") // reserve the name before recursing further
			g.frags[len(g.frags)-1] = fmt.Sprintf("fragment %s on %s { %s }", name, mt, body)
			extra := ""
			if g.rng.Intn(2) == 0 && mt != "__Schema" {
				extra = " " + g.sel(mt, 0)
			}
			return "{ ..." + name + extra + " }"
		case 1:
			extra := ""
			if mt != "__Schema" { // every member of __Schema is an object: repeating one would need field merging
				extra = " " + g.sel(mt, 0)
			}
			return "{ ... on " + mt + " { " + body + " }" + extra + " }"
		}
	}
	return "{ " + body + " }"
}

func (g *introGen) operation() c16Op {
	g.vars, g.vals, g.frags, g.nalias = nil, map[string]interface{}{}, nil, 0
	var roots []string
	n := 1 + g.rng.Intn(2)
	for i := 0; i < n; i++ {
		if g.rng.Intn(2) == 0 {
			s := "__schema " + g.selBlock("__Schema", 4+g.rng.Intn(3))
			if i > 0 {
				s = fmt.Sprintf("s%d: %s", i, s)
			}
			roots = append(roots, s)
			continue
		}
		name := "NoSuchType"
		if g.rng.Intn(8) != 0 {
			name = g.names[g.rng.Intn(len(g.names))]
		}
		arg := fmt.Sprintf("%q", name)
		if g.rng.Intn(2) == 0 {
			v := fmt.Sprintf("n%d", len(g.vars))
			g.vars = append(g.vars, "$"+v+": String!")
			g.vals[v] = name
			arg = "$" + v
		}
		roots = append(roots, fmt.Sprintf("t%d: __type(name: %s) %s", i, arg, g.selBlock("__Type", 3+g.rng.Intn(4))))
	}
	decl := ""
	if len(g.vars) > 0 {
		decl = "(" + strings.Join(g.vars, ", ") + ")"
	}
	q := "query Q" + decl + " { " + strings.Join(roots, " ") + " }"
	if len(g.frags) > 0 {
		q += "\n" + strings.Join(g.frags, "\n")
	}
	op := c16Op{Query: q, Kind: "generated", OpName: "Q"}
	if len(g.vals) > 0 {
		op.Variables = g.vals
	}
	return op
}

// graphql-js getIntrospectionQuery() with its default options
const graphqlJSIntrospectionQuery = `query IntrospectionQuery { __schema { queryType { name } mutationType { name } subscriptionType { name }
 types { ...FullType } directives { name description locations args { ...InputValue } } } }
fragment FullType on __Type { kind name description fields(includeDeprecated: true) { name description args { ...InputValue } type { ...TypeRef } isDeprecated deprecationReason }
 inputFields { ...InputValue } interfaces { ...TypeRef } enumValues(includeDeprecated: true) { name description isDeprecated deprecationReason } possibleTypes { ...TypeRef } }
fragment InputValue on __InputValue { name description type { ...TypeRef } defaultValue }
fragment TypeRef on __Type { kind name ofType { kind name ofType { kind name ofType { kind name ofType { kind name ofType { kind name ofType { kind name ofType { kind name } } } } } } } }`

// canonIntro makes two introspection answers comparable: a missing description is null or "" (the specification's
// description is nullable and SDL cannot tell the two apart), lists of objects are compared as multisets (the
// specification prescribes no order)
func canonIntro(v interface{}, key string) interface{} {
	switch x := v.(type) {
	case map[string]interface{}:
		out := map[string]interface{}{}
		for k, c := range x {
			out[k] = canonIntro(c, k)
		}
		return out
	case []interface{}:
		out := make([]interface{}, len(x))
		objs := len(x) > 0
		for i, c := range x {
			out[i] = canonIntro(c, "")
			if _, ok := out[i].(map[string]interface{}); !ok {
				objs = false
			}
		}
		if objs {
			sort.SliceStable(out, func(i, j int) bool {
				a, _ := json.Marshal(out[i])
				b, _ := json.Marshal(out[j])
				return string(a) < string(b)
			})
		}
		return out
	case string:
		if x == "" && (key == "description" || strings.HasPrefix(key, "a")) {
			return nil
		}
	}
	return v
}

func c16SchemaSources(rng *rand.Rand, i int) ([]string, string) {
	switch i % 3 {
	case 0:
		w := gen.NewWorld(rng, gen.DefaultWorldOptions())
		var sdls []string
		for _, s := range w.Services {
			sdls = append(sdls, s.SDL())
		}
		return sdls, "federation"
	case 1:
		o := gen.RichOptions{MaxWrap: 5, OddNames: true, IfaceOfIface: true, Directives: true, Descriptions: true, Deprecations: true, ArgDefaults: true, InputDefaults: true, Newer: true}
		return []string{gen.RichSchema(rng, o)}, "rich_single_service"
	}
	o := gen.RichOptions{MaxWrap: 3, OddNames: true, Directives: false, Descriptions: true, Deprecations: true, ArgDefaults: true, InputDefaults: true}
	return []string{gen.RichSchema(rng, o), "type Query { extra: Extra }\ntype Extra { n: Int @deprecated }\n"}, "rich_plus_small"
}

func driveC16(seed int64, tier, out, replay string) {
	obs := hx.NewObs("C16", seed, tier)
	rng := hx.NewRand(seed)
	n := 48
	if tier == "thorough" {
		n = 480
	}
	var cases []c16Case
	if replay != "" {
		cases = loadReplayCases[c16Case](replay)
	} else {
		for i := 0; i < n; i++ {
			r := rand.New(rand.NewSource(rng.Int63()))
			sdls, src := c16SchemaSources(r, i)
			c := c16Case{SDLs: sdls, Source: src}
			m, err := newMiniGW(sdls)
			if err != nil {
				obs.Count("schema_rejected_by_merger_" + src)
				continue
			}
			var names []string
			for name := range m.Merged.Types {
				names = append(names, name)
			}
			sort.Strings(names)
			g := &introGen{rng: r, names: names, opt: c16Opts{Fragments: true, Typename: true, Newer: true, DupKeys: false}}
			for j := 0; j < 10; j++ {
				op := g.operation()
				c.Ops = append(c.Ops, op)
				// the same document again with other values for its variables (the answer must follow the variables)
				if len(op.Variables) > 0 && j%2 == 0 {
					again := op
					again.Kind = "same_document_other_variables"
					again.Variables = map[string]interface{}{}
					for k, v := range op.Variables {
						switch x := v.(type) {
						case bool:
							again.Variables[k] = !x
						case string:
							again.Variables[k] = names[r.Intn(len(names))]
						default:
							again.Variables[k] = v
						}
					}
					c.Ops = append(c.Ops, again)
				}
			}
			c.Ops = append(c.Ops, c16Op{Query: graphqlJSIntrospectionQuery, Kind: "graphql-js standard query", OpName: "IntrospectionQuery"})
			// __type(name:) next to __schema.types with the same selection, for three type names
			body := "{ " + (&introGen{rng: r, names: names, vals: map[string]interface{}{}, opt: c16Opts{Typename: true, Newer: true, NoVars: true}}).sel("__Type", 3) + " name }"
			q := "query TT { __schema { types " + body + " }"
			for j := 0; j < 3; j++ {
				q += fmt.Sprintf(" t%d: __type(name: %q) %s", j, names[r.Intn(len(names))], body)
			}
			c.Ops = append(c.Ops, c16Op{Query: q + " }", Kind: "type_by_name_vs_types_entry", OpName: "TT"})
			// one response key selected twice: the selection sets merge (fix 360a3f6; formerly the listed finding
			// C16-duplicate-response-key); compared with the specification's executor only, the model has no merging
			c.Ops = append(c.Ops, c16Op{Query: fmt.Sprintf("{ __type(name: %q) { fields { name } fields { isDeprecated } name } __schema { types { name } types { kind } queryType { name } } __schema { queryType { kind } } }", names[r.Intn(len(names))]), Kind: "same_response_key_twice"})
			cases = append(cases, c)
		}
	}
	for _, k := range loadKnown("C16") {
		var kc struct {
			SDLs []string `json:"service_sdls"`
			Op   c16Op    `json:"operation"`
		}
		if jsonUnmarshal(k.Input, &kc) != nil {
			continue
		}
		still := false
		if m, err := newMiniGW(kc.SDLs); err == nil {
			resp, bad := m.post(kc.Op)
			want, werr := fake.ExecIntrospection(m.Merged, kc.Op.Query, kc.Op.OpName, kc.Op.Variables)
			still = bad != "" || werr != nil || firstDiff(canonIntro(jsonRoundTrip(want), ""), canonIntro(resp["data"], ""), "data") != ""
		}
		if still {
			obs.KnownHit = append(obs.KnownHit, hx.Failure{Key: k.Key, What: k.Key + ": " + k.What})
		} else {
			obs.KnownGone = append(obs.KnownGone, k.Key)
		}
	}
	var coq []string
	for i, c := range cases {
		hx.Current(out, i, c)
		obs.CaseInputs = append(obs.CaseInputs, c)
		var coqOps []string
		m, err := newMiniGW(c.SDLs)
		if err != nil {
			obs.Fail(i, "gateway could not be built: "+err.Error(), c)
			coq = append(coq, "mkCase (mkS16 (mkSch \"\" None None [] []) [] [] \"\") []")
			continue
		}
		obs.Count("schemas_" + c.Source)
		failed := false
		for _, op := range c.Ops {
			obs.Evaluations++
			resp, bad := m.post(op)
			if bad != "" {
				obs.Fail(i, bad+" for "+op.Query, c)
				failed = true
				break
			}
			want, werr := fake.ExecIntrospection(m.Merged, op.Query, op.OpName, op.Variables)
			if werr != nil {
				obs.Fail(i, "reference executor: "+werr.Error()+" for "+op.Query, c)
				failed = true
				break
			}
			if e, ok := resp["errors"]; ok && e != nil {
				obs.Fail(i, fmt.Sprintf("a valid introspection operation was answered with errors %v: %s", e, op.Query), c)
				failed = true
				break
			}
			got := canonIntro(resp["data"], "")
			exp := canonIntro(jsonRoundTrip(want), "")
			if d := firstDiff(exp, got, "data"); d != "" {
				obs.Fail(i, fmt.Sprintf("introspection answer differs from the specification's answer for the merged schema at %s; operation: %s variables: %v", d, op.Query, op.Variables), c)
				failed = true
				break
			}
			if op.Kind == "type_by_name_vs_types_entry" {
				data, _ := resp["data"].(map[string]interface{})
				sc, _ := data["__schema"].(map[string]interface{})
				entries, _ := sc["types"].([]interface{})
				for j := 0; j < 3; j++ {
					t, _ := data[fmt.Sprintf("t%d", j)].(map[string]interface{})
					found := false
					for _, e := range entries {
						if em, _ := e.(map[string]interface{}); em != nil && t != nil && em["name"] == t["name"] {
							found = true
							if d := firstDiff(canonIntro(em, ""), canonIntro(t, ""), "entry"); d != "" {
								obs.Fail(i, fmt.Sprintf("__type(name: %v) disagrees with its entry in __schema.types at %s; operation: %s", t["name"], d, op.Query), c)
								failed = true
							}
						}
					}
					if !found {
						obs.Fail(i, fmt.Sprintf("__type answered %v, which is not an entry of __schema.types; operation: %s", t, op.Query), c)
						failed = true
					}
				}
				if failed {
					break
				}
			}
			obs.Count("operation_" + op.Kind)
			// the model's input: the flattened selection with coerced arguments; its expected output: the data as sent
			if doc, perr := gqlparser.LoadQuery(m.Merged, op.Query); perr == nil {
				o := doc.Operations.ForName(op.OpName)
				if o == nil && len(doc.Operations) > 0 {
					o = doc.Operations[0]
				}
				vars := op.Variables
				if vars == nil {
					vars = map[string]interface{}{}
				}
				for _, vd := range o.VariableDefinitions { // variable defaults
					if _, ok := vars[vd.Variable]; !ok && vd.DefaultValue != nil {
						if v, err := vd.DefaultValue.Value(nil); err == nil {
							vars[vd.Variable] = v
						}
					}
				}
				if term, depth, ok := coqprint.IntroSelection(doc, o.SelectionSet, vars); ok {
					coqOps = append(coqOps, fmt.Sprintf("mkOp %d %s %s", depth+2, term, coqprint.JSON(resp["data"], nil)))
					obs.Count("model_evaluated")
				} else {
					obs.Count("model_skipped_duplicate_response_key")
				}
			}
		}
		coq = append(coq, fmt.Sprintf("mkCase %s\n    [%s]", coqprint.Schema16(m.Merged), strings.Join(coqOps, ";\n     ")))
		if failed {
			continue
		}
		// another gateway rebuilds the schema from this gateway's answer to its own introspection query
		in := &introspection.ParallelRemoteSchemaIntrospector{Factory: func(url string) queryer.Queryer { return gwQueryer{m} }}
		res, err := in.IntrospectRemoteSchemas("http://gw")
		if err != nil {
			obs.Fail(i, "a second gateway cannot load this gateway's schema: "+err.Error(), c)
			continue
		}
		listedC15 := map[string]bool{}
		for _, k := range loadKnown("C15") {
			listedC15[k.Key] = true
		}
		var unknown []sdiff
		for _, d := range schemaDiffs(m.Merged, res[0]) {
			if key, ok := c15KnownKinds[d.Kind]; ok && listedC15[key] {
				obs.Count("rebuild_difference_listed_under_C15_" + d.Kind)
				continue
			}
			unknown = append(unknown, d)
		}
		if len(unknown) > 0 {
			obs.Fail(i, fmt.Sprintf("the schema a second gateway rebuilds differs from the merged schema: %+v", unknown[:min(len(unknown), 4)]), c)
			continue
		}
		obs.Count("rebuilt_by_second_gateway")
	}
	obs.DistinctNontrivial = len(cases)
	obs.Rule = "merged schemas (generated federations; rich single-service SDL; rich + small) behind a real gateway; generated introspection operations (__schema / __type by literal and variable, aliases, fragments, includeDeprecated absent/true/false/variable, unknown type names) and the graphql-js standard query are answered by the gateway and by an independent executor of the specification's introspection section on the merged schema; a second gateway's introspector rebuilds the schema over HTTP"
	hx.WriteCasesSharded(out, "From Coq Require Import List String.\nFrom Pebbles Require Import Base.Json Intro.Schema Intro.Exec Corr.C16.\nImport ListNotations.\nOpen Scope string_scope.\n", "c16case", coq, "mismatches", 8)
	obs.Write(out)
}

func jsonRoundTrip(v interface{}) interface{} {
	b, _ := json.Marshal(v)
	var out interface{}
	json.Unmarshal(b, &out)
	return out
}

func firstDiff(a, b interface{}, path string) string {
	switch x := a.(type) {
	case map[string]interface{}:
		y, ok := b.(map[string]interface{})
		if !ok {
			return fmt.Sprintf("%s: expected an object, got %s", path, short(b))
		}
		var keys []string
		for k := range x {
			keys = append(keys, k)
		}
		sort.Strings(keys)
		for _, k := range keys {
			v, ok := y[k]
			if !ok {
				return fmt.Sprintf("%s.%s: member missing (expected %s)", path, k, short(x[k]))
			}
			if d := firstDiff(x[k], v, path+"."+k); d != "" {
				return d
			}
		}
		for k := range y {
			if _, ok := x[k]; !ok {
				return fmt.Sprintf("%s.%s: unexpected member %s", path, k, short(y[k]))
			}
		}
		return ""
	case []interface{}:
		y, ok := b.([]interface{})
		if !ok {
			return fmt.Sprintf("%s: expected a list %s, got %s", path, short(a), short(b))
		}
		if len(x) != len(y) {
			return fmt.Sprintf("%s: expected %d entries %s, got %d %s", path, len(x), short(a), len(y), short(b))
		}
		for i := range x {
			if d := firstDiff(x[i], y[i], fmt.Sprintf("%s[%d]", path, i)); d != "" {
				return d
			}
		}
		return ""
	}
	ja, _ := json.Marshal(a)
	jb, _ := json.Marshal(b)
	if string(ja) != string(jb) {
		return fmt.Sprintf("%s: expected %s, got %s", path, short(a), short(b))
	}
	return ""
}

func short(v interface{}) string {
	b, _ := json.Marshal(v)
	if len(b) > 160 {
		return string(b[:160]) + "…"
	}
	return string(b)
}
