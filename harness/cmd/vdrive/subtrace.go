package main

import (
	"fmt"
	"reflect"
	"strings"
	"sync"

	"github.com/buildbuildio/pebbles/common"
)

// subTracer collects, per subscription entry (identified by its queryerCloseCh), the hook points its goroutines
// passed, in real-time order, as labels of Sub.LTS.
type subTracer struct {
	mu     sync.Mutex
	order  []uintptr
	traces map[uintptr][]string
	ids    map[uintptr]string
	keep   []any // the channels themselves: keeps them alive so that their addresses are not reused
}

var subLabel = map[string]string{
	"sub.c.start": "e_stop", "sub.c.sent": "o_c_sent", "sub.c.late": "o_c_late_done",
	"sub.l.nil": "o_l_nil", "sub.l.resp": "o_l_resp", "sub.l.written": "o_l_written", "sub.l.writefail": "o_l_writefail",
	"sub.l.close": "o_l_close", "sub.l.closed": "o_l_closed",
	"sub.u1.closed": "o_u1_closed",
	"sub.u2.read":   "o_u2_read", "sub.u2.end_msg": "o_u2_end_msg", "sub.u2.end_closed": "o_u2_end_closed",
	"sub.u2.delivered/false": "o_u2_sent", "sub.u2.aborted/false": "o_u2_abort", "sub.u2.delivered/true": "o_u2_nilsent", "sub.u2.aborted/true": "o_u2_nilabort",
}

func newSubTracer() *subTracer {
	t := &subTracer{traces: map[uintptr][]string{}, ids: map[uintptr]string{}}
	common.SetVerifHook(func(point string, args ...any) {
		if !strings.HasPrefix(point, "sub.") || len(args) == 0 {
			return
		}
		key := reflect.ValueOf(args[0]).Pointer()
		if len(args) > 1 {
			if isNil, isBool := args[1].(bool); isBool {
				point = fmt.Sprintf("%s/%v", point, isNil)
			}
		}
		lab, ok := subLabel[point]
		if !ok {
			lab = "o_unknown_" + strings.ReplaceAll(point, ".", "_")
		}
		t.mu.Lock()
		if _, seen := t.traces[key]; !seen {
			t.order = append(t.order, key)
			t.keep = append(t.keep, args[0])
		}
		t.traces[key] = append(t.traces[key], lab)
		if len(args) > 1 {
			if id, ok := args[1].(string); ok {
				t.ids[key] = id
			}
		}
		t.mu.Unlock()
	})
	return t
}

func (t *subTracer) stop() { common.SetVerifHook(nil) }

type entryTrace struct {
	ID     string
	Labels []string
}

func (t *subTracer) snapshot() []entryTrace {
	t.mu.Lock()
	defer t.mu.Unlock()
	var out []entryTrace
	for _, k := range t.order {
		out = append(out, entryTrace{ID: t.ids[k], Labels: append([]string{}, t.traces[k]...)})
	}
	return out
}

func coqTrace(e entryTrace, ended bool, frames int) string {
	fr := "None"
	if frames >= 0 {
		fr = fmt.Sprintf("(Some %d)", frames)
	}
	en := "false"
	if ended {
		en = "true"
	}
	return fmt.Sprintf("mkT [%s] %s %s", strings.Join(e.Labels, "; "), en, fr)
}
