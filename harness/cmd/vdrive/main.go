// vdrive runs the real pebbles code on generated cases for one property and writes
// work/<id>/cases.v (inputs + observed outputs, as Gallina terms) and work/<id>/obs.json.
package main

import (
	"flag"
	"fmt"
	"os"
)

type driver func(seed int64, tier string, outDir string, replay string)

var drivers = map[string]driver{}

var knownPath string

func main() {
	if len(os.Args) < 2 {
		fmt.Fprintln(os.Stderr, "usage: vdrive <property> [-seed n] [-tier quick|thorough] [-out dir] [-replay file]")
		os.Exit(2)
	}
	prop := os.Args[1]
	fs := flag.NewFlagSet("vdrive", flag.ExitOnError)
	seed := fs.Int64("seed", 1, "PRNG seed")
	tier := fs.String("tier", "quick", "quick|thorough")
	out := fs.String("out", "", "output directory")
	replay := fs.String("replay", "", "replay file")
	fs.StringVar(&knownPath, "known", "", "known_findings.jsonl")
	fs.Parse(os.Args[2:])
	d, ok := drivers[prop]
	if !ok {
		fmt.Fprintln(os.Stderr, "unknown property", prop)
		os.Exit(2)
	}
	if *out == "" {
		*out = "work/" + prop
	}
	os.MkdirAll(*out, 0o755)
	d(*seed, *tier, *out, *replay)
}
