// vdrive runs the real pebbles code on generated cases for one property and writes
// work/<id>/cases.v (inputs + observed outputs, as Gallina terms) and work/<id>/obs.json.
package main

import (
	"bytes"
	"encoding/json"
	"flag"
	"fmt"
	"os"
	"os/exec"
	"path/filepath"

	"verif/harness/hx"
)

func tailBytes(b []byte, n int) []byte {
	if len(b) > n {
		return b[len(b)-n:]
	}
	return b
}

type driver func(seed int64, tier string, outDir string, replay string)

var drivers = map[string]driver{}

var knownPath string

func main() {
	if len(os.Args) < 2 {
		fmt.Fprintln(os.Stderr, "usage: vdrive <property> [-seed n] [-tier quick|thorough] [-out dir] [-replay file]")
		os.Exit(2)
	}
	prop := os.Args[1]
	fs := flag.NewFlagSet("vdrive", flag.ExitOnError)
	seed := fs.Int64("seed", 1, "PRNG seed")
	tier := fs.String("tier", "quick", "quick|thorough")
	out := fs.String("out", "", "output directory")
	replay := fs.String("replay", "", "replay file")
	fs.StringVar(&knownPath, "known", "", "known_findings.jsonl")
	fs.Parse(os.Args[2:])
	d, ok := drivers[prop]
	if !ok {
		fmt.Fprintln(os.Stderr, "unknown property", prop)
		os.Exit(2)
	}
	if *out == "" {
		*out = "work/" + prop
	}
	os.MkdirAll(*out, 0o755)
	if os.Getenv("VDRIVE_CHILD") == "1" {
		d(*seed, *tier, *out, *replay)
		return
	}
	// Run the driver in a child process: a fatal error or unrecovered panic in the code under test is an
	// observation (the property "does not crash" failed on the current case), not the end of the check.
	os.Remove(filepath.Join(*out, "obs.json"))
	os.Remove(filepath.Join(*out, "current_case.json"))
	cmd := exec.Command(os.Args[0], os.Args[1:]...)
	cmd.Env = append(os.Environ(), "VDRIVE_CHILD=1")
	var stderr bytes.Buffer
	cmd.Stdout = os.Stdout
	cmd.Stderr = &stderr
	err := cmd.Run()
	os.Stderr.Write(tailBytes(stderr.Bytes(), 4000))
	if err == nil {
		return
	}
	if _, e := os.Stat(filepath.Join(*out, "obs.json")); e == nil {
		os.Exit(3) // driver wrote its observations and then failed: leave it to bin/check
	}
	obs := hx.NewObs(prop, *seed, *tier)
	var cur struct {
		Case  int         `json:"case"`
		Input interface{} `json:"input"`
	}
	if b, e := os.ReadFile(filepath.Join(*out, "current_case.json")); e == nil {
		json.Unmarshal(b, &cur)
	} else {
		cur.Case = -1
	}
	obs.Evaluations = cur.Case + 1
	obs.Rule = "run aborted: the process running the code under test died"
	obs.Samples = append(obs.Samples, cur.Input)
	obs.Fail(cur.Case, "the process running the code under test crashed ("+err.Error()+"): "+string(tailBytes(stderr.Bytes(), 1500)), cur.Input)
	obs.Write(*out)
}
