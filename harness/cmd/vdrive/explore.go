package main

import (
	"encoding/json"
	"fmt"
	"os"

	"verif/harness/fake"
	"verif/harness/gen"
)

func init() { drivers["explore"] = driveExplore }

// explore: run candidate operations (JSON list in $EXPLORE_OPS) on the hand-written federation and print the verdicts.
func driveExplore(seed int64, tier, out, replay string) {
	var ops []gen.GenOp
	b, _ := os.ReadFile(os.Getenv("EXPLORE_OPS"))
	json.Unmarshal(b, &ops)
	for _, cfg := range []RigConfig{{HideNode: os.Getenv("EXPLORE_HIDE") != ""}} {
		w := handWorld()
		if os.Getenv("EXPLORE_PAYLOAD") != "" {
			w = handWorldPayload()
		}
		if os.Getenv("EXPLORE_MATRIX") != "" {
			w = handWorldMatrix()
		}
		if os.Getenv("EXPLORE_BIG") != "" {
			a := w.Services[0]
			a.Defs = append(a.Defs, &gen.Def{Kind: "SCALAR", Name: "Long"})
			h := a.Def("Human")
			h.Fields = append(h.Fields, gen.Field{Name: "big", Type: "Long"}, gen.Field{Name: "ratio", Type: "Float"})
			w.Store.Entities["h1"].Fields["big"] = fake.Int(9007199254740993)
			w.Store.Entities["h1"].Fields["ratio"] = fake.Val{Kind: fake.VStr, S: "x"}
		}
		if ws := os.Getenv("EXPLORE_WORLD"); ws != "" {
			var seedv int64
			fmt.Sscan(ws, &seedv)
			w = worldFor(seedv, os.Getenv("EXPLORE_DOMAIN"))
		}
		r, err := NewRig(w, cfg)
		if err != nil {
			fmt.Println("rig:", err)
			return
		}
		for i, op := range ops {
			if o := selectedOp(r.Merged, op); o != nil {
				pc, _, _ := planCanon(r, op, o)
				fmt.Println("    plan:", pc)
			}
			what, resp := compareFed(r, op)
			sub := subrequestProblems(r.Logs())
			if os.Getenv("EXPLORE_LOG") != "" {
				for _, l := range r.Logs() {
					fmt.Printf("    REQ %s call=%d %s vars=%v -> %s\n", l.URL, l.Call, shortStr(l.Query, 200), l.Variables, shortStr(fmt.Sprint(l.Answer), 200))
				}
			}
			fmt.Printf("[%d] %s\n    verdict: %s\n    subreq: %s\n    resp: %s\n", i, op.Query, shortStr(what, 300), shortStr(sub, 200), shortStr(fmt.Sprint(resp), 200))
		}
	}
}
