package main

import (
	"encoding/json"
	"fmt"
	"os"
	"regexp"

	"strings"
	"verif/harness/fake"
	"verif/harness/gen"
	"verif/harness/hx"
)

func init() { drivers["explore"] = driveExplore }

// explore: run candidate operations (JSON list in $EXPLORE_OPS) on the hand-written federation and print the verdicts.
func driveExplore(seed int64, tier, out, replay string) {
	var ops []gen.GenOp
	b, _ := os.ReadFile(os.Getenv("EXPLORE_OPS"))
	json.Unmarshal(b, &ops)
	for _, cfg := range []RigConfig{{HideNode: os.Getenv("EXPLORE_HIDE") != ""}} {
		w := handWorld()
		if os.Getenv("EXPLORE_PAYLOAD") != "" {
			w = handWorldPayload()
		}
		if os.Getenv("EXPLORE_MATRIX") != "" {
			w = handWorldMatrix()
		}
		if os.Getenv("EXPLORE_BIG") != "" {
			a := w.Services[0]
			a.Defs = append(a.Defs, &gen.Def{Kind: "SCALAR", Name: "Long"})
			h := a.Def("Human")
			h.Fields = append(h.Fields, gen.Field{Name: "big", Type: "Long"}, gen.Field{Name: "ratio", Type: "Float"})
			w.Store.Entities["h1"].Fields["big"] = fake.Int(9007199254740993)
			w.Store.Entities["h1"].Fields["ratio"] = fake.Val{Kind: fake.VStr, S: "x"}
		}
		if ws := os.Getenv("EXPLORE_WORLD"); ws != "" {
			var seedv int64
			fmt.Sscan(ws, &seedv)
			w = worldFor(seedv, os.Getenv("EXPLORE_DOMAIN"))
		}
		r, err := NewRig(w, cfg)
		if err != nil {
			fmt.Println("rig:", err)
			return
		}
		for i, op := range ops {
			if o := selectedOp(r.Merged, op); o != nil {
				pc, _, _ := planCanon(r, op, o)
				fmt.Println("    plan:", pc)
			}
			what, resp := compareFed(r, op)
			sub := subrequestProblems(r.Logs())
			if os.Getenv("EXPLORE_LOG") != "" {
				for _, l := range r.Logs() {
					fmt.Printf("    REQ %s call=%d %s vars=%v -> %s\n", l.URL, l.Call, shortStr(l.Query, 200), l.Variables, shortStr(fmt.Sprint(l.Answer), 200))
				}
			}
			fmt.Printf("[%d] %s\n    verdict: %s\n    subreq: %s\n    resp: %s\n", i, op.Query, shortStr(what, 300), shortStr(sub, 200), shortStr(fmt.Sprint(resp), 200))
		}
	}
}

var digitsRe = regexp.MustCompile(`[0-9]+`)

func init() { drivers["explorewild"] = driveExploreWild }

// explorewild: wild operations on interface worlds through the end-to-end comparison; prints the failing ones grouped
// by the kind of failure (a triage aid, not a check).
func driveExploreWild(seed int64, tier, out, replay string) {
	rng := hx.NewRand(seed)
	groups := map[string][]string{}
	n := 0
	for wi := 0; wi < 30; wi++ {
		wopt := gen.DefaultWorldOptions()
		wopt.Interfaces = os.Getenv("EXPLORE_NOIFACE") == ""
		wopt.UnionBias = os.Getenv("EXPLORE_UNION") != ""
		wopt.InputArgs = os.Getenv("EXPLORE_INPUTS") != ""
		ws := rng.Int63()
		r, err := NewRig(gen.NewWorld(hx.NewRand(ws), wopt), RigConfig{})
		if err != nil {
			continue
		}
		for j := 0; j < 40; j++ {
			oo := opOptionsFor("inD01", r.World)
			oo.Directives, oo.NamedFrags = os.Getenv("EXPLORE_DIRS") != "", os.Getenv("EXPLORE_NAMED") != ""
			oo.TwinRoots = os.Getenv("EXPLORE_TWIN") != ""
			oo.UnevenIDs = os.Getenv("EXPLORE_UNEVEN") != ""
			oo.UnionPartial = os.Getenv("EXPLORE_PARTIAL") != ""
			oo.HelperDirectives = os.Getenv("EXPLORE_HELPERDIRS") != ""
			oo.Wild = os.Getenv("EXPLORE_PLAIN") == ""
			op := gen.Operation(hx.NewRand(rng.Int63()), r.Merged, oo)
			what, _ := compareFed(r, op)
			if what == "" || strings.HasPrefix(what, "skip:") {
				continue
			}
			n++
			key := what
			if i := strings.Index(key, "message\":"); i >= 0 {
				key = key[i:]
			}
			key = digitsRe.ReplaceAllString(key, "#")
			if len(key) > 90 {
				key = key[:90]
			}
			groups[key] = append(groups[key], fmt.Sprintf("world=%d %s\n      %s", ws, op.Query, shortStr(what, 260)))
		}
	}
	fmt.Println("failing:", n)
	for k, v := range groups {
		fmt.Printf("== %s (%d)\n", k, len(v))
		for i, x := range v {
			if i < 3 {
				fmt.Println("   ", x)
			}
		}
	}
}
